package c13

import (
	"context"
	"crypto/sha256"
	"encoding/binary"
	"fmt"
	"sort"
	"testing"

	blockstore "github.com/ipfs/boxo/blockstore"
	"github.com/ipfs/boxo/dag/walker"
	blocks "github.com/ipfs/go-block-format"
	cid "github.com/ipfs/go-cid"
	ds "github.com/ipfs/go-datastore"
	dssync "github.com/ipfs/go-datastore/sync"
	_ "github.com/ipld/go-codec-dagpb"
	_ "github.com/ipld/go-ipld-prime/codec/dagcbor"
	_ "github.com/ipld/go-ipld-prime/codec/raw"
	mh "github.com/multiformats/go-multihash"
	"pgregory.net/rapid"
	"verif/kit"
)

func TestMain(m *testing.M) { kit.Main(m) }

// ---------------------------------------------------------------------------
// DAG model
//
// Node i may only link to nodes with a larger index, so the graph is acyclic and CIDs can
// be computed from the last node backwards. Blocks are hand-encoded (dag-pb protobuf,
// dag-cbor, raw) so that the link order inside each block is known to the model without
// consulting any boxo / ipld encoder.

type Link struct {
	To    int    `json:"to"`
	Name  string `json:"name,omitempty"` // dag-pb link name (links are stored sorted by name, stable)
	Alias bool   `json:"alias,omitempty"`
	// Alias: the link uses the other CID version of a dag-pb/sha2-256 target
	// (CIDv0 <-> CIDv1 dag-pb, same multihash); ignored for other targets.
}

type Node struct {
	Codec  string `json:"codec"`            // pb | cbor | raw
	Hash   string `json:"hash"`             // sha256 | sha512 | blake2b | identity
	V0     bool   `json:"v0,omitempty"`     // pb + sha256: canonical form is CIDv0
	Layout int    `json:"layout,omitempty"` // cbor: where the links sit inside the block
	UnixFS string `json:"unixfs,omitempty"` // pb: "", file, rawtype, dir, hamt, symlink, garbage
	Links  []Link `json:"links,omitempty"`
}

type Walk struct {
	Root      int    `json:"root"`
	RootAlias bool   `json:"root_alias,omitempty"`
	Kind      string `json:"kind"`                 // dag | entity
	StopAfter int    `json:"stop_after,omitempty"` // emit returns false at the StopAfter-th emission (0: never)
}

type Case struct {
	Nodes    []Node `json:"nodes"`
	Missing  []int  `json:"missing,omitempty"`   // nodes whose block is absent from the blockstore
	NonLocal []int  `json:"non_local,omitempty"` // nodes for which the locality check says false
	Locality bool   `json:"locality"`            // whether WithLocality is passed at all
	Tracker  string `json:"tracker"`             // map | cidset
	Walks    []Walk `json:"walks"`
}

// --- hand encoders -----------------------------------------------------------

func uvarint(b []byte, v uint64) []byte {
	var tmp [10]byte
	n := binary.PutUvarint(tmp[:], v)
	return append(b, tmp[:n]...)
}

func pbBytes(b []byte, field int, v []byte) []byte {
	b = uvarint(b, uint64(field<<3|2))
	b = uvarint(b, uint64(len(v)))
	return append(b, v...)
}

// encodePB encodes a dag-pb node: Links (field 2) in the given order, then Data (field 1).
func encodePB(links []Link, cids []cid.Cid, data []byte, hasData bool) []byte {
	var out []byte
	for i, l := range links {
		var lb []byte
		lb = pbBytes(lb, 1, cids[i].Bytes())
		lb = pbBytes(lb, 2, []byte(l.Name))
		lb = uvarint(lb, 3<<3|0)
		lb = uvarint(lb, uint64(10+i))
		out = pbBytes(out, 2, lb)
	}
	if hasData {
		out = pbBytes(out, 1, data)
	}
	return out
}

// unixfsData encodes a UnixFS Data message: Type (field 1), Data (field 2).
var unixfsType = map[string]uint64{"rawtype": 0, "dir": 1, "file": 2, "symlink": 4, "hamt": 5}

func unixfsData(kind string, payload []byte) []byte {
	var b []byte
	b = uvarint(b, 1<<3|0)
	b = uvarint(b, unixfsType[kind])
	b = pbBytes(b, 2, payload)
	if kind == "hamt" {
		b = uvarint(b, 5<<3|0) // hashType murmur3-x64-64
		b = uvarint(b, 0x22)
		b = uvarint(b, 6<<3|0) // fanout
		b = uvarint(b, 256)
	}
	return b
}

func cborHead(b []byte, major byte, n uint64) []byte {
	switch {
	case n < 24:
		return append(b, major<<5|byte(n))
	case n < 1<<8:
		return append(b, major<<5|24, byte(n))
	case n < 1<<16:
		return append(b, major<<5|25, byte(n>>8), byte(n))
	default:
		return append(b, major<<5|26, byte(n>>24), byte(n>>16), byte(n>>8), byte(n))
	}
}

func cborText(b []byte, s string) []byte { return append(cborHead(b, 3, uint64(len(s))), s...) }
func cborBytes(b, v []byte) []byte       { return append(cborHead(b, 2, uint64(len(v))), v...) }
func cborLink(b []byte, c cid.Cid) []byte {
	b = append(b, 0xd8, 0x2a) // tag 42
	return cborBytes(b, append([]byte{0}, c.Bytes()...))
}

// encodeCBOR places the links (in order) inside a dag-cbor value according to layout. Map
// keys are written in canonical dag-cbor order (shorter first, then bytewise), and every
// layout keeps the document order of the links equal to their index order.
func encodeCBOR(layout int, cids []cid.Cid, tag []byte) []byte {
	var b []byte
	k := len(cids)
	list := func(b []byte, cs []cid.Cid) []byte {
		b = cborHead(b, 4, uint64(len(cs)))
		for _, c := range cs {
			b = cborLink(b, c)
		}
		return b
	}
	switch layout {
	case 1: // {"data": bytes, "links": [..]}
		b = cborHead(b, 5, 2)
		b = cborText(b, "data")
		b = cborBytes(b, tag)
		b = cborText(b, "links")
		b = list(b, cids)
	case 2: // {"id": bytes, "k00": link, "k01": link, ...}
		b = cborHead(b, 5, uint64(k+1))
		b = cborText(b, "id")
		b = cborBytes(b, tag)
		for i, c := range cids {
			b = cborText(b, fmt.Sprintf("k%02d", i))
			b = cborLink(b, c)
		}
	case 3: // [bytes, {"l": link, "n": i}, ...]
		b = cborHead(b, 4, uint64(k+1))
		b = cborBytes(b, tag)
		for i, c := range cids {
			b = cborHead(b, 5, 2)
			b = cborText(b, "l")
			b = cborLink(b, c)
			b = cborText(b, "n")
			b = cborHead(b, 0, uint64(i))
		}
	case 4: // {"a": [l0, [l1, [l2 ...]]] (first half, nested), "b": {"x": [second half]}, "t": bytes}
		h := k / 2
		b = cborHead(b, 5, 3)
		b = cborText(b, "a")
		for i := 0; i < h; i++ {
			if i < h-1 {
				b = cborHead(b, 4, 2)
			} else {
				b = cborHead(b, 4, 1)
			}
			b = cborLink(b, cids[i])
		}
		if h == 0 {
			b = cborHead(b, 4, 0)
		}
		b = cborText(b, "b")
		b = cborHead(b, 5, 1)
		b = cborText(b, "x")
		b = list(b, cids[h:])
		b = cborText(b, "t")
		b = cborBytes(b, tag)
	default: // 0: [bytes, link, link, ...]
		b = cborHead(b, 4, uint64(k+1))
		b = cborBytes(b, tag)
		for _, c := range cids {
			b = cborLink(b, c)
		}
	}
	return b
}

// --- materialisation -----------------------------------------------------------

type built struct {
	cid   cid.Cid   // canonical CID of the node
	data  []byte    // block bytes
	links []cid.Cid // link CIDs in block order (as the walker must see them)
	leaf  bool      // entity walk does not descend (file, symlink, raw)
}

func otherVersion(c cid.Cid) (cid.Cid, bool) {
	p := c.Prefix()
	if p.Codec != cid.DagProtobuf || p.MhType != mh.SHA2_256 || p.MhLength != 32 {
		return c, false
	}
	if p.Version == 0 {
		return cid.NewCidV1(cid.DagProtobuf, c.Hash()), true
	}
	return cid.NewCidV0(c.Hash()), true
}

var hashCodes = map[string]uint64{"sha256": mh.SHA2_256, "sha512": mh.SHA2_512, "blake2b": mh.BLAKE2B_MIN + 31, "identity": mh.IDENTITY}

func build(c Case) []built {
	n := len(c.Nodes)
	bs := make([]built, n)
	for i := n - 1; i >= 0; i-- {
		nd := c.Nodes[i]
		tag := []byte(fmt.Sprintf("node-%d", i))
		links := append([]Link(nil), nd.Links...)
		if nd.Codec == "pb" {
			// canonical dag-pb: links sorted by name, stable
			sort.SliceStable(links, func(a, b int) bool { return links[a].Name < links[b].Name })
		}
		if nd.Codec == "raw" {
			links = nil
		}
		var lc []cid.Cid
		for _, l := range links {
			t := bs[l.To].cid
			if l.Alias {
				t, _ = otherVersion(t)
			}
			lc = append(lc, t)
		}
		var data []byte
		codec := uint64(cid.Raw)
		leaf := false
		switch nd.Codec {
		case "pb":
			codec = cid.DagProtobuf
			switch nd.UnixFS {
			case "":
				data = encodePB(links, lc, nil, false)
				if len(links) == 0 {
					// keep blocks of different nodes distinct
					data = encodePB(links, lc, append([]byte{0xff, 0xff}, tag...), true)
				}
			case "garbage":
				data = encodePB(links, lc, append([]byte{0xff, 0xff}, tag...), true)
			default:
				data = encodePB(links, lc, unixfsData(nd.UnixFS, tag), true)
				leaf = nd.UnixFS == "file" || nd.UnixFS == "rawtype" || nd.UnixFS == "symlink"
			}
		case "cbor":
			codec = cid.DagCBOR
			data = encodeCBOR(nd.Layout, lc, tag)
		default:
			data = append([]byte("raw-"), tag...)
			leaf = true
		}
		code := hashCodes[nd.Hash]
		if code == mh.IDENTITY && len(data) > 400 {
			code = mh.SHA2_256 // keep inline CIDs small
		}
		h, err := mh.Sum(data, code, -1)
		if err != nil {
			panic(err)
		}
		var ci cid.Cid
		if nd.Codec == "pb" && nd.V0 && code == mh.SHA2_256 {
			ci = cid.NewCidV0(h)
		} else {
			ci = cid.NewCidV1(codec, h)
		}
		bs[i] = built{cid: ci, data: data, links: lc, leaf: leaf}
	}
	return bs
}

// --- generator -----------------------------------------------------------------

var linkNames = []string{"", "", "a", "b", "c", "a", "file.txt", "z", "00", "01"}

func gen(t *rapid.T) Case {
	var c Case
	n := rapid.OneOf(rapid.IntRange(1, 8), rapid.IntRange(8, 25), rapid.IntRange(8, 25), rapid.IntRange(25, kit.Scale(45, 60)), rapid.IntRange(58, 60)).Draw(t, "n")
	style := rapid.SampledFrom([]string{"mixed", "mixed", "unixfs", "cbor"}).Draw(t, "style")
	for i := 0; i < n; i++ {
		var nd Node
		remaining := n - 1 - i
		cc := rapid.IntRange(0, 9).Draw(t, "codec")
		switch {
		case style == "cbor" && cc < 7:
			nd.Codec = "cbor"
		case style == "unixfs" && cc < 8:
			nd.Codec = "pb"
		case cc < 4:
			nd.Codec = "pb"
		case cc < 7:
			nd.Codec = "cbor"
		default:
			nd.Codec = "raw"
		}
		if remaining == 0 && rapid.Bool().Draw(t, "rawleaf") {
			nd.Codec = "raw"
		}
		top := i < 3 && remaining > 0 && rapid.IntRange(0, 4).Draw(t, "top") > 0
		if top && nd.Codec == "raw" {
			// the first nodes are the usual roots: mostly interior nodes
			nd.Codec = rapid.SampledFrom([]string{"pb", "cbor"}).Draw(t, "topcodec")
		}
		nd.Hash = rapid.SampledFrom([]string{"sha256", "sha256", "sha256", "sha256", "sha256", "sha512", "blake2b", "identity"}).Draw(t, "hash")
		switch nd.Codec {
		case "pb":
			nd.V0 = rapid.Bool().Draw(t, "v0")
			nd.UnixFS = rapid.SampledFrom([]string{"", "dir", "dir", "file", "file", "hamt", "symlink", "rawtype", "garbage"}).Draw(t, "unixfs")
			if top {
				nd.UnixFS = rapid.SampledFrom([]string{"dir", "dir", "hamt", "", "file"}).Draw(t, "topunixfs")
			}
		case "cbor":
			nd.Layout = rapid.IntRange(0, 4).Draw(t, "layout")
		}
		if nd.Codec != "raw" && remaining > 0 {
			k := rapid.SampledFrom([]int{2, 0, 1, 2, 3, 3, 4, 6}).Draw(t, "nlinks")
			if top && k < 2 {
				k = 3
			}
			for j := 0; j < k; j++ {
				var to int
				if rapid.IntRange(0, 2).Draw(t, "near") > 0 {
					to = i + 1 + rapid.IntRange(0, min(remaining-1, 5)).Draw(t, "to")
				} else {
					to = i + 1 + rapid.IntRange(0, remaining-1).Draw(t, "tofar")
				}
				l := Link{To: to, Alias: rapid.IntRange(0, 3).Draw(t, "alias") == 0}
				if nd.Codec == "pb" {
					l.Name = rapid.SampledFrom(linkNames).Draw(t, "name")
				}
				nd.Links = append(nd.Links, l)
			}
		}
		c.Nodes = append(c.Nodes, nd)
	}
	idx := rapid.IntRange(0, n-1)
	// masks mostly spare the first node (the usual root), otherwise many walks are empty
	mask := rapid.Custom(func(t *rapid.T) int {
		if n > 1 && rapid.IntRange(0, 9).Draw(t, "notroot") > 0 {
			return rapid.IntRange(1, n-1).Draw(t, "i")
		}
		return idx.Draw(t, "i")
	})
	if rapid.IntRange(0, 2).Draw(t, "hasmissing") > 0 {
		c.Missing = rapid.SliceOfNDistinct(mask, 0, 5, rapid.ID[int]).Draw(t, "missing")
	}
	c.Locality = rapid.Bool().Draw(t, "locality")
	if c.Locality {
		c.NonLocal = rapid.SliceOfNDistinct(mask, 0, 5, rapid.ID[int]).Draw(t, "nonlocal")
	}
	c.Tracker = rapid.SampledFrom([]string{"map", "map", "cidset"}).Draw(t, "tracker")
	nw := rapid.SampledFrom([]int{1, 1, 2, 3}).Draw(t, "nwalks")
	for w := 0; w < nw; w++ {
		wk := Walk{Kind: rapid.SampledFrom([]string{"dag", "dag", "entity"}).Draw(t, "kind")}
		if rapid.IntRange(0, 3).Draw(t, "root0") > 0 {
			wk.Root = min(w, n-1) // walks 0,1,2 start at nodes 0,1,2: overlapping sub-DAGs
		} else {
			wk.Root = idx.Draw(t, "root")
		}
		wk.RootAlias = rapid.IntRange(0, 4).Draw(t, "rootalias") == 0
		if rapid.IntRange(0, 5).Draw(t, "stop") == 3 {
			wk.StopAfter = rapid.IntRange(1, 12).Draw(t, "stopafter")
		}
		c.Walks = append(c.Walks, wk)
	}
	return c
}

// --- oracle ----------------------------------------------------------------------

type refWalk struct {
	c        Case
	byMh     map[string]*built
	missing  map[string]bool
	nonLocal map[string]bool
	visited  map[string]bool
	key      func(cid.Cid) string
	out      []cid.Cid
	stopAt   int
	stopped  bool
	entity   bool
	// statistics for the non-trivial rule
	revisits, blocked, identities, aliasHits int
}

// visit is the reference recursive pre-order DFS: mark, locality, availability, emit, children in link order.
func (r *refWalk) visit(c cid.Cid) {
	if r.stopped {
		return
	}
	k := r.key(c)
	if r.visited[k] {
		r.revisits++
		return
	}
	r.visited[k] = true
	m := string(c.Hash())
	if r.c.Locality && r.nonLocal[m] {
		r.blocked++
		return
	}
	nd := r.byMh[m]
	if nd == nil || r.missing[m] {
		r.blocked++
		return
	}
	if !nd.cid.Equals(c) {
		r.aliasHits++
	}
	if c.Prefix().MhType == mh.IDENTITY {
		r.identities++
	} else {
		r.out = append(r.out, c)
		if r.stopAt > 0 && len(r.out) == r.stopAt {
			r.stopped = true
			return
		}
	}
	if r.entity && nd.leaf {
		return
	}
	for _, l := range nd.links {
		r.visit(l)
	}
}

func cidsString(cs []cid.Cid) string {
	s := "["
	for i, c := range cs {
		if i > 0 {
			s += " "
		}
		str := c.String()
		if len(str) > 14 {
			str = str[:6] + ".." + str[len(str)-6:]
		}
		s += str
	}
	return s + "]"
}

func run(c Case) kit.Result {
	ctx := context.Background()
	nodes := build(c)
	bstore := blockstore.NewBlockstore(dssync.MutexWrap(ds.NewMapDatastore()))
	byMh := map[string]*built{}
	missing := map[string]bool{}
	nonLocal := map[string]bool{}
	for _, i := range c.Missing {
		if nodes[i].cid.Prefix().MhType != mh.IDENTITY { // inline blocks cannot be missing
			missing[string(nodes[i].cid.Hash())] = true
		}
	}
	for _, i := range c.NonLocal {
		nonLocal[string(nodes[i].cid.Hash())] = true
	}
	for i := range nodes {
		b := &nodes[i]
		m := string(b.cid.Hash())
		if _, dup := byMh[m]; !dup {
			byMh[m] = b
		}
		if b.cid.Prefix().MhType == mh.IDENTITY || missing[m] {
			continue
		}
		blk, err := blocks.NewBlockWithCid(b.data, b.cid)
		if err != nil {
			panic(err)
		}
		if err := bstore.Put(ctx, blk); err != nil {
			panic(err)
		}
	}

	var tracker walker.VisitedTracker
	key := func(c cid.Cid) string { return string(c.Hash()) }
	switch c.Tracker {
	case "cidset":
		tracker = cid.NewSet()
		key = func(c cid.Cid) string { return c.KeyString() }
	default:
		tracker = walker.NewMapTracker()
	}
	visited := map[string]bool{}
	opts := []walker.Option{walker.WithVisitedTracker(tracker)}
	if c.Locality {
		opts = append(opts, walker.WithLocality(func(_ context.Context, ci cid.Cid) (bool, error) {
			return !nonLocal[string(ci.Hash())], nil
		}))
	}
	linksFetch := walker.LinksFetcherFromBlockstore(bstore)
	nodeFetch := walker.NodeFetcherFromBlockstore(bstore)

	sharing, blocked, ident, alias, emitted := 0, 0, 0, 0, 0
	for wi, w := range c.Walks {
		root := nodes[w.Root].cid
		if w.RootAlias {
			root, _ = otherVersion(root)
		}
		ref := &refWalk{c: c, byMh: byMh, missing: missing, nonLocal: nonLocal, visited: visited, key: key, stopAt: w.StopAfter, entity: w.Kind == "entity"}
		ref.visit(root)

		var got []cid.Cid
		emit := func(ci cid.Cid) bool {
			got = append(got, ci)
			return !(w.StopAfter > 0 && len(got) >= w.StopAfter)
		}
		var err error
		if w.Kind == "entity" {
			err = walker.WalkEntityRoots(ctx, root, nodeFetch, emit, opts...)
		} else {
			err = walker.WalkDAG(ctx, root, linksFetch, emit, opts...)
		}
		if err != nil {
			return kit.Fail("walk %d (%s) returned %v", wi, w.Kind, err)
		}
		for _, g := range got {
			m := string(g.Hash())
			if g.Prefix().MhType == mh.IDENTITY {
				return kit.Fail("walk %d (%s) emitted identity CID %s", wi, w.Kind, g)
			}
			if c.Locality && nonLocal[m] {
				return kit.Fail("walk %d (%s) emitted %s which fails the locality check", wi, w.Kind, g)
			}
		}
		same := len(got) == len(ref.out)
		for i := 0; same && i < len(got); i++ {
			same = got[i].Equals(ref.out[i])
		}
		if !same {
			return kit.Fail("walk %d (%s, root node %d, tracker %s): emitted %s, reference pre-order DFS gives %s", wi, w.Kind, w.Root, c.Tracker, cidsString(got), cidsString(ref.out))
		}
		// the shared tracker must now know every CID the reference marked
		for _, g := range got {
			if !tracker.Has(g) {
				return kit.Fail("walk %d: tracker.Has(%s) is false after the CID was emitted", wi, g)
			}
		}
		sharing += ref.revisits
		blocked += ref.blocked
		ident += ref.identities
		alias += ref.aliasHits
		emitted += len(got)
	}

	cls := []string{"tracker:" + c.Tracker, fmt.Sprintf("walks:%d", len(c.Walks))}
	if sharing > 0 {
		cls = append(cls, "sharing")
	}
	if blocked > 0 {
		cls = append(cls, "missing-or-nonlocal")
	}
	if ident > 0 {
		cls = append(cls, "identity-node")
	}
	if alias > 0 {
		cls = append(cls, "alias-form-first")
	}
	for _, w := range c.Walks {
		if w.Kind == "entity" {
			cls = append(cls, "entity-walk")
			break
		}
	}
	for _, w := range c.Walks {
		if w.StopAfter > 0 {
			cls = append(cls, "stopped-walk")
			break
		}
	}
	switch {
	case emitted == 0:
		cls = append(cls, "emitted:0")
	case emitted < 10:
		cls = append(cls, "emitted:1-9")
	default:
		cls = append(cls, "emitted:10+")
	}
	return kit.Result{NonTrivial: sharing > 0 && blocked > 0 && emitted >= 3, Classes: cls}
}

func sample(c Case) any {
	if len(c.Nodes) <= 8 {
		return c
	}
	cc := c
	cc.Nodes = c.Nodes[:4]
	return map[string]any{"nodes_total": len(c.Nodes), "first_nodes_and_config": cc}
}

var spec = kit.Spec[Case]{
	Prop: "C13", Name: "walk",
	Rule: "random DAG (1-60 nodes, links only to higher indices, out-degree <=6, hand-encoded dag-pb (UnixFS file/dir/HAMT/symlink/raw/garbage/no data), dag-cbor (5 link layouts) and raw blocks, sha2-256/sha2-512/blake2b/identity CIDs, CIDv0<->CIDv1 alias links, missing-block mask, locality mask) walked 1-3 times (WalkDAG / WalkEntityRoots, optional early stop) with a shared MapTracker or cid.Set; emitted sequence compared with a recursive reference pre-order DFS keyed like the tracker; non-trivial = the reference met an already-visited node and a missing/non-local node and >=3 CIDs were emitted",
	Quick: 2500, Thorough: 12000,
	Gen: gen, Run: run, Sample: sample,
}

func TestPropWalk(t *testing.T) { kit.All(t, spec) }

// ---------------------------------------------------------------------------
// sub-check "bloom": BloomTracker across growth steps

type BloomCase struct {
	N            int    `json:"n"`             // distinct CIDs offered
	Seed         uint64 `json:"seed"`          // derives the CIDs
	Capacity     uint   `json:"capacity"`      // expectedItems (>= MinBloomCapacity)
	FPRate       uint   `json:"fp_rate"`       // 1/N target
	RevisitEvery int    `json:"revisit_every"` // interleave a re-visit of an earlier CID every k inserts
	AliasRevisit bool   `json:"alias_revisit"` // re-visits use another CID form of the same multihash
}

func genBloom(t *rapid.T) BloomCase {
	c := BloomCase{}
	c.Capacity = uint(rapid.SampledFrom([]int{walker.MinBloomCapacity, walker.MinBloomCapacity, walker.MinBloomCapacity + 1, 12000}).Draw(t, "cap"))
	// growth happens after cap+1, then 4cap+1, then 16cap+1 further first-time visits
	steps := rapid.SampledFrom([]int{2, 3, 3}).Draw(t, "steps")
	need := int(c.Capacity) + 1
	if steps >= 2 {
		need += 4*int(c.Capacity) + 1
	}
	if steps >= 3 {
		need += 16*int(c.Capacity) + 1
	}
	c.N = need + rapid.IntRange(0, 5000).Draw(t, "extra")
	c.Seed = rapid.Uint64().Draw(t, "seed")
	c.FPRate = uint(rapid.SampledFrom([]int{walker.DefaultBloomFPRate, walker.DefaultBloomFPRate, 1_000_000, 10_000, 100}).Draw(t, "fprate"))
	c.RevisitEvery = rapid.SampledFrom([]int{1, 3, 7, 50}).Draw(t, "revisit")
	c.AliasRevisit = rapid.Bool().Draw(t, "alias")
	return c
}

func bloomCid(seed uint64, i int) cid.Cid {
	var b [16]byte
	binary.BigEndian.PutUint64(b[:8], seed)
	binary.BigEndian.PutUint64(b[8:], uint64(i))
	d := sha256.Sum256(b[:])
	h := make([]byte, 0, 34)
	h = append(h, 0x12, 0x20)
	h = append(h, d[:]...)
	return cid.NewCidV1(cid.Raw, mh.Multihash(h))
}

func runBloom(c BloomCase) kit.Result {
	bt, err := walker.NewBloomTracker(c.Capacity, c.FPRate)
	if err != nil {
		return kit.Fail("NewBloomTracker(%d,%d): %v", c.Capacity, c.FPRate, err)
	}
	first := make([]bool, c.N) // Visit returned true for CID i
	trueVisits := uint64(0)
	form := func(ci cid.Cid, j int) cid.Cid {
		if !c.AliasRevisit {
			return ci
		}
		if j%2 == 0 {
			return cid.NewCidV0(ci.Hash())
		}
		return cid.NewCidV1(cid.DagProtobuf, ci.Hash())
	}
	// model of the documented growth rule: a new filter of 4x capacity is appended when the
	// inserts into the current filter exceed its capacity
	growths, curCap, curIns := 0, uint64(c.Capacity), uint64(0)
	growthAt := func() string { return fmt.Sprintf("after %d growth step(s), %d first-time visits", growths, trueVisits) }
	rs := c.Seed | 1
	recheck := func(j int, when string) *kit.Result {
		cj := form(bloomCid(c.Seed, j), j)
		if !bt.Has(cj) {
			r := kit.Fail("%s: Has(%s) is false although Visit of CID #%d returned true earlier (%s)", when, cj, j, growthAt())
			return &r
		}
		if bt.Visit(cj) {
			r := kit.Fail("%s: Visit(%s) reports CID #%d as unvisited although it was visited earlier (%s)", when, cj, j, growthAt())
			return &r
		}
		return nil
	}
	for i := 0; i < c.N; i++ {
		ci := bloomCid(c.Seed, i)
		if bt.Visit(ci) {
			first[i] = true
			trueVisits++
			curIns++
			if curIns > curCap {
				growths++
				curCap *= 4
				curIns = 0
			}
			if !bt.Has(ci) {
				return kit.Fail("Has(%s) is false right after Visit returned true (CID #%d, %s)", ci, i, growthAt())
			}
		}
		if i%c.RevisitEvery == 0 && i > 0 {
			rs ^= rs << 13
			rs ^= rs >> 7
			rs ^= rs << 17
			j := int(rs % uint64(i+1))
			if first[j] {
				if r := recheck(j, "interleaved re-visit"); r != nil {
					return *r
				}
			}
		}
	}
	if bt.Count() != trueVisits {
		return kit.Fail("Count()=%d but Visit returned true %d times", bt.Count(), trueVisits)
	}
	// final sweep over everything visited in any growth epoch
	for j := 0; j < c.N; j++ {
		if first[j] {
			if r := recheck(j, "final sweep"); r != nil {
				return *r
			}
		}
	}
	if bt.Count() != trueVisits {
		return kit.Fail("Count()=%d changed by re-visits (first-time visits %d)", bt.Count(), trueVisits)
	}
	cls := []string{fmt.Sprintf("growths:%d", growths), fmt.Sprintf("fprate:%d", c.FPRate)}
	if uint64(c.N) != trueVisits {
		cls = append(cls, "had-false-positives")
	}
	return kit.Result{NonTrivial: growths >= 2, Classes: cls}
}

var specBloom = kit.Spec[BloomCase]{
	Prop: "C13", Name: "bloom",
	Rule: "BloomTracker(capacity 10000-12000, FP rate 1/100..1/4.75M) fed 50k-220k distinct CIDs (2-3 growth steps) with interleaved re-visits (same CID or CIDv0/dag-pb form of the same multihash) and a final sweep: every CID whose Visit returned true must afterwards have Has==true and Visit==false, Count()==number of true Visits; non-trivial = run crossed >=2 growth steps (by the documented growth rule)",
	Quick: 3, Thorough: 4,
	Gen: genBloom, Run: runBloom,
}

func TestPropBloom(t *testing.T) { kit.All(t, specBloom) }
