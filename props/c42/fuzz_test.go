package c42

import (
	"context"
	"strings"
	"testing"

	"github.com/ipfs/boxo/routing/http/client"
	"github.com/ipfs/boxo/routing/http/server"
	"github.com/ipfs/boxo/routing/http/types"
	"github.com/ipfs/go-cid"
	mh "github.com/multiformats/go-multihash"
	"github.com/prometheus/client_golang/prometheus"
)

// fuzzRecords is a fixed record list covering every address template, records without
// addresses / protocols and a legacy bitswap record.
var fuzzRecords = func() []Rec {
	mk := func(s string) Addr {
		var a Addr
		a.S = s
		parts := strings.Split(strings.TrimPrefix(s, "/"), "/")
		names := map[string]bool{"ip4": true, "ip6": true, "dns": true, "dns4": true, "dns6": true, "tcp": true, "udp": true, "p2p": true}
		for i := 0; i < len(parts); i++ {
			a.P = append(a.P, parts[i])
			if names[parts[i]] {
				i++ // skip the value
			}
		}
		return a
	}
	return []Rec{
		{ID: 1, Protocols: []string{"transport-bitswap"}, Addrs: []Addr{mk("/ip4/1.2.3.4/tcp/4001"), mk("/ip4/1.2.3.4/udp/4001/quic-v1"), mk("/ip6/::1/tcp/443/tls/ws")}},
		{ID: 2, Protocols: []string{}, Addrs: []Addr{}},
		{ID: 3, Protocols: []string{"Transport-IPFS-Gateway-HTTP"}, Addrs: []Addr{mk("/dns4/example.com/tcp/443/https"), mk("/dns/example.com/tcp/443/tls/http")}},
		{ID: 4, Protocols: []string{"transport-bitswap", "x-custom"}, Addrs: []Addr{}},
		{ID: 5, Protocols: []string{}, Addrs: []Addr{mk("/ip4/10.0.0.7/udp/4001/quic-v1/webtransport"), mk("/ip4/10.0.0.7/udp/4001/webrtc-direct"), mk("/p2p/" + relayID)}},
		{ID: 6, Bitswap: true, Protocols: []string{"transport-bitswap"}, Addrs: []Addr{mk("/ip4/1.2.3.4/tcp/4001/p2p/" + relayID + "/p2p-circuit"), mk("/dns6/node.example.org/tcp/443/wss")}},
		{ID: 7, Protocols: []string{"transport-graphsync-filecoinv1"}, Addrs: []Addr{mk("/ip4/203.0.113.9/tcp/80/ws"), mk("/ip4/203.0.113.9/udp/53")}},
	}
}()

// parseParam is the wire format of IPIP-484: a case-insensitive comma separated list.
func parseParam(s string) []string {
	if s == "" {
		return nil
	}
	return strings.Split(strings.ToLower(s), ",")
}

func FuzzFilters(f *testing.F) {
	for _, s := range [][2]string{
		{"", ""}, {"tcp", "transport-bitswap"}, {"!tcp", "unknown"}, {"tcp,!ws,unknown", "unknown,transport-bitswap"},
		{"QUIC-V1,!WebTransport", "TRANSPORT-IPFS-GATEWAY-HTTP"}, {"unknown", "nomatch"}, {"!unknown", "x-custom"},
		{",", ","}, {"!", "!"}, {"tcp,,udp", "a,,b"}, {" tcp", "transport-bitswap "}, {"foo,!bar", "UNKNOWN"},
		{"!p2p-circuit,!ip6", ""}, {"https,http,tls", "transport-ipfs-gateway-http"}, {"%2C", "%21"}, {"tcp\x00", "\xff"},
	} {
		f.Add(s[0], s[1])
	}
	h := server.Handler(&fakeRouter{recs: fuzzRecords}, server.WithPrometheusRegistry(prometheus.NewRegistry()), server.WithStreamingResultsDisabled(), server.WithRecordsLimit(0))
	_, hc, _ := endpoint(h, false)
	key := cid.NewCidV1(cid.Raw, mh.Multihash(peerID(9999)))

	f.Fuzz(func(t *testing.T, fa, fp string) {
		if len(fa) > 300 || len(fp) > 300 {
			t.Skip()
		}
		pfa, pfp := parseParam(fa), parseParam(fp)
		for _, term := range pfa {
			// "ipfs" is a legacy alias of p2p in the multiaddr registry; outside the reference's name model
			if strings.TrimPrefix(term, "!") == "ipfs" {
				t.Skip()
			}
		}
		// the client omits an empty option list from the URL and then applies its default
		// protocol filter; pass every value explicitly as one raw string
		opts := []client.Option{client.WithHTTPClient(hc), client.WithDisabledLocalFiltering(true),
			client.WithAddrFilter([]string{fa}), client.WithProtocolFilter([]string{fp})}
		cl, err := client.New("http://verif.invalid", opts...)
		if err != nil {
			t.Fatal(err)
		}
		it, err := cl.FindProviders(context.Background(), key)
		if err != nil {
			t.Fatalf("FindProviders(filter-addrs=%q, filter-protocols=%q): %v", fa, fp, err)
		}
		var got []outRec
		for it.Next() {
			v := it.Val()
			if v.Err != nil {
				t.Fatalf("record error: %v", v.Err)
			}
			r, ok := v.Val.(*types.PeerRecord)
			if !ok {
				t.Fatalf("unexpected record type %T", v.Val)
			}
			o := outRec{ID: r.ID.String(), Protocols: r.Protocols}
			for _, a := range r.Addrs {
				o.Addrs = append(o.Addrs, a.String())
			}
			got = append(got, o)
		}
		it.Close()
		var want []outRec
		for _, r := range fuzzRecords {
			if o, keep, _ := refFilter(r, pfa, pfp); keep {
				want = append(want, o)
			}
		}
		ok := len(got) == len(want)
		for i := 0; ok && i < len(got); i++ {
			ok = got[i].ID == want[i].ID && strings.Join(got[i].Addrs, " ") == strings.Join(want[i].Addrs, " ") && strings.Join(got[i].Protocols, " ") == strings.Join(want[i].Protocols, " ")
		}
		if !ok {
			t.Fatalf("filter-addrs=%q filter-protocols=%q: client received %v, IPIP-484 reference keeps %v", fa, fp, got, want)
		}
	})
}
