package c42

import (
	"bytes"
	"context"
	"crypto/sha256"
	"encoding/binary"
	"errors"
	"fmt"
	"io"
	"net/http"
	"net/http/httptest"
	"strings"
	"sync"
	"testing"
	"time"

	"github.com/ipfs/boxo/ipns"
	ipns_pb "github.com/ipfs/boxo/ipns/pb"
	"github.com/ipfs/boxo/path"
	"github.com/ipfs/boxo/routing/http/client"
	"github.com/ipfs/boxo/routing/http/server"
	"github.com/ipfs/boxo/routing/http/types"
	"github.com/ipfs/boxo/routing/http/types/iter"
	"github.com/ipfs/go-cid"
	"github.com/libp2p/go-libp2p/core/crypto"
	"github.com/libp2p/go-libp2p/core/peer"
	"github.com/libp2p/go-libp2p/core/routing"
	"github.com/multiformats/go-multiaddr"
	mh "github.com/multiformats/go-multihash"
	"github.com/prometheus/client_golang/prometheus"
	"google.golang.org/protobuf/proto"
	"pgregory.net/rapid"
	"verif/kit"
)

func TestMain(m *testing.M) { kit.Main(m) }

// ---------------------------------------------------------------------------
// transports: in-memory (handler called directly) and real loopback sockets

type memTransport struct{ h http.Handler }

func (m memTransport) RoundTrip(req *http.Request) (*http.Response, error) {
	r2 := req.Clone(req.Context())
	if r2.Body == nil {
		r2.Body = http.NoBody
	}
	r2.RequestURI = r2.URL.RequestURI()
	rec := httptest.NewRecorder()
	m.h.ServeHTTP(rec, r2)
	resp := rec.Result()
	resp.Request = req
	return resp, nil
}

// loopbackOK: whether this sandbox allows loopback sockets (probed once per process; the
// verdict of a case never depends on the transport, only the code path exercised does).
var loopbackOK = sync.OnceValue(func() bool {
	defer func() { recover() }()
	s := httptest.NewServer(http.HandlerFunc(func(w http.ResponseWriter, r *http.Request) { w.Write([]byte("ok")) }))
	defer s.Close()
	tr := &http.Transport{}
	defer tr.CloseIdleConnections()
	resp, err := (&http.Client{Transport: tr, Timeout: 5 * time.Second}).Get(s.URL)
	if err != nil {
		return false
	}
	resp.Body.Close()
	return true
})

// endpoint returns base URL, http client and a cleanup function for handler h.
func endpoint(h http.Handler, socket bool) (string, *http.Client, func()) {
	if socket && loopbackOK() {
		srv := httptest.NewServer(h)
		tr := &http.Transport{}
		hc := &http.Client{Transport: &client.ResponseBodyLimitedTransport{RoundTripper: tr, LimitBytes: 1 << 20, UserAgent: "verif"}}
		return srv.URL, hc, func() { tr.CloseIdleConnections(); srv.Close() }
	}
	hc := &http.Client{Transport: &client.ResponseBodyLimitedTransport{RoundTripper: memTransport{h}, LimitBytes: 1 << 20, UserAgent: "verif"}}
	return "http://verif.invalid", hc, func() {}
}

// ---------------------------------------------------------------------------
// records

// Addr is a multiaddr string together with the protocol names it consists of; both are
// produced from the same template by the generator, so the oracle never parses multiaddrs.
type Addr struct {
	S string   `json:"s"`
	P []string `json:"p"`
}

type Rec struct {
	Bitswap   bool     `json:"bitswap,omitempty"` // legacy bitswap schema (providers only)
	ID        int      `json:"id"`
	Protocols []string `json:"protocols"` // bitswap: exactly one
	Addrs     []Addr   `json:"addrs"`
}

func peerID(i int) peer.ID {
	var b [8]byte
	binary.BigEndian.PutUint64(b[:], uint64(i))
	h, _ := mh.Sum(b[:], mh.SHA2_256, -1)
	return peer.ID(h)
}

type part struct{ name, val string }

var (
	hosts4   = []string{"1.2.3.4", "10.0.0.7", "127.0.0.1", "203.0.113.9"}
	hosts6   = []string{"::1", "2001:db8::1", "fe80::1"}
	hostsDNS = []string{"example.com", "node.example.org"}
	relayID  = "12D3KooWD3eckifWpRn9wQpMG9R9hX3sD158z7EqHWmweQAJU5SA"
)

// addrTemplates: transport part of an address; the network part is prepended.
var addrTemplates = [][]part{
	{{"tcp", "4001"}},
	{{"tcp", "443"}, {"tls", ""}, {"ws", ""}},
	{{"tcp", "80"}, {"ws", ""}},
	{{"tcp", "443"}, {"wss", ""}},
	{{"tcp", "443"}, {"https", ""}},
	{{"tcp", "8080"}, {"http", ""}},
	{{"tcp", "443"}, {"tls", ""}, {"http", ""}},
	{{"udp", "4001"}, {"quic-v1", ""}},
	{{"udp", "4001"}, {"quic-v1", ""}, {"webtransport", ""}},
	{{"udp", "4001"}, {"webrtc-direct", ""}},
	{{"udp", "53"}},
	{{"tcp", "4001"}, {"p2p", relayID}, {"p2p-circuit", ""}},
	{{"udp", "4001"}, {"quic-v1", ""}, {"p2p", relayID}, {"p2p-circuit", ""}},
}

func genAddr(t *rapid.T) Addr {
	var ps []part
	switch rapid.IntRange(0, 5).Draw(t, "net") {
	case 0, 1, 2:
		ps = append(ps, part{"ip4", rapid.SampledFrom(hosts4).Draw(t, "h4")})
	case 3:
		ps = append(ps, part{"ip6", rapid.SampledFrom(hosts6).Draw(t, "h6")})
	case 4:
		ps = append(ps, part{rapid.SampledFrom([]string{"dns", "dns4", "dns6"}).Draw(t, "dnsk"), rapid.SampledFrom(hostsDNS).Draw(t, "hd")})
	default:
		if rapid.Bool().Draw(t, "bare") {
			// address consisting of a peer id only
			return Addr{S: "/p2p/" + relayID, P: []string{"p2p"}}
		}
		ps = append(ps, part{"ip4", rapid.SampledFrom(hosts4).Draw(t, "h4")})
	}
	ps = append(ps, rapid.SampledFrom(addrTemplates).Draw(t, "tmpl")...)
	var a Addr
	for _, p := range ps {
		a.S += "/" + p.name
		if p.val != "" {
			a.S += "/" + p.val
		}
		a.P = append(a.P, p.name)
	}
	return a
}

var recProtocols = []string{"transport-bitswap", "transport-bitswap", "transport-ipfs-gateway-http", "transport-graphsync-filecoinv1", "Transport-Bitswap", "TRANSPORT-IPFS-GATEWAY-HTTP", "x-custom"}

func genRec(t *rapid.T, allowBitswap bool) Rec {
	r := Rec{ID: rapid.IntRange(0, 40).Draw(t, "id")}
	if allowBitswap && rapid.IntRange(0, 3).Draw(t, "bitswap") == 0 {
		r.Bitswap = true
		r.Protocols = []string{rapid.SampledFrom([]string{"transport-bitswap", "transport-bitswap", "Transport-Bitswap"}).Draw(t, "bsproto")}
	} else {
		np := rapid.SampledFrom([]int{0, 0, 1, 1, 1, 2, 3}).Draw(t, "nproto")
		r.Protocols = []string{}
		for i := 0; i < np; i++ {
			r.Protocols = append(r.Protocols, rapid.SampledFrom(recProtocols).Draw(t, "proto"))
		}
	}
	na := rapid.SampledFrom([]int{3, 0, 0, 1, 2, 4, 5, 6}).Draw(t, "naddr")
	r.Addrs = []Addr{}
	for i := 0; i < na; i++ {
		r.Addrs = append(r.Addrs, genAddr(t))
	}
	return r
}

// ---------------------------------------------------------------------------
// filters

var addrTerms = []string{"tcp", "udp", "quic-v1", "webtransport", "ws", "wss", "tls", "http", "https", "p2p-circuit", "p2p", "webrtc-direct", "ip4", "ip6", "dns", "dns4", "dns6",
	"unknown", "unknown", "quic", "sctp", "foo"}

var protoTerms = []string{"transport-bitswap", "unknown", "transport-bitswap", "transport-ipfs-gateway-http", "transport-graphsync-filecoinv1", "x-custom", "unknown", "nomatch"}

func caseVariant(t *rapid.T, s string, allow bool) string {
	if !allow {
		return s
	}
	switch rapid.IntRange(0, 5).Draw(t, "case") {
	case 0:
		return strings.ToUpper(s)
	case 1:
		if len(s) > 0 {
			return strings.ToUpper(s[:1]) + s[1:]
		}
	}
	return s
}

func genAddrFilter(t *rapid.T, mixedCase bool) []string {
	var f []string
	if rapid.IntRange(0, 9).Draw(t, "focus") < 4 {
		// frequent shape: common positive terms narrowed by common negated terms
		for i, n := 0, rapid.IntRange(1, 2).Draw(t, "npos"); i < n; i++ {
			f = append(f, caseVariant(t, rapid.SampledFrom([]string{"tcp", "udp", "ip4", "quic-v1", "tls", "dns4", "p2p"}).Draw(t, "pos"), mixedCase))
		}
		for i, n := 0, rapid.IntRange(1, 2).Draw(t, "nneg"); i < n; i++ {
			f = append(f, "!"+caseVariant(t, rapid.SampledFrom([]string{"ws", "p2p-circuit", "ip6", "tls", "webtransport", "quic-v1", "http", "tcp", "udp"}).Draw(t, "negt"), mixedCase))
		}
		if rapid.IntRange(0, 3).Draw(t, "plusunknown") == 0 {
			f = append(f, "unknown")
		}
		return f
	}
	n := rapid.SampledFrom([]int{0, 0, 1, 1, 2, 2, 3, 4}).Draw(t, "nfa")
	for i := 0; i < n; i++ {
		term := caseVariant(t, rapid.SampledFrom(addrTerms).Draw(t, "aterm"), mixedCase)
		if rapid.IntRange(0, 2).Draw(t, "neg") == 0 {
			term = "!" + term
		}
		f = append(f, term)
	}
	return f
}

func genProtoFilter(t *rapid.T, mixedCase bool) []string {
	n := rapid.SampledFrom([]int{0, 1, 1, 2, 2, 3}).Draw(t, "nfp")
	var f []string
	for i := 0; i < n; i++ {
		f = append(f, caseVariant(t, rapid.SampledFrom(protoTerms).Draw(t, "pterm"), mixedCase))
	}
	return f
}

// ---------------------------------------------------------------------------
// reference semantics (IPIP-484), written against the spec text, not the code

type outRec struct {
	ID        string
	Protocols []string
	Addrs     []string
}

func (o outRec) String() string {
	return fmt.Sprintf("{%s.. %v %v}", o.ID[:8], o.Protocols, o.Addrs)
}

func lowerAll(f []string) []string {
	var out []string
	for _, s := range f {
		out = append(out, strings.ToLower(s))
	}
	return out
}

func contains(l []string, s string) bool {
	for _, x := range l {
		if x == s {
			return true
		}
	}
	return false
}

// refFilter applies protocol and address filters (already lower-cased) to one record.
func refFilter(r Rec, fa, fp []string) (outRec, bool, bool) {
	o := outRec{ID: peerID(r.ID).String(), Protocols: r.Protocols}
	for _, a := range r.Addrs {
		o.Addrs = append(o.Addrs, a.S)
	}
	if len(fa) == 0 && len(fp) == 0 {
		return o, true, false
	}
	// transfer protocols: logical OR over the terms; "unknown" admits records without protocols
	if len(fp) > 0 {
		ok := false
		for _, term := range fp {
			if term == "unknown" && len(r.Protocols) == 0 {
				ok = true
			}
			for _, p := range r.Protocols {
				if strings.EqualFold(p, term) {
					ok = true
				}
			}
		}
		if !ok {
			return o, false, false
		}
	}
	if len(fa) == 0 {
		return o, true, false
	}
	if len(r.Addrs) == 0 {
		// unknown addresses are kept only when "unknown" is listed
		return o, contains(fa, "unknown"), false
	}
	var pos, neg []string
	for _, term := range fa {
		if strings.HasPrefix(term, "!") {
			neg = append(neg, term[1:])
		} else {
			pos = append(pos, term)
		}
	}
	o.Addrs = nil
	for _, a := range r.Addrs {
		bad := false
		for _, n := range neg {
			if contains(a.P, n) {
				bad = true
			}
		}
		if bad {
			continue
		}
		good := len(pos) == 0
		for _, p := range pos {
			if contains(a.P, p) {
				good = true
			}
		}
		if good {
			o.Addrs = append(o.Addrs, a.S)
		}
	}
	if len(o.Addrs) == 0 {
		return o, false, false
	}
	return o, true, len(pos) > 0 && len(neg) > 0 && len(o.Addrs) < len(r.Addrs)
}

// ---------------------------------------------------------------------------
// fake delegated router

type fakeRouter struct {
	recs []Rec
	mu   sync.Mutex
	ipns map[string][]byte // name -> marshalled record
	puts int
}

func (f *fakeRouter) peerRecord(r Rec) *types.PeerRecord {
	id := peerID(r.ID)
	pr := &types.PeerRecord{Schema: types.SchemaPeer, ID: &id, Protocols: append([]string(nil), r.Protocols...)}
	if r.Protocols != nil && pr.Protocols == nil {
		pr.Protocols = []string{}
	}
	pr.Addrs = []types.Multiaddr{}
	for _, a := range r.Addrs {
		ma, err := multiaddr.NewMultiaddr(a.S)
		if err != nil {
			panic(fmt.Sprintf("harness: generated multiaddr %q does not parse: %v", a.S, err))
		}
		pr.Addrs = append(pr.Addrs, types.Multiaddr{Multiaddr: ma})
	}
	return pr
}

func (f *fakeRouter) FindProviders(ctx context.Context, c cid.Cid, limit int) (iter.ResultIter[types.Record], error) {
	var out []iter.Result[types.Record]
	for _, r := range f.recs {
		pr := f.peerRecord(r)
		if r.Bitswap {
			//lint:ignore SA1019 legacy schema is part of the property
			out = append(out, iter.Result[types.Record]{Val: &types.BitswapRecord{Schema: types.SchemaBitswap, Protocol: r.Protocols[0], ID: pr.ID, Addrs: pr.Addrs}})
		} else {
			out = append(out, iter.Result[types.Record]{Val: pr})
		}
	}
	return iter.FromSlice(out), nil
}

func (f *fakeRouter) FindPeers(ctx context.Context, pid peer.ID, limit int) (iter.ResultIter[*types.PeerRecord], error) {
	var out []iter.Result[*types.PeerRecord]
	for _, r := range f.recs {
		out = append(out, iter.Result[*types.PeerRecord]{Val: f.peerRecord(r)})
	}
	return iter.FromSlice(out), nil
}

func (f *fakeRouter) ProvideBitswap(ctx context.Context, req *server.BitswapWriteProvideRequest) (time.Duration, error) {
	return 0, errors.New("not supported")
}

func (f *fakeRouter) GetClosestPeers(ctx context.Context, key cid.Cid) (iter.ResultIter[*types.PeerRecord], error) {
	return nil, routing.ErrNotFound
}

func (f *fakeRouter) GetIPNS(ctx context.Context, name ipns.Name) (*ipns.Record, error) {
	f.mu.Lock()
	defer f.mu.Unlock()
	b, ok := f.ipns[name.String()]
	if !ok {
		return nil, routing.ErrNotFound
	}
	return ipns.UnmarshalRecord(b)
}

func (f *fakeRouter) PutIPNS(ctx context.Context, name ipns.Name, record *ipns.Record) error {
	b, err := ipns.MarshalRecord(record)
	if err != nil {
		return err
	}
	f.mu.Lock()
	defer f.mu.Unlock()
	if f.ipns == nil {
		f.ipns = map[string][]byte{}
	}
	f.ipns[name.String()] = b
	f.puts++
	return nil
}

// ---------------------------------------------------------------------------
// sub-check "filters"

type Case struct {
	Op             string   `json:"op"` // providers | peers
	Records        []Rec    `json:"records"`
	FilterAddrs    []string `json:"filter_addrs"`
	SetProtoFilter bool     `json:"set_proto_filter"` // false: the client default (unknown,transport-bitswap) applies
	FilterProtos   []string `json:"filter_protocols"`
	LocalFiltering bool     `json:"local_filtering"` // client re-applies the filters itself
	Mode           string   `json:"mode"`            // json | ndjson | ndjson-required
	SetLimitJSON   bool     `json:"set_limit_json"`
	LimitJSON      int      `json:"limit_json"`
	SetLimitND     bool     `json:"set_limit_ndjson"`
	LimitND        int      `json:"limit_ndjson"`
	Socket         bool     `json:"socket"`
}

func gen(t *rapid.T) Case {
	c := Case{}
	c.Op = rapid.SampledFrom([]string{"providers", "providers", "peers"}).Draw(t, "op")
	n := rapid.OneOf(rapid.IntRange(0, 6), rapid.IntRange(0, 30), rapid.IntRange(15, 30)).Draw(t, "nrec")
	c.Records = []Rec{}
	for i := 0; i < n; i++ {
		c.Records = append(c.Records, genRec(t, c.Op == "providers"))
	}
	c.LocalFiltering = rapid.Bool().Draw(t, "local")
	// Case variants are sent only when the server does the filtering: the wire parameter is
	// case-insensitive, the Go option used for local filtering is not documented to be.
	mixed := !c.LocalFiltering
	c.FilterAddrs = genAddrFilter(t, mixed)
	c.SetProtoFilter = rapid.IntRange(0, 4).Draw(t, "setproto") > 0
	if c.SetProtoFilter {
		c.FilterProtos = genProtoFilter(t, mixed)
	}
	c.Mode = rapid.SampledFrom([]string{"json", "ndjson", "ndjson-required"}).Draw(t, "mode")
	lim := rapid.OneOf(rapid.IntRange(0, 40), rapid.IntRange(0, 5), rapid.Just(0))
	if c.SetLimitJSON = rapid.IntRange(0, 3).Draw(t, "setlj") > 0; c.SetLimitJSON {
		c.LimitJSON = lim.Draw(t, "limjson")
	}
	if c.SetLimitND = rapid.IntRange(0, 3).Draw(t, "setln") > 0; c.SetLimitND {
		c.LimitND = lim.Draw(t, "limnd")
	}
	c.Socket = rapid.IntRange(0, 9).Draw(t, "socket") == 0
	return c
}

func run(c Case) kit.Result {
	fr := &fakeRouter{recs: c.Records}
	sopts := []server.Option{server.WithPrometheusRegistry(prometheus.NewRegistry())}
	if c.Mode == "json" {
		sopts = append(sopts, server.WithStreamingResultsDisabled())
	}
	if c.SetLimitJSON {
		sopts = append(sopts, server.WithRecordsLimit(c.LimitJSON))
	}
	if c.SetLimitND {
		sopts = append(sopts, server.WithStreamingRecordsLimit(c.LimitND))
	}
	h := server.Handler(fr, sopts...)
	base, hc, cleanup := endpoint(h, c.Socket)
	defer cleanup()

	copts := []client.Option{client.WithHTTPClient(hc), client.WithDisabledLocalFiltering(!c.LocalFiltering)}
	copts = append(copts, client.WithAddrFilter(append([]string(nil), c.FilterAddrs...)))
	if c.SetProtoFilter {
		copts = append(copts, client.WithProtocolFilter(append([]string(nil), c.FilterProtos...)))
	}
	if c.Mode == "ndjson-required" {
		copts = append(copts, client.WithStreamResultsRequired())
	}
	cl, err := client.New(base, copts...)
	if err != nil {
		return kit.Fail("client.New: %v", err)
	}

	// reference
	fa := lowerAll(c.FilterAddrs)
	fp := []string{"unknown", "transport-bitswap"} // client.DefaultProtocolFilter (IPIP-484)
	if c.SetProtoFilter {
		fp = lowerAll(c.FilterProtos)
	}
	limit := 20 // server.DefaultRecordsLimit
	if c.SetLimitJSON {
		limit = c.LimitJSON
	}
	if c.Mode != "json" {
		limit = 0 // server.DefaultStreamingRecordsLimit
		if c.SetLimitND {
			limit = c.LimitND
		}
	}
	var want []outRec
	partial, dropped := false, 0
	for _, r := range c.Records {
		o, keep, part := refFilter(r, fa, fp)
		if !keep {
			dropped++
			continue
		}
		partial = partial || part
		want = append(want, o)
	}
	kept := len(want)
	if limit > 0 && len(want) > limit {
		want = want[:limit]
	}

	// the real thing
	ctx := context.Background()
	var got []outRec
	conv := func(id *peer.ID, protos []string, addrs []types.Multiaddr) outRec {
		o := outRec{Protocols: protos}
		if id != nil {
			o.ID = id.String()
		}
		for _, a := range addrs {
			o.Addrs = append(o.Addrs, a.String())
		}
		return o
	}
	switch c.Op {
	case "providers":
		key := cid.NewCidV1(cid.Raw, mh.Multihash(peerID(9999)))
		it, err := cl.FindProviders(ctx, key)
		if err != nil {
			return kit.Fail("FindProviders: %v", err)
		}
		for it.Next() {
			v := it.Val()
			if v.Err != nil {
				it.Close()
				return kit.Fail("FindProviders: record %d: %v", len(got), v.Err)
			}
			switch r := v.Val.(type) {
			case *types.PeerRecord:
				got = append(got, conv(r.ID, r.Protocols, r.Addrs))
			//lint:ignore SA1019 legacy schema
			case *types.BitswapRecord:
				got = append(got, conv(r.ID, []string{r.Protocol}, r.Addrs))
			default:
				it.Close()
				return kit.Fail("FindProviders: record %d has unexpected type %T", len(got), v.Val)
			}
		}
		it.Close()
	default:
		it, err := cl.FindPeers(ctx, peerID(7777))
		if err != nil {
			return kit.Fail("FindPeers: %v", err)
		}
		for it.Next() {
			v := it.Val()
			if v.Err != nil {
				it.Close()
				return kit.Fail("FindPeers: record %d: %v", len(got), v.Err)
			}
			got = append(got, conv(v.Val.ID, v.Val.Protocols, v.Val.Addrs))
		}
		it.Close()
	}

	eq := func(a, b []string) bool {
		if len(a) != len(b) {
			return false
		}
		for i := range a {
			if a[i] != b[i] {
				return false
			}
		}
		return true
	}
	same := len(got) == len(want)
	for i := 0; same && i < len(got); i++ {
		same = got[i].ID == want[i].ID && eq(got[i].Protocols, want[i].Protocols) && eq(got[i].Addrs, want[i].Addrs)
	}
	if !same {
		i := 0
		for i < len(got) && i < len(want) && got[i].ID == want[i].ID && eq(got[i].Protocols, want[i].Protocols) && eq(got[i].Addrs, want[i].Addrs) {
			i++
		}
		g, w := "<none>", "<none>"
		if i < len(got) {
			g = got[i].String()
		}
		if i < len(want) {
			w = want[i].String()
		}
		return kit.Fail("%s mode=%s filter-addrs=%v filter-protocols=%v limit=%d: client received %d records, IPIP-484 reference keeps %d; first difference at #%d: got %s want %s",
			c.Op, c.Mode, fa, fp, limit, len(got), len(want), i, g, w)
	}

	cls := []string{"op:" + c.Op, "mode:" + c.Mode}
	if c.LocalFiltering {
		cls = append(cls, "local-filtering")
	}
	if c.Socket && loopbackOK() {
		cls = append(cls, "socket")
	}
	if limit > 0 && kept > limit {
		cls = append(cls, "limit-cuts")
	}
	if partial {
		cls = append(cls, "pos+neg-partial-addrs")
	}
	if dropped > 0 && kept > 0 {
		cls = append(cls, "some-dropped")
	}
	if len(fa) == 0 && len(fp) == 0 {
		cls = append(cls, "no-filter")
	}
	if contains(fa, "unknown") || contains(fp, "unknown") {
		cls = append(cls, "unknown-term")
	}
	return kit.Result{NonTrivial: partial && len(want) > 0, Classes: cls}
}

func sample(c Case) any {
	if len(c.Records) <= 3 {
		return c
	}
	cc := c
	cc.Records = c.Records[:2]
	return map[string]any{"records_total": len(c.Records), "config_and_first_records": cc}
}

var spec = kit.Spec[Case]{
	Prop: "C42", Name: "filters",
	Rule: "0-30 peer / legacy bitswap records (0-3 protocols incl. none and mixed case, 0-6 multiaddrs from tcp/udp/quic-v1/webtransport/ws/wss/tls/http(s)/webrtc-direct/p2p-circuit templates) served by server.Handler over a fake router; client with filter-addrs (positive, !negated, unknown, unregistered names; case variants when the server filters) and filter-protocols (or the client default), server limits 0..40 for JSON and NDJSON, local filtering on/off, in-memory transport or loopback socket; result compared with an independent IPIP-484 implementation; non-trivial = address filter has positive and negated terms and removes some but not all addresses of a kept record",
	Quick: 1200, Thorough: 2500,
	Gen: gen, Run: run, Sample: sample,
}

func TestPropFilters(t *testing.T) { kit.All(t, spec) }

// ---------------------------------------------------------------------------
// sub-check "ipns": GET after PUT, invalid PUT rejected

type IPNSCase struct {
	KeyKind   string `json:"key_kind"` // ed25519 | secp256k1
	KeySeed   int    `json:"key_seed"`
	Value     int    `json:"value"` // index into valuePaths
	Seq       uint64 `json:"seq"`
	TTLSec    int    `json:"ttl_sec"`
	V1Compat  bool   `json:"v1_compat"`
	EmbedPK   bool   `json:"embed_pk"`
	Tamper    string `json:"tamper"` // none | wrong-name | expired | sig | data | garbage | empty | truncated | oversize | v1-mismatch | v1-only
	TamperPos int    `json:"tamper_pos"`
	Existing  bool   `json:"existing"` // a valid record is stored before the invalid PUT
	Socket    bool   `json:"socket"`
}

var valuePaths = []string{
	"/ipfs/bafkreifjjcie6lypi6ny7amxnfftagclbuxndqonfipmb64f2km2devei4",
	"/ipfs/QmbWqxBEKC3P8tqsKc98xmWNzrzDtRLMiMPL8wBuTGsMnR",
	"/ipfs/bafybeigdyrzt5sfp7udm7hu76uh7y26nf3efuylqabf3oclgtqy55fbzdi/dir/file with space.txt",
	"/ipns/k51qzi5uqu5dlvj2baxnqndepeb86cbk3ng7n3i46uzyxzyqj2xjonzllnv0v8",
	"/ipns/example.com/sub/path",
}

var tampers = []string{"none", "none", "none", "wrong-name", "expired", "sig", "data", "garbage", "empty", "truncated", "oversize", "v1-mismatch", "v1-only"}

func genIPNS(t *rapid.T) IPNSCase {
	return IPNSCase{
		KeyKind:   rapid.SampledFrom([]string{"ed25519", "ed25519", "secp256k1"}).Draw(t, "keykind"),
		KeySeed:   rapid.IntRange(0, 1000).Draw(t, "keyseed"),
		Value:     rapid.IntRange(0, len(valuePaths)-1).Draw(t, "value"),
		Seq:       rapid.OneOf(rapid.Uint64Range(0, 5), rapid.Uint64()).Draw(t, "seq"),
		TTLSec:    rapid.SampledFrom([]int{0, 1, 60, 3600, 86400 * 365}).Draw(t, "ttl"),
		V1Compat:  rapid.Bool().Draw(t, "v1"),
		EmbedPK:   rapid.Bool().Draw(t, "embedpk"),
		Tamper:    rapid.SampledFrom(tampers).Draw(t, "tamper"),
		TamperPos: rapid.IntRange(0, 4096).Draw(t, "pos"),
		Existing:  rapid.Bool().Draw(t, "existing"),
		Socket:    rapid.IntRange(0, 9).Draw(t, "socket") == 0,
	}
}

type seedReader struct {
	state [32]byte
	buf   []byte
}

func (s *seedReader) Read(p []byte) (int, error) {
	for i := range p {
		if len(s.buf) == 0 {
			s.state = sha256.Sum256(s.state[:])
			s.buf = append([]byte(nil), s.state[:]...)
		}
		p[i] = s.buf[0]
		s.buf = s.buf[1:]
	}
	return len(p), nil
}

func makeKey(kind string, seed int) crypto.PrivKey {
	st := sha256.Sum256([]byte(fmt.Sprintf("verif-c42-%s-%d", kind, seed)))
	if kind == "secp256k1" {
		k, err := crypto.UnmarshalSecp256k1PrivateKey(st[:])
		if err != nil {
			panic(err)
		}
		return k
	}
	k, _, err := crypto.GenerateEd25519Key(&seedReader{state: st})
	if err != nil {
		panic(err)
	}
	return k
}

var (
	farFuture = time.Date(2100, 1, 1, 0, 0, 0, 0, time.UTC)
	longPast  = time.Date(2001, 1, 1, 0, 0, 0, 0, time.UTC)
)

func rawPut(hc *http.Client, base string, name ipns.Name, body []byte) (int, error) {
	req, err := http.NewRequest(http.MethodPut, base+"/routing/v1/ipns/"+name.String(), bytes.NewReader(body))
	if err != nil {
		return 0, err
	}
	req.Header.Set("Content-Type", "application/vnd.ipfs.ipns-record")
	resp, err := hc.Do(req)
	if err != nil {
		return 0, err
	}
	io.Copy(io.Discard, resp.Body)
	resp.Body.Close()
	return resp.StatusCode, nil
}

func rawGet(hc *http.Client, base string, name ipns.Name) (int, string, []byte, error) {
	req, err := http.NewRequest(http.MethodGet, base+"/routing/v1/ipns/"+name.String(), nil)
	if err != nil {
		return 0, "", nil, err
	}
	req.Header.Set("Accept", "application/vnd.ipfs.ipns-record")
	resp, err := hc.Do(req)
	if err != nil {
		return 0, "", nil, err
	}
	b, err := io.ReadAll(resp.Body)
	resp.Body.Close()
	return resp.StatusCode, resp.Header.Get("Content-Type"), b, err
}

func runIPNS(c IPNSCase) kit.Result {
	ctx := context.Background()
	sk := makeKey(c.KeyKind, c.KeySeed)
	pid, err := peer.IDFromPrivateKey(sk)
	if err != nil {
		panic(err)
	}
	name := ipns.NameFromPeer(pid)
	val, err := path.NewPath(valuePaths[c.Value])
	if err != nil {
		panic(err)
	}
	ropts := []ipns.Option{ipns.WithV1Compatibility(c.V1Compat), ipns.WithPublicKey(c.EmbedPK)}
	ttl := time.Duration(c.TTLSec) * time.Second
	good, err := ipns.NewRecord(sk, val, c.Seq, farFuture, ttl, ropts...)
	if err != nil {
		return kit.Fail("NewRecord: %v", err)
	}
	goodBytes, err := ipns.MarshalRecord(good)
	if err != nil {
		return kit.Fail("MarshalRecord: %v", err)
	}

	fr := &fakeRouter{}
	h := server.Handler(fr, server.WithPrometheusRegistry(prometheus.NewRegistry()))
	base, hc, cleanup := endpoint(h, c.Socket)
	defer cleanup()
	cl, err := client.New(base, client.WithHTTPClient(hc))
	if err != nil {
		return kit.Fail("client.New: %v", err)
	}

	checkGet := func(wantBytes []byte, when string) *kit.Result {
		rec, err := cl.GetIPNS(ctx, name)
		if wantBytes == nil {
			if err == nil {
				r := kit.Fail("%s: GetIPNS returned a record although none was accepted", when)
				return &r
			}
			return nil
		}
		if err != nil {
			r := kit.Fail("%s: GetIPNS: %v", when, err)
			return &r
		}
		gb, err := ipns.MarshalRecord(rec)
		if err != nil || !bytes.Equal(gb, wantBytes) {
			r := kit.Fail("%s: GetIPNS returned a record that differs from the one PUT (%d vs %d bytes, err %v)", when, len(gb), len(wantBytes), err)
			return &r
		}
		st, ct, body, err := rawGet(hc, base, name)
		if err != nil || st != 200 || !strings.Contains(ct, "application/vnd.ipfs.ipns-record") || !bytes.Equal(body, wantBytes) {
			r := kit.Fail("%s: raw GET status=%d content-type=%q body %d bytes (PUT %d bytes) err=%v", when, st, ct, len(body), len(wantBytes), err)
			return &r
		}
		return nil
	}

	cls := []string{"tamper:" + c.Tamper, "key:" + c.KeyKind}
	if c.Tamper == "none" {
		if r := checkGet(nil, "before PUT"); r != nil {
			return *r
		}
		if err := cl.PutIPNS(ctx, name, good); err != nil {
			return kit.Fail("PutIPNS of a valid record failed: %v", err)
		}
		if fr.puts != 1 {
			return kit.Fail("valid PUT reached the router %d times", fr.puts)
		}
		if r := checkGet(goodBytes, "after PUT"); r != nil {
			return *r
		}
		// raw PUT of the same bytes is accepted as well
		if st, err := rawPut(hc, base, name, goodBytes); err != nil || st != 200 {
			return kit.Fail("raw PUT of a valid record: status %d err %v", st, err)
		}
		return kit.Result{NonTrivial: true, Classes: cls}
	}

	// --- invalid PUT ---
	var stored []byte
	if c.Existing {
		if err := cl.PutIPNS(ctx, name, good); err != nil {
			return kit.Fail("PutIPNS of a valid record failed: %v", err)
		}
		stored = goodBytes
	}
	putsBefore := fr.puts

	target := name
	var bad []byte
	flip := func(b []byte) []byte {
		out := append([]byte(nil), b...)
		out[c.TamperPos%len(out)] ^= 0x01 << (c.TamperPos % 8)
		return out
	}
	editPB := func(f func(p *ipns_pb.IpnsRecord)) []byte {
		var p ipns_pb.IpnsRecord
		if err := proto.Unmarshal(goodBytes, &p); err != nil {
			panic(err)
		}
		f(&p)
		b, err := proto.Marshal(&p)
		if err != nil {
			panic(err)
		}
		return b
	}
	switch c.Tamper {
	case "wrong-name":
		other := makeKey(c.KeyKind, c.KeySeed+5000)
		opid, _ := peer.IDFromPrivateKey(other)
		target = ipns.NameFromPeer(opid)
		bad = goodBytes
		stored = nil // nothing was ever stored under the other name
	case "expired":
		r, err := ipns.NewRecord(sk, val, c.Seq+1, longPast, ttl, ropts...)
		if err != nil {
			return kit.Fail("NewRecord(expired): %v", err)
		}
		bad, _ = ipns.MarshalRecord(r)
	case "sig":
		bad = editPB(func(p *ipns_pb.IpnsRecord) { p.SignatureV2 = flip(p.SignatureV2) })
	case "data":
		bad = editPB(func(p *ipns_pb.IpnsRecord) { p.Data = flip(p.Data) })
	case "garbage":
		sr := &seedReader{state: sha256.Sum256([]byte(fmt.Sprint("garbage", c.TamperPos)))}
		bad = make([]byte, 1+c.TamperPos%300)
		sr.Read(bad)
	case "empty":
		bad = []byte{}
	case "truncated":
		bad = goodBytes[:1+c.TamperPos%(len(goodBytes)-1)]
	case "oversize":
		big, err := path.NewPath(valuePaths[0] + "/" + strings.Repeat("a", ipns.MaxRecordSize+c.TamperPos))
		if err != nil {
			panic(err)
		}
		r, err := ipns.NewRecord(sk, big, c.Seq+1, farFuture, ttl, ropts...)
		if err != nil {
			// the library refuses to build it: nothing to PUT
			return kit.Result{Classes: append(cls, "oversize-not-constructible")}
		}
		bad, _ = ipns.MarshalRecord(r)
	case "v1-mismatch":
		if !c.V1Compat {
			return kit.Result{Classes: append(cls, "skipped-no-v1")}
		}
		bad = editPB(func(p *ipns_pb.IpnsRecord) { p.Value = []byte(valuePaths[(c.Value+1)%len(valuePaths)]) })
	case "v1-only":
		if !c.V1Compat {
			return kit.Result{Classes: append(cls, "skipped-no-v1")}
		}
		bad = editPB(func(p *ipns_pb.IpnsRecord) { p.SignatureV2 = nil; p.Data = nil })
	default:
		panic("unknown tamper " + c.Tamper)
	}

	st, err := rawPut(hc, base, target, bad)
	if err != nil {
		return kit.Fail("raw PUT transport error: %v", err)
	}
	if st == 200 {
		return kit.Fail("invalid record (%s, %d bytes) accepted by PUT (status 200)", c.Tamper, len(bad))
	}
	if fr.puts != putsBefore {
		return kit.Fail("invalid record (%s) reached the router although PUT answered %d", c.Tamper, st)
	}
	if rec, err := ipns.UnmarshalRecord(bad); err == nil {
		cls = append(cls, "parses")
		if err := cl.PutIPNS(ctx, target, rec); err == nil {
			return kit.Fail("client.PutIPNS of an invalid record (%s) returned nil", c.Tamper)
		}
		if fr.puts != putsBefore {
			return kit.Fail("invalid record (%s) reached the router through client.PutIPNS", c.Tamper)
		}
	}
	name = target
	if r := checkGet(stored, "after rejected PUT"); r != nil {
		return *r
	}
	return kit.Result{NonTrivial: true, Classes: cls}
}

var specIPNS = kit.Spec[IPNSCase]{
	Prop: "C42", Name: "ipns",
	Rule: "signed IPNS records (ed25519/secp256k1 keys from a seed, 5 value paths, any sequence, TTL, with/without V1 compatibility and embedded public key) PUT through the HTTP client and read back (client GetIPNS and raw GET must return the PUT bytes); invalid variants (other name, expired, flipped signature/data byte, garbage, empty, truncated, oversize, V1 value mismatch, V1-only) must be answered non-200, never reach the router and leave a previously stored record readable; non-trivial = a PUT was actually attempted",
	Quick: 400, Thorough: 1500,
	Gen: genIPNS, Run: runIPNS,
}

func TestPropIPNS(t *testing.T) { kit.All(t, specIPNS) }
