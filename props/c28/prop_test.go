package c28

import (
	"bytes"
	"encoding/json"
	"fmt"
	"strings"
	"testing"

	"github.com/ipfs/boxo/ipns"
	"github.com/ipfs/boxo/path"
	cid "github.com/ipfs/go-cid"
	"github.com/libp2p/go-libp2p/core/peer"
	mb "github.com/multiformats/go-multibase"
	mh "github.com/multiformats/go-multihash"
	"pgregory.net/rapid"
	"verif/kit"
)

func TestMain(m *testing.M) { kit.Main(m) }

// ---------------------------------------------------------------------------
// oracle for one path string (shared with the fuzz target)

type pathFacts struct {
	accepted bool
	hadDots  bool // input had a "." / ".." segment or a repeated slash
}

func rootOf(p path.Path) (cid.Cid, bool, error) {
	if p.Mutable() {
		return cid.Undef, false, nil
	}
	ip, err := path.NewImmutablePath(p)
	if err != nil {
		return cid.Undef, true, err
	}
	if q, ok := p.(path.ImmutablePath); ok && !q.RootCid().Equals(ip.RootCid()) {
		return cid.Undef, true, fmt.Errorf("RootCid %s differs from NewImmutablePath's %s", q.RootCid(), ip.RootCid())
	}
	return ip.RootCid(), true, nil
}

// samePath compares String, Namespace, Mutable, Segments and (immutable paths) root CID.
func samePath(a, b path.Path) error {
	if a.String() != b.String() {
		return fmt.Errorf("String %q vs %q", a.String(), b.String())
	}
	if a.Namespace() != b.Namespace() {
		return fmt.Errorf("Namespace %q vs %q", a.Namespace(), b.Namespace())
	}
	if a.Mutable() != b.Mutable() {
		return fmt.Errorf("Mutable %v vs %v", a.Mutable(), b.Mutable())
	}
	sa, sb := a.Segments(), b.Segments()
	if len(sa) != len(sb) {
		return fmt.Errorf("Segments %q vs %q", sa, sb)
	}
	for i := range sa {
		if sa[i] != sb[i] {
			return fmt.Errorf("Segments %q vs %q", sa, sb)
		}
	}
	ra, ia, ea := rootOf(a)
	rb, ib, eb := rootOf(b)
	if ea != nil || eb != nil {
		return fmt.Errorf("root CID: %v / %v", ea, eb)
	}
	if ia != ib || (ia && !ra.Equals(rb)) {
		return fmt.Errorf("root CID %v vs %v", ra, rb)
	}
	return nil
}

func checkPath(s string) (pathFacts, error) {
	var f pathFacts
	for _, seg := range strings.Split(s, "/") {
		if seg == "." || seg == ".." {
			f.hadDots = true
		}
	}
	if strings.Contains(s, "//") {
		f.hadDots = true
	}
	p, err := path.NewPath(s)
	if err != nil {
		return f, nil
	}
	if p == nil {
		return f, fmt.Errorf("NewPath(%q) returned nil path and nil error", s)
	}
	f.accepted = true
	ps := p.String()
	ns := p.Namespace()
	if ns != path.IPFSNamespace && ns != path.IPNSNamespace && ns != path.IPLDNamespace {
		return f, fmt.Errorf("NewPath(%q): namespace %q", s, ns)
	}
	if p.Mutable() != (ns == path.IPNSNamespace) {
		return f, fmt.Errorf("NewPath(%q): Mutable()=%v for namespace %q", s, p.Mutable(), ns)
	}
	if !strings.HasPrefix(ps, "/"+ns+"/") {
		return f, fmt.Errorf("NewPath(%q) prints %q, which does not start with /%s/", s, ps, ns)
	}
	// printed form has no dot segments
	for _, seg := range strings.Split(ps, "/") {
		if seg == "." || seg == ".." {
			return f, fmt.Errorf("NewPath(%q) prints %q, which has a %q segment", s, ps, seg)
		}
	}
	// documented: the final trailing slash is preserved
	if strings.HasSuffix(s, "/") != strings.HasSuffix(ps, "/") {
		return f, fmt.Errorf("NewPath(%q) prints %q: trailing slash not preserved", s, ps)
	}
	// Segments contract (Path interface docs)
	segs := p.Segments()
	if len(segs) < 2 || segs[0] != ns {
		return f, fmt.Errorf("NewPath(%q): Segments() = %q", s, segs)
	}
	for _, sg := range segs {
		if sg == "" || sg == "." || sg == ".." {
			return f, fmt.Errorf("NewPath(%q): Segments() = %q has an empty or dot segment", s, segs)
		}
	}
	if "/"+strings.Join(segs, "/") != strings.TrimSuffix(ps, "/") {
		return f, fmt.Errorf("NewPath(%q): Segments() %q do not spell the printed form %q", s, segs, ps)
	}
	if _, imm, err := rootOf(p); err != nil || imm != (ns != path.IPNSNamespace) {
		return f, fmt.Errorf("NewPath(%q): immutable path without root CID: %v", s, err)
	}
	// idempotence
	p2, err := path.NewPath(ps)
	if err != nil {
		return f, fmt.Errorf("NewPath(%q) prints %q, which does not re-parse: %v", s, ps, err)
	}
	if err := samePath(p, p2); err != nil {
		return f, fmt.Errorf("NewPath(%q) prints %q; re-parsing it differs: %v", s, ps, err)
	}
	// a canonical path is handed to NewPath unchanged by NewPathFromURI
	p3, err := path.NewPathFromURI(ps)
	if err != nil {
		return f, fmt.Errorf("NewPathFromURI(%q) (a canonical path): %v", ps, err)
	}
	if err := samePath(p, p3); err != nil {
		return f, fmt.Errorf("NewPathFromURI(%q) differs from NewPath: %v", ps, err)
	}
	return f, nil
}

func lowerASCII(s string) string {
	b := []byte(s)
	for i, c := range b {
		if c >= 'A' && c <= 'Z' {
			b[i] = c + 32
		}
	}
	return string(b)
}

// checkURI: scheme (any ASCII case of ipfs/ipns/ipld) + ":" [+ "//"] + rest must map to the
// same path as "/" + namespace + "/" + rest (or both must be rejected).
func checkURI(scheme string, slashes bool, rest string) (bool, error) {
	u := scheme + ":"
	if slashes {
		u += "//"
	}
	u += rest
	canon := "/" + lowerASCII(scheme) + "/" + rest
	pu, eu := path.NewPathFromURI(u)
	pc, ec := path.NewPath(canon)
	if (eu == nil) != (ec == nil) {
		return false, fmt.Errorf("NewPathFromURI(%q): err=%v, but NewPath(%q): err=%v", u, eu, canon, ec)
	}
	if eu != nil {
		return false, nil
	}
	if err := samePath(pu, pc); err != nil {
		return true, fmt.Errorf("NewPathFromURI(%q) differs from NewPath(%q): %v", u, canon, err)
	}
	return true, nil
}

// ---------------------------------------------------------------------------
// sub-check "path"

type PathCase struct {
	S string `json:"s"`
	// Scheme != "": S is the part after the scheme; the URI Scheme:[//]S is compared with
	// the canonical /scheme/S, and the path oracle runs on the canonical string.
	Scheme  string `json:"scheme,omitempty"`
	Slashes bool   `json:"slashes,omitempty"`
}

var nsPool = []string{"ipfs", "ipfs", "ipfs", "ipns", "ipns", "ipld", "IPFS", "Ipns", "ipfs2", "", "http", "ipf"}
var schemePool = []string{"ipfs", "ipns", "ipld", "IPFS", "IPNS", "IPLD", "IpFs", "iPnS", "ipLD"}
var sepPool = []string{"/", "/", "/", "/", "//", "/./", "/../", "///"}
var oddSegs = []string{".", "..", "...", "..a", ".a", "a..", "%2e%2e", "%2F", " ", "日本", "ü", "\x00", "a\\b", "?q=1", "#frag", "ipfs:", ":", "‮", "é"}
var badRoots = []string{"notacid", "QmInvalid", "bafyinvalid", ".", "..", "", "Qm", "b", "z", "k51"}
var dnsRoots = []string{"example.com", "en.wikipedia-on-ipfs.org", "a.b", "localhost", "EXAMPLE.com", "xn--bcher-kva.example"}

func genRoot(t *rapid.T) string {
	switch rapid.IntRange(0, 9).Draw(t, "rootclass") {
	case 0, 1, 2, 3:
		return rapid.SampledFrom(kit.IpnsCidStrings()).Draw(t, "cid")
	case 4, 5:
		return rapid.SampledFrom(kit.IpnsNameStrings()).Draw(t, "name")
	case 6:
		return rapid.SampledFrom(dnsRoots).Draw(t, "dns")
	case 7:
		return rapid.SampledFrom(badRoots).Draw(t, "bad")
	case 8:
		return strings.ToUpper(rapid.SampledFrom(kit.IpnsCidStrings()).Draw(t, "cid"))
	default:
		return kit.Names().Draw(t, "nameroot")
	}
}

func genTail(t *rapid.T) string {
	var sb strings.Builder
	n := rapid.SampledFrom([]int{0, 0, 1, 1, 2, 3, 5}).Draw(t, "nseg")
	for i := 0; i < n; i++ {
		sb.WriteString(rapid.SampledFrom(sepPool).Draw(t, "sep"))
		if rapid.IntRange(0, 2).Draw(t, "odd") == 0 {
			sb.WriteString(rapid.SampledFrom(oddSegs).Draw(t, "oddseg"))
		} else {
			sb.WriteString(kit.Names().Draw(t, "seg"))
		}
	}
	sb.WriteString(rapid.SampledFrom([]string{"", "", "", "/", "/", "//", "/.", "/..", "/./", "/../"}).Draw(t, "trail"))
	return sb.String()
}

func genPath(t *rapid.T) PathCase {
	c := PathCase{}
	if rapid.IntRange(0, 3).Draw(t, "uri") == 0 {
		c.Scheme = rapid.SampledFrom(schemePool).Draw(t, "scheme")
		c.Slashes = rapid.IntRange(0, 3).Draw(t, "slashes") != 0
		c.S = rapid.SampledFrom([]string{"", "", "", "/", "//", "./", "../"}).Draw(t, "lead") + genRoot(t) + genTail(t)
		return c
	}
	switch rapid.IntRange(0, 11).Draw(t, "shape") {
	case 0:
		c.S = rapid.String().Draw(t, "any")
	case 1:
		c.S = rapid.SampledFrom([]string{"", "/", "//", "/ipfs", "/ipfs/", "/ipns//", "/.", "/..", ".", "ipfs/" + kit.IpnsCidStrings()[0], "/ipfs/../ipns/example.com", "/ipfs/./" + kit.IpnsCidStrings()[1]}).Draw(t, "const")
	default:
		lead := rapid.SampledFrom([]string{"/", "/", "/", "/", "/", "//", "/./", "/../", "", "/x/../", "/ipfs/../", "/ipns/a/../../"}).Draw(t, "lead")
		ns := rapid.SampledFrom(nsPool).Draw(t, "ns")
		sep := rapid.SampledFrom(sepPool).Draw(t, "nssep")
		if sep == "/../" {
			sep = "/"
		}
		c.S = lead + ns + sep + genRoot(t) + genTail(t)
	}
	return c
}

func runPath(c PathCase) kit.Result {
	s := c.S
	var cls []string
	if c.Scheme != "" {
		ok, err := checkURI(c.Scheme, c.Slashes, c.S)
		if err != nil {
			return kit.Fail("%v", err)
		}
		cls = append(cls, "uri", fmt.Sprintf("uri-accepted:%v", ok))
		s = "/" + lowerASCII(c.Scheme) + "/" + c.S
	} else {
		// a string that is not an IPFS URI is handed to NewPath unchanged
		if !strings.Contains(s, ":") {
			pu, eu := path.NewPathFromURI(s)
			pc, ec := path.NewPath(s)
			if (eu == nil) != (ec == nil) {
				return kit.Fail("NewPathFromURI(%q): err=%v, NewPath: err=%v", s, eu, ec)
			}
			if eu == nil {
				if err := samePath(pu, pc); err != nil {
					return kit.Fail("NewPathFromURI(%q) differs from NewPath: %v", s, err)
				}
			}
		}
	}
	f, err := checkPath(s)
	if err != nil {
		return kit.Fail("%v", err)
	}
	cls = append(cls, fmt.Sprintf("accepted:%v", f.accepted))
	if f.accepted {
		p, _ := path.NewPath(s)
		cls = append(cls, "ns:"+p.Namespace())
		if strings.HasSuffix(s, "/") {
			cls = append(cls, "trailing-slash")
		}
	}
	if f.hadDots {
		cls = append(cls, "dirty")
	}
	return kit.Result{NonTrivial: f.accepted && f.hadDots, Classes: cls}
}

var pathSpec = kit.Spec[PathCase]{
	Prop: "C28", Name: "path",
	Rule:  "string assembled from path fragments (namespaces incl. case variants and unknown ones, CIDs v0/v1 in base32/36/58/16/64url and upper-cased, peer IDs / IPNS names, DNSLink names, '.', '..', repeated and trailing slashes, unicode, control bytes) or fully random; NewPath accepted => printed form re-parses to the same String/Namespace/Segments/root CID, has no dot segment, keeps the trailing slash; URI cases: scheme (any ASCII case) ':' ['//'] rest compared with /ns/rest; non-trivial = input had a dot segment or a repeated slash and was accepted",
	Quick: 12000, Thorough: 60000,
	Gen: genPath, Run: runPath,
}

func TestPropPath(t *testing.T) { kit.All(t, pathSpec) }

// ---------------------------------------------------------------------------
// sub-check "name"

type NameCase struct {
	Kind   string          `json:"kind"` // key | digest | identity
	Key    kit.IpnsKeySpec `json:"key"`
	Digest []byte          `json:"digest,omitempty"` // 32 bytes
	// Off: the routing key is parsed from the window [Off, Off+len) of a larger caller-owned
	// scratch buffer, which the caller reuses afterwards.
	Off int `json:"off,omitempty"`
}

func genName(t *rapid.T) NameCase {
	c := NameCase{Kind: rapid.SampledFrom([]string{"key", "key", "digest", "identity"}).Draw(t, "kind")}
	switch c.Kind {
	case "key":
		c.Key = kit.IpnsKeySpecs().Draw(t, "key")
		if c.Key.Type == "ed25519" || c.Key.Type == "secp256k1" {
			c.Key.Seed = rapid.Uint64().Draw(t, "wideseed")
		}
	default:
		c.Key = kit.IpnsKeySpec{Type: "none"}
		c.Digest = rapid.SliceOfN(rapid.Byte(), 32, 32).Draw(t, "digest")
	}
	c.Off = rapid.SampledFrom([]int{0, 0, 1, 6, 7, 16, 64}).Draw(t, "off")
	return c
}

// safeString prints a name that may have become invalid (String panics on those).
func safeString(n ipns.Name) (s string) {
	defer func() {
		if r := recover(); r != nil {
			s = fmt.Sprintf("<invalid name, multihash %x>", string(n.Peer()))
		}
	}()
	return n.String()
}

func peerOf(c NameCase) (peer.ID, error) {
	switch c.Kind {
	case "key":
		sk, err := kit.IpnsKey(c.Key)
		if err != nil {
			return "", err
		}
		return peer.IDFromPublicKey(sk.GetPublic())
	case "digest": // the shape of an RSA / ECDSA peer ID: sha2-256 multihash of the key bytes
		if len(c.Digest) != 32 {
			return "", fmt.Errorf("digest must have 32 bytes")
		}
		m, err := mh.Encode(c.Digest, mh.SHA2_256)
		if err != nil {
			return "", err
		}
		return peer.ID(m), nil
	case "identity": // the shape of an Ed25519 peer ID: identity multihash of the PublicKey message
		if len(c.Digest) != 32 {
			return "", fmt.Errorf("digest must have 32 bytes")
		}
		pb := append([]byte{0x08, 0x01, 0x12, 0x20}, c.Digest...)
		m, err := mh.Encode(pb, mh.IDENTITY)
		if err != nil {
			return "", err
		}
		return peer.ID(m), nil
	}
	return "", fmt.Errorf("unknown kind %q", c.Kind)
}

func runName(c NameCase) kit.Result {
	pid, err := peerOf(c)
	if err != nil {
		return kit.Fail("harness: %v", err)
	}
	n := ipns.NameFromPeer(pid)
	// peer-ID form
	if n.Peer() != pid {
		return kit.Fail("NameFromPeer(p).Peer() != p")
	}
	if !ipns.NameFromPeer(n.Peer()).Equal(n) {
		return kit.Fail("NameFromPeer(n.Peer()) != n")
	}
	// string form
	s := n.String()
	for _, form := range []string{s, ipns.NamespacePrefix + s, pid.String()} {
		n2, err := ipns.NameFromString(form)
		if err != nil {
			return kit.Fail("NameFromString(%q): %v", form, err)
		}
		if !n2.Equal(n) || n2.String() != s {
			return kit.Fail("NameFromString(%q) = %s, want %s", form, n2, s)
		}
	}
	// CID form
	c1 := n.Cid()
	if !c1.Defined() || c1.Version() != 1 || c1.Type() != cid.Libp2pKey || !bytes.Equal(c1.Hash(), []byte(pid)) {
		return kit.Fail("Cid() = %v is not the CIDv1 libp2p-key of the name's multihash", c1)
	}
	n3, err := ipns.NameFromCid(c1)
	if err != nil || !n3.Equal(n) {
		return kit.Fail("NameFromCid(n.Cid()) = %v, %v", n3, err)
	}
	if dc, err := cid.Decode(s); err != nil || !dc.Equals(c1) {
		return kit.Fail("String() %q does not decode to Cid(): %v", s, err)
	}
	if enc, _, err := mb.Decode(s); err != nil || enc != mb.Base36 {
		return kit.Fail("String() %q is not base36 (%v)", s, err)
	}
	if s32, err := c1.StringOfBase(mb.Base32); err == nil {
		n4, err := ipns.NameFromString(s32)
		if err != nil || !n4.Equal(n) {
			return kit.Fail("NameFromString(base32 CID %q) = %v, %v", s32, n4, err)
		}
	}
	// routing-key form
	rk := n.RoutingKey()
	if !bytes.Equal(rk, append([]byte(ipns.NamespacePrefix), []byte(pid)...)) {
		return kit.Fail("RoutingKey() is not /ipns/ + multihash")
	}
	n5, err := ipns.NameFromRoutingKey(rk)
	if err != nil || !n5.Equal(n) {
		return kit.Fail("NameFromRoutingKey(n.RoutingKey()) = %v, %v", n5, err)
	}
	// A Name is a value: the slice handed to NameFromRoutingKey / UnmarshalJSON and the slice
	// returned by RoutingKey stay the caller's. Whatever the caller then does with its own
	// memory (reuse as a scratch buffer for the next key, wipe) must not change the name.
	want := append([]byte(ipns.NamespacePrefix), []byte(pid)...)
	still := func(what string, got ipns.Name) error {
		if !got.Equal(n) || got != n || got.Peer() != pid || got.String() != s || !got.Cid().Equals(c1) || !bytes.Equal(got.RoutingKey(), want) {
			return fmt.Errorf("%s: the name changed from %s to %s (Peer %q)", what, s, safeString(got), got.Peer())
		}
		return nil
	}
	if c.Off < 0 || c.Off > 64 {
		return kit.Fail("harness: off out of range")
	}
	scratch := make([]byte, c.Off+len(want)+c.Off%7) // the key is a window of a larger caller buffer
	key := scratch[c.Off : c.Off+len(want)]
	copy(key, want)
	n8, err := ipns.NameFromRoutingKey(key)
	if err != nil {
		return kit.Fail("NameFromRoutingKey(window of a scratch buffer): %v", err)
	}
	if err := still("NameFromRoutingKey(buf)", n8); err != nil {
		return kit.Fail("%v", err)
	}
	sibling := append([]byte(nil), want...) // routing key of another valid name of the same shape
	sibling[len(sibling)-1] ^= 0xff
	for _, reuse := range []struct {
		how string
		do  func()
	}{
		{"decoding the next key into buf", func() { copy(key, sibling) }},
		{"zeroing buf", func() { clear(scratch) }},
		{"filling buf with 0xff", func() {
			for i := range scratch {
				scratch[i] = 0xff
			}
		}},
	} {
		reuse.do()
		if err := still("NameFromRoutingKey(buf), then "+reuse.how, n8); err != nil {
			return kit.Fail("%v", err)
		}
	}
	rk2 := n.RoutingKey()
	for i := range rk2 {
		rk2[i] ^= 0xff
	}
	rk[len(rk)-1] ^= 0xff
	if err := still("overwriting the slices RoutingKey() returned", n); err != nil {
		return kit.Fail("%v", err)
	}
	if err := still("overwriting the slices RoutingKey() returned (name parsed from one of them)", n5); err != nil {
		return kit.Fail("%v", err)
	}
	// JSON form (documented: marshals as String, unmarshals via NameFromString)
	js, err := json.Marshal(n)
	if err != nil {
		return kit.Fail("json.Marshal(name): %v", err)
	}
	var n6 ipns.Name
	if err := json.Unmarshal(js, &n6); err != nil || !n6.Equal(n) {
		return kit.Fail("JSON round trip of name %s: %v", s, err)
	}
	var n9 ipns.Name
	if err := n9.UnmarshalJSON(js); err != nil {
		return kit.Fail("UnmarshalJSON(%s): %v", js, err)
	}
	clear(js)
	if err := still("UnmarshalJSON(buf), then zeroing buf", n9); err != nil {
		return kit.Fail("%v", err)
	}
	// path form
	ap := n.AsPath()
	if ap.String() != ipns.NamespacePrefix+s || ap.Namespace() != path.IPNSNamespace {
		return kit.Fail("AsPath() = %q", ap.String())
	}
	if _, err := checkPath(ap.String()); err != nil {
		return kit.Fail("AsPath(): %v", err)
	}
	n7, err := ipns.NameFromString(ap.Segments()[1])
	if err != nil || !n7.Equal(n) {
		return kit.Fail("name taken from AsPath() segments differs: %v", err)
	}
	cls := []string{"kind:" + c.Kind}
	if c.Kind == "key" {
		cls = append(cls, "key:"+c.Key.Type)
	}
	return kit.Result{NonTrivial: true, Classes: cls}
}

var nameSpec = kit.Spec[NameCase]{
	Prop: "C28", Name: "name",
	Rule:  "peer ID of a generated key (Ed25519/secp256k1 from a drawn seed, RSA/ECDSA from the pool) or of a drawn 32-byte digest in the sha2-256 (RSA/ECDSA-shaped) or identity (Ed25519-shaped) multihash form; the name must round-trip through String (base36, /ipns/-prefixed, base32 CID, legacy base58), Cid, RoutingKey, Peer, JSON and AsPath; every case is non-trivial",
	Quick: 3000, Thorough: 20000,
	Gen: genName, Run: runName,
}

func TestPropName(t *testing.T) { kit.All(t, nameSpec) }

// ---------------------------------------------------------------------------
// sub-check "scratch": several routing keys decoded one after the other through one
// caller-owned scratch buffer (the way a reader decodes keys from a stream or a datastore
// iterator); the names obtained are kept in a slice and as map keys.

type ScratchCase struct {
	Names []NameCase `json:"names"`
	Off   int        `json:"off,omitempty"`
	Wipe  bool       `json:"wipe,omitempty"` // zero the scratch buffer at the end
}

func genScratch(t *rapid.T) ScratchCase {
	c := ScratchCase{
		Off:  rapid.SampledFrom([]int{0, 0, 1, 6, 16}).Draw(t, "off"),
		Wipe: rapid.Bool().Draw(t, "wipe"),
	}
	n := rapid.IntRange(2, kit.Scale(5, 8)).Draw(t, "n")
	for i := 0; i < n; i++ {
		if i > 0 && rapid.IntRange(0, 4).Draw(t, "again") == 0 {
			c.Names = append(c.Names, c.Names[rapid.IntRange(0, i-1).Draw(t, "which")])
			continue
		}
		nc := genName(t)
		nc.Off = 0
		c.Names = append(c.Names, nc)
	}
	return c
}

func runScratch(c ScratchCase) kit.Result {
	if len(c.Names) == 0 || len(c.Names) > 64 || c.Off < 0 || c.Off > 64 {
		return kit.Fail("harness: bad case")
	}
	pids := make([]peer.ID, len(c.Names))
	distinct := map[peer.ID]bool{}
	lens := map[int]bool{}
	maxLen := 0
	for i, nc := range c.Names {
		pid, err := peerOf(nc)
		if err != nil {
			return kit.Fail("harness: %v", err)
		}
		pids[i] = pid
		distinct[pid] = true
		lens[len(pid)] = true
		maxLen = max(maxLen, len(pid))
	}
	scratch := make([]byte, c.Off+len(ipns.NamespacePrefix)+maxLen)
	got := make([]ipns.Name, len(pids))
	seen := map[ipns.Name][]int{}
	for i, pid := range pids {
		rk := ipns.NameFromPeer(pid).RoutingKey()
		key := scratch[c.Off : c.Off+len(rk)]
		copy(key, rk)
		n, err := ipns.NameFromRoutingKey(key)
		if err != nil {
			return kit.Fail("key %d: NameFromRoutingKey: %v", i, err)
		}
		if !n.Equal(ipns.NameFromPeer(pid)) {
			return kit.Fail("key %d: NameFromRoutingKey(n.RoutingKey()) != n", i)
		}
		got[i] = n
		seen[n] = append(seen[n], i)
	}
	if c.Wipe {
		clear(scratch)
	}
	for i, pid := range pids {
		want := ipns.NameFromPeer(pid)
		if !got[i].Equal(want) || got[i] != want || got[i].Peer() != pid {
			return kit.Fail("name %d of %d decoded through one scratch buffer changed after the buffer was reused: want %s, have %s", i, len(pids), want, safeString(got[i]))
		}
		if got[i].String() != want.String() || !bytes.Equal(got[i].RoutingKey(), want.RoutingKey()) {
			return kit.Fail("name %d decoded through a scratch buffer prints %s, want %s", i, safeString(got[i]), want)
		}
		found := false
		for _, j := range seen[want] {
			found = found || j == i
		}
		if !found {
			return kit.Fail("name %d (%s) decoded through a scratch buffer is not found under its own value in a map keyed by Name (entries %v)", i, want, seen[want])
		}
	}
	if len(seen) != len(distinct) {
		return kit.Fail("%d distinct names decoded through a scratch buffer give %d map keys", len(distinct), len(seen))
	}
	cls := []string{fmt.Sprintf("distinct:%d", len(distinct)), fmt.Sprintf("wipe:%v", c.Wipe)}
	if len(lens) > 1 {
		cls = append(cls, "mixed-lengths")
	}
	if len(distinct) < len(pids) {
		cls = append(cls, "repeated-name")
	}
	return kit.Result{NonTrivial: len(distinct) >= 2, Classes: cls}
}

var scratchSpec = kit.Spec[ScratchCase]{
	Prop: "C28", Name: "scratch",
	Rule:  "2..5 (thorough 8) names as in [name], some repeated; their routing keys are copied one after the other into the same window of one caller-owned scratch buffer and parsed with NameFromRoutingKey, the buffer is optionally wiped; afterwards every parsed name must still equal NameFromPeer of its peer ID (Equal, ==, Peer, String, RoutingKey) and be found under that value in a map keyed by Name, with one map key per distinct name; non-trivial = at least two distinct names",
	Quick: 1500, Thorough: 10000,
	Gen: genScratch, Run: runScratch,
}

func TestPropScratch(t *testing.T) { kit.All(t, scratchSpec) }

// the fuzz seeds also run in the quick tier, as an enumerated sub-check
type SeedCase struct {
	S string `json:"s"`
}

var seedSpec = kit.Spec[SeedCase]{
	Prop: "C28", Name: "seeds",
	Rule: "the fixed seed corpus of the fuzz target FuzzPath, run through the same oracle; non-trivial = accepted by NewPath",
	Run: func(c SeedCase) kit.Result {
		if err := fuzzOracle(c.S); err != nil {
			return kit.Fail("%v", err)
		}
		_, err := path.NewPath(c.S)
		return kit.Result{NonTrivial: err == nil, Classes: []string{fmt.Sprintf("accepted:%v", err == nil)}}
	},
}

func TestPropSeeds(t *testing.T) {
	t.Run("replay", func(t *testing.T) { kit.Replay(t, seedSpec) })
	kit.Exhaustive(t, seedSpec, func(yield func(SeedCase) bool) {
		for _, s := range fuzzSeeds() {
			if !yield(SeedCase{S: s}) {
				return
			}
		}
	})
}
