package c28

import (
	"fmt"
	"testing"

	"github.com/ipfs/boxo/path"
	"verif/kit"
)

func fuzzSeeds() []string {
	cids := kit.IpnsCidStrings()
	names := kit.IpnsNameStrings()
	out := []string{
		"", "/", "//", "/ipfs", "/ipfs/", "/ipfs//", "/ipns/example.com", "/ipns/example.com/", "/ipld/" + cids[1] + "/a/b",
		"/ipfs/" + cids[0], "/ipfs/" + cids[0] + "/", "/ipfs/" + cids[0] + "/a/../b/./c//d/", "/ipfs/" + cids[1] + "/..", "/ipfs/" + cids[1] + "/../..",
		"/ipfs/../ipns/" + names[0], "/../ipfs/" + cids[2], "/./ipfs/" + cids[2] + "/.", "//ipfs//" + cids[3] + "//x//",
		"/ipns/" + names[0] + "/日本/ü", "/ipns/" + names[1] + "/a%2fb/%2e%2e/", "/IPFS/" + cids[0], "/ipfs2/" + cids[0], "ipfs/" + cids[0],
		"ipfs://" + cids[1] + "/a", "IPFS://" + cids[1], "ipns:" + names[0], "ipld://" + cids[1] + "/..", "ipfs:///" + cids[1], "ipfs:////", "ipfs:", "ipfs:/",
		"IpNs://example.com/../x/", "http://example.com", "/ipfs/" + cids[0] + "/\x00", "/ipfs/" + cids[0] + "/...", "/ipfs/" + cids[0] + "/..a/..",
	}
	return out
}

func hasScheme(s string) (string, bool) {
	for _, ns := range []string{"ipfs", "ipns", "ipld"} {
		if len(s) > len(ns) && s[len(ns)] == ':' && lowerASCII(s[:len(ns)]) == ns {
			return ns, true
		}
	}
	return "", false
}

// fuzzOracle: the C28 path oracle on an arbitrary string.
func fuzzOracle(s string) error {
	if _, err := checkPath(s); err != nil {
		return err
	}
	// s as the remainder of a URI
	for _, sch := range []string{"ipfs", "IPNS", "ipld"} {
		if _, err := checkURI(sch, true, s); err != nil {
			return err
		}
		if _, err := checkURI(sch, false, s); err != nil {
			return err
		}
		if _, err := checkPath("/" + lowerASCII(sch) + "/" + s); err != nil {
			return err
		}
	}
	// s itself as a URI or a non-URI
	pu, eu := path.NewPathFromURI(s)
	if ns, ok := hasScheme(s); ok {
		rest := s[len(ns)+1:]
		if len(rest) >= 2 && rest[:2] == "//" {
			rest = rest[2:]
		}
		pc, ec := path.NewPath("/" + ns + "/" + rest)
		if (eu == nil) != (ec == nil) {
			return fmt.Errorf("NewPathFromURI(%q): err=%v, canonical form: err=%v", s, eu, ec)
		}
		if eu == nil {
			if err := samePath(pu, pc); err != nil {
				return fmt.Errorf("NewPathFromURI(%q) differs from the canonical form: %v", s, err)
			}
		}
	} else {
		pc, ec := path.NewPath(s)
		if (eu == nil) != (ec == nil) {
			return fmt.Errorf("NewPathFromURI(%q): err=%v, NewPath: err=%v", s, eu, ec)
		}
		if eu == nil {
			if err := samePath(pu, pc); err != nil {
				return fmt.Errorf("NewPathFromURI(%q) differs from NewPath: %v", s, err)
			}
		}
	}
	return nil
}

func FuzzPath(f *testing.F) {
	for _, s := range fuzzSeeds() {
		f.Add(s)
	}
	f.Fuzz(func(t *testing.T, s string) {
		if err := fuzzOracle(s); err != nil {
			t.Fatalf("C28 violated: %v", err)
		}
	})
}
