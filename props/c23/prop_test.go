package c23

import (
	"context"
	"fmt"
	"runtime"
	"sort"
	"testing"

	ipfspin "github.com/ipfs/boxo/pinning/pinner"
	"github.com/ipfs/boxo/pinning/pinner/dspinner"
	cid "github.com/ipfs/go-cid"
	"pgregory.net/rapid"
	"verif/kit"
	"verif/props/c22/pinkit"
)

// Sequential harness; see props/c22 for why one P.
func TestMain(m *testing.M) {
	runtime.GOMAXPROCS(1)
	kit.Main(m)
}

// DESIGN §7-F11 seen at crash granularity: a re-pin deletes the old pin (indexes, then record)
// before it writes the new one; stopping between the two leaves the CID without any pin.
const keyRepinCrash = "F11-repin-crash-unpins"

// crashStates counts the reopened crash states of passing cases (evidence only).
var crashStates int

// Case: a fault-free history brings the pinner into some state; the *last* op is the one
// whose datastore writes are cut at every position.
type Case struct {
	Dag      pinkit.DagSpec `json:"dag"`
	Autosync bool           `json:"autosync"`
	History  []pinkit.Op    `json:"history"`
	Last     pinkit.Op      `json:"last"`
}

var namePool = []string{"", "a", "b", "ab", "a/b", "ü-日本"}

type genState struct {
	m   pinkit.Model
	dag *pinkit.Dag
}

func (g *genState) byClass() map[string][]int {
	cl := map[string][]int{}
	for i := 0; i < g.dag.N(); i++ {
		_, r := g.m.Rec[i]
		_, d := g.m.Dir[i]
		switch {
		case r:
			cl["rec"] = append(cl["rec"], i)
		case d:
			cl["dir"] = append(cl["dir"], i)
		default:
			cl["free"] = append(cl["free"], i)
		}
	}
	return cl
}

func (g *genState) pick(t *rapid.T, label string, prefer ...string) int {
	cl := g.byClass()
	var avail []string
	for _, k := range []string{"rec", "dir", "free"} {
		if len(cl[k]) > 0 {
			avail = append(avail, k)
		}
	}
	for _, k := range prefer {
		if len(cl[k]) > 0 {
			avail = append(avail, k, k, k)
		}
	}
	k := rapid.SampledFrom(avail).Draw(t, label+"_class")
	return rapid.SampledFrom(cl[k]).Draw(t, label)
}

// genOp draws one fault-free op. kinds restricts the choice.
func (g *genState) genOp(t *rapid.T, kinds []string, preferPinned bool) pinkit.Op {
	op := pinkit.Op{Missing: -1}
	var pref []string
	if preferPinned {
		pref = []string{"rec", "dir"}
	}
	switch rapid.SampledFrom(kinds).Draw(t, "kind") {
	case "pin":
		op.Kind = "pin"
		op.Node = g.pick(t, "node", pref...)
		op.Flag = rapid.IntRange(0, 2).Draw(t, "recursive") != 0
		op.Name = rapid.SampledFrom(namePool).Draw(t, "name")
	case "pinmode":
		op.Kind = "pinmode"
		op.Mode = rapid.SampledFrom([]int{int(ipfspin.Recursive), int(ipfspin.Direct)}).Draw(t, "mode")
		op.Node = g.pick(t, "node", pref...)
		op.Name = rapid.SampledFrom(namePool).Draw(t, "name")
	case "unpin":
		op.Kind = "unpin"
		op.Node = g.pick(t, "node", "rec", "dir")
		op.Flag = rapid.IntRange(0, 3).Draw(t, "recursive") != 0
	case "update":
		op.Kind = "update"
		op.Node = g.pick(t, "from", "rec")
		op.To = g.pick(t, "to", "free")
		op.Flag = rapid.Bool().Draw(t, "unpin")
	case "flush":
		op.Kind = "flush"
	}
	return op
}

// fails predicts whether the fault-free op is refused, according to the model.
func (g *genState) fails(op pinkit.Op) bool {
	fails := false
	_, nodeRec := g.m.Rec[op.Node]
	switch op.Kind {
	case "pin":
		fails = nodeRec && !op.Flag
	case "pinmode":
		fails = nodeRec && op.Mode == int(ipfspin.Direct)
	case "unpin":
		fails = (nodeRec && !op.Flag) || !g.m.Pinned(op.Node)
	case "update":
		_, toRec := g.m.Rec[op.To]
		fails = !nodeRec || (toRec && op.Node != op.To)
	}
	return fails
}

func (g *genState) advance(op pinkit.Op) {
	if !g.fails(op) {
		if m2, err := g.m.Apply(op); err == nil {
			g.m = m2
		}
	}
}

func gen(t *rapid.T) Case {
	c := Case{}
	c.Dag = pinkit.GenDag(t, 2, 7)
	dag, err := pinkit.BuildDag(c.Dag)
	if err != nil {
		panic(err)
	}
	c.Autosync = rapid.IntRange(0, 3).Draw(t, "autosync") != 0
	g := &genState{m: pinkit.NewModel(), dag: dag}
	nh := rapid.SampledFrom([]int{0, 1, 2, 2, 3, 3, 4, 4, 5, 5, 6, 7}).Draw(t, "nhistory")
	hk := []string{"pin", "pin", "pin", "pin", "pinmode", "pinmode", "unpin", "update", "flush"}
	for i := 0; i < nh; i++ {
		op := g.genOp(t, hk, false)
		c.History = append(c.History, op)
		g.advance(op)
	}
	// The cut op. Re-pins of an already pinned CID (F11) only in a minority of cases.
	for try := 0; ; try++ {
		allowRepin := rapid.IntRange(0, 5).Draw(t, "allow_repin") == 0
		allowRefused := rapid.IntRange(0, 9).Draw(t, "allow_refused") == 0
		lk := []string{"pin", "pin", "pinmode", "unpin", "unpin", "update", "update", "update"}
		if !c.Autosync {
			lk = append(lk, "flush")
		}
		op := g.genOp(t, lk, rapid.Bool().Draw(t, "prefer_pinned"))
		if op.IsRepin(g.m) && !allowRepin && try < 20 {
			continue
		}
		if g.fails(op) && !allowRefused && try < 20 {
			continue
		}
		c.Last = op
		break
	}
	return c
}

func pinnedNames(d *pinkit.Dag, pc map[cid.Cid]map[ipfspin.Mode]bool) string {
	var out []string
	for c, modes := range pc {
		s := fmt.Sprintf("%d:", d.Index(c))
		if modes[ipfspin.Recursive] {
			s += "R"
		}
		if modes[ipfspin.Direct] {
			s += "D"
		}
		out = append(out, s)
	}
	sort.Strings(out)
	return fmt.Sprint(out)
}

func run(c Case) kit.Result {
	dag, err := pinkit.BuildDag(c.Dag)
	if err != nil {
		return kit.Result{Classes: []string{"invalid-case"}}
	}
	for _, op := range append(append([]pinkit.Op{}, c.History...), c.Last) {
		if !op.Valid(dag) || op.Missing != -1 || op.Cancel != "" {
			return kit.Result{Classes: []string{"invalid-case"}}
		}
	}
	w, err := pinkit.NewWorld(dag)
	if err != nil {
		panic(fmt.Sprintf("harness: %v", err))
	}
	ctx := context.Background()
	p, err := dspinner.New(ctx, w.PinDS, w.DServ)
	if err != nil {
		return kit.Fail("dspinner.New on an empty datastore: %v", err)
	}
	defer p.Close()
	if !c.Autosync {
		p.SetAutosync(false)
	}
	for _, op := range c.History {
		_ = w.Exec(p, op) // refused calls (e.g. unpin of an unpinned CID) are part of the history
	}

	// snapshot, then record the write sequence of the last op
	snap, err := pinkit.CopyMap(ctx, w.PinDS)
	if err != nil {
		panic(fmt.Sprintf("harness: snapshot: %v", err))
	}
	before, err := pinkit.ReadRaw(ctx, pinkit.MapFrom(snap, nil))
	if err != nil {
		return kit.Fail("state before the cut op: %v", err)
	}
	pinnedBefore := before.PinnedCids()
	w.Hook.StartRecording()
	opErr := w.Exec(p, c.Last)
	writes := w.Hook.StopRecording()

	// CIDs the op by its meaning may unpin
	mayUnpin := map[cid.Cid]bool{}
	switch c.Last.Kind {
	case "unpin":
		mayUnpin[dag.Cid(c.Last.Node)] = true
	case "update":
		if c.Last.Flag {
			mayUnpin[dag.Cid(c.Last.Node)] = true
		}
	}
	target := dag.Cid(c.Last.Node)
	_, targetPinned := pinnedBefore[target]
	repin := (c.Last.Kind == "pin" || c.Last.Kind == "pinmode") && targetPinned
	touchesPinned := targetPinned
	if c.Last.Kind == "update" {
		if _, ok := pinnedBefore[dag.Cid(c.Last.To)]; ok {
			touchesPinned = true
		}
	}

	knownMsg := ""
	for k := 0; k <= len(writes); k++ {
		where := fmt.Sprintf("history %d ops, cut op %v (returned %v), stopped after write %d of %d", len(c.History), c.Last, opErr, k, len(writes))
		if k > 0 {
			wr := writes[k-1]
			verb := "Put"
			if wr.Del {
				verb = "Delete"
			}
			where += fmt.Sprintf(" [%s %s]", verb, wr.Key)
		}
		store := pinkit.MapFrom(snap, writes[:k])
		// reopen on what was persisted (dirty flag => index rebuild)
		p2, err := dspinner.New(ctx, store, w.DServ)
		if err != nil {
			return kit.Fail("%s: reopen failed: %v", where, err)
		}
		after, err := pinkit.ReadRaw(ctx, store)
		if err != nil {
			p2.Close()
			return kit.Fail("%s: %v", where, err)
		}
		// I1: records and indexes agree
		if err := after.Consistent(); err != nil {
			p2.Close()
			return kit.Fail("%s: after reopen %v", where, err)
		}
		// I1/I3 seen through the API: the queries answer without error and exactly for the records
		recs := after.PinnedCids()
		for i := 0; i <= dag.N(); i++ {
			ci := dag.Cid(i)
			for _, mode := range []ipfspin.Mode{ipfspin.Recursive, ipfspin.Direct} {
				_, got, err := p2.IsPinnedWithType(ctx, ci, mode)
				if err != nil {
					p2.Close()
					return kit.Fail("%s: IsPinnedWithType(%d,%d) on the reopened pinner: %v", where, i, mode, err)
				}
				if got != recs[ci][mode] {
					p2.Close()
					return kit.Fail("%s: reopened pinner says pinned(mode %d)=%v for node %d, pin records say %v", where, mode, got, i, recs[ci][mode])
				}
			}
			if _, _, err := p2.IsPinned(ctx, ci); err != nil {
				p2.Close()
				return kit.Fail("%s: IsPinned(%d) on the reopened pinner: %v", where, i, err)
			}
		}
		for _, rec := range []bool{true, false} {
			var ch <-chan ipfspin.StreamedPin
			mode := ipfspin.Direct
			if rec {
				ch = p2.RecursiveKeys(ctx, true)
				mode = ipfspin.Recursive
			} else {
				ch = p2.DirectKeys(ctx, true)
			}
			listed := map[cid.Cid]bool{}
			for sp := range ch {
				if sp.Err != nil {
					p2.Close()
					return kit.Fail("%s: key listing on the reopened pinner: %v", where, sp.Err)
				}
				listed[sp.Pin.Key] = true
			}
			for ci, modes := range recs {
				if modes[mode] && !listed[ci] {
					p2.Close()
					return kit.Fail("%s: node %d has a mode-%d record but is not listed", where, dag.Index(ci), mode)
				}
			}
			for ci := range listed {
				if !recs[ci][mode] {
					p2.Close()
					return kit.Fail("%s: node %d is listed (mode %d) without a record", where, dag.Index(ci), mode)
				}
			}
		}
		p2.Close()
		// I2: everything pinned before that the op would not unpin is still pinned
		var lost []int
		for ci := range pinnedBefore {
			if mayUnpin[ci] {
				continue
			}
			if len(recs[ci]) == 0 {
				lost = append(lost, dag.Index(ci))
			}
		}
		sort.Ints(lost)
		if len(lost) > 0 {
			msg := fmt.Sprintf("%s: nodes %v were pinned before the op (%s), the op does not unpin them, and they are not pinned after reopening (%s)",
				where, lost, pinnedNames(dag, pinnedBefore), pinnedNames(dag, recs))
			if repin && len(lost) == 1 && lost[0] == c.Last.Node {
				// F11 signature: the cut op is a re-pin of an already pinned CID and the only
				// discrepancy is that exactly this CID lost its pin. Keep checking the other cuts.
				if knownMsg == "" {
					knownMsg = msg
				}
				continue
			}
			return kit.Fail("%s", msg)
		}
	}
	if knownMsg != "" {
		return kit.Result{Err: fmt.Errorf("%s", knownMsg), Known: keyRepinCrash}
	}
	cls := []string{"cut:" + c.Last.Kind, fmt.Sprintf("writes:%d", len(writes))}
	if opErr != nil {
		cls = append(cls, "cut-op-refused")
	}
	if touchesPinned {
		cls = append(cls, "cut-op-touches-pinned")
	}
	if !c.Autosync {
		cls = append(cls, "autosync-off")
	}
	if len(before.Dirty) == 1 && before.Dirty[0] == 1 {
		cls = append(cls, "dirty-before")
	}
	// non-trivial: at least one strict prefix exists and the op touches an already pinned CID
	nt := len(writes) >= 2 && touchesPinned
	crashStates += len(writes) + 1
	kit.Note("C23", "main", "crash_states_evaluated_in_one_shard", crashStates)
	return kit.Result{NonTrivial: nt, Classes: cls}
}

var spec = kit.Spec[Case]{
	Prop: "C23", Name: "main",
	Rule:  "random DAG (2..7 nodes), fault-free history of 0..7 pinner calls, then one cut op (Pin/PinWithMode/Unpin/Update/Flush) whose Put/Delete sequence on the pinner's datastore is recorded; for every prefix (0..len) the prefix is applied to a copy of the pre-op snapshot, dspinner.New reopens it (dirty flag => index rebuild) and I1 records<->indexes (raw keys and via queries), I2 nothing pinned before is lost unless the op unpins it, I3 queries do not error are checked; non-trivial = the cut op makes >= 2 writes and targets a CID that holds a pin",
	Quick: 3000, Thorough: 10000,
	Gen: gen, Run: run,
}

func TestProp(t *testing.T) { kit.All(t, spec) }
