package c06

import (
	"fmt"
	"testing"

	chunk "github.com/ipfs/boxo/chunker"
)

// FuzzChunkerSpec feeds arbitrary spec strings and data to chunk.FromString. The parser must
// reject or accept without panicking; for every accepted spec the full C06 oracle runs
// (lossless, non-empty, <= ChunkSizeLimit, spec min/max for the modelled forms, identical
// boundaries under a second, differently fragmented read).
func FuzzChunkerSpec(f *testing.F) {
	data := make([]byte, 3000)
	s := uint64(88172645463325252)
	for i := range data {
		s ^= s << 13
		s ^= s >> 7
		s ^= s << 17
		data[i] = byte(s >> 24)
	}
	for _, sp := range []string{
		"", "default", "size-1", "size-7", "size-262144", fmt.Sprintf("size-%d", chunk.ChunkSizeLimit),
		fmt.Sprintf("size-%d", chunk.ChunkSizeLimit+1), "size-0", "size--1", "size-+3", "size-1-2", "size-",
		"rabin", "rabin-0", "rabin-1", "rabin-47", "rabin-48", "rabin-100", "rabin-1397931", "rabin-1397932",
		"rabin-16-32-64", "rabin-min:16-avg:32-max:64", "rabin-15-32-64", "rabin-16-16-64", "rabin-16-32-32",
		"rabin-min:16-avg:32-max:2096896", "rabin-min:16-avg:32-max:2096897", "rabin-x:16-32-64", "rabin-16-32",
		"buzhash", "buzhash-1", "unknown", "unknown-1", "-", "--", "size-99999999999999999999",
	} {
		f.Add(sp, data)
		f.Add(sp, []byte{})
		f.Add(sp, data[:1])
	}
	f.Fuzz(func(t *testing.T, sp string, data []byte) {
		if len(data) > 64<<10 {
			data = data[:64<<10]
		}
		// second plan derived from the data so that the fuzzer can vary it
		plan := []int{1}
		if len(data) >= 3 {
			plan = []int{1 + int(data[0])%17, 1 + int(data[1])%300, 1 + int(data[2])}
		}
		res := check(sp, data, nil, len(data)%2 == 0, plan, len(data)%3 == 0)
		if res.Err != nil {
			t.Fatalf("%v", res.Err)
		}
	})
}
