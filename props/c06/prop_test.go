// Package c06 checks property C06: chunkers are lossless, bounded and deterministic
// under read fragmentation.
package c06

import (
	"bytes"
	"fmt"
	"io"
	"strconv"
	"strings"
	"testing"

	chunk "github.com/ipfs/boxo/chunker"
	"pgregory.net/rapid"
	"verif/kit"
)

func TestMain(m *testing.M) { kit.Main(m) }

// Case: one chunker spec, one input, two ways of fragmenting the reads.
type Case struct {
	Spec  string       `json:"spec"`
	Data  kit.DataSpec `json:"data"`
	Plan1 []int        `json:"plan1"`
	EOF1  bool         `json:"eof1"` // final read returns (n>0, io.EOF)
	Plan2 []int        `json:"plan2"`
	EOF2  bool         `json:"eof2"`
}

// ---------------------------------------------------------------------------
// independent model of the documented spec grammar (chunk.FromString doc comment)

type bounds struct {
	kind     string // "size" | "rabin" | "buzhash" | "" (not modelled)
	min, max int    // size: min == max == N
	typical  int    // size the generator aims chunks at
	// mustAccept: the spec is plainly one of the documented valid forms
	mustAccept bool
}

const (
	buzMin = 128 << 10 // documented in chunker/buzhash.go
	buzMax = 512 << 10
)

func lastAfterColon(s string) string {
	p := strings.Split(s, ":")
	return p[len(p)-1]
}

func specBounds(spec string) bounds {
	def := int(chunk.DefaultBlockSize)
	if spec == "" || spec == "default" {
		return bounds{kind: "size", min: def, max: def, typical: def, mustAccept: true}
	}
	parts := strings.Split(spec, "-")
	switch parts[0] {
	case "size":
		if len(parts) != 2 {
			return bounds{}
		}
		n, err := strconv.Atoi(parts[1])
		if err != nil {
			return bounds{}
		}
		return bounds{kind: "size", min: n, max: n, typical: n, mustAccept: n >= 1 && n <= chunk.ChunkSizeLimit}
	case "buzhash":
		return bounds{kind: "buzhash", min: buzMin, max: buzMax, typical: 256 << 10, mustAccept: spec == "buzhash"}
	case "rabin":
		switch len(parts) {
		case 1:
			return bounds{kind: "rabin", min: def / 3, max: def + def/2, typical: def, mustAccept: true}
		case 2:
			n, err := strconv.Atoi(parts[1])
			if err != nil || n < 0 {
				return bounds{}
			}
			// NewRabin doc: "average block size"; min = avg/3, max = avg + avg/2.
			// avg/3 < 16 is the F2 region (window is 16 bytes): acceptance is not demanded there.
			return bounds{kind: "rabin", min: n / 3, max: n + n/2, typical: n,
				mustAccept: n/3 >= 16 && n+n/2 <= chunk.ChunkSizeLimit}
		case 4:
			mn, e1 := strconv.Atoi(lastAfterColon(parts[1]))
			av, e2 := strconv.Atoi(lastAfterColon(parts[2]))
			mx, e3 := strconv.Atoi(lastAfterColon(parts[3]))
			if e1 != nil || e2 != nil || e3 != nil {
				return bounds{}
			}
			plain := !strings.Contains(spec, ":") || (strings.HasPrefix(parts[1], "min:") && strings.HasPrefix(parts[2], "avg:") && strings.HasPrefix(parts[3], "max:") && strings.Count(spec, ":") == 3)
			return bounds{kind: "rabin", min: mn, max: mx, typical: av,
				mustAccept: plain && mn >= 16 && mn < av && av < mx && mx <= chunk.ChunkSizeLimit}
		}
	}
	return bounds{}
}

// ---------------------------------------------------------------------------
// generator

func genSpec(t *rapid.T) string {
	lim := chunk.ChunkSizeLimit
	switch rapid.IntRange(0, 19).Draw(t, "specclass") {
	case 0:
		return rapid.SampledFrom([]string{"", "default"}).Draw(t, "default")
	case 1, 2, 3, 4, 5:
		n := rapid.OneOf(
			rapid.IntRange(1, 8),
			rapid.IntRange(1, 8),
			rapid.IntRange(1, 64),
			rapid.IntRange(1, 64),
			rapid.IntRange(65, 5000),
			rapid.IntRange(65, 5000),
			rapid.IntRange(5000, 300000),
			kit.Around(256<<10, 1, lim),
			kit.Around(lim, 1, lim+2),
			rapid.IntRange(0, 1),
		).Draw(t, "size")
		return fmt.Sprintf("size-%d", n)
	case 6:
		return "rabin"
	case 7, 8, 9, 10:
		n := rapid.OneOf(
			rapid.IntRange(0, 47), // avg/3 below the rabin window: F2 region
			rapid.IntRange(48, 200),
			rapid.IntRange(48, 200),
			rapid.IntRange(48, 4096),
			rapid.IntRange(48, 4096),
			kit.Around(1<<rapid.IntRange(6, 17).Draw(t, "pow"), 48, lim),
			rapid.IntRange(4096, 400000),
			kit.Around(1397931, 1, 1397935), // largest avg with avg*1.5 <= ChunkSizeLimit
		).Draw(t, "avg")
		return fmt.Sprintf("rabin-%d", n)
	case 11, 12, 13, 14, 15:
		mn := rapid.OneOf(rapid.IntRange(16, 18), rapid.IntRange(16, 18), rapid.IntRange(16, 300), rapid.IntRange(16, 300), rapid.IntRange(16, 300), rapid.IntRange(16, 70000), rapid.IntRange(14, 16)).Draw(t, "min")
		av := mn + rapid.OneOf(rapid.IntRange(1, 3), rapid.IntRange(1, 3), rapid.IntRange(1, 500), rapid.IntRange(1, 500), rapid.IntRange(1, 500), rapid.IntRange(1, 100000), rapid.IntRange(0, 1)).Draw(t, "davg")
		mx := av + rapid.OneOf(rapid.IntRange(1, 3), rapid.IntRange(1, 3), rapid.IntRange(1, 1000), rapid.IntRange(1, 1000), rapid.IntRange(1, 1000), rapid.IntRange(1, 200000), rapid.IntRange(0, 1)).Draw(t, "dmax")
		if rapid.IntRange(0, 19).Draw(t, "maxlimit") == 0 {
			mx = kit.Around(lim, av+1, lim+2).Draw(t, "maxatlimit")
		}
		if rapid.Bool().Draw(t, "labels") {
			return fmt.Sprintf("rabin-min:%d-avg:%d-max:%d", mn, av, mx)
		}
		return fmt.Sprintf("rabin-%d-%d-%d", mn, av, mx)
	case 16:
		return "buzhash"
	case 17:
		return rapid.SampledFrom([]string{"size-1", "size-2", "size-3", "rabin-16-17-18", "rabin-48", "rabin-16-32-64", "rabin-min:16-avg:32-max:64"}).Draw(t, "smallspec")
	case 18:
		return rapid.SampledFrom([]string{"size-0", "size-2096897", "rabin-15-32-64", "rabin-16-16-64", "rabin-16-32-32", "rabin-16-32-2096897", "rabin-1397932"}).Draw(t, "invalid")
	default:
		return rapid.SampledFrom([]string{
			"size", "size-", "size-abc", "size-12-3", "size--4", "size-+7", "rabin-", "rabin-1-2", "rabin-a",
			"rabin-16-32", "rabin-max:16-avg:32-min:64", "rabin-min:16-32-max:64", "rabin-16-32-64-128",
			"buzhash-", "buzhash-17", "foo", "foo-12", "-", "-size-4", "Size-4", "default-4", " size-4", "size-4 ",
			"rabin-9999999999999999999999", "size-9999999999999999999999", "rabin-0-0-0", "rabin--1",
		}).Draw(t, "junk")
	}
}

// genLen draws an input length aimed at the chunk size of the spec.
func genLen(t *rapid.T, b bounds) int {
	maxBytes := kit.Scale(1<<20, 4<<20)
	typ := b.typical
	if typ <= 0 {
		typ = 64
	}
	var n int
	switch rapid.IntRange(0, 17).Draw(t, "lenclass") {
	case 0:
		n = rapid.IntRange(0, 1).Draw(t, "tiny")
	case 1:
		n = kit.Around(typ, 0, maxBytes).Draw(t, "one")
	case 2:
		if b.max > 0 {
			n = kit.Around(b.max, 0, maxBytes).Draw(t, "atmax")
		} else {
			n = rapid.IntRange(0, 300).Draw(t, "n")
		}
	case 3:
		if b.min > 0 {
			n = kit.Around(b.min, 0, maxBytes).Draw(t, "atmin")
		} else {
			n = rapid.IntRange(0, 300).Draw(t, "n")
		}
	case 4, 5, 6, 7, 8, 14, 15, 16, 17:
		k := rapid.IntRange(3, 9).Draw(t, "k")
		if rapid.IntRange(0, 3).Draw(t, "many") == 0 {
			k = rapid.IntRange(10, 400).Draw(t, "kmany")
		}
		n = k*typ + rapid.IntRange(-2, 2).Draw(t, "delta")
		if b.max > typ && rapid.Bool().Draw(t, "bymax") {
			n = k*b.max + rapid.IntRange(-2, 2).Draw(t, "delta2")
		}
	case 9, 10:
		hi := 8 * typ
		if b.max > typ {
			hi = 8 * b.max
		}
		if hi > maxBytes {
			hi = maxBytes
		}
		n = rapid.IntRange(0, hi).Draw(t, "rel")
	case 11:
		n = rapid.IntRange(0, 70000).Draw(t, "mid")
	case 12:
		// a few large inputs; in the thorough tier they cross ChunkSizeLimit
		n = rapid.IntRange(maxBytes/2, maxBytes).Draw(t, "big")
	default:
		n = rapid.IntRange(0, 2000).Draw(t, "small")
	}
	if n < 0 {
		n = 0
	}
	// keep the work per case bounded: at most ~70k chunks and maxBytes bytes
	if typ < 16 && n > 70000*typ {
		n = 70000 * typ
	}
	if n > maxBytes {
		n = maxBytes
	}
	return n
}

func gen(t *rapid.T) Case {
	c := Case{Spec: genSpec(t)}
	b := specBounds(c.Spec)
	c.Data = kit.DataOfLen(t, genLen(t, b), "data")
	c.Plan1 = kit.ReadPlan().Draw(t, "plan1")
	c.EOF1 = rapid.Bool().Draw(t, "eof1")
	c.Plan2 = kit.ReadPlan().Draw(t, "plan2")
	c.EOF2 = rapid.Bool().Draw(t, "eof2")
	return c
}

// ---------------------------------------------------------------------------
// oracle

type rejected struct{ err error }

func (r rejected) Error() string { return "spec rejected: " + r.err.Error() }

// split runs the chunker of spec over data read through a FragReader and returns the
// chunk slices exactly as handed out (not copied, so buffer reuse inside the chunker shows).
func split(spec string, data []byte, plan []int, eofWithData bool) ([][]byte, error) {
	r := &kit.FragReader{Data: data, Plan: plan, EOFWithData: eofWithData}
	s, err := chunk.FromString(r, spec)
	if err != nil {
		return nil, rejected{err}
	}
	if s == nil {
		return nil, fmt.Errorf("FromString(%q) returned a nil splitter and a nil error", spec)
	}
	var out [][]byte
	for {
		b, err := s.NextBytes()
		if err == io.EOF {
			if len(b) != 0 {
				return nil, fmt.Errorf("NextBytes returned %d bytes together with io.EOF", len(b))
			}
			return out, nil
		}
		if err != nil {
			return nil, fmt.Errorf("NextBytes: unexpected error %v after %d chunks", err, len(out))
		}
		if len(b) == 0 {
			return nil, fmt.Errorf("chunk %d is empty", len(out))
		}
		out = append(out, b)
		if len(out) > len(data)+1 {
			return nil, fmt.Errorf("more chunks (%d) than input bytes (%d)", len(out), len(data))
		}
	}
}

func minEntry(p []int) int {
	m := 1 << 30
	for _, x := range p {
		if x < 1 {
			x = 1
		}
		if x < m {
			m = x
		}
	}
	return m
}

const knownF2 = "rabin-small-avg"

// check applies the C06 oracle. disableKnown is used when validating a fix.
func check(spec string, data []byte, plan1 []int, eof1 bool, plan2 []int, eof2 bool) kit.Result {
	b := specBounds(spec)
	ch1, err := split(spec, data, plan1, eof1)
	if rj, ok := err.(rejected); ok {
		if b.mustAccept {
			return kit.Fail("documented spec form %q rejected: %v", spec, rj.err)
		}
		// also the second construction must reject
		if _, err2 := split(spec, data, plan2, eof2); err2 == nil {
			return kit.Fail("spec %q rejected once and accepted once", spec)
		}
		return kit.Result{Classes: []string{"rejected", "kind:" + b.kind}}
	}
	if err != nil {
		return kit.Fail("spec %q, %d bytes, plan %v eof=%v: %v", spec, len(data), plan1, eof1, err)
	}
	// lossless
	total := 0
	for _, c := range ch1 {
		total += len(c)
	}
	if total != len(data) || !bytes.Equal(bytes.Join(ch1, nil), data) {
		return kit.Fail("spec %q: chunks (%d bytes in %d chunks) do not concatenate to the input (%d bytes), plan %v eof=%v", spec, total, len(ch1), len(data), plan1, eof1)
	}
	// bounded
	maxLen := 0
	for i, c := range ch1 {
		if len(c) > maxLen {
			maxLen = len(c)
		}
		if len(c) > chunk.ChunkSizeLimit {
			res := kit.Fail("spec %q: chunk %d of %d has %d bytes > ChunkSizeLimit %d", spec, i, len(ch1), len(c), chunk.ChunkSizeLimit)
			if b.kind == "rabin" && b.min < 16 && strings.Count(spec, "-") == 1 && len(ch1) == 1 {
				res.Known = knownF2
			}
			return res
		}
		if i == len(ch1)-1 || b.kind == "" {
			continue // the final chunk is exempt from the spec's own min/max
		}
		if len(c) < b.min || len(c) > b.max {
			return kit.Fail("spec %q: non-final chunk %d of %d has %d bytes, outside [%d,%d]", spec, i, len(ch1), len(c), b.min, b.max)
		}
	}
	// deterministic under read fragmentation
	ch2, err := split(spec, data, plan2, eof2)
	if err != nil {
		return kit.Fail("spec %q, %d bytes, plan %v eof=%v: %v", spec, len(data), plan2, eof2, err)
	}
	if len(ch1) != len(ch2) {
		return kit.Fail("spec %q, %d bytes: %d chunks with plan %v eof=%v but %d chunks with plan %v eof=%v", spec, len(data), len(ch1), plan1, eof1, len(ch2), plan2, eof2)
	}
	for i := range ch1 {
		if len(ch1[i]) != len(ch2[i]) {
			return kit.Fail("spec %q, %d bytes: chunk %d is %d bytes with plan %v eof=%v but %d bytes with plan %v eof=%v", spec, len(data), i, len(ch1[i]), plan1, eof1, len(ch2[i]), plan2, eof2)
		}
	}
	if !bytes.Equal(bytes.Join(ch2, nil), data) {
		return kit.Fail("spec %q: second read (plan %v eof=%v) does not concatenate to the input", spec, plan2, eof2)
	}

	frag := (plan1 != nil && minEntry(plan1) < maxLen) || (plan2 != nil && minEntry(plan2) < maxLen)
	cls := []string{"accepted", "kind:" + b.kind}
	switch n := len(ch1); {
	case n == 0:
		cls = append(cls, "chunks:0")
	case n == 1:
		cls = append(cls, "chunks:1")
	case n == 2:
		cls = append(cls, "chunks:2")
	case n < 10:
		cls = append(cls, "chunks:3-9")
	default:
		cls = append(cls, "chunks:10+")
	}
	if frag {
		cls = append(cls, "fragmented")
	}
	if eof1 || eof2 {
		cls = append(cls, "eof-with-data")
	}
	if len(data) > chunk.ChunkSizeLimit {
		cls = append(cls, "over-limit-input")
	}
	if b.kind == "rabin" && b.min < 16 {
		cls = append(cls, "rabin-min<16")
	}
	nt := len(ch1) >= 3 && frag
	if nt {
		cls = append(cls, "nt:"+b.kind)
	}
	return kit.Result{NonTrivial: nt, Classes: cls}
}

func run(c Case) kit.Result {
	return check(c.Spec, c.Data.Bytes(), c.Plan1, c.EOF1, c.Plan2, c.EOF2)
}

var spec = kit.Spec[Case]{
	Prop: "C06", Name: "main",
	Rule:  "spec string from the documented grammar (default, size-N, rabin, rabin-N, rabin-min-avg-max with/without labels, buzhash, boundary and invalid parameters) x input (const/periodic/random, length aimed at 0..400 chunks, up to 1 MiB quick / 4 MiB thorough) x two read-fragmentation plans (none, 1-byte, short, long reads; final read with or without io.EOF); non-trivial = accepted spec, >= 3 chunks and a plan that fragments inside a chunk",
	Quick: 1500, Thorough: 3500,
	Gen: gen, Run: run,
}

func TestProp(t *testing.T) { kit.All(t, spec) }

// ---------------------------------------------------------------------------
// boundary grid: the acceptance boundary of rabin-N (the 16-byte rabin window against
// min = N/3) with an input larger than ChunkSizeLimit, so that an accepted spec whose
// chunker cannot cut shows as a chunk over the limit.

var specGrid = kit.Spec[Case]{
	Prop: "C06", Name: "rabin-boundary",
	Rule: "exhaustive grid: rabin-N for N in 0..64 and rabin-min-avg-max with min in 14..17 x {const, random} input of ChunkSizeLimit+1 bytes x {unfragmented, 4096-byte reads}; same oracle as main; non-trivial = accepted spec (>= 3 chunks)",
	Run:  runGrid,
}

func runGrid(c Case) kit.Result {
	r := run(c)
	if r.Err == nil && !r.NonTrivial {
		for _, cl := range r.Classes {
			if cl == "chunks:10+" || cl == "chunks:3-9" {
				r.NonTrivial = true
			}
		}
	}
	return r
}

func TestPropRabinBoundary(t *testing.T) {
	if kit.Shard() != "0" {
		t.Skip("exhaustive grid runs in shard 0 only")
	}
	t.Run("replay", func(t *testing.T) { kit.Replay(t, specGrid) })
	t.Run("findings", func(t *testing.T) { kit.RunFindings(t, specGrid) })
	t.Run("grid", func(t *testing.T) {
		kit.Exhaustive(t, specGrid, func(yield func(Case) bool) {
			var specs []string
			for n := 0; n <= 64; n++ {
				specs = append(specs, fmt.Sprintf("rabin-%d", n))
			}
			for mn := 14; mn <= 17; mn++ {
				specs = append(specs, fmt.Sprintf("rabin-%d-%d-%d", mn, mn+1, mn+2), fmt.Sprintf("rabin-%d-64-128", mn))
			}
			n := chunk.ChunkSizeLimit + 1
			for i, s := range specs {
				d := kit.DataSpec{Kind: "const", Len: n, Seed: 1}
				if i%2 == 1 {
					d = kit.DataSpec{Kind: "random", Len: n, Seed: uint64(i)}
				}
				if !yield(Case{Spec: s, Data: d, Plan2: []int{4096}}) {
					return
				}
			}
		})
	})
}
