// Package c46 checks property C46: the peering service keeps reconnecting only
// while it should.
//
// A real peering.PeeringService runs inside a testing/synctest bubble against a fake
// libp2p host/network (no sockets). The harness owns the virtual clock, the outcome
// of every dial, every connection event and the moment at which each
// Connected/Disconnected notification reaches the service.
//
// "Held" notifications. The service's notifee only looks the peer handler up and
// spawns `go handler.startIfDisconnected()` / `go handler.stopIfConnected()`. Go gives
// no guarantee about when such a goroutine runs; it may run after a later Stop().
// The harness models that delay by deferring the *callback* and invoking it later.
// That is observationally the same as delaying the spawned goroutine as long as the
// peer's handler is the same object at both moments, so a held notification is
// delivered only if the peer was neither removed nor re-added in between (otherwise
// it is dropped); Stop() keeps handlers in the map, so holding across Stop is exact.
//
// Late return of Connect. A libp2p host's Connect returns only after the identify
// exchange on the new connection, i.e. some time after the Connected notification; the
// connection may be gone again by then. Outcome.PostMs models that wait: with
// PostMs > 0 the service has handled every delivered notification of the dial (and
// whatever the script did meanwhile, e.g. an external disconnect) before Connect
// returns nil for a peer that is no longer connected. The "flap" sub-check enumerates
// these schedules for one peer.
//
// Events inside Start()/Stop(). Connection events of a real network are not synchronised
// with Start/Stop. The fake network's Notify/StopNotify - called by the service from
// inside Start/Stop - is a schedule point owned by the harness: scripted events land just
// before or just after the (un)registration takes effect, optionally after every
// goroutine the call has spawned so far has run (Op.During, Op.Yield; "startstop" grid).
//
// Oracles (from the property statement):
//   - safety: no host.Connect call for a peer starts after Stop() has returned, or
//     after RemovePeer(p) has returned (until p is added again);
//   - progress: while the service runs, a peering peer that is disconnected (and whose
//     notifications have all been delivered, no dial in flight) is dialled again
//     within 10 minutes of becoming so / of the end of the previous dial, and
//     never with delay 0: no attempt of a handler starts at the very instant its previous
//     attempt returned (dials have a virtual duration, so a back-off that is shortened
//     by the time the failed dial took shows up here), no 4 attempts at one instant.
package c46

import (
	"context"
	"errors"
	"fmt"
	"sort"
	"sync"
	"testing"
	"testing/synctest"
	"time"

	"github.com/ipfs/boxo/peering"
	"github.com/libp2p/go-libp2p/core/connmgr"
	"github.com/libp2p/go-libp2p/core/host"
	"github.com/libp2p/go-libp2p/core/network"
	"github.com/libp2p/go-libp2p/core/peer"
	"pgregory.net/rapid"
	"verif/kit"
)

func TestMain(m *testing.M) { kit.Main(m) }

const (
	findingF19a = "F19a-late-disconnect-rearms-after-stop"
	findingF19b = "F19b-connect-then-drop-never-rearmed"
	maxGap      = 10 * time.Minute
)

// ---------------------------------------------------------------------------
// case

type Outcome struct {
	Kind    string `json:"kind"`     // fail | ok | okdrop (connect, then the connection drops before Connect returns)
	HoldC   bool   `json:"hold_c"`   // hold the Connected notification
	HoldD   bool   `json:"hold_d"`   // hold the Disconnected notification (okdrop)
	DelayMs int64  `json:"delay_ms"` // virtual duration of the dial
	// PostMs: ok/okdrop only. Virtual time that Connect keeps running after the connection
	// events, before it returns nil. A libp2p host's Connect waits for the identify
	// exchange after the connection (and its Connected notification) exists; the
	// connection may drop meanwhile. With PostMs > 0 every delivered notification of
	// this dial has been handled by the service before Connect returns.
	PostMs int64 `json:"post_ms,omitempty"`
}

type PeerSpec struct {
	Dials []Outcome `json:"dials"` // outcome of the k-th dial to this peer
	Tail  string    `json:"tail"`  // outcome of all further dials: fail | ok
	// TailDelayMs: virtual duration of every further dial (e.g. a black-holed address: the
	// dial only fails at the dial timeout, which is longer than the first back-offs)
	TailDelayMs int64 `json:"tail_delay_ms,omitempty"`
}

// Ev is a connection event that lands while Start()/Stop() is executing, at the moment the
// service registers (Start) / unregisters (Stop) its notifee with the network.
type Ev struct {
	Disc  bool `json:"disc,omitempty"` // a connection closes (else: one opens)
	Peer  int  `json:"peer,omitempty"`
	After bool `json:"after,omitempty"` // just after the (un)registration took effect (else: just before)
	Hold  bool `json:"hold,omitempty"`  // hold the notification (if anybody listens)
}

type Op struct {
	Kind string `json:"kind"` // add | remove | start | stop | conn | disc | advance | release | soak | untildial
	Peer int    `json:"peer,omitempty"`
	Hold bool   `json:"hold,omitempty"` // conn/disc: hold the notification
	Ms   int64  `json:"ms,omitempty"`   // advance
	Idx  int    `json:"idx,omitempty"`  // release: index into the list of held notifications (mod length)
	N    int    `json:"n,omitempty"`    // soak: number of (10 min + 1 s) steps
	// start/stop only: events landing inside the call, at the Notify/StopNotify point. Yield:
	// every goroutine the service has spawned so far runs to completion first (the Go
	// scheduler may run a `go` statement's goroutine at once on another thread).
	During []Ev `json:"during,omitempty"`
	Yield  bool `json:"yield,omitempty"`
}

type Case struct {
	Peers []PeerSpec `json:"peers"`
	Ops   []Op       `json:"ops"`
}

// ---------------------------------------------------------------------------
// fake host / network

type heldNotif struct {
	disc         bool
	p            int
	gen          int
	notifees     []network.Notifiee
	firedStopped bool // Stop() had already returned when it was fired
}

type dialRec struct {
	p    int
	at   time.Duration
	kind string
}

type engine struct {
	c     Case
	ids   []peer.ID
	idx   map[peer.ID]int
	start time.Time
	net   *netAdapter

	mu       sync.Mutex
	notifees []network.Notifiee
	conns    []int
	dialNo   []int
	held     []*heldNotif
	drain    bool
	during   *Op // start/stop op being executed: events to inject at the Notify/StopNotify point

	// model of what the harness asked for
	state   string // init | running | stopped
	present []bool
	gen     []int

	// oracle bookkeeping
	inflight      []int
	eligibleSince []time.Duration // -1: not eligible
	lastDialEnd   []time.Duration // -1: none since eligible
	lastKind      []string
	unstuck       []bool
	lateDisc      []bool // a Disconnected notification fired before Stop was delivered after Stop
	sameInstant   []int
	lastDialAt    []time.Duration
	lastEndAt     []time.Duration // end of the last finished dial of the peer (-1: none)
	lastEndGen    []int           // handler generation that made that dial
	dials         []dialRec
	consecFails   []int

	unknown error
	known   error
	knownID string
	classes map[string]bool
}

func (e *engine) now() time.Duration { return time.Since(e.start) }

func (e *engine) failUnknown(format string, a ...any) {
	if e.unknown == nil {
		e.unknown = fmt.Errorf("t=%v: %s", e.now(), fmt.Sprintf(format, a...))
	}
}

func (e *engine) failKnown(id string, format string, a ...any) {
	if e.known == nil {
		e.known = fmt.Errorf("t=%v: %s", e.now(), fmt.Sprintf(format, a...))
		e.knownID = id
	}
}

// pendingHeld: held notifications that would still be delivered to p's current handler
func (e *engine) pendingHeld(p int) int {
	n := 0
	for _, h := range e.held {
		if h.p == p && e.present[p] && h.gen == e.gen[p] {
			n++
		}
	}
	return n
}

// update recomputes whether the progress clause applies to p. Caller holds e.mu.
func (e *engine) update(p int) {
	el := e.state == "running" && e.present[p] && e.conns[p] == 0 && e.inflight[p] == 0 && e.pendingHeld(p) == 0 && !e.drain
	if el && e.eligibleSince[p] < 0 {
		e.eligibleSince[p] = e.now()
		e.lastDialEnd[p] = -1
	}
	if !el {
		e.eligibleSince[p] = -1
	}
}

func (e *engine) updateAll() {
	for p := range e.ids {
		e.update(p)
	}
}

// lastStartAt: start of the most recent recorded dial of p (for messages)
func (e *engine) lastStartAt(p int) time.Duration {
	for i := len(e.dials) - 1; i >= 0; i-- {
		if e.dials[i].p == p {
			return e.dials[i].at
		}
	}
	return -1
}

func (e *engine) base(p int) time.Duration {
	b := e.eligibleSince[p]
	if e.lastDialEnd[p] > b {
		b = e.lastDialEnd[p]
	}
	return b
}

// checkProgress is called by the script goroutine at quiescence.
func (e *engine) checkProgress() {
	e.mu.Lock()
	defer e.mu.Unlock()
	now := e.now()
	for p := range e.ids {
		if e.eligibleSince[p] < 0 {
			continue
		}
		if gap := now - e.base(p); gap > maxGap {
			msg := fmt.Sprintf("progress: service running, peer %d disconnected and fully notified since t=%v, last dial ended t=%v (kind %q), but no reconnect attempt for %v (> 10 min)",
				p, e.eligibleSince[p], e.lastDialEnd[p], e.lastKind[p], gap)
			if e.lastKind[p] == "okdrop" && !e.unstuck[p] {
				e.failKnown(findingF19b, "%s", msg)
			} else {
				e.failUnknown("%s", msg)
			}
		}
	}
}

type fakeConn struct {
	network.Conn
	p peer.ID
}

func (c *fakeConn) RemotePeer() peer.ID { return c.p }

// deliver invokes the notifee callbacks in a goroutine of their own (as the swarm does).
func (e *engine) deliver(disc bool, p int, notifees []network.Notifiee) {
	if !disc && e.conns[p] > 0 {
		e.unstuck[p] = true
	}
	c := &fakeConn{p: e.ids[p]}
	n := e.net
	for _, f := range notifees {
		f := f
		if disc {
			go f.Disconnected(n, c)
		} else {
			go f.Connected(n, c)
		}
	}
}

// fire is called with e.mu held whenever a connection to p opens or closes.
func (e *engine) fire(disc bool, p int, hold bool) {
	if len(e.notifees) == 0 {
		return // nobody listens (service not started, or stopped)
	}
	nf := append([]network.Notifiee(nil), e.notifees...)
	if hold && !e.drain {
		e.held = append(e.held, &heldNotif{disc: disc, p: p, gen: e.gen[p], notifees: nf, firedStopped: e.state == "stopped"})
		e.classes["held-notification"] = true
		return
	}
	e.deliver(disc, p, nf)
}

// release delivers (or drops) the i-th held notification. Caller holds e.mu.
func (e *engine) release(i int) {
	h := e.held[i]
	e.held = append(e.held[:i:i], e.held[i+1:]...)
	if !e.present[h.p] || e.gen[h.p] != h.gen {
		// the handler the notifee saw no longer exists: the delayed goroutine would act on
		// an object the harness cannot reach; dropping is the conservative choice
		e.classes["held-dropped(peer removed)"] = true
		e.update(h.p)
		return
	}
	if e.state == "stopped" && !h.firedStopped {
		e.classes["race:notification-delivered-after-stop"] = true
		if h.disc {
			e.lateDisc[h.p] = true
		}
	}
	e.deliver(h.disc, h.p, h.notifees)
	e.update(h.p)
}

type fakeNet engine

func (n *fakeNet) e() *engine { return (*engine)(n) }

// event: a connection to p opens or closes (at most 2 per peer). Caller holds e.mu.
func (e *engine) event(disc bool, p int, hold bool) {
	if disc {
		if e.conns[p] > 0 {
			e.conns[p]--
			e.fire(true, p, hold)
			e.update(p)
		}
	} else if e.conns[p] < 2 {
		e.conns[p]++
		e.fire(false, p, hold)
		e.update(p)
	}
}

// hookPoint runs on the goroutine that called Start()/Stop(), inside that call, where the
// service (un)registers its notifee. Connection events of the real network are not
// synchronised with Start/Stop, so they may land right here: just before or just after
// the (un)registration takes effect, and - since a `go` statement's goroutine may run at
// once - after everything the service has spawned so far has run (Yield). Before every
// script operation all goroutines of the bubble are quiescent, so the only runnable ones
// are those spawned by this very call; none of them needs a lock the caller holds.
func (e *engine) hookPoint(class string, apply func()) {
	e.mu.Lock()
	op := e.during
	e.during = nil
	e.mu.Unlock()
	if op != nil && op.Yield {
		synctest.Wait()
	}
	e.mu.Lock()
	defer e.mu.Unlock()
	if op != nil {
		for _, ev := range op.During {
			if !ev.After {
				e.event(ev.Disc, ev.Peer, ev.Hold)
				e.classes[class] = true
			}
		}
	}
	apply()
	if op != nil {
		for _, ev := range op.During {
			if ev.After {
				e.event(ev.Disc, ev.Peer, ev.Hold)
				e.classes[class] = true
			}
		}
	}
}

func (n *fakeNet) Notify(f network.Notifiee) {
	e := n.e()
	e.hookPoint("race:event-inside-start", func() {
		e.notifees = append(e.notifees, f)
	})
}

func (n *fakeNet) StopNotify(f network.Notifiee) {
	e := n.e()
	e.hookPoint("race:event-inside-stop", func() {
		for i, g := range e.notifees {
			if g == f {
				e.notifees = append(e.notifees[:i:i], e.notifees[i+1:]...)
				return
			}
		}
	})
}

func (n *fakeNet) Connectedness(id peer.ID) network.Connectedness {
	e := n.e()
	e.mu.Lock()
	defer e.mu.Unlock()
	if p, ok := e.idx[id]; ok && e.conns[p] > 0 {
		return network.Connected
	}
	return network.NotConnected
}

type fakeHost struct {
	host.Host
	e   *engine
	net network.Network
}

func (h *fakeHost) ID() peer.ID                      { return peer.ID("verif-self") }
func (h *fakeHost) Network() network.Network         { return h.net }
func (h *fakeHost) ConnManager() connmgr.ConnManager { return connmgr.NullConnMgr{} }

var errDialFailed = errors.New("fake host: dial failed")

func (h *fakeHost) Connect(ctx context.Context, pi peer.AddrInfo) error {
	e := h.e
	e.mu.Lock()
	p, ok := e.idx[pi.ID]
	if !ok {
		e.failUnknown("Connect called for a peer that was never a peering peer: %v", pi.ID)
		e.mu.Unlock()
		return errDialFailed
	}
	now := e.now()
	if e.drain {
		// verdict already taken: pretend the peer is reachable so that every timer dies out
		if e.conns[p] == 0 {
			e.conns[p] = 1
		}
		e.mu.Unlock()
		return nil
	}
	// --- safety
	if e.state == "stopped" || !e.present[p] {
		why := "Stop() had returned"
		if e.state != "stopped" {
			why = "RemovePeer had returned"
		}
		msg := fmt.Sprintf("safety: reconnect attempt (host.Connect, ctx cancelled=%v) for peer %d although %s", ctx.Err() != nil, p, why)
		if e.state == "stopped" && e.present[p] && e.lateDisc[p] {
			e.failKnown(findingF19a, "%s (a Disconnected notification fired before Stop reached the handler after Stop)", msg)
		} else {
			e.failUnknown("%s", msg)
		}
	}
	// --- delay bounds
	if e.eligibleSince[p] >= 0 {
		gap := now - e.base(p)
		if gap > maxGap {
			if e.lastKind[p] == "okdrop" && !e.unstuck[p] {
				e.failKnown(findingF19b, "reconnect attempt for peer %d came %v after it was due (> 10 min)", p, gap)
			} else {
				e.failUnknown("backoff: reconnect attempt for peer %d came %v after the previous attempt / the disconnect (> 10 min)", p, gap)
			}
		}
	}
	if e.lastDialAt[p] == now && len(e.dials) > 0 {
		e.sameInstant[p]++
	} else {
		e.sameInstant[p] = 0
	}
	e.lastDialAt[p] = now
	if e.inflight[p] == 0 && e.present[p] && e.lastEndAt[p] == now && e.lastEndGen[p] == e.gen[p] {
		// the handler's previous attempt returned at this very instant: the attempt that
		// starts now was scheduled with delay <= 0. (Every timer of the service is armed
		// with a back-off > 0 when the previous attempt ends or the peer drops.)
		e.failUnknown("backoff: reconnect attempt for peer %d starts at the very instant its previous attempt (%s, started t=%v) returned: scheduled with delay 0, not in (0, 10 min]",
			p, e.lastKind[p], e.lastStartAt(p))
	}
	if e.sameInstant[p] >= 3 {
		// break the zero-delay loop (virtual time cannot advance while it spins): report,
		// then pretend the peer is connected so that the service clears its timer
		e.failUnknown("backoff: 4 reconnect attempts for peer %d at the same instant (delay 0)", p)
		e.dials = append(e.dials, dialRec{p, now, "tripwire"})
		if e.conns[p] == 0 {
			e.conns[p] = 1
		}
		e.update(p)
		e.mu.Unlock()
		return nil
	}

	var out Outcome
	k := e.dialNo[p]
	e.dialNo[p]++
	if k < len(e.c.Peers[p].Dials) {
		out = e.c.Peers[p].Dials[k]
	} else {
		out = Outcome{Kind: e.c.Peers[p].Tail, DelayMs: e.c.Peers[p].TailDelayMs}
	}
	dialGen := e.gen[p]
	e.dials = append(e.dials, dialRec{p, now, out.Kind})
	if out.DelayMs > 0 {
		e.classes["slow-dial"] = true
		if out.Kind == "fail" && out.DelayMs >= 30000 {
			e.classes["slow-failing-dial(>=30s)"] = true
		}
	}
	e.inflight[p]++
	e.update(p)
	e.mu.Unlock()

	var err error
	if out.DelayMs > 0 {
		tm := time.NewTimer(time.Duration(out.DelayMs) * time.Millisecond)
		select {
		case <-tm.C:
		case <-ctx.Done():
			tm.Stop()
			err = ctx.Err()
		}
	} else if ctx.Err() != nil {
		err = ctx.Err()
	}

	e.mu.Lock()
	defer e.mu.Unlock()
	kind := out.Kind
	established, waited := false, false
	switch {
	case err != nil:
		kind = "cancelled"
	case e.conns[p] > 0:
		kind = "already-connected" // real hosts return nil without dialling
	case out.Kind == "fail":
		err = errDialFailed
	case out.Kind == "ok":
		e.conns[p]++
		e.fire(false, p, out.HoldC)
		established = true
	case out.Kind == "okdrop":
		e.conns[p]++
		e.fire(false, p, out.HoldC)
		e.conns[p]--
		e.fire(true, p, out.HoldD)
		e.unstuck[p] = false
		e.classes["connect-then-drop"] = true
		established = true
	}
	if established && out.PostMs > 0 {
		// the connection exists (or existed); Connect returns only PostMs later. The dial
		// stays "in flight" for the oracle; the service goroutines spawned by the
		// notifications above run before virtual time moves on.
		e.classes["connect-returns-late"] = true
		waited = true
		e.update(p)
		e.mu.Unlock()
		tm := time.NewTimer(time.Duration(out.PostMs) * time.Millisecond)
		select {
		case <-tm.C:
		case <-ctx.Done():
			tm.Stop()
		}
		e.mu.Lock()
		if ctx.Err() != nil {
			err = ctx.Err()
			kind = "cancelled"
		}
	}
	e.inflight[p]--
	if err == nil && e.conns[p] == 0 {
		// Connect reports success although the peer is not connected when it returns
		e.classes["connect-nil-but-disconnected"] = true
		if waited && e.pendingHeld(p) == 0 {
			// ... and the service has already handled the Disconnected notification
			e.classes["connect-nil-after-drop-was-handled"] = true
		}
	}
	if err != nil {
		e.consecFails[p]++
		if e.consecFails[p] >= 3 {
			e.classes["backoff>=3-failures"] = true
		}
		if e.consecFails[p] >= 20 {
			e.classes["backoff>=20-failures"] = true
		}
		if e.consecFails[p] >= 100 {
			e.classes["backoff>=100-failures"] = true
		}
	} else {
		e.consecFails[p] = 0
	}
	e.lastKind[p] = kind
	e.lastEndAt[p], e.lastEndGen[p] = e.now(), dialGen
	e.update(p)
	if e.eligibleSince[p] >= 0 {
		e.lastDialEnd[p] = e.now()
	}
	return err
}

// ---------------------------------------------------------------------------
// script execution

func newEngine(c Case) *engine {
	n := len(c.Peers)
	e := &engine{c: c, idx: map[peer.ID]int{}, start: time.Now(), state: "init", classes: map[string]bool{}}
	for i := 0; i < n; i++ {
		id := peer.ID(fmt.Sprintf("verif-peer-%d", i))
		e.ids = append(e.ids, id)
		e.idx[id] = i
	}
	e.conns = make([]int, n)
	e.dialNo = make([]int, n)
	e.present = make([]bool, n)
	e.gen = make([]int, n)
	e.inflight = make([]int, n)
	e.eligibleSince = make([]time.Duration, n)
	e.lastDialEnd = make([]time.Duration, n)
	e.lastDialAt = make([]time.Duration, n)
	e.lastEndAt = make([]time.Duration, n)
	e.lastEndGen = make([]int, n)
	e.lastKind = make([]string, n)
	e.unstuck = make([]bool, n)
	e.lateDisc = make([]bool, n)
	e.sameInstant = make([]int, n)
	e.consecFails = make([]int, n)
	for i := range e.eligibleSince {
		e.eligibleSince[i], e.lastDialEnd[i], e.lastDialAt[i], e.lastEndAt[i] = -1, -1, -1, -1
	}
	return e
}

const soakStep = maxGap + time.Second

func (e *engine) runScript() {
	e.net = &netAdapter{f: (*fakeNet)(e)}
	h := &fakeHost{e: e, net: e.net}
	ps := peering.NewPeeringService(h)

	settle := func() {
		synctest.Wait()
		e.checkProgress()
	}
	advance := func(d time.Duration) {
		time.Sleep(d)
		settle()
	}
	stop := func(op *Op) {
		e.mu.Lock()
		if op != nil && len(op.During) > 0 {
			e.during = op
		}
		for p := range e.ids {
			if e.inflight[p] > 0 {
				e.classes["race:stop-during-dial"] = true
			}
		}
		e.mu.Unlock()
		ps.Stop()
		e.mu.Lock()
		e.during = nil
		e.state = "stopped"
		for _, hn := range e.held {
			if !hn.firedStopped {
				e.classes["race:notification-held-across-stop"] = true
			}
		}
		e.updateAll()
		e.mu.Unlock()
	}

	for i := range e.c.Ops {
		op := e.c.Ops[i]
		if e.unknown != nil {
			break
		}
		p := op.Peer
		switch op.Kind {
		case "add":
			ps.AddPeer(peer.AddrInfo{ID: e.ids[p]})
			e.mu.Lock()
			if !e.present[p] {
				// a new handler object: nothing known about the old one applies to it
				e.present[p] = true
				e.gen[p]++
				e.lastKind[p], e.unstuck[p], e.lateDisc[p] = "", false, false
			}
			e.update(p)
			e.mu.Unlock()
		case "remove":
			e.mu.Lock()
			if e.present[p] && e.inflight[p] > 0 {
				e.classes["race:remove-during-dial"] = true
			}
			if e.present[p] && e.pendingHeld(p) > 0 {
				e.classes["race:notification-held-across-remove"] = true
			}
			e.mu.Unlock()
			ps.RemovePeer(e.ids[p])
			e.mu.Lock()
			if e.present[p] {
				e.present[p] = false
				e.gen[p]++
			}
			e.update(p)
			e.mu.Unlock()
		case "start":
			if len(op.During) > 0 {
				e.mu.Lock()
				e.during = &e.c.Ops[i]
				e.mu.Unlock()
			}
			err := ps.Start()
			e.mu.Lock()
			e.during = nil
			switch {
			case e.state == "stopped" && err == nil:
				e.failUnknown("Start() after Stop() returned nil")
			case e.state != "stopped" && err != nil:
				e.failUnknown("Start() failed: %v", err)
			case e.state == "init":
				e.state = "running"
			}
			e.updateAll()
			e.mu.Unlock()
		case "stop":
			stop(&e.c.Ops[i])
		case "conn":
			e.mu.Lock()
			e.event(false, p, op.Hold)
			e.mu.Unlock()
		case "disc":
			e.mu.Lock()
			e.event(true, p, op.Hold)
			e.mu.Unlock()
		case "release":
			e.mu.Lock()
			if len(e.held) > 0 {
				e.release(op.Idx % len(e.held))
			}
			e.mu.Unlock()
		case "advance":
			time.Sleep(time.Duration(op.Ms) * time.Millisecond)
		case "soak":
			for i := 0; i < op.N && e.unknown == nil; i++ {
				advance(soakStep)
			}
		case "untildial":
			// advance in small steps until some dial is in flight (at most 11 min), so that
			// the next operation races an ongoing host.Connect
			for i := 0; i < 330; i++ {
				e.mu.Lock()
				busy, candidates := false, false
				for p := range e.ids {
					busy = busy || e.inflight[p] > 0
					candidates = candidates || (e.state == "running" && e.present[p] && e.conns[p] == 0)
				}
				e.mu.Unlock()
				if busy || !candidates {
					break
				}
				time.Sleep(2 * time.Second)
				synctest.Wait()
			}
		}
		settle()
	}

	// epilogue 1: bounded progress for whatever is still disconnected
	if e.state == "running" && e.unknown == nil {
		advance(soakStep)
	}
	// epilogue 2: stop, let every delayed notification arrive, watch for > 10 min
	if e.state != "stopped" {
		stop(nil)
		settle()
	}
	for {
		e.mu.Lock()
		n := len(e.held)
		if n > 0 {
			e.release(0)
		}
		e.mu.Unlock()
		if n == 0 {
			break
		}
		settle()
	}
	for i := 0; i < 2; i++ {
		advance(soakStep)
	}
	// drain: make every remaining timer of the service die out so that the bubble ends
	e.mu.Lock()
	e.drain = true
	e.mu.Unlock()
	for i := 0; i < 2; i++ {
		time.Sleep(soakStep)
		synctest.Wait()
	}
}

// netAdapter is the network.Network handed to the service: only the methods peering
// uses are implemented; anything else panics on the nil embedded interface, which
// would show up as a harness failure.
type netAdapter struct {
	network.Network
	f *fakeNet
}

func (a *netAdapter) Notify(n network.Notifiee)     { a.f.Notify(n) }
func (a *netAdapter) StopNotify(n network.Notifiee) { a.f.StopNotify(n) }
func (a *netAdapter) Connectedness(p peer.ID) network.Connectedness {
	return a.f.Connectedness(p)
}

// ---------------------------------------------------------------------------
// run

var curT *testing.T

func run(c Case) kit.Result {
	var e *engine
	var panicMsg string
	synctest.Test(curT, func(t *testing.T) {
		defer func() {
			if r := recover(); r != nil {
				panicMsg = fmt.Sprint(r)
			}
		}()
		e = newEngine(c)
		e.runScript()
	})
	if panicMsg != "" {
		panic(panicMsg)
	}
	if e.unknown != nil {
		return kit.Result{Err: e.unknown}
	}
	if e.known != nil {
		return kit.Result{Err: e.known, Known: e.knownID}
	}
	var cls []string
	nt := false
	for k := range e.classes {
		cls = append(cls, k)
		switch k {
		case "race:notification-held-across-stop", "race:notification-held-across-remove", "race:notification-delivered-after-stop",
			"race:stop-during-dial", "race:remove-during-dial", "race:event-inside-start", "race:event-inside-stop", "connect-then-drop", "connect-nil-but-disconnected", "backoff>=3-failures":
			nt = true
		}
	}
	cls = append(cls, fmt.Sprintf("peers:%d", len(c.Peers)))
	switch n := len(e.dials); {
	case n == 0:
		cls = append(cls, "dials:0")
	case n < 10:
		cls = append(cls, "dials:1-9")
	case n < 100:
		cls = append(cls, "dials:10-99")
	default:
		cls = append(cls, "dials:100+")
	}
	sort.Strings(cls)
	return kit.Result{NonTrivial: nt, Classes: cls}
}

// ---------------------------------------------------------------------------
// generators

func genOutcome(t *rapid.T) Outcome {
	o := Outcome{Kind: rapid.SampledFrom([]string{"fail", "fail", "fail", "fail", "ok", "ok", "ok", "okdrop", "okdrop"}).Draw(t, "kind")}
	if o.Kind != "fail" {
		o.HoldC = rapid.IntRange(0, 3).Draw(t, "holdc") == 0
		// how long Connect keeps running (identify wait) after the connection events
		o.PostMs = rapid.SampledFrom([]int64{0, 0, 1, 1, 3000, 30000}).Draw(t, "post")
	}
	if o.Kind == "okdrop" {
		o.HoldD = rapid.IntRange(0, 2).Draw(t, "holdd") == 0
	}
	o.DelayMs = rapid.SampledFrom([]int64{0, 0, 0, 0, 1, 3000, 30000, 120000}).Draw(t, "delay")
	return o
}

var advances = []int64{1, 1000, 8000, 13000, 13000, 13000, 26000, 60000, 60000, 300000, 600000, 660000, 660000}

// genDuring: with probability 1/oneIn, 1..2 connection events that land inside Start()/Stop().
func genDuring(t *rapid.T, op *Op, np int, oneIn int) {
	if rapid.IntRange(1, oneIn).Draw(t, "during") != 1 {
		return
	}
	n := rapid.IntRange(1, 2).Draw(t, "nev")
	for i := 0; i < n; i++ {
		op.During = append(op.During, Ev{
			Disc:  rapid.IntRange(0, 2).Draw(t, "evdisc") > 0,
			Peer:  rapid.IntRange(0, np-1).Draw(t, "evpeer"),
			After: rapid.Bool().Draw(t, "evafter"),
			Hold:  rapid.IntRange(0, 3).Draw(t, "evhold") == 0,
		})
	}
	op.Yield = rapid.IntRange(0, 2).Draw(t, "yield") > 0
}

func gen(t *rapid.T) Case {
	np := rapid.IntRange(1, 3).Draw(t, "peers")
	c := Case{}
	for i := 0; i < np; i++ {
		ps := PeerSpec{Tail: rapid.SampledFrom([]string{"fail", "fail", "ok"}).Draw(t, "tail")}
		if ps.Tail == "fail" {
			ps.TailDelayMs = rapid.SampledFrom([]int64{0, 0, 0, 0, 1, 60000}).Draw(t, "taildelay")
		}
		n := rapid.IntRange(0, 6).Draw(t, "ndials")
		for j := 0; j < n; j++ {
			ps.Dials = append(ps.Dials, genOutcome(t))
		}
		c.Peers = append(c.Peers, ps)
	}
	peerGen := rapid.IntRange(0, np-1)
	// prologue: usually add some peers, connect some, and start
	if rapid.IntRange(0, 9).Draw(t, "prologue") > 0 {
		for i := 0; i < np; i++ {
			if i == 0 || rapid.IntRange(0, 5).Draw(t, "preadd") > 0 {
				c.Ops = append(c.Ops, Op{Kind: "add", Peer: i})
				// the peer may well be connected already when the service starts
				for k := rapid.SampledFrom([]int{0, 0, 0, 1, 2}).Draw(t, "preconn"); k > 0; k-- {
					c.Ops = append(c.Ops, Op{Kind: "conn", Peer: i})
				}
			}
		}
		st := Op{Kind: "start"}
		genDuring(t, &st, np, 2)
		c.Ops = append(c.Ops, st)
	}
	n := rapid.IntRange(5, kit.Scale(26, 28)).Draw(t, "nops")
	early := []string{"add", "add", "remove", "start", "conn", "conn", "conn", "disc", "disc", "disc", "disc",
		"advance", "advance", "advance", "advance", "advance", "advance", "advance", "release", "release", "soak", "untildial", "untildial"}
	late := append(append([]string{}, early...), "remove", "stop") // stop last: rapid favours low indices
	for i := 0; i < n; i++ {
		kinds := early
		if i >= n/2 {
			kinds = late
		}
		op := Op{Kind: rapid.SampledFrom(kinds).Draw(t, "op")}
		switch op.Kind {
		case "add", "remove":
			op.Peer = peerGen.Draw(t, "peer")
		case "conn", "disc":
			op.Peer = peerGen.Draw(t, "peer")
			op.Hold = rapid.IntRange(0, 2).Draw(t, "hold") == 0
		case "advance":
			op.Ms = rapid.SampledFrom(advances).Draw(t, "ms")
		case "release":
			op.Idx = rapid.IntRange(0, 3).Draw(t, "idx")
		case "soak":
			op.N = rapid.IntRange(1, 4).Draw(t, "n")
		case "start", "stop":
			genDuring(t, &op, np, 3)
		}
		c.Ops = append(c.Ops, op)
		if op.Kind == "untildial" {
			// usually race the ongoing dial with a removal or (late in the script) a stop
			switch rapid.IntRange(0, 3).Draw(t, "race") {
			case 0:
				c.Ops = append(c.Ops, Op{Kind: "remove", Peer: peerGen.Draw(t, "peer")})
			case 1:
				if i >= n/2 {
					st := Op{Kind: "stop"}
					genDuring(t, &st, np, 3)
					c.Ops = append(c.Ops, st)
				} else {
					c.Ops = append(c.Ops, Op{Kind: "remove", Peer: peerGen.Draw(t, "peer")})
				}
			}
		}
	}
	return c
}

// genBackoff: long runs of consecutive failures (up to 100 and a bit beyond), optionally
// ended by a success and a later drop, for 1..3 peers.
func genBackoff(t *rapid.T) Case {
	np := rapid.IntRange(1, 3).Draw(t, "peers")
	c := Case{}
	for i := 0; i < np; i++ {
		// a refused dial fails at once; a black-holed address fails only at the dial timeout,
		// long after the first back-offs (7.5 s ..) would have elapsed
		slow := rapid.SampledFrom([]int64{0, 0, 0, 1, 1000, 20000, 60000, 120000}).Draw(t, "dial-duration")
		ps := PeerSpec{Tail: "fail", TailDelayMs: slow}
		if rapid.Bool().Draw(t, "recovers") {
			k := rapid.IntRange(0, 40).Draw(t, "fails-before-ok")
			for j := 0; j < k; j++ {
				ps.Dials = append(ps.Dials, Outcome{Kind: "fail", DelayMs: slow})
			}
			ps.Dials = append(ps.Dials, Outcome{
				Kind:   rapid.SampledFrom([]string{"ok", "ok", "okdrop"}).Draw(t, "recovery"),
				PostMs: rapid.SampledFrom([]int64{0, 1}).Draw(t, "post"),
			})
		}
		c.Peers = append(c.Peers, ps)
		c.Ops = append(c.Ops, Op{Kind: "add", Peer: i})
	}
	c.Ops = append(c.Ops, Op{Kind: "start"})
	total := rapid.SampledFrom([]int{3, 12, 40, 100, 100, 108}).Draw(t, "steps")
	for total > 0 {
		n := rapid.IntRange(1, total).Draw(t, "chunk")
		c.Ops = append(c.Ops, Op{Kind: "soak", N: n})
		total -= n
		switch rapid.IntRange(0, 3).Draw(t, "between") {
		case 0:
			c.Ops = append(c.Ops, Op{Kind: "disc", Peer: rapid.IntRange(0, np-1).Draw(t, "peer")})
		case 1:
			c.Ops = append(c.Ops, Op{Kind: "advance", Ms: rapid.SampledFrom(advances).Draw(t, "ms")})
		}
	}
	return c
}

// flapGrid enumerates the delivery schedules of one flapping reconnect: after k failed
// dials a dial succeeds and the connection is gone again when host.Connect returns nil.
//   - "okdrop": the connection drops during the dial; Connected/Disconnected are each
//     delivered at once or held (released one soak step later), Connect returns 0 / 1 ms /
//     3 s after the drop (with > 0 the service has handled every delivered notification
//     before Connect returns; with 0 its goroutines race the return);
//   - "ok" + external disconnect while Connect is still waiting (PostMs 3 s / 30 s).
//
// Afterwards the service keeps running for 3 soak steps: the peer must be dialled again
// within 10 min each time (all later dials fail, or succeed and stay up).
func flapGrid(yield func(Case) bool) {
	tailOps := []Op{{Kind: "soak", N: 1}, {Kind: "release"}, {Kind: "release"}, {Kind: "soak", N: 2}}
	for _, k := range []int{0, 1, 3} {
		for _, tail := range []string{"fail", "ok"} {
			for _, holdC := range []bool{false, true} {
				for _, holdD := range []bool{false, true} {
					mk := func(o Outcome, mid ...Op) Case {
						ps := PeerSpec{Tail: tail}
						for j := 0; j < k; j++ {
							ps.Dials = append(ps.Dials, Outcome{Kind: "fail"})
						}
						ps.Dials = append(ps.Dials, o)
						ops := []Op{{Kind: "add"}, {Kind: "start"}}
						ops = append(ops, mid...)
						return Case{Peers: []PeerSpec{ps}, Ops: append(ops, tailOps...)}
					}
					for _, delay := range []int64{0, 3000} {
						for _, post := range []int64{0, 1, 3000} {
							if !yield(mk(Outcome{Kind: "okdrop", HoldC: holdC, HoldD: holdD, DelayMs: delay, PostMs: post})) {
								return
							}
						}
					}
					for _, post := range []int64{3000, 30000} {
						// untildial polls every 2 s, the dial lasts >= 3 s: the disconnect lands
						// while Connect is waiting after the connection was made
						if !yield(mk(Outcome{Kind: "ok", HoldC: holdC, PostMs: post},
							Op{Kind: "untildial"}, Op{Kind: "disc", Hold: holdD})) {
							return
						}
					}
				}
			}
		}
	}
}

// startStopGrid enumerates connection events that land inside Start() / Stop() for one
// peer that was added before Start and has 0..2 connections at that moment: 1..2 events
// (open / close), each just before or just after the notifee (un)registration takes
// effect, with and without letting the goroutines the call has spawned so far run first,
// notifications of events that anybody listens to delivered at once or held. Afterwards
// (Start) the service runs for 4 soak steps - a peer left disconnected must be dialled
// within 10 min each time - resp. (Stop) is watched for > 20 min: no dial at all.
func startStopGrid(yield func(Case) bool) {
	type ev struct{ disc, after bool }
	evsets := func(conns int) [][]ev {
		var out [][]ev
		for _, a := range []bool{false, true} {
			for _, d := range []bool{false, true} {
				if d && conns == 0 {
					continue
				}
				out = append(out, []ev{{d, a}})
				for _, d2 := range []bool{false, true} {
					for _, a2 := range []bool{false, true} {
						if a && !a2 {
							continue // "before" events run first anyway
						}
						n := conns + 1
						if d {
							n = conns - 1
						}
						if d2 && n == 0 {
							continue
						}
						out = append(out, []ev{{d, a}, {d2, a2}})
					}
				}
			}
		}
		return out
	}
	for _, tail := range []string{"fail", "ok"} {
		for conns := 0; conns <= 2; conns++ {
			for _, set := range evsets(conns) {
				for _, yld := range []bool{false, true} {
					for _, hold := range []bool{false, true} {
						var during []Ev
						for _, x := range set {
							during = append(during, Ev{Disc: x.disc, After: x.after, Hold: hold})
						}
						pre := []Op{{Kind: "add"}}
						for k := 0; k < conns; k++ {
							pre = append(pre, Op{Kind: "conn"})
						}
						peers := []PeerSpec{{Tail: tail}}
						// events inside Start
						ops := append(append([]Op{}, pre...), Op{Kind: "start", During: during, Yield: yld},
							Op{Kind: "soak", N: 2}, Op{Kind: "release"}, Op{Kind: "release"}, Op{Kind: "soak", N: 2})
						if !yield(Case{Peers: peers, Ops: ops}) {
							return
						}
						// events inside Stop, the service idle or (connections: 0) with a dial in flight
						for _, mid := range [][]Op{{{Kind: "advance", Ms: 1000}}, {{Kind: "untildial"}}} {
							if mid[0].Kind == "untildial" && conns > 0 {
								continue
							}
							ops = append(append([]Op{{Kind: "start"}}, pre...), mid...)
							ops = append(ops, Op{Kind: "stop", During: during, Yield: yld})
							sp := []PeerSpec{{Tail: tail, Dials: []Outcome{{Kind: tail, DelayMs: 30000}}}}
							if !yield(Case{Peers: sp, Ops: ops}) {
								return
							}
						}
					}
				}
			}
		}
	}
}

func sample(c Case) any {
	if len(c.Ops) <= 40 {
		return c
	}
	return map[string]any{"peers": c.Peers, "ops_total": len(c.Ops), "first_ops": c.Ops[:40]}
}

var spec = kit.Spec[Case]{
	Prop: "C46", Name: "main",
	Rule:  "peering service in a synctest bubble on a fake host: 1..3 peers with scripted dial outcomes (fail / ok / ok-then-drop-before-Connect-returns, optional dial duration, optional time 1 ms..30 s that Connect keeps waiting after the connection events before it returns nil, so that the service handles the drop first; all further failing dials optionally taking 60 s; peers optionally connected before Start), script of <=~30 AddPeer/RemovePeer/Start/Stop/external connect/disconnect/advance(<=11 min)/soak/advance-until-a-dial-is-in-flight/release, Connected/Disconnected notifications optionally held and delivered later (also after Stop), 1..2 connection events optionally landing inside Start()/Stop() just before/after the notifee (un)registration; safety: no Connect starts after Stop/RemovePeer returned; progress: every disconnected, fully notified peer of a running service is dialled within 10 min and never with delay 0 (no attempt starts at the instant the handler's previous attempt returned); non-trivial = a notification is held across or delivered after Stop/RemovePeer, Stop/RemovePeer during a dial, a connection event inside Start/Stop, a connect-then-drop, Connect returning nil for a peer that is disconnected again, or >=3 consecutive failed dials",
	Quick: 1500, Thorough: 12000,
	Gen: gen, Run: run, Journal: true, Sample: sample,
}

var specBackoff = kit.Spec[Case]{
	Prop: "C46", Name: "backoff",
	Rule:  "1..3 peers whose dials all fail, each dial taking 0 / 1 ms / 1 s / 20 s / 60 s / 120 s of virtual time per peer (refused vs. black-holed address) (optionally one success - stable, or dropped again before Connect returns - after 0..40 failures, then an external drop), service soaked for up to 108 steps of 10 min + 1 s: every step must contain a dial of every disconnected peer, no inter-dial delay may exceed 10 min or be 0, nothing may panic; non-trivial = >=3 consecutive failures (classes show >=20 and >=100)",
	Quick: 150, Thorough: 1200,
	Gen: genBackoff, Run: run, Journal: true, Sample: sample,
}

var specFlap = kit.Spec[Case]{
	Prop: "C46", Name: "flap",
	Rule: "finite grid (192 cases) of one flapping reconnect on a running service with 1 peer: after 0/1/3 failed dials a dial succeeds and the connection is gone again when host.Connect returns nil - either dropped during the dial (Connect returns 0 / 1 ms / 3 s after the drop, dial duration 0 / 3 s) or disconnected externally while Connect still waits (3 s / 30 s) - x Connected held or not x Disconnected held or not (held ones are released 10 min later) x later dials fail / succeed; then 3 soak steps of 10 min + 1 s: the peer must be dialled again within 10 min of Connect returning (same oracles as main); non-trivial = connect-then-drop, Connect returning nil for a peer that is disconnected at that moment, or >=3 consecutive failures (in 3 cases a concurrent second dial reconnects the peer before the first Connect returns)",
	Run:  run, Journal: true, Sample: sample,
}

var specStartStop = kit.Spec[Case]{
	Prop: "C46", Name: "startstop",
	Rule: "finite grid of connection events landing inside Start() / Stop() at the point where the service registers / unregisters its notifee: 1 peer added before Start with 0..2 connections x 1..2 events (open / close; each just before or just after the (un)registration takes effect) x the goroutines spawned by the call so far have run or not x notifications delivered at once or held x later dials fail / succeed; Start: then 4 soak steps of 10 min + 1 s, the peer if left disconnected must be dialled within 10 min each time; Stop (service idle, or a 30 s dial in flight): no dial after Stop returned, > 20 min watched (same oracles as main); non-trivial = an event landed inside Start/Stop",
	Run:  run, Journal: true, Sample: sample,
}

func TestPropStartStop(t *testing.T) {
	if kit.Shard() != "0" {
		t.Skip("exhaustive grid runs in shard 0 only")
	}
	t.Run("replay", func(t *testing.T) { curT = t; kit.Replay(t, specStartStop) })
	t.Run("findings", func(t *testing.T) { curT = t; kit.RunFindings(t, specStartStop) })
	t.Run("grid", func(t *testing.T) { curT = t; kit.Exhaustive(t, specStartStop, startStopGrid) })
}

func TestPropFlap(t *testing.T) {
	if kit.Shard() != "0" {
		t.Skip("exhaustive grid runs in shard 0 only")
	}
	t.Run("replay", func(t *testing.T) { curT = t; kit.Replay(t, specFlap) })
	t.Run("findings", func(t *testing.T) { curT = t; kit.RunFindings(t, specFlap) })
	t.Run("grid", func(t *testing.T) { curT = t; kit.Exhaustive(t, specFlap, flapGrid) })
}

func all(t *testing.T, s kit.Spec[Case]) {
	t.Run("replay", func(t *testing.T) { curT = t; kit.Replay(t, s) })
	t.Run("findings", func(t *testing.T) { curT = t; kit.RunFindings(t, s) })
	t.Run("search", func(t *testing.T) { curT = t; kit.Check(t, s) })
}

func TestProp(t *testing.T)        { all(t, spec) }
func TestPropBackoff(t *testing.T) { all(t, specBackoff) }
