package c29

// C29 - Name publishing is monotone and resolution is consistent.
//
// Two sub-checks against the real namesys (NewNameSystem) over an in-memory offline
// router and map datastores:
//
//   hist  - histories of Publish / Resolve over 2-3 Ed25519 keys with cache size {0,1,16},
//           optional max-cache-TTL, explicit sequence numbers, TTLs and EOLs, and restarts:
//           the name system is dropped and a new one is built over the SAME router, either
//           over the same (persistent) datastore or over a fresh empty one (what
//           NewNameSystem does by default: an in-memory map datastore). After a restart with
//           a fresh datastore the publisher's current record is the one routing serves
//           (IPNSPublisher.GetPublished documents that fallback), so sequence selection
//           must continue from it.
//   chain - name chains A1 -> ... -> Ak -> /ipfs/c/sub (k <= 6, optional cycle) with per-hop
//           TTLs and sub-paths, resolved from every start with depth limits and remainders.
//
// Records carry real-time EOLs (>= 1 h away); no verdict depends on the wall clock: TTLs
// are compared against configured values, with the slack the code documents for cache
// hits (a hit reports the *remaining* lifetime, which can only be smaller by the time the
// case has been running).

import (
	"context"
	"crypto/ed25519"
	"crypto/sha256"
	"encoding/binary"
	"errors"
	"fmt"
	"testing"
	"time"

	"github.com/ipfs/boxo/ipns"
	"github.com/ipfs/boxo/namesys"
	"github.com/ipfs/boxo/path"
	offroute "github.com/ipfs/boxo/routing/offline"
	"github.com/ipfs/go-cid"
	ds "github.com/ipfs/go-datastore"
	dssync "github.com/ipfs/go-datastore/sync"
	record "github.com/libp2p/go-libp2p-record"
	ci "github.com/libp2p/go-libp2p/core/crypto"
	"github.com/libp2p/go-libp2p/core/peer"
	"github.com/libp2p/go-libp2p/core/routing"
	mh "github.com/multiformats/go-multihash"
	"pgregory.net/rapid"
	"verif/kit"
)

func TestMain(m *testing.M) { kit.Main(m) }

// ---------------------------------------------------------------------------
// shared helpers

// keyFromSeed derives an Ed25519 key deterministically from a drawn seed.
func keyFromSeed(seed uint64) (ci.PrivKey, ipns.Name) {
	var b [12]byte
	copy(b[:], "c29:")
	binary.BigEndian.PutUint64(b[4:], seed)
	h := sha256.Sum256(b[:])
	sk, err := ci.UnmarshalEd25519PrivateKey(ed25519.NewKeyFromSeed(h[:]))
	if err != nil {
		panic(err)
	}
	pid, err := peer.IDFromPrivateKey(sk)
	if err != nil {
		panic(err)
	}
	return sk, ipns.NameFromPeer(pid)
}

// nameText renders an IPNS name in one of its documented textual forms.
func nameText(n ipns.Name, form string) string {
	switch form {
	case "b58": // legacy peer-ID form (12D3Koo...)
		return n.Peer().String()
	case "b32": // CIDv1 libp2p-key, base32
		return n.Cid().String()
	default: // "b36": canonical k51...
		return n.String()
	}
}

// valuePath is the i-th immutable value: /ipfs/<cidv1 raw sha256(i)>.
func valueBase(i int) string {
	sum, err := mh.Sum([]byte(fmt.Sprintf("c29-value-%d", i)), mh.SHA2_256, -1)
	if err != nil {
		panic(err)
	}
	return "/ipfs/" + cid.NewCidV1(cid.Raw, sum).String()
}

var segPool = []string{"a", "b", "dir", "file.txt", "a b", "ü", "%41", "x-y_z", "日本"}

// genSub draws "" or "/seg(/seg)*" of up to max segments.
func genSub(t *rapid.T, max int, label string) string {
	n := rapid.SampledFrom([]int{0, 0, 1, 1, 2, 3}).Draw(t, label+"_n")
	if n > max {
		n = max
	}
	s := ""
	for i := 0; i < n; i++ {
		s += "/" + rapid.SampledFrom(segPool).Draw(t, label)
	}
	return s
}

// genRem draws a remainder: a sub-path, sometimes with a trailing slash.
func genRem(t *rapid.T) string {
	s := genSub(t, 3, "rem")
	if rapid.IntRange(0, 7).Draw(t, "trail") == 0 {
		s += "/"
	}
	return s
}

// genTTL draws a record TTL in ns; -1 = option not passed (record gets ipns.DefaultRecordTTL).
func genTTL(t *rapid.T) int64 {
	switch rapid.IntRange(0, 9).Draw(t, "ttlclass") {
	case 0:
		return -1
	case 1, 2:
		return 0
	case 3:
		return rapid.Int64Range(1, 1000).Draw(t, "ttl_ns")
	case 4:
		return int64(time.Millisecond) * rapid.Int64Range(1, 50).Draw(t, "ttl_ms")
	default:
		return int64(time.Second) * rapid.Int64Range(1, 1800).Draw(t, "ttl_s")
	}
}

// genMaxTTL draws the WithMaxCacheTTL setting: nil = option absent.
func genMaxTTL(t *rapid.T) *int64 {
	v := rapid.SampledFrom([]int64{-2, -2, -2, 0, -int64(time.Second), 1, int64(20 * time.Millisecond), int64(10 * time.Second), int64(time.Hour)}).Draw(t, "maxttl")
	if v == -2 {
		return nil
	}
	return &v
}

func ttlOrDefault(ns int64) time.Duration {
	if ns < 0 {
		return ipns.DefaultRecordTTL
	}
	return time.Duration(ns)
}

// capTTL mirrors the documented WithMaxCacheTTL rule: a positive cap bounds the reported
// TTL, a cap <= 0 only disables the cache.
func capTTL(ttl time.Duration, max *int64) time.Duration {
	if max != nil && *max > 0 && ttl > time.Duration(*max) {
		return time.Duration(*max)
	}
	return ttl
}

func cacheCanServe(cache int, max *int64) bool {
	return cache > 0 && (max == nil || *max > 0)
}

type sut struct {
	ns     namesys.NameSystem
	nsDS   ds.Datastore
	router routing.Routing
	cache  int
	max    *int64
}

func newSUT(cache int, max *int64, shared bool) (*sut, error) {
	rds := dssync.MutexWrap(ds.NewMapDatastore())
	nds := ds.Datastore(rds)
	if !shared {
		nds = dssync.MutexWrap(ds.NewMapDatastore())
	}
	router := offroute.NewOfflineRouter(rds, record.NamespacedValidator{
		"ipns": ipns.Validator{},
		"pk":   record.PublicKeyValidator{},
	})
	s := &sut{nsDS: nds, router: router, cache: cache, max: max}
	if err := s.build(); err != nil {
		return nil, err
	}
	return s, nil
}

// build constructs a name system over s.router and s.nsDS with the case's options.
func (s *sut) build() error {
	opts := []namesys.Option{namesys.WithDatastore(s.nsDS)}
	if s.cache > 0 {
		opts = append(opts, namesys.WithCache(s.cache))
	}
	if s.max != nil {
		opts = append(opts, namesys.WithMaxCacheTTL(time.Duration(*s.max)))
	}
	ns, err := namesys.NewNameSystem(s.router, opts...)
	if err != nil {
		return err
	}
	s.ns = ns
	return nil
}

// restart drops the name system and builds a new one with the same options over the same
// router: over the same datastore (a node restart with a persistent datastore) or, with
// fresh, over a new empty map datastore (what NewNameSystem uses when none is supplied).
func (s *sut) restart(fresh bool) error {
	if fresh {
		s.nsDS = dssync.MutexWrap(ds.NewMapDatastore())
	}
	return s.build()
}

type recView struct {
	has   bool
	raw   string
	seq   uint64
	value string
}

func viewRecord(b []byte) (recView, error) {
	r, err := ipns.UnmarshalRecord(b)
	if err != nil {
		return recView{}, err
	}
	seq, err := r.Sequence()
	if err != nil {
		return recView{}, err
	}
	v, err := r.Value()
	if err != nil {
		return recView{}, err
	}
	return recView{has: true, raw: string(b), seq: seq, value: v.String()}, nil
}

// localRecord reads the publisher's own record of name from the namesys datastore.
func (s *sut) localRecord(ctx context.Context, n ipns.Name) (recView, error) {
	b, err := s.nsDS.Get(ctx, namesys.IpnsDsKey(n))
	if errors.Is(err, ds.ErrNotFound) {
		return recView{}, nil
	}
	if err != nil {
		return recView{}, err
	}
	return viewRecord(b)
}

// routedRecord reads the record the routing system serves for name.
func (s *sut) routedRecord(ctx context.Context, n ipns.Name) (recView, error) {
	b, err := s.router.GetValue(ctx, string(n.RoutingKey()))
	if errors.Is(err, routing.ErrNotFound) {
		return recView{}, nil
	}
	if err != nil {
		return recView{}, err
	}
	return viewRecord(b)
}

// ttlOK checks a reported TTL against the configured one. A fresh resolution reports the
// (capped) record TTL exactly; a cache hit reports the remaining cache lifetime, which is
// at most that and smaller by no more than the time the case has been running.
func ttlOK(got, want time.Duration, start time.Time) bool {
	if want == 0 {
		return got == 0
	}
	if got > want || got <= 0 {
		return false
	}
	return got >= want-time.Since(start)-time.Millisecond
}

// ---------------------------------------------------------------------------
// sub-check "hist"

type Op struct {
	Kind string `json:"kind"` // pub | res | restart
	Key  int    `json:"key"`
	// pub
	Val    int    `json:"val,omitempty"`
	Sub    string `json:"sub,omitempty"`
	HasSeq bool   `json:"has_seq,omitempty"`
	Seq    uint64 `json:"seq,omitempty"`
	TTL    int64  `json:"ttl"`             // ns; -1 = option not passed
	EOLh   int    `json:"eol_h,omitempty"` // hours of validity; 0 = option not passed (48 h)
	// res
	Rem   string `json:"rem,omitempty"`
	Form  string `json:"form,omitempty"`  // b36 | b58 | b32
	Depth int    `json:"depth,omitempty"` // 0 = option not passed
	// restart
	Fresh bool `json:"fresh,omitempty"` // new empty namesys datastore (else the same one)
}

type HistCase struct {
	Cache    int      `json:"cache"`
	MaxTTL   *int64   `json:"max_ttl,omitempty"`
	SharedDS bool     `json:"shared_ds"`
	Seeds    []uint64 `json:"seeds"`
	Ops      []Op     `json:"ops"`
}

// validity hours; all differ from the 48 h default by >= 12 h so that the order of two
// EOLs never depends on how long the case has been running.
var eolHours = []int{1, 2, 12, 24, 36, 60, 96}

func genHist(t *rapid.T) HistCase {
	c := HistCase{}
	c.Cache = rapid.SampledFrom([]int{0, 1, 1, 16, 16}).Draw(t, "cache")
	c.MaxTTL = genMaxTTL(t)
	c.SharedDS = rapid.Bool().Draw(t, "shared")
	nk := rapid.IntRange(2, 3).Draw(t, "nkeys")
	c.Seeds = rapid.SliceOfNDistinct(rapid.Uint64(), nk, nk, rapid.ID[uint64]).Draw(t, "seeds")
	n := rapid.IntRange(1, kit.Scale(20, 30)).Draw(t, "nops")
	// model state used only to aim the draws (explicit sequence around the current one)
	type st struct {
		has bool
		seq uint64
		val string
	}
	m := make([]st, nk)
	for i := 0; i < n; i++ {
		k := rapid.IntRange(0, nk-1).Draw(t, "key")
		kind := rapid.IntRange(0, 10).Draw(t, "kind")
		if kind == 10 {
			// restart; the model is unchanged: the current record is still the routed one
			c.Ops = append(c.Ops, Op{Kind: "restart", TTL: -1,
				Fresh: rapid.IntRange(0, 3).Draw(t, "fresh") > 0})
			continue
		}
		if kind < 5 {
			op := Op{Kind: "pub", Key: k}
			op.Val = rapid.IntRange(0, 2).Draw(t, "val")
			if rapid.IntRange(0, 3).Draw(t, "hassub") == 0 {
				op.Sub = genSub(t, 2, "vsub")
			}
			op.TTL = genTTL(t)
			if rapid.IntRange(0, 2).Draw(t, "haseol") == 0 {
				op.EOLh = rapid.SampledFrom(eolHours).Draw(t, "eol")
			}
			v := valueBase(op.Val) + op.Sub
			if rapid.IntRange(0, 2).Draw(t, "hasseq") == 0 {
				op.HasSeq = true
				cur := m[k].seq
				switch rapid.IntRange(0, 6).Draw(t, "seqclass") {
				case 0:
					op.Seq = 0
				case 1:
					op.Seq = cur
				case 2:
					if cur > 0 {
						op.Seq = cur - rapid.Uint64Range(1, cur).Draw(t, "below")
					}
				case 3, 4:
					op.Seq = cur + 1
				case 5:
					op.Seq = cur + rapid.Uint64Range(2, 50).Draw(t, "above")
				default:
					op.Seq = cur + rapid.Uint64Range(1, 1<<40).Draw(t, "far")
				}
				if (m[k].has && op.Seq > cur) || (!m[k].has && op.Seq > 0) {
					m[k] = st{true, op.Seq, v}
				}
			} else {
				if !m[k].has {
					m[k] = st{true, 0, v}
				} else if m[k].val != v {
					m[k].seq++
					m[k].val = v
				}
			}
			c.Ops = append(c.Ops, op)
		} else {
			op := Op{Kind: "res", Key: k, TTL: -1}
			op.Rem = genRem(t)
			op.Form = rapid.SampledFrom([]string{"b36", "b36", "b36", "b58", "b58", "b32"}).Draw(t, "form")
			op.Depth = rapid.SampledFrom([]int{0, 0, 0, 1, 2}).Draw(t, "depth")
			c.Ops = append(c.Ops, op)
		}
	}
	return c
}

type routed struct {
	has   bool
	seq   uint64
	value string
	ttl   time.Duration // record TTL
	eolH  int           // validity rank: hours ...
	eolI  int           // ... then op index
}

func runHist(c HistCase) kit.Result {
	ctx, cancel := context.WithTimeout(context.Background(), 2*time.Minute)
	defer cancel()
	start := time.Now()
	s, err := newSUT(c.Cache, c.MaxTTL, c.SharedDS)
	if err != nil {
		return kit.Fail("NewNameSystem: %v", err)
	}
	type keyT struct {
		sk   ci.PrivKey
		name ipns.Name
	}
	keys := make([]keyT, len(c.Seeds))
	for i, sd := range c.Seeds {
		keys[i].sk, keys[i].name = keyFromSeed(sd)
	}
	local := make([]recView, len(keys)) // publisher's record as last observed
	rt := make([]routed, len(keys))     // routing record (model)
	// seen[path string used for the lookup] = routing state at the last resolve through
	// that string which returned the then-current record (what a cache may still hold).
	seen := map[string]routed{}
	resolvedOK := make([]bool, len(keys))
	repubAfterResolve := make([]bool, len(keys))

	var known error
	nt, ntRouted := false, false
	var nPub, nRes, nRej, nOld, nHitCand, nRestart, nFromRouting int

	for i, op := range c.Ops {
		if op.Key < 0 || op.Key >= len(keys) {
			return kit.Fail("malformed case: key index")
		}
		k := keys[op.Key]
		switch op.Kind {
		case "pub":
			nPub++
			vstr := valueBase(op.Val) + op.Sub
			v, err := path.NewPath(vstr)
			if err != nil {
				return kit.Fail("malformed case: value %q: %v", vstr, err)
			}
			var opts []namesys.PublishOption
			if op.TTL >= 0 {
				opts = append(opts, namesys.PublishWithTTL(time.Duration(op.TTL)))
			}
			eolH := 48
			if op.EOLh > 0 {
				eolH = op.EOLh
				opts = append(opts, namesys.PublishWithEOL(start.Add(time.Duration(op.EOLh)*time.Hour+time.Duration(i)*time.Second)))
			}
			if op.HasSeq {
				opts = append(opts, namesys.PublishWithSequence(op.Seq))
			}
			before := local[op.Key]
			rtBefore, err := s.routedRecord(ctx, k.name)
			if err != nil {
				return kit.Fail("op %d: reading routed record: %v", i, err)
			}
			// cur is the publisher's current record: its own stored one or, when it has none
			// (new name system over a fresh datastore), the one routing serves.
			cur, curSrc := before, "stored"
			if !before.has {
				cur, curSrc = rtBefore, "routed"
				if cur.has {
					nFromRouting++
					if cur.seq > 0 {
						ntRouted = true
					}
				}
			}
			perr := s.ns.Publish(ctx, k.sk, v, opts...)
			after, err := s.localRecord(ctx, k.name)
			if err != nil {
				return kit.Fail("op %d: publisher's stored record unreadable after Publish: %v", i, err)
			}
			rtAfter, err := s.routedRecord(ctx, k.name)
			if err != nil {
				return kit.Fail("op %d: routed record unreadable after Publish: %v", i, err)
			}
			// never decreases, whatever the outcome
			if before.has && (!after.has || after.seq < before.seq) {
				return kit.Fail("op %d: stored sequence went from %d to %v (has=%v) on Publish (err=%v)", i, before.seq, after.seq, after.has, perr)
			}
			if rtBefore.has && (!rtAfter.has || rtAfter.seq < rtBefore.seq) {
				return kit.Fail("op %d: routed sequence went from %d to %d on Publish (err=%v)", i, rtBefore.seq, rtAfter.seq, perr)
			}
			if cur.has && after.has && after.seq < cur.seq {
				return kit.Fail("op %d: Publish stored sequence %d below the current (%s) record's %d (err=%v)", i, after.seq, curSrc, cur.seq, perr)
			}
			// explicit sequence not greater than the current one: rejected, nothing stored
			invalid := op.HasSeq && cur.has && op.Seq <= cur.seq
			firstZero := op.HasSeq && !cur.has && op.Seq == 0 // no current record: either outcome is consistent with the statement
			if invalid || (firstZero && perr != nil) {
				if !errors.Is(perr, namesys.ErrInvalidSequence) {
					return kit.Fail("op %d: explicit sequence %d with current (%s) %d (has=%v): want ErrInvalidSequence, got %v", i, op.Seq, curSrc, cur.seq, cur.has, perr)
				}
				if after.raw != before.raw || after.has != before.has {
					return kit.Fail("op %d: rejected Publish (seq %d <= %d) changed the stored record", i, op.Seq, cur.seq)
				}
				if rtAfter.raw != rtBefore.raw {
					return kit.Fail("op %d: rejected Publish (seq %d <= %d) changed the routed record", i, op.Seq, cur.seq)
				}
				nRej++
				continue
			}
			// sequence validation passed: the local record is written first
			if !after.has {
				if perr == nil {
					return kit.Fail("op %d: Publish succeeded but no record is stored", i)
				}
				return kit.Fail("op %d: valid Publish failed: %v", i, perr)
			}
			if perr != nil && after.raw == before.raw && errors.Is(perr, namesys.ErrInvalidSequence) {
				return kit.Fail("op %d: explicit sequence %d greater than current (%s) %d (has=%v) rejected", i, op.Seq, curSrc, cur.seq, cur.has)
			}
			if after.raw != before.raw {
				if after.value != vstr {
					return kit.Fail("op %d: stored record carries value %q, published %q", i, after.value, vstr)
				}
				switch {
				case op.HasSeq:
					if after.seq != op.Seq {
						return kit.Fail("op %d: explicit sequence %d stored as %d", i, op.Seq, after.seq)
					}
				case cur.has && cur.value != vstr:
					if after.seq <= cur.seq {
						return kit.Fail("op %d: value changed (%q -> %q, current record: %s) but sequence stayed %d -> %d", i, cur.value, vstr, curSrc, cur.seq, after.seq)
					}
				}
			}
			local[op.Key] = after
			// Will routing take it? A record with a higher sequence, or the same sequence and a
			// later EOL, supersedes; the same sequence with an earlier EOL is an "old record"
			// (documented IPNS selection) and Publish may fail - not covered by the statement.
			r := rt[op.Key]
			// (equal validity hours means the later op: explicit EOLs add the op index in seconds,
			// default EOLs are taken from the advancing clock)
			mustSucceed := !r.has || after.seq > r.seq || (after.seq == r.seq && eolH >= r.eolH)
			if perr != nil {
				if mustSucceed {
					return kit.Fail("op %d: valid Publish (seq %d over routed %d) failed: %v", i, after.seq, r.seq, perr)
				}
				nOld++
				if rtAfter.raw == rtBefore.raw {
					continue
				}
				// refused, yet routing serves a new record: follow what is observable
			}
			if perr != nil {
				if rtAfter.has && rtAfter.seq == after.seq && rtAfter.value == vstr {
					rt[op.Key] = routed{has: true, seq: after.seq, value: vstr, ttl: ttlOrDefault(op.TTL), eolH: eolH, eolI: i}
				}
				continue
			}
			// success
			if !rtAfter.has || rtAfter.seq != after.seq || rtAfter.value != vstr {
				return kit.Fail("op %d: Publish succeeded with seq %d value %q, routing serves has=%v seq %d value %q", i, after.seq, vstr, rtAfter.has, rtAfter.seq, rtAfter.value)
			}
			if resolvedOK[op.Key] && r.has && (r.value != vstr || op.HasSeq) {
				repubAfterResolve[op.Key] = true
			}
			rt[op.Key] = routed{has: true, seq: after.seq, value: vstr, ttl: ttlOrDefault(op.TTL), eolH: eolH, eolI: i}

		case "res":
			nRes++
			form := op.Form
			if form == "" {
				form = "b36"
			}
			ks := "/ipns/" + nameText(k.name, form)
			p, err := path.NewPath(ks + op.Rem)
			if err != nil {
				return kit.Fail("malformed case: path %q: %v", ks+op.Rem, err)
			}
			var ropts []namesys.ResolveOption
			if op.Depth > 0 {
				ropts = append(ropts, namesys.ResolveWithDepth(uint(op.Depth)))
			}
			res, rerr := s.ns.Resolve(ctx, p, ropts...)
			r := rt[op.Key]
			if !r.has {
				if rerr == nil {
					return kit.Fail("op %d: Resolve(%s) of a never published name succeeded: %v", i, p, res.Path)
				}
				continue
			}
			if ctx.Err() != nil {
				return kit.Result{} // harness budget exhausted: no verdict
			}
			want := r.value + op.Rem
			wantTTL := capTTL(r.ttl, c.MaxTTL)
			good := rerr == nil && res.Path != nil && res.Path.String() == want && ttlOK(res.TTL, wantTTL, start)
			if good {
				seen[ks] = r
				resolvedOK[op.Key] = true
				if repubAfterResolve[op.Key] {
					nt = true
				}
				continue
			}
			var msg string
			switch {
			case rerr != nil:
				msg = fmt.Sprintf("op %d: Resolve(%s) after publish of %q failed: %v", i, p, r.value, rerr)
			case res.Path == nil || res.Path.String() != want:
				msg = fmt.Sprintf("op %d: Resolve(%s) = %v, last successful Publish was %q (want %q)", i, p, res.Path, r.value, want)
			default:
				msg = fmt.Sprintf("op %d: Resolve(%s) TTL = %v, record TTL %v cap %v", i, p, res.TTL, r.ttl, wantTTL)
			}
			// §7-F12 signature: the cache can serve, an earlier resolve through exactly this
			// path string saw a record that a later Publish replaced, and the answer is that
			// older record (value and TTL), i.e. Publish did not update the resolver's entry.
			old, was := seen[ks]
			if rerr == nil && res.Path != nil && was && cacheCanServe(c.Cache, c.MaxTTL) && old.ttl > 0 &&
				(old.value != r.value || old.ttl != r.ttl) &&
				res.Path.String() == old.value+op.Rem && ttlOK(res.TTL, capTTL(old.ttl, c.MaxTTL), start) {
				nHitCand++
				if known == nil {
					known = errors.New(msg + " [stale resolver cache entry survives Publish]")
				}
				continue
			}
			return kit.Result{Err: errors.New(msg)}
		case "restart":
			nRestart++
			if err := s.restart(op.Fresh); err != nil {
				return kit.Fail("op %d: NewNameSystem on restart: %v", i, err)
			}
			for j := range keys {
				if op.Fresh {
					local[j] = recView{}
				} else {
					// same datastore: the publisher's records must still be there
					lr, err := s.localRecord(ctx, keys[j].name)
					if err != nil {
						return kit.Fail("op %d: stored record unreadable after restart: %v", i, err)
					}
					if lr.raw != local[j].raw || lr.has != local[j].has {
						return kit.Fail("malformed harness state: datastore changed across restart")
					}
				}
				// the new name system starts with an empty resolver cache
				resolvedOK[j] = false
				repubAfterResolve[j] = false
			}
			seen = map[string]routed{}
		default:
			return kit.Fail("malformed case: op kind %q", op.Kind)
		}
	}
	if known != nil {
		return kit.Result{Err: known, Known: "F12"}
	}
	cls := []string{fmt.Sprintf("cache:%d", c.Cache)}
	if c.MaxTTL != nil {
		cls = append(cls, "maxttl:set")
	}
	if nRej > 0 {
		cls = append(cls, "seq-rejected")
	}
	if nOld > 0 {
		cls = append(cls, "old-record")
	}
	if nt {
		cls = append(cls, "republish-after-resolve")
	}
	if nPub > 0 && nRes > 0 {
		cls = append(cls, "pub+res")
	}
	if nRestart > 0 {
		cls = append(cls, "restart")
	}
	if nFromRouting > 0 {
		cls = append(cls, "publish-over-routed-only-record")
	}
	if ntRouted {
		cls = append(cls, "routed-only-seq>0")
	}
	return kit.Result{NonTrivial: nt || ntRouted, Classes: cls}
}

var histSpec = kit.Spec[HistCase]{
	Prop: "C29", Name: "hist",
	Rule:  "history of <=20 Publish/Resolve ops over 2-3 seeded Ed25519 keys on namesys(offline router, map datastore), cache size {0,1,16}, optional max-cache-TTL, explicit sequences (below/equal/above current), TTLs incl. 0, EOLs >= 1h, resolves through the k51/12D3/bafz name forms with remainders, restarts (new name system over the same router, same or fresh empty datastore); non-trivial = a name that was resolved is republished with a different value (or explicit sequence) and then resolved again, or a Publish whose current record (sequence > 0) exists only in routing (after a fresh-datastore restart)",
	Quick: 1200, Thorough: 8000,
	Gen: genHist, Run: runHist,
}

func TestPropHist(t *testing.T) { kit.All(t, histSpec) }

// ---------------------------------------------------------------------------
// sub-check "chain"

type Hop struct {
	Sub   string `json:"sub,omitempty"`   // sub-path appended to the hop's value
	TTL   int64  `json:"ttl"`             // ns; -1 = default
	VForm string `json:"vform,omitempty"` // textual form of the *next* name inside the value
}

type ChainRes struct {
	Start int    `json:"start"`
	Depth int    `json:"depth"` // -1 = option not passed (32), 0 = unlimited (acyclic only)
	Rem   string `json:"rem,omitempty"`
	Form  string `json:"form,omitempty"`
}

type ChainCase struct {
	Cache    int        `json:"cache"`
	MaxTTL   *int64     `json:"max_ttl,omitempty"`
	SharedDS bool       `json:"shared_ds"`
	Seeds    []uint64   `json:"seeds"` // one key per hop
	Hops     []Hop      `json:"hops"`
	Term     int        `json:"term"`  // terminal value index
	Cycle    int        `json:"cycle"` // -1: last hop -> /ipfs/...; else last hop -> name[Cycle]
	Reverse  bool       `json:"reverse"`
	Res      []ChainRes `json:"res"`
}

func genChain(t *rapid.T) ChainCase {
	c := ChainCase{}
	c.Cache = rapid.SampledFrom([]int{0, 1, 16, 16}).Draw(t, "cache")
	c.MaxTTL = genMaxTTL(t)
	c.SharedDS = rapid.Bool().Draw(t, "shared")
	k := rapid.SampledFrom([]int{1, 2, 3, 3, 4, 4, 5, 6}).Draw(t, "k")
	c.Seeds = rapid.SliceOfNDistinct(rapid.Uint64(), k, k, rapid.ID[uint64]).Draw(t, "seeds")
	for i := 0; i < k; i++ {
		h := Hop{TTL: genTTL(t)}
		if rapid.IntRange(0, 2).Draw(t, "hassub") == 0 {
			h.Sub = genSub(t, 2, "hsub")
		}
		h.VForm = rapid.SampledFrom([]string{"b36", "b36", "b58", "b32"}).Draw(t, "vform")
		c.Hops = append(c.Hops, h)
	}
	c.Term = rapid.IntRange(0, 2).Draw(t, "term")
	c.Cycle = -1
	if rapid.IntRange(0, 3).Draw(t, "cyclic") == 0 {
		c.Cycle = rapid.IntRange(0, k-1).Draw(t, "cycle")
	}
	c.Reverse = rapid.Bool().Draw(t, "reverse")
	n := rapid.IntRange(1, 6).Draw(t, "nres")
	for i := 0; i < n; i++ {
		r := ChainRes{}
		r.Start = rapid.SampledFrom([]int{0, 0, 0, rapid.IntRange(0, k-1).Draw(t, "s")}).Draw(t, "start")
		hops := k - r.Start
		switch rapid.IntRange(0, 5).Draw(t, "depthclass") {
		case 0:
			r.Depth = -1
		case 1:
			r.Depth = 0
			if c.Cycle >= 0 {
				r.Depth = -1
			}
		case 2, 3:
			r.Depth = kit.Around(hops, 1, 8).Draw(t, "depth")
		default:
			r.Depth = rapid.IntRange(1, 8).Draw(t, "depth")
		}
		r.Rem = genRem(t)
		r.Form = rapid.SampledFrom([]string{"b36", "b36", "b58", "b32"}).Draw(t, "form")
		c.Res = append(c.Res, r)
	}
	return c
}

func runChain(c ChainCase) kit.Result {
	k := len(c.Seeds)
	if k == 0 || len(c.Hops) != k || c.Cycle >= k {
		return kit.Fail("malformed case")
	}
	ctx, cancel := context.WithTimeout(context.Background(), 2*time.Minute)
	defer cancel()
	start := time.Now()
	s, err := newSUT(c.Cache, c.MaxTTL, c.SharedDS)
	if err != nil {
		return kit.Fail("NewNameSystem: %v", err)
	}
	sks := make([]ci.PrivKey, k)
	names := make([]ipns.Name, k)
	for i, sd := range c.Seeds {
		sks[i], names[i] = keyFromSeed(sd)
	}
	values := make([]string, k)
	for i := 0; i < k; i++ {
		switch {
		case i < k-1:
			values[i] = "/ipns/" + nameText(names[i+1], c.Hops[i].VForm) + c.Hops[i].Sub
		case c.Cycle >= 0:
			values[i] = "/ipns/" + nameText(names[c.Cycle], c.Hops[i].VForm) + c.Hops[i].Sub
		default:
			values[i] = valueBase(c.Term) + c.Hops[i].Sub
		}
	}
	for j := 0; j < k; j++ {
		i := j
		if c.Reverse {
			i = k - 1 - j
		}
		v, err := path.NewPath(values[i])
		if err != nil {
			return kit.Fail("malformed case: value %q: %v", values[i], err)
		}
		var opts []namesys.PublishOption
		if c.Hops[i].TTL >= 0 {
			opts = append(opts, namesys.PublishWithTTL(time.Duration(c.Hops[i].TTL)))
		}
		if err := s.ns.Publish(ctx, sks[i], v, opts...); err != nil {
			return kit.Fail("Publish of hop %d (%q) failed: %v", i, values[i], err)
		}
	}
	var nOK, nRec int
	for ri, r := range c.Res {
		if r.Start < 0 || r.Start >= k || (r.Depth == 0 && c.Cycle >= 0) {
			return kit.Fail("malformed case: resolve %d", ri)
		}
		form := r.Form
		if form == "" {
			form = "b36"
		}
		pstr := "/ipns/" + nameText(names[r.Start], form) + r.Rem
		p, err := path.NewPath(pstr)
		if err != nil {
			return kit.Fail("malformed case: path %q: %v", pstr, err)
		}
		var ropts []namesys.ResolveOption
		depth := int(namesys.DefaultDepthLimit)
		if r.Depth >= 0 {
			depth = r.Depth
			ropts = append(ropts, namesys.ResolveWithDepth(uint(r.Depth)))
		}
		res, rerr := s.ns.Resolve(ctx, p, ropts...)
		if ctx.Err() != nil {
			return kit.Result{}
		}
		hops := k - r.Start
		tooDeep := c.Cycle >= 0 || (depth != 0 && hops > depth)
		if tooDeep {
			if !errors.Is(rerr, namesys.ErrResolveRecursion) {
				return kit.Fail("resolve %d: %s with depth %d over %d hops (cycle=%d): want ErrResolveRecursion, got path %v err %v", ri, pstr, depth, hops, c.Cycle, res.Path, rerr)
			}
			nRec++
			continue
		}
		if rerr != nil {
			return kit.Fail("resolve %d: %s with depth %d over %d hops failed: %v", ri, pstr, depth, hops, rerr)
		}
		want := values[k-1]
		var wantTTL time.Duration
		for i := k - 1; i >= r.Start; i-- {
			if i < k-1 {
				want += c.Hops[i].Sub
			}
			t := capTTL(ttlOrDefault(c.Hops[i].TTL), c.MaxTTL)
			if t > 0 && (wantTTL == 0 || t < wantTTL) {
				wantTTL = t
			}
		}
		want += r.Rem
		if res.Path == nil || res.Path.String() != want {
			return kit.Fail("resolve %d: %s = %v, want %q", ri, pstr, res.Path, want)
		}
		if res.Path.Mutable() {
			return kit.Fail("resolve %d: %s returned a mutable path %v without error", ri, pstr, res.Path)
		}
		if !ttlOK(res.TTL, wantTTL, start) {
			return kit.Fail("resolve %d: %s TTL = %v, smallest non-zero (capped) hop TTL is %v", ri, pstr, res.TTL, wantTTL)
		}
		nOK++
	}
	cls := []string{fmt.Sprintf("k:%d", k), fmt.Sprintf("cache:%d", c.Cache)}
	if c.Cycle >= 0 {
		cls = append(cls, "cycle")
	}
	if nRec > 0 && c.Cycle < 0 {
		cls = append(cls, "depth-exceeded")
	}
	if nOK > 0 {
		cls = append(cls, "resolved")
	}
	return kit.Result{NonTrivial: k >= 3, Classes: cls}
}

var chainSpec = kit.Spec[ChainCase]{
	Prop: "C29", Name: "chain",
	Rule:  "chain of k<=6 seeded Ed25519 names A1->...->Ak->/ipfs/c (or back into the chain: cycle), per-hop TTL (incl. 0, default) and sub-path, published through namesys in either order, then 1-6 resolves from any start with depth limit 1..8/default/unlimited, remainder and name form, cache size {0,1,16}, optional max-cache-TTL; non-trivial = chain length >= 3",
	Quick: 800, Thorough: 5000,
	Gen: genChain, Run: runChain,
}

func TestPropChain(t *testing.T) { kit.All(t, chainSpec) }
