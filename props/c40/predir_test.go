package c40

// Sub-check "predir": the keystore is opened on a directory that already exists and already
// holds entries the keystore did not write (NewFSKeystore accepts an existing directory, List
// documents that it skips foreign file names): symbolic links, sub-directories, key files and
// garbage sitting at exactly the file names the keystore will use, plus foreign names.
//
// Only what the statement promises unconditionally is demanded here:
//   - confinement of effects: no operation creates, removes or modifies anything outside the
//     keystore directory, whatever lies at the file name it is about to use. (Put reaches its
//     file with an exclusive create, which never follows a link; Delete removes the entry.)
//   - names whose file name was not pre-occupied keep behaving like the map of the main check.
// Results of operations on a pre-occupied name are not judged (a dangling link is "absent" for
// Has/Get and "present" for Put on the unchanged tree; the statement does not cover it), and
// neither is reading through a link somebody planted whose target exists.
//
// SAFETY: every link target lies inside the private sandbox (absolute targets are built from the
// sandbox path at run time, relative ones climb at most two levels from the keystore directory,
// which lies padDepth levels below the sandbox root); literal entry names are validated to be
// single path components.

import (
	"errors"
	"fmt"
	"os"
	"path/filepath"
	"sort"
	"strings"
	"testing"

	"github.com/ipfs/boxo/keystore"
	"pgregory.net/rapid"
	"verif/kit"
)

type Plant struct {
	Name   string `json:"name,omitempty"`   // key name: the entry is placed at the file name the keystore uses for it
	Raw    string `json:"raw,omitempty"`    // or: a literal entry name (foreign file); used when Name is empty
	Kind   string `json:"kind"`             // symlink | dir | keyfile | garbage
	Target string `json:"target,omitempty"` // symbolic link target, see linkTarget
}

type PreCase struct {
	Plants []Plant `json:"plants"`
	Ops    []Op    `json:"ops"`
}

var linkTargets = []string{
	"abs-missing-parent", "rel-missing-parent", "abs-missing-up", "rel-missing-up", "abs-missing-sub",
	"rel-missing-inside", "abs-missing-nodir", "abs-file", "rel-file", "abs-dir", "self",
}

// linkTarget resolves a symbolic target name; dangling reports whether the target is absent.
func (sb *sandbox) linkTarget(sym, self string) (target string, dangling, ok bool) {
	switch sym {
	case "abs-missing-parent":
		return filepath.Join(sb.T, "leak-a"), true, true
	case "rel-missing-parent":
		return "../leak-b", true, true
	case "abs-missing-up":
		return filepath.Join(filepath.Dir(sb.T), "leak-c"), true, true
	case "rel-missing-up":
		return "../../leak-d", true, true
	case "abs-missing-sub":
		return filepath.Join(sb.T, "sub", "leak-e"), true, true
	case "rel-missing-inside":
		return "key_leak", true, true // stays inside the keystore directory
	case "abs-missing-nodir":
		return filepath.Join(sb.T, "nodir", "leak-f"), true, true
	case "abs-file":
		return filepath.Join(sb.T, "decoy"), false, true
	case "rel-file":
		return "../key_decoy", false, true
	case "abs-dir":
		return filepath.Join(sb.T, "sub"), false, true
	case "self":
		return self, false, true
	}
	return "", false, false
}

var rawPool = []string{"notakey", "key_", "key_!!!", "KEY_MFRGG", "key_MFRGG", ".hidden", "key_mfrgg===", "key_a", "key"}

func (p Plant) entry() (string, bool) {
	if p.Name != "" {
		if len(p.Name) > maxNameLen {
			return "", false
		}
		return fileNameOf(p.Name), true
	}
	if p.Raw == "" || p.Raw == "." || p.Raw == ".." || strings.ContainsAny(p.Raw, "/\x00") || len(p.Raw) > 255 {
		return "", false
	}
	return p.Raw, true
}

func relTo(dir, p string) string {
	if r, err := filepath.Rel(dir, p); err == nil {
		return r
	}
	return p
}

func runPre(c PreCase) kit.Result {
	ks := keys()
	for _, op := range c.Ops {
		if countUps(op.Name) > upBudget || strings.HasPrefix(op.Name, "/") && countUps(op.Name) > 0 {
			return kit.Result{Classes: []string{"skipped-unsafe"}}
		}
		if op.Key < 0 || op.Key >= nKeys {
			return kit.Result{Classes: []string{"skipped-bad-key-index"}}
		}
	}
	for _, p := range c.Plants {
		if _, ok := p.entry(); !ok {
			return kit.Result{Classes: []string{"skipped-bad-plant"}}
		}
		switch p.Kind {
		case "symlink":
			if _, _, ok := (&sandbox{}).linkTarget(p.Target, "x"); !ok {
				return kit.Result{Classes: []string{"skipped-bad-plant"}}
			}
		case "dir", "keyfile", "garbage":
		default:
			return kit.Result{Classes: []string{"skipped-bad-plant"}}
		}
	}

	sb := newSandbox()
	defer os.RemoveAll(sb.S)
	must(os.Mkdir(sb.dir, 0o700))
	occupied := map[string]string{} // entry name -> what was planted there
	for _, p := range c.Plants {
		e, _ := p.entry()
		if _, dup := occupied[e]; dup {
			continue
		}
		path := filepath.Join(sb.dir, e)
		switch p.Kind {
		case "symlink":
			tgt, dangling, _ := sb.linkTarget(p.Target, e)
			must(os.Symlink(tgt, path))
			switch {
			case dangling:
				occupied[e] = "dangling-link"
			case p.Target == "self":
				occupied[e] = "link-loop"
			default:
				occupied[e] = "live-link"
			}
		case "dir":
			must(os.Mkdir(path, 0o700))
			occupied[e] = "dir"
		case "keyfile":
			must(os.WriteFile(path, keyRaw[3], 0o400))
			occupied[e] = "keyfile"
		case "garbage":
			must(os.WriteFile(path, []byte("not a key"), 0o400))
			occupied[e] = "garbage"
		}
	}
	before := sb.snap()
	confined := func(where string) error {
		ds := diffSnap(before, sb.snap())
		if len(ds) == 0 {
			return nil
		}
		for i := range ds {
			j := strings.LastIndex(ds[i], ": ")
			ds[i] = relTo(sb.dir, ds[i][:j]) + ds[i][j:]
		}
		return fmt.Errorf("%s: objects outside the keystore directory changed (paths relative to it): %s", where, strings.Join(ds, "; "))
	}

	fsks, err := keystore.NewFSKeystore(sb.dir)
	if err != nil {
		return kit.Fail("NewFSKeystore on an existing directory: %v", err)
	}
	if err := confined("NewFSKeystore"); err != nil {
		return kit.Result{Err: err}
	}

	model := map[string]int{}
	cls := map[string]bool{}
	nt := false
	for i, op := range c.Ops {
		where := fmt.Sprintf("op %d %s(%s)", i, op.Kind, q(op.Name))
		if op.Kind == "list" {
			l, err := fsks.List()
			if err != nil {
				return kit.Fail("%s: List failed: %v", where, err)
			}
			have := map[string]bool{}
			for _, n := range l {
				have[n] = true
			}
			for n := range model {
				if !have[n] {
					sort.Strings(l)
					return kit.Fail("%s: List = %q lacks the stored name %s", where, l, q(n))
				}
			}
			continue
		}
		if op.Name == "" || len(op.Name) > maxNameLen {
			continue // outside the stated domain, see the main check
		}
		what, occ := occupied[fileNameOf(op.Name)]
		_, present := model[op.Name]
		switch op.Kind {
		case "put":
			err := fsks.Put(op.Name, ks[op.Key])
			if occ {
				cls["put@"+what] = true
				if what == "dangling-link" || what == "live-link" || what == "link-loop" {
					nt = true
				}
			} else if present {
				if !errors.Is(err, keystore.ErrKeyExists) {
					return kit.Fail("%s: Put on an existing name returned %v, want ErrKeyExists", where, err)
				}
			} else if err != nil {
				return kit.Fail("%s: Put on a free name failed: %v", where, err)
			} else {
				model[op.Name] = op.Key
			}
		case "get":
			k, err := fsks.Get(op.Name)
			if occ {
				cls["get@"+what] = true
			} else if present {
				if err != nil || k == nil || !k.Equals(ks[model[op.Name]]) {
					return kit.Fail("%s: Get of a stored name returned (right key: false, err: %v)", where, err)
				}
			} else if !errors.Is(err, keystore.ErrNoSuchKey) {
				return kit.Fail("%s: Get of an absent name returned (key!=nil: %v, err: %v), want ErrNoSuchKey", where, k != nil, err)
			}
		case "has":
			ok, err := fsks.Has(op.Name)
			if occ {
				cls["has@"+what] = true
			} else if err != nil || ok != present {
				return kit.Fail("%s: Has = %v, %v; model says %v", where, ok, err, present)
			}
		case "delete":
			err := fsks.Delete(op.Name)
			if occ {
				cls["delete@"+what] = true
				// whatever was there is normally gone now; the name stays unjudged for the rest
				// of the case
				if !strings.HasPrefix(what, "former ") {
					occupied[fileNameOf(op.Name)] = "former " + what
				}
			} else if present && err != nil {
				return kit.Fail("%s: Delete of a stored name failed: %v", where, err)
			} else {
				delete(model, op.Name)
			}
		}
		if op.Kind == "put" || op.Kind == "delete" {
			if err := confined("after " + where); err != nil {
				return kit.Result{Err: err}
			}
		}
	}
	if err := confined("at the end"); err != nil {
		return kit.Result{Err: err}
	}
	var out []string
	for k := range cls {
		out = append(out, k)
	}
	sort.Strings(out)
	return kit.Result{NonTrivial: nt, Classes: out}
}

func genPre(t *rapid.T) PreCase {
	var c PreCase
	var used, planted []string
	ups := 0
	safe := func(n string) string {
		if k := countUps(n); k > 0 {
			if ups+k > upBudget {
				return "a"
			}
			ups += k
		}
		return n
	}
	np := rapid.IntRange(1, 3).Draw(t, "nplants")
	for i := 0; i < np; i++ {
		var p Plant
		if rapid.IntRange(0, 5).Draw(t, "foreign") == 0 {
			p.Raw = rapid.SampledFrom(rawPool).Draw(t, "raw")
		} else {
			p.Name = safe(genName(t, used))
			if len(p.Name) > maxNameLen {
				p.Name = strings.Repeat("x", maxNameLen)
			}
			used = append(used, p.Name)
			planted = append(planted, p.Name)
		}
		p.Kind = rapid.SampledFrom([]string{"symlink", "symlink", "symlink", "symlink", "symlink", "symlink", "dir", "keyfile", "garbage"}).Draw(t, "plantkind")
		if p.Kind == "symlink" {
			p.Target = rapid.SampledFrom(linkTargets).Draw(t, "target")
		}
		c.Plants = append(c.Plants, p)
	}
	n := rapid.IntRange(1, 12).Draw(t, "nops")
	for i := 0; i < n; i++ {
		op := Op{Kind: rapid.SampledFrom([]string{"put", "put", "put", "put", "get", "has", "delete", "list", "put", "delete"}).Draw(t, "kind")}
		if op.Kind != "list" {
			if len(planted) > 0 && rapid.Bool().Draw(t, "onplanted") {
				op.Name = rapid.SampledFrom(planted).Draw(t, "planted")
			} else {
				op.Name = safe(genName(t, used))
			}
			if op.Kind == "put" {
				op.Key = rapid.IntRange(0, nKeys-1).Draw(t, "key")
			}
			used = append(used, op.Name)
		}
		c.Ops = append(c.Ops, op)
	}
	return c
}

var specPre = kit.Spec[PreCase]{
	Prop: "C40", Name: "predir",
	Rule:  "the keystore is opened on an existing directory in which 1..3 entries were placed beforehand: symbolic links (dangling to several places outside and inside the directory, to an existing key file or directory outside, to themselves), sub-directories, key files or garbage at the file names of key names used later, or foreign entry names; then 1..12 operations put/get/has/delete/list mostly on those names. Demanded: nothing outside the keystore directory is created, removed or modified after any step (snapshot of the private sandbox), NewFSKeystore and List succeed, and names whose file name was not pre-occupied follow the map model. Results for pre-occupied names are not judged. non-trivial = a Put is executed on a name whose file name is occupied by a symbolic link",
	Quick: 600, Thorough: 2500,
	Gen: genPre, Run: runPre,
	Sample: func(c PreCase) any {
		var s []string
		for _, p := range c.Plants {
			n := "name " + q(p.Name)
			if p.Name == "" {
				n = "entry " + q(p.Raw)
			}
			s = append(s, strings.TrimSpace(fmt.Sprintf("pre-existing %s %s at %s", p.Kind, p.Target, n)))
		}
		for _, o := range c.Ops {
			x := o.Kind
			if o.Kind != "list" {
				x += " " + q(o.Name)
			}
			s = append(s, x)
		}
		return s
	},
}

func TestPropPredir(t *testing.T) { kit.All(t, specPre) }
