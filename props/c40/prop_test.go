// Package c40 checks property C40: the filesystem keystore behaves like a name->key map that
// refuses to overwrite, agrees with the in-memory keystore, and stays inside its directory.
//
// SAFETY: the process runs as root and a broken keystore could use key names as paths. The
// keystore directory therefore lies padDepth levels below a private sandbox root, names carry
// at most upBudget ".." components, and everything in the sandbox outside the keystore
// directory is snapshotted before and after.
package c40

import (
	"bytes"
	"crypto/ecdsa"
	"crypto/elliptic"
	"crypto/sha256"
	"encoding/base32"
	"encoding/base64"
	"errors"
	"fmt"
	"math/big"
	"os"
	"path/filepath"
	"sort"
	"strings"
	"sync"
	"syscall"
	"testing"

	"github.com/ipfs/boxo/keystore"
	ci "github.com/libp2p/go-libp2p/core/crypto"
	"pgregory.net/rapid"
	"verif/kit"
)

func TestMain(m *testing.M) { kit.Main(m) }

const (
	padDepth = 8
	upBudget = 4
	// longest name whose file name "key_"+base32(name) still fits NAME_MAX (255):
	// 4 + ceil(8n/5) <= 255  <=>  n <= 156
	maxNameLen = 156
	nKeys      = 4
	// key indices nKeys .. nKeys+nBad-1: keys that cannot be serialised (see keys)
	nBad = 2
	// key indices nKeys+nBad ..: serialisable keys with a large encoding (RSA-4096, 2355 bytes)
	nBig = 1
)

// bigKeyB64 is a libp2p-marshalled RSA-4096 private key generated once with crypto/rand.
const bigKeyB64 = "CAASrhIwggkqAgEAAoICAQCfgyyysDuWx89cq8TxSGXsZjc9/uqtT3cAGomJx8RMQf+rskjhWpfiP64F8rQ+LiydlKk00PFcE2BAF0Mk7S7xExHq//xkoDx8bWd17PzkF8Uq3vpQ95wSfdbsdYAafxNDPkaVJshn8VwpB1ZsIaLqUJU9dsy80Xs9PDBqwJuGDvArDIyHw55Zx5DZ+DtvA+dzkoJspgfAcU0iehrIcmJrwCmex8I28b+UX5z5xadyTYyCRjbuViIbfGbPmtG6jB++ehRs7y3VYdQSo7r9J1lxBxExSys0u2QHDtb8l1Cs0ViZhX72chxZo80sVv8hk/uirUZ0ZMKwKayw6oECTQMxBlL9SyFbtMQ6r+rf+gafFqhHaxGK+UZQKaZ6VsdHa0Wmr5od664mFkTXFHiLXmKu5huROhUE6KJDpBYC0NE2f+VXFsaHyHWuywOHE0Lu8sPwdzvqPBCkYRzNWCN1/x61IhLJ+Xb7lnoMsUE0l70rQCsw/8ruHA95oB5zqWxxl4zA5R08y5d1i6nKLIobsrcd9Jg2CgtoBXSsPsUTtnS31oYGSQTd6fCIyl2BaBmeD3C8AqS4Kb1GcgITS1tp3cQIKPZcd6i1+QDqVuSBBAORyjqU68+GZrZ+BvXLnAy7wf5ZtahGqnLagFoniZWrqVy+no0I6O3uEj0NEtXdsjXdtQIDAQABAoICAC4mpDyQ67S829yaoBEVWtPyYQJRanG5X5tKkkeoYj2UDNaO7zIwZWhi90UmSwsAjg0LsYcj+ukifAMfF+CrtRyv4UvGQ66Tg9yWRMxkRGj0DapROEhL076v5QqmFmnUIW0frAlEXtBgD0OZqWIAu2Oi7AMMB8GLtGXrr7B7SKQZV1iFOXWgXgTozhqajQuaLBGOrqijwvNldKVIgc5D9gDp6MDVV/ZQrJbPsRm9G6zhDgm1Kfh8OEMOk6p2Rz77gsW4CYfZDcBCnTrFX3kWNPUUT9+cuYP4wcCfBQmw9/kAWuuUKb9BFb3DvD2bcBa1e6U+D/fmHUQd0qafOrNBN+42yfVaQULVrnYaK40CGTKxVph6MBD4005CZPZrmXlnqY4shEpxrUVErX0prG0ohfMbvdxc8qDRtFnzP3zJSP+YZMMdobOEsoRWssdzgBOvanHOfzYOPpk2W+qZu0PGF7v5yiEJ3LiP166LmujJx0dSCAYl68TCluhoLxVQgOEEdpNrATnCekT7SiljivSnoNP54OUuNA/OAnEHvYzDEu4rkau/4C6V+Mr0sbjRWlAiHNS+tnDprl0JRF3VCxOKo4ZPYjvzUhp6wtSqf6wUj4aOBeuFSZpD/qWszch8CJXL3ACtwuiq+rRFrLRscWCohIE2+SpTchMJfwmoZVrjcyTDAoIBAQDF2INEJmobqBIpE1zf2eYwcM7u1NhA2BAYBH06OXskNT0KIhXz5UZPlfDPEBErZs+0oBQZcm8ZbW7axvNKq0cfKTvNYo5GhGC6aISBlYag77IKL6mtg1rYQQL8u0+6gnTQd4DVXFsUqHtyTcw7dCZM0ebnXDiKs1j5iKPOZyYw90YNUF2KHkK8WHcit/lSzMVSrI2e2CE4UKDK+BQf+K9wpYg77LMS34cw7ywRiAQdQzdFFKAD0t3lrdcgSoXSNpoAaUBH6Rvpnxu3K5MmtTYNNU2DZm/ve0Irre5LMOFXS8xN8x7998Ctn1QjZvY2Ste+cBqwCf7/UQi4dWFpdU/PAoIBAQDOZifbZ3NNqYRi02RTGVubSewcdBBRX5t0aP8fUrJ0e25PXBWho2xIOp3/c4YBqcG5hPAm9eBS65RG7GGNe26ZgjNTo+neNU8n0adKnvqoVBiAmN1kbTPdsoZq9jv/9tXnOv+kN/j3DvHSXM/NjSMzxWdCKJbSM/7pDsZIOl3pq8dHLNjw92E4B6IeMi2SmTsFnSzv2EJaDfoMC0/6ZXgh8RudSw9ewqI4rhyzRZqrWFbIR7ogDW8Utgx6HaXshrNi4Adr0hLsWXNyakHs8hPBxD5rjD5miCIqLLQJ9Qc2yCx7/ConF6Do0xX4hd7B4UuDM1Fn+Ee6QLoqa8gySTc7AoIBAQCZE4uE6EADBAiBFYUvgfWzlyTU74Qer83L93U43o6jljmTJIpduhCrtTSr0R+nuBWPCKhkhADn6J7z0SkepeUSfCHUKKQydWwt7n5PkPSogqz7aqNbKB3a4npAN2FZymQ9g6j/7ERgeHeDGiSh/50+pM2GRvlMf7Wg5JLxOSf4jOn7lSm6mu1BsyUCjNvwr5UhAXdV5p3VZ7TxNf7EOfLsMnd0/hAT0zVTrEopila8mWwjG/Eu5DFh6x5e0qo12p9PICBnQzqgiMW19JYXRe/7SjmeKF0FKxYom5ubO8eudmwuB6T8FXxUGcnM1nY7za6dnzlW6XUN8JHRvqhPI0BLAoIBAQDBvrUlSIu82CaUWhjvxHrwX0jLQMvchuG3OaRac9debksTJb6Md4p6lsOfeoLNZtuZ2UdRWzbSv571oIjGNZqRcN3bYp9y3hnKqAvgiTGD90T02gngbn3kWuPA3hleYgdSwlgcgAotaBLpxAOw0Q69V01hlhZVhUeA4ESSom9rnLs4fcm7EIxq+wdcTv/mf/4ee/clwZwvSrVwvuG5i6xkOB8S3NW1vwBmMlJwmiLhOtBjuqjl05Z1G5rEurX5PEyBwQhWVuE6iZFMUqBF2ste9Wcer4wX1Sw06LesLR0zeF4BmKi8/3olc5hJLOj4mBK5Ot/st+wk0wOuNHS9d2rnAoIBAQDDTSWzds6AzvS8ortmcxu/j+7aUdzKLKmshdhCiQXqMrJ+2ySKcVk3stz6pKxBANXZZpHC6nSz788CyEx9kNOj64DkVlee8sAcvLl7sfVTh8o71vPRirW0qVPyGbBCVvqeIFQgsdKCD2FHZ9jKE0Z8fAulUw/7SmcNyw7K+KC9kUnHJioiv5yAgmwwAfTe+JX8JO+HkkuFgQGxQVMtgYbZIqzIndaweIA3r/019W+YngIZEoGjNth8mGX83H1HjXd8NDEyQnkv6dI4gwHd5FzT5pOClwB0Eu2c3VXB0yYDQPfsSPaHny1FZfgzgRb661cqt4u/2p790fhXpj0AHD0Y"

// ---------------------------------------------------------------------------
// case

type Op struct {
	Kind string `json:"kind"` // put | get | has | delete | list
	Name string `json:"name,omitempty"`
	Key  int    `json:"key,omitempty"`
}

type Case struct {
	Ops []Op `json:"ops"`
}

// ---------------------------------------------------------------------------
// keys: a small deterministic pool. Indices 0..nKeys-1 are ed25519 keys; the following nBad
// entries are valid ci.PrivKey values whose Raw() returns an error, so ci.MarshalPrivateKey
// fails and the filesystem keystore cannot store them:
//   - nKeys:   a wrapper around an ed25519 key that refuses to export its bytes (the shape of a
//     hardware-backed / non-exportable key behind the ci.PrivKey interface)
//   - nKeys+1: a genuine libp2p ECDSA key (ci.ECDSAKeyPairFromKey) on a curve x509 has no OID for;
//     (*ECDSAPrivateKey).Raw returns "x509: unknown elliptic curve"
// They are the fault injection for "a Put that returns an error leaves the map unchanged".

var (
	keyOnce sync.Once
	keyPool []ci.PrivKey
	keyRaw  [][]byte
	badDesc = []string{"wrapper whose Raw() fails", "libp2p ECDSA key on a curve without x509 OID"}
)

type unexportableKey struct{ ci.PrivKey }

func (unexportableKey) Raw() ([]byte, error) {
	return nil, errors.New("c40 harness: key material is not exportable")
}

func isBad(key int) bool { return key >= nKeys && key < nKeys+nBad }

func keys() []ci.PrivKey {
	keyOnce.Do(func() {
		for i := 0; i < nKeys; i++ {
			seed := bytes.Repeat([]byte{byte(i + 1)}, 64)
			k, _, err := ci.GenerateEd25519Key(bytes.NewReader(seed))
			if err != nil {
				panic(err)
			}
			b, err := ci.MarshalPrivateKey(k)
			if err != nil {
				panic(err)
			}
			keyPool = append(keyPool, k)
			keyRaw = append(keyRaw, b)
		}
		keyPool = append(keyPool, unexportableKey{keyPool[0]})
		p256 := elliptic.P256().Params()
		anon := &elliptic.CurveParams{P: p256.P, N: p256.N, B: p256.B, Gx: p256.Gx, Gy: p256.Gy, BitSize: p256.BitSize, Name: "c40-unregistered"}
		ek, _, err := ci.ECDSAKeyPairFromKey(&ecdsa.PrivateKey{
			PublicKey: ecdsa.PublicKey{Curve: anon, X: p256.Gx, Y: p256.Gy}, // D = 1  =>  Q = G
			D:         big.NewInt(1),
		})
		if err != nil {
			panic(err)
		}
		keyPool = append(keyPool, ek)
		for i := nKeys; i < nKeys+nBad; i++ {
			if _, err := ci.MarshalPrivateKey(keyPool[i]); err == nil {
				panic(fmt.Sprintf("c40 harness: key #%d was meant to be unserialisable but marshals", i))
			}
			keyRaw = append(keyRaw, nil)
		}
		raw, err := base64.StdEncoding.DecodeString(bigKeyB64)
		if err != nil {
			panic(err)
		}
		bk, err := ci.UnmarshalPrivateKey(raw)
		if err != nil {
			panic(err)
		}
		keyPool = append(keyPool, bk)
		keyRaw = append(keyRaw, raw)
	})
	return keyPool
}

// ---------------------------------------------------------------------------
// sandbox and snapshot

func must(err error) {
	if err != nil {
		panic("c40 harness: " + err.Error())
	}
}

type sandbox struct{ S, T, dir string }

func sandboxBase() string {
	if fi, err := os.Stat("/dev/shm"); err == nil && fi.IsDir() {
		return "/dev/shm"
	}
	return ""
}

func newSandbox() *sandbox {
	s, err := os.MkdirTemp(sandboxBase(), "c40-")
	must(err)
	t := s
	for i := 0; i < padDepth; i++ {
		t = filepath.Join(t, "p")
	}
	must(os.MkdirAll(t, 0o755))
	sb := &sandbox{S: s, T: t, dir: filepath.Join(t, "keystore")}
	// decoys next to the keystore directory: valid key files under the names that an
	// unencoded or differently prefixed key name would reach
	keys()
	for _, n := range []string{"decoy", "key_decoy", "key_mrswg33z", "a", "key_a", "keystorex"} {
		must(os.WriteFile(filepath.Join(t, n), keyRaw[0], 0o400))
	}
	must(os.Mkdir(filepath.Join(t, "sub"), 0o755))
	must(os.WriteFile(filepath.Join(t, "sub", "key_decoy"), keyRaw[1], 0o400))
	must(os.WriteFile(filepath.Join(filepath.Dir(t), "key_decoy"), keyRaw[2], 0o400))
	return sb
}

type obj struct {
	Mode  os.FileMode
	Size  int64
	Mtime int64
	Ctime int64
	Ino   uint64
	Sum   [32]byte
}

// snap records everything under S except the contents of the keystore directory.
func (sb *sandbox) snap() map[string]obj {
	out := map[string]obj{}
	var walk func(p string)
	walk = func(p string) {
		fi, err := os.Lstat(p)
		must(err)
		st := fi.Sys().(*syscall.Stat_t)
		o := obj{Mode: fi.Mode(), Mtime: fi.ModTime().UnixNano(), Ctime: st.Ctim.Sec*1e9 + st.Ctim.Nsec, Ino: st.Ino}
		if fi.Mode().IsRegular() {
			o.Size = fi.Size()
			b, err := os.ReadFile(p)
			must(err)
			o.Sum = sha256.Sum256(b)
		}
		if p == sb.dir {
			// the directory object itself must stay a directory; its timestamps change with its entries
			out[p] = obj{Mode: fi.Mode(), Ino: st.Ino}
			return
		}
		out[p] = o
		if fi.IsDir() {
			ents, err := os.ReadDir(p)
			must(err)
			for _, e := range ents {
				walk(filepath.Join(p, e.Name()))
			}
		}
	}
	walk(sb.S)
	return out
}

func diffSnap(a, b map[string]obj) []string {
	var ds []string
	for p, x := range a {
		y, ok := b[p]
		if !ok {
			ds = append(ds, p+": removed")
		} else if x != y {
			ds = append(ds, p+": changed")
		}
	}
	for p := range b {
		if _, ok := a[p]; !ok {
			ds = append(ds, p+": created")
		}
	}
	sort.Strings(ds)
	return ds
}

// ---------------------------------------------------------------------------
// oracle

var b32 = base32.StdEncoding.WithPadding(base32.NoPadding)

func fileNameOf(name string) string {
	return "key_" + strings.ToLower(b32.EncodeToString([]byte(name)))
}

func countUps(s string) int {
	n := 0
	for _, e := range strings.Split(s, "/") {
		if e == ".." {
			n++
		}
	}
	return n
}

func q(s string) string {
	if len(s) > 48 {
		return fmt.Sprintf("%q...(%d bytes)", s[:48], len(s))
	}
	return fmt.Sprintf("%q", s)
}

func sameSet(got []string, model map[string]int) bool {
	if len(got) != len(model) {
		return false
	}
	seen := map[string]bool{}
	for _, g := range got {
		if _, ok := model[g]; !ok || seen[g] {
			return false
		}
		seen[g] = true
	}
	return true
}

func run(c Case) kit.Result {
	ks := keys()
	for _, op := range c.Ops {
		if countUps(op.Name) > upBudget || strings.HasPrefix(op.Name, "/") && countUps(op.Name) > 0 {
			return kit.Result{Classes: []string{"skipped-unsafe"}}
		}
		if op.Key < 0 || op.Key >= nKeys+nBad+nBig {
			return kit.Result{Classes: []string{"skipped-bad-key-index"}}
		}
	}
	sb := newSandbox()
	defer os.RemoveAll(sb.S)
	fsks, err := keystore.NewFSKeystore(sb.dir)
	if err != nil {
		return kit.Fail("NewFSKeystore: %v", err)
	}
	before := sb.snap()
	mem := keystore.NewMemKeystore()
	model := map[string]int{}
	var impls = []struct {
		n string
		k keystore.Keystore
	}{{"FSKeystore", fsks}, {"MemKeystore", mem}}

	cls := map[string]bool{}
	for i, op := range c.Ops {
		where := fmt.Sprintf("op %d %s(%s)", i, op.Kind, q(op.Name))
		if op.Name == "" && op.Kind != "list" {
			// outside the stated domain (non-empty names); exercised only for robustness
			continue
		}
		if len(op.Name) > maxNameLen && op.Kind != "list" {
			// beyond the file name limit: outside the stated domain. The filesystem keystore
			// cannot store such a name; only require that it does not pretend to.
			cls["name:too-long"] = true
			switch op.Kind {
			case "put":
				if isBad(op.Key) {
					// robustness only; the following has/get clauses still demand "never stored"
					fsks.Put(op.Name, ks[op.Key])
					continue
				}
				if err := fsks.Put(op.Name, ks[op.Key]); err == nil {
					if ok, _ := fsks.Has(op.Name); !ok {
						return kit.Fail("%s: FSKeystore.Put of a %d byte name succeeded but Has reports false", where, len(op.Name))
					}
					// it did fit on this filesystem after all: keep the models in step
					model[op.Name] = op.Key
					if err := mem.Put(op.Name, ks[op.Key]); err != nil {
						return kit.Fail("%s: MemKeystore.Put: %v", where, err)
					}
				}
			case "get":
				if _, present := model[op.Name]; !present {
					if k, err := fsks.Get(op.Name); err == nil {
						return kit.Fail("%s: FSKeystore.Get of a name never stored returned a key (%v)", where, k != nil)
					}
				}
			case "has":
				if _, present := model[op.Name]; !present {
					if ok, _ := fsks.Has(op.Name); ok {
						return kit.Fail("%s: FSKeystore.Has of a name never stored reports true", where)
					}
				}
			case "delete":
				if _, present := model[op.Name]; !present {
					fsks.Delete(op.Name)
				}
			}
			continue
		}
		_, present := model[op.Name]
		if op.Kind == "put" && isBad(op.Key) {
			// Fault injection on the filesystem side: the key cannot be serialised, so this Put
			// cannot store it. A map whose insert reports an error is unchanged by it; the
			// in-memory keystore (which never serialises) and the model are left as they are and
			// every later step keeps comparing both stores with the model.
			what := fmt.Sprintf("key #%d (%s)", op.Key, badDesc[op.Key-nKeys])
			err := fsks.Put(op.Name, ks[op.Key])
			if err == nil {
				return kit.Fail("%s: FSKeystore.Put of %s, which ci.MarshalPrivateKey rejects, reported success (name present before: %v)", where, what, present)
			}
			if present {
				cls["put:unserialisable-on-existing"] = true
			} else {
				cls["put:unserialisable-on-free"] = true
			}
			k, gerr := fsks.Get(op.Name)
			if present {
				if gerr != nil || k == nil || !k.Equals(ks[model[op.Name]]) {
					return kit.Fail("%s: after the failed FSKeystore.Put of %s (%v) Get no longer returns the stored key #%d (err: %v)", where, what, err, model[op.Name], gerr)
				}
			} else if !errors.Is(gerr, keystore.ErrNoSuchKey) {
				return kit.Fail("%s: FSKeystore.Put of %s failed (%v), yet Get of that name, absent before, now returns (key!=nil: %v, err: %v), want ErrNoSuchKey", where, what, err, k != nil, gerr)
			}
			l, lerr := fsks.List()
			if lerr != nil {
				return kit.Fail("%s: FSKeystore.List after the failed Put: %v", where, lerr)
			}
			if !sameSet(l, model) {
				sort.Strings(l)
				return kit.Fail("%s: FSKeystore.Put of %s failed (%v), yet List changed to %q (model has %d names)", where, what, err, l, len(model))
			}
		}
		for _, im := range impls {
			if op.Kind == "put" && isBad(op.Key) {
				break // handled above; the state clauses below still run
			}
			switch op.Kind {
			case "put":
				err := im.k.Put(op.Name, ks[op.Key])
				if present {
					if !errors.Is(err, keystore.ErrKeyExists) {
						return kit.Fail("%s: %s.Put on an existing name returned %v, want ErrKeyExists", where, im.n, err)
					}
				} else if err != nil {
					return kit.Fail("%s: %s.Put on a free name failed: %v", where, im.n, err)
				}
			case "get":
				k, err := im.k.Get(op.Name)
				if present {
					if err != nil {
						return kit.Fail("%s: %s.Get of a stored name failed: %v", where, im.n, err)
					}
					if k == nil || !k.Equals(ks[model[op.Name]]) {
						return kit.Fail("%s: %s.Get returned a different key than the one stored (key #%d)", where, im.n, model[op.Name])
					}
				} else if !errors.Is(err, keystore.ErrNoSuchKey) {
					return kit.Fail("%s: %s.Get of an absent name returned (key!=nil: %v, err: %v), want ErrNoSuchKey", where, im.n, k != nil, err)
				}
			case "has":
				ok, err := im.k.Has(op.Name)
				if err != nil {
					return kit.Fail("%s: %s.Has failed: %v", where, im.n, err)
				}
				if ok != present {
					return kit.Fail("%s: %s.Has = %v, model says %v", where, im.n, ok, present)
				}
			case "delete":
				err := im.k.Delete(op.Name)
				// the return value for an absent name differs between the implementations by
				// design (error vs nil) and is not compared; the resulting state is
				if present && err != nil {
					return kit.Fail("%s: %s.Delete of a stored name failed: %v", where, im.n, err)
				}
			case "list":
				l, err := im.k.List()
				if err != nil {
					return kit.Fail("%s: %s.List failed: %v", where, im.n, err)
				}
				if !sameSet(l, model) {
					var want []string
					for n := range model {
						want = append(want, n)
					}
					sort.Strings(want)
					sort.Strings(l)
					return kit.Fail("%s: %s.List = %q, model has %q", where, im.n, l, want)
				}
			}
		}
		switch op.Kind {
		case "put":
			if isBad(op.Key) {
				break // failed insert: model unchanged
			}
			if !present {
				model[op.Name] = op.Key
			}
			if present {
				cls["put:existing"] = true
			}
		case "delete":
			delete(model, op.Name)
			if present {
				cls["delete:present"] = true
			} else {
				cls["delete:absent"] = true
			}
		case "get", "has":
			if present {
				cls[op.Kind+":present"] = true
			} else {
				cls[op.Kind+":absent"] = true
			}
		}

		// state after every step: both stores agree with the model on every name ever used ...
		if op.Kind == "put" || op.Kind == "delete" {
			for _, o := range c.Ops[:i+1] {
				if o.Name == "" || len(o.Name) > maxNameLen {
					continue
				}
				_, p := model[o.Name]
				for _, im := range impls {
					ok, err := im.k.Has(o.Name)
					if err != nil || ok != p {
						return kit.Fail("after %s: %s.Has(%s) = %v, %v; model says %v", where, im.n, q(o.Name), ok, err, p)
					}
				}
			}
			// ... and the keystore directory holds exactly one regular file per key, named
			// key_<lowercase base32 of the name>, with the marshalled key as content
			ents, err := os.ReadDir(sb.dir)
			if err != nil {
				return kit.Fail("after %s: reading the keystore directory: %v", where, err)
			}
			want := map[string]int{}
			for n, k := range model {
				want[fileNameOf(n)] = k
			}
			for _, e := range ents {
				k, ok := want[e.Name()]
				if !ok {
					return kit.Fail("after %s: keystore directory contains unexpected entry %q", where, e.Name())
				}
				if !e.Type().IsRegular() {
					return kit.Fail("after %s: keystore entry %q is not a regular file (%v)", where, e.Name(), e.Type())
				}
				b, err := os.ReadFile(filepath.Join(sb.dir, e.Name()))
				if err != nil || !bytes.Equal(b, keyRaw[k]) {
					return kit.Fail("after %s: keystore file %q does not hold the marshalled key #%d (read error: %v)", where, e.Name(), k, err)
				}
				delete(want, e.Name())
			}
			for fn := range want {
				return kit.Fail("after %s: keystore directory lacks file %q", where, fn)
			}
		}
	}
	// confinement: nothing outside the keystore directory was created, removed or modified
	if ds := diffSnap(before, sb.snap()); len(ds) > 0 {
		for i := range ds {
			ds[i] = strings.TrimPrefix(ds[i], sb.T+"/")
		}
		return kit.Fail("objects outside the keystore directory changed: %s", strings.Join(ds, "; "))
	}

	// non-trivial: at some point two live names differed only by case, or a live name
	// contained a path separator, or a name was used again after a Put on it that had to fail
	// (recomputed from the case alone)
	nt := false
	live := map[string]bool{}
	failedPut := map[string]bool{}
	for _, op := range c.Ops {
		if op.Name == "" || len(op.Name) > maxNameLen {
			continue
		}
		if op.Kind != "list" && failedPut[op.Name] {
			nt = true
			cls["nt:"+op.Kind+"-after-failed-put"] = true
		}
		if op.Kind == "put" && isBad(op.Key) {
			failedPut[op.Name] = true
			continue
		}
		switch op.Kind {
		case "put":
			live[op.Name] = true
		case "delete":
			delete(live, op.Name)
		}
		if op.Kind == "put" {
			lower := map[string]int{}
			for n := range live {
				lower[strings.ToLower(n)]++
				if strings.ContainsAny(n, "/\\") {
					nt = true
					cls["nt:separator-live"] = true
				}
				if strings.Contains(n, "..") {
					cls["live:dotdot"] = true
				}
				if strings.ContainsRune(n, 0) {
					cls["live:nul"] = true
				}
				if len(n) >= maxNameLen-1 {
					cls["live:max-length"] = true
				}
			}
			for _, k := range lower {
				if k > 1 {
					nt = true
					cls["nt:case-variants-live"] = true
				}
			}
		}
	}
	var out []string
	for k := range cls {
		out = append(out, k)
	}
	return kit.Result{NonTrivial: nt, Classes: out}
}

// ---------------------------------------------------------------------------
// generator

var namePool = []string{
	"a", "A", "key", "Key", "KEY", "self", "Self", "a/b", "a/B", "A/b", "../decoy", "../key_decoy", "../../key_decoy", "..", ".", "/", "/decoy", "decoy", "sub/key_decoy",
	"a\x00b", "\x00", "a b", "ü", "Ü", "日本", "key_a", "mrswg33z", "MRSWG33Z", "a\\b", "a.", ".a", "../sub/../decoy", "x/../../decoy", "keystore", "../keystore/key_a", "-", "~", "*",
	"ß", "SS", "ss", "İ", "i", "I", "ı",
}

func genName(t *rapid.T, used []string) string {
	switch rapid.IntRange(0, 11).Draw(t, "nameclass") {
	case 0, 1, 2, 3, 4:
		if len(used) > 0 {
			return used[len(used)-1-rapid.IntRange(0, len(used)-1).Draw(t, "reuse")]
		}
		return rapid.SampledFrom(namePool).Draw(t, "pool")
	case 5, 6, 7:
		return rapid.SampledFrom(namePool).Draw(t, "pool")
	case 8:
		// case variant of a used name
		if len(used) > 0 {
			n := used[rapid.IntRange(0, len(used)-1).Draw(t, "variant")]
			if rapid.Bool().Draw(t, "upper") {
				return strings.ToUpper(n)
			}
			return strings.ToLower(n)
		}
		return "Key"
	case 9:
		// around the file name length limit
		n := rapid.SampledFrom([]int{maxNameLen, maxNameLen - 1, maxNameLen + 1, maxNameLen - 2, 150, maxNameLen + 2, 200, 300}).Draw(t, "len")
		ch := rapid.SampledFrom([]string{"x", "X", "/", ".", "é"}).Draw(t, "ch")
		s := strings.Repeat(ch, n/len(ch))
		if ch == "." || ch == "/" {
			s = "n" + s[1:] // no '..' components beyond the budget, no absolute path
		}
		return s + strings.Repeat("x", n-len(s))
	case 10:
		return rapid.StringN(1, 12, 40).Draw(t, "rnd")
	default:
		return rapid.StringMatching(`[a-cA-C/.]{1,4}`).Filter(func(s string) bool { return countUps(s) <= 1 }).Draw(t, "short")
	}
}

func gen(t *rapid.T) Case {
	n := rapid.IntRange(1, 30).Draw(t, "nops")
	var c Case
	var used []string
	ups := 0
	for i := 0; i < n; i++ {
		op := Op{Kind: rapid.SampledFrom([]string{"put", "put", "put", "get", "has", "delete", "list", "put", "get", "delete"}).Draw(t, "kind")}
		if op.Kind != "list" {
			op.Name = genName(t, used)
			if countUps(op.Name) > 0 {
				// budget over the whole case (see SAFETY)
				if ups+countUps(op.Name) > upBudget {
					op.Name = "a"
				} else {
					ups += countUps(op.Name)
				}
			}
			if op.Kind == "put" {
				op.Key = rapid.IntRange(0, nKeys-1).Draw(t, "key")
				if rapid.IntRange(0, 5).Draw(t, "unserialisable") == 0 {
					op.Key = nKeys + rapid.IntRange(0, nBad-1).Draw(t, "badkey")
				} else if rapid.IntRange(0, 7).Draw(t, "bigkey") == 0 {
					op.Key = nKeys + nBad + rapid.IntRange(0, nBig-1).Draw(t, "big")
				}
			}
			used = append(used, op.Name)
		}
		c.Ops = append(c.Ops, op)
	}
	return c
}

var spec = kit.Spec[Case]{
	Prop: "C40", Name: "main",
	Rule:  "1..30 operations put/get/has/delete/list over names with '/', '..', NUL, unicode, case variants, names that look like encoded file names, lengths around the 156-byte limit, 4 ed25519 keys plus an RSA-4096 key (2355-byte encoding), and (about every sixth Put) one of 2 valid ci.PrivKey values whose Raw() fails so that the key cannot be serialised; FSKeystore and MemKeystore are each compared with a map model at every step (Put refuses to overwrite with ErrKeyExists, Get ErrNoSuchKey, Has, List as sets; Delete compared by resulting state), the keystore directory must hold exactly one regular file key_<lowercase base32(name)> per key with the marshalled key, decoy key files outside the directory must never be served, and a snapshot of the sandbox outside the directory must be unchanged. A Put of an unserialisable key is given to the filesystem keystore only: it must return an error and leave the map unchanged (Get, List, Has of every name used so far and the exact directory content are re-checked against the model, and the in-memory keystore keeps agreeing on every later operation). non-trivial = at some point two live names differ only by case, or a live name contains a path separator, or a name is used again after such a failed Put on it",
	Quick: 1500, Thorough: 4000,
	Gen: gen, Run: run,
	Sample: func(c Case) any {
		var s []string
		for _, o := range c.Ops {
			x := o.Kind
			if o.Kind != "list" {
				x += " " + q(o.Name)
			}
			if o.Kind == "put" {
				x += fmt.Sprintf(" key#%d", o.Key)
				if isBad(o.Key) {
					x += " (unserialisable)"
				}
			}
			s = append(s, x)
		}
		return s
	},
}

func TestProp(t *testing.T) { kit.All(t, spec) }
