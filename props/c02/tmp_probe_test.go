package c02

import (
	"encoding/json"
	"fmt"
	"os"
	"testing"
	"time"
)

func TestTmpProbe(t *testing.T) {
	b, _ := os.ReadFile("/tmp/wt-c02-aux/f4.json")
	var c ConcCase
	if err := json.Unmarshal(b, &c); err != nil {
		t.Fatal(err)
	}
	for i := 0; i < 6; i++ {
		t0 := time.Now()
		res := runConc(c)
		fmt.Printf("known=%q in %v\n", res.Known, time.Since(t0))
	}
}
