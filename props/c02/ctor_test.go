package c02

// Sub-check "ctor": constructor outcome over the grid of small cache sizes. Every
// documented option combination must give either a clean error or a working store.
// Combinations suspected to kill the process in the background Bloom build (DESIGN
// §7-F21) are executed in a child process so that the test binary survives.

import (
	"bytes"
	"context"
	"encoding/json"
	"fmt"
	"os"
	"os/exec"
	"strings"
	"testing"
	"time"

	bstore "github.com/ipfs/boxo/blockstore"
	blocks "github.com/ipfs/go-block-format"
	"verif/kit"
)

type CtorCase struct {
	TQSize      int `json:"tq_size"`
	BloomSize   int `json:"bloom_size"`
	BloomHashes int `json:"bloom_hashes"`
}

const ctorEnv = "VERIF_C02_CTOR_CASE"

// ctorInProcess builds the store and exercises it; "" = fine (clean error or working store).
func ctorInProcess(c CtorCase) (outcome string, problem string) {
	ctx, cancel := context.WithTimeout(context.Background(), safety)
	defer cancel()
	plain := bstore.NewBlockstore(newFaultDS())
	pre := blocks.NewBlock([]byte("preloaded"))
	if err := plain.Put(ctx, pre); err != nil {
		return "", "preload: " + err.Error()
	}
	cbs, err := bstore.CachedBlockstore(ctx, plain, bstore.CacheOpts{
		HasTwoQueueCacheSize: c.TQSize, HasBloomFilterSize: c.BloomSize, HasBloomFilterHashes: c.BloomHashes})
	if err != nil {
		return "clean-error", ""
	}
	if cbs == nil {
		return "", "nil store and nil error"
	}
	if st, ok := cbs.(bstore.BloomCacheStatus); ok {
		st.Wait(ctx) // joins the background build; its error (if any) must not affect answers
		if ctx.Err() != nil {
			return "timeout", ""
		}
	}
	nb := blocks.NewBlock([]byte("new block"))
	if has, err := cbs.Has(ctx, pre.Cid()); err != nil || !has {
		return "", fmt.Sprintf("Has(preloaded) = %v, %v", has, err)
	}
	if has, err := cbs.Has(ctx, nb.Cid()); err != nil || has {
		return "", fmt.Sprintf("Has(never stored) = %v, %v", has, err)
	}
	if err := cbs.Put(ctx, nb); err != nil {
		return "", "Put: " + err.Error()
	}
	got, err := cbs.Get(ctx, nb.Cid())
	if err != nil || !bytes.Equal(got.RawData(), nb.RawData()) {
		return "", fmt.Sprintf("Get after Put: %v", err)
	}
	if err := cbs.DeleteBlock(ctx, pre.Cid()); err != nil {
		return "", "DeleteBlock: " + err.Error()
	}
	if has, err := cbs.Has(ctx, pre.Cid()); err != nil || has {
		return "", fmt.Sprintf("Has after Delete = %v, %v", has, err)
	}
	if sz, err := cbs.GetSize(ctx, nb.Cid()); err != nil || sz != len(nb.RawData()) {
		return "", fmt.Sprintf("GetSize after Put = %d, %v", sz, err)
	}
	return "working", ""
}

// TestCtorChild is the child-process side; it does nothing in a normal run.
func TestCtorChild(t *testing.T) {
	js := os.Getenv(ctorEnv)
	if js == "" {
		t.Skip("child-process helper")
	}
	var c CtorCase
	if err := json.Unmarshal([]byte(js), &c); err != nil {
		fmt.Printf("CTOR-HARNESS-ERROR %v\n", err)
		return
	}
	outcome, problem := ctorInProcess(c)
	if problem != "" {
		fmt.Printf("CTOR-PROBLEM %s\n", problem)
		return
	}
	fmt.Printf("CTOR-OUTCOME %s\n", outcome)
}

func suspect(c CtorCase) bool { return c.TQSize >= 1 && c.TQSize <= 3 && c.BloomSize > 0 }

func runCtor(c CtorCase) kit.Result {
	cls := []string{fmt.Sprintf("tq:%s bloom:%v", sizeClass(c.TQSize), c.BloomSize > 0)}
	var outcome, problem string
	if !suspect(c) {
		outcome, problem = ctorInProcess(c)
		cls = append(cls, "in-process")
	} else {
		cls = append(cls, "child-process")
		js, _ := json.Marshal(c)
		ctx, cancel := context.WithTimeout(context.Background(), 2*safety)
		defer cancel()
		cmd := exec.CommandContext(ctx, os.Args[0], "-test.run", "^TestCtorChild$", "-test.v")
		for _, e := range os.Environ() {
			if strings.HasPrefix(e, "VERIF_STATS=") || strings.HasPrefix(e, "VERIF_REPLAY=") || strings.HasPrefix(e, ctorEnv+"=") {
				continue
			}
			cmd.Env = append(cmd.Env, e)
		}
		cmd.Env = append(cmd.Env, ctorEnv+"="+string(js))
		out, err := cmd.CombinedOutput()
		text := string(out)
		switch {
		case strings.Contains(text, "CTOR-OUTCOME "):
			outcome = strings.Fields(text[strings.Index(text, "CTOR-OUTCOME ")+len("CTOR-OUTCOME "):])[0]
		case strings.Contains(text, "CTOR-PROBLEM "):
			problem = strings.SplitN(text[strings.Index(text, "CTOR-PROBLEM ")+len("CTOR-PROBLEM "):], "\n", 2)[0]
		case strings.Contains(text, "panic: ") || strings.Contains(text, "fatal error: "):
			i := strings.Index(text, "panic: ")
			if i < 0 {
				i = strings.Index(text, "fatal error: ")
			}
			tail := text[i:]
			if len(tail) > 1500 {
				tail = tail[:1500]
			}
			res := kit.Fail("CachedBlockstore(tq=%d, bloom=%d/%d) returned no error, then the process died: %s", c.TQSize, c.BloomSize, c.BloomHashes, tail)
			if strings.Contains(tail, "nil pointer dereference") && strings.Contains(tail, "blockstore.(*tqcache)") {
				res.Known = findingCtor
			}
			return res
		default:
			// the child could not run (harness problem): no verdict
			fmt.Fprintf(os.Stderr, "c02 ctor: child gave no outcome (err=%v): %.500s\n", err, text)
			return kit.Result{Classes: append(cls, "child-no-outcome")}
		}
	}
	if problem != "" {
		return kit.Fail("CachedBlockstore(tq=%d, bloom=%d/%d) returned a store that does not work: %s", c.TQSize, c.BloomSize, c.BloomHashes, problem)
	}
	cls = append(cls, "outcome:"+outcome)
	return kit.Result{NonTrivial: c.TQSize > 0 && c.TQSize <= 4, Classes: cls}
}

func ctorGrid(yield func(CtorCase) bool) {
	for _, tq := range []int{0, 1, 2, 3, 4, 5, 8, 64} {
		for _, bl := range [][2]int{{0, 0}, {1, 1}, {1, 7}, {8, 3}, {4096, 7}} {
			if tq >= 1 && tq <= 3 && (bl[0] == 1 && bl[1] == 7 || bl[0] == 8) {
				continue // child-process cases: two Bloom shapes are enough
			}
			if !yield(CtorCase{TQSize: tq, BloomSize: bl[0], BloomHashes: bl[1]}) {
				return
			}
		}
	}
}

var ctorSpec = kit.Spec[CtorCase]{
	Prop: "C02", Name: "ctor",
	Rule: "exhaustive grid two-queue size {0,1,2,3,4,5,8,64} x Bloom {none, 1 byte/1 hash, 1/7, 8/3, 4096/7} (sizes 1-3: {none, 1/1, 4096/7}): CachedBlockstore must return a clean error or a store that answers Has/Get/GetSize/Put/Delete correctly after the initial build; sizes 1-3 with a Bloom filter run in a child process. non-trivial = two-queue size 1..4",
	Gen:  nil, Run: runCtor,
}

func TestPropCtor(t *testing.T) {
	t.Run("replay", func(t *testing.T) { kit.Replay(t, ctorSpec) })
	t.Run("findings", func(t *testing.T) { kit.RunFindings(t, ctorSpec) })
	t.Run("search", func(t *testing.T) { kit.Exhaustive(t, ctorSpec, ctorGrid) })
}

var _ = time.Second
