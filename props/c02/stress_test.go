package c02

// Sub-check "rebuild": the "in particular" clause under real concurrency. Keys whose Put
// returned before the concurrent phase and which are never deleted must be reported
// present by every accessor while another goroutine rebuilds the Bloom filter again and
// again (and, optionally, a writer churns other keys). The amount of work is bounded by
// the number of rebuilds, not by time; a "missing" answer is the only verdict.

import (
	"bytes"
	"context"
	"fmt"
	"sync"
	"sync/atomic"
	"testing"

	bstore "github.com/ipfs/boxo/blockstore"
	blocks "github.com/ipfs/go-block-format"
	"pgregory.net/rapid"
	"verif/kit"
)

type StressCase struct {
	TQSize      int      `json:"tq_size"`
	BloomSize   int      `json:"bloom_size"`
	BloomHashes int      `json:"bloom_hashes"`
	Stable      int      `json:"stable"`   // keys stored before the concurrent phase, never deleted
	Readers     int      `json:"readers"`  // goroutines reading the stable keys
	Kinds       []string `json:"kinds"`    // accessors the readers cycle through
	Rebuilds    int      `json:"rebuilds"` // sequential Rebuild calls of the rebuilder
	Churn       bool     `json:"churn"`    // a writer puts/deletes other keys meanwhile
}

func genStress(t *rapid.T) StressCase {
	c := StressCase{
		BloomSize:   rapid.IntRange(1, 512).Draw(t, "bloom"),
		BloomHashes: rapid.IntRange(1, 7).Draw(t, "hashes"),
		Stable:      rapid.IntRange(1, 6).Draw(t, "stable"),
		Readers:     rapid.IntRange(1, 8).Draw(t, "readers"),
		Rebuilds:    rapid.IntRange(1, kit.Scale(300, 1500)).Draw(t, "rebuilds"),
		Churn:       rapid.Bool().Draw(t, "churn"),
	}
	if rapid.Bool().Draw(t, "withtq") {
		c.TQSize = rapid.IntRange(2, 16).Draw(t, "tq")
	}
	c.Kinds = rapid.SliceOfN(rapid.SampledFrom([]string{"has", "get", "getsize", "view"}), 1, 4).Draw(t, "kinds")
	return c
}

func runStress(c StressCase) kit.Result {
	if c.BloomSize <= 0 || c.Stable <= 0 || c.TQSize == 1 || len(c.Kinds) == 0 {
		return kit.Result{}
	}
	ctx := context.Background()
	plain := bstore.NewBlockstore(newFaultDS())
	cbs, err := bstore.CachedBlockstore(ctx, plain, bstore.CacheOpts{
		HasTwoQueueCacheSize: c.TQSize, HasBloomFilterSize: c.BloomSize, HasBloomFilterHashes: c.BloomHashes})
	if err != nil {
		return kit.Fail("CachedBlockstore(tq=%d, bloom=%d/%d) rejected in-range options: %v", c.TQSize, c.BloomSize, c.BloomHashes, err)
	}
	st, ok := cbs.(bstore.BloomCacheStatus)
	if !ok {
		return kit.Fail("CachedBlockstore with a Bloom filter does not implement BloomCacheStatus")
	}
	st.Wait(ctx)
	var stable []blocks.Block
	for i := 0; i < c.Stable; i++ {
		b := blocks.NewBlock([]byte(fmt.Sprintf("stable-%d", i)))
		if err := cbs.Put(ctx, b); err != nil {
			return kit.Fail("Put: %v", err)
		}
		stable = append(stable, b)
	}
	viewer, _ := cbs.(bstore.Viewer)

	var stop atomic.Bool
	var reads, misses atomic.Int64
	var mu sync.Mutex
	var firstMiss, otherErr string
	miss := func(s string) {
		misses.Add(1)
		mu.Lock()
		if firstMiss == "" {
			firstMiss = s
		}
		mu.Unlock()
	}
	other := func(s string) {
		mu.Lock()
		if otherErr == "" {
			otherErr = s
		}
		mu.Unlock()
	}
	var wg sync.WaitGroup
	for g := 0; g < c.Readers; g++ {
		wg.Add(1)
		go func(g int) {
			defer wg.Done()
			for i := g; !stop.Load(); i++ {
				b := stable[i%len(stable)]
				k := c.Kinds[(i/len(stable))%len(c.Kinds)]
				reads.Add(1)
				switch k {
				case "has":
					has, err := cbs.Has(ctx, b.Cid())
					if err != nil {
						other(fmt.Sprintf("Has: %v", err))
					} else if !has {
						miss("Has = false")
					}
				case "getsize":
					sz, err := cbs.GetSize(ctx, b.Cid())
					if notFound(err) {
						miss("GetSize: not found")
					} else if err != nil || sz != len(b.RawData()) {
						other(fmt.Sprintf("GetSize = %d, %v", sz, err))
					}
				case "get":
					blk, err := cbs.Get(ctx, b.Cid())
					if notFound(err) {
						miss("Get: not found")
					} else if err != nil || !bytes.Equal(blk.RawData(), b.RawData()) {
						other(fmt.Sprintf("Get: %v", err))
					}
				case "view":
					if viewer == nil {
						continue
					}
					err := viewer.View(ctx, b.Cid(), func(p []byte) error {
						if !bytes.Equal(p, b.RawData()) {
							other("View passed wrong bytes")
						}
						return nil
					})
					if notFound(err) {
						miss("View: not found")
					} else if err != nil {
						other(fmt.Sprintf("View: %v", err))
					}
				}
			}
		}(g)
	}
	if c.Churn {
		wg.Add(1)
		go func() {
			defer wg.Done()
			for i := 0; !stop.Load(); i++ {
				b := blocks.NewBlock([]byte(fmt.Sprintf("churn-%d", i%7)))
				if i%3 == 2 {
					cbs.DeleteBlock(ctx, b.Cid())
				} else {
					cbs.Put(ctx, b)
				}
			}
		}()
	}
	rebuildErrs := 0
	done := 0
	for ; done < c.Rebuilds && misses.Load() == 0; done++ { // stops at the first miss: the verdict is already fixed
		if err := st.Rebuild(ctx); err != nil {
			rebuildErrs++
		}
	}
	stop.Store(true)
	wg.Wait()
	if otherErr != "" {
		return kit.Fail("read of a stored block during Rebuild: %s", otherErr)
	}
	if n := misses.Load(); n > 0 {
		return kit.Result{Known: findingRace, Err: fmt.Errorf(
			"%d of %d reads reported a block missing whose Put had returned and which was never deleted, while Rebuild ran %d times (first: %s)",
			n, reads.Load(), done, firstMiss)}
	}
	cls := []string{fmt.Sprintf("tq:%s", sizeClass(c.TQSize)), fmt.Sprintf("churn:%v", c.Churn)}
	if rebuildErrs > 0 {
		cls = append(cls, "rebuild-error-without-fault")
	}
	return kit.Result{NonTrivial: c.Readers >= 2 && c.Rebuilds >= 20, Classes: cls}
}

var stressSpec = kit.Spec[StressCase]{
	Prop: "C02", Name: "rebuild",
	Rule:  "1-6 stable keys (Put returned, never deleted), 1-8 reader goroutines cycling through generated accessors, one goroutine calling Rebuild 1-300 times (thorough 1500), optional writer churning other keys, optional two-queue cache; any 'missing' answer for a stable key is a violation. non-trivial = >=2 readers and >=20 rebuilds",
	Quick: 40, Thorough: 200,
	Gen: genStress, Run: runStress, Journal: true,
}

func TestPropRebuild(t *testing.T) { kit.All(t, stressSpec) }
