package c02

// Sub-check "conc": concurrent histories on the cached store, checked per key for
// linearizability against the register {absent | present} with porcupine. Call/return
// stamps come from one atomic counter (a logical clock consistent with real time), so
// the verdict does not depend on the wall clock or on machine load.

import (
	"bytes"
	"context"
	"fmt"
	"sort"
	"sync"
	"sync/atomic"
	"testing"
	"time"

	"github.com/anishathalye/porcupine"
	bstore "github.com/ipfs/boxo/blockstore"
	blocks "github.com/ipfs/go-block-format"
	cid "github.com/ipfs/go-cid"
	"pgregory.net/rapid"
	"verif/kit"
)

type COp struct {
	Kind  string `json:"kind"` // put putmany delete has get getsize view rebuild
	R     Ref    `json:"r"`
	Batch []Ref  `json:"batch,omitempty"`
	Pre   uint8  `json:"pre,omitempty"`  // pause before each backing-store call of this op
	Post  uint8  `json:"post,omitempty"` // pause after it
}

type ConcCase struct {
	TQSize        int             `json:"tq_size"`
	BloomSize     int             `json:"bloom_size"`
	BloomHashes   int             `json:"bloom_hashes"`
	IDStore       bool            `json:"idstore"`
	BackingViewer bool            `json:"backing_viewer"`
	WaitBuild     bool            `json:"wait_build"` // wait for the initial Bloom build before the threads start
	Keys          []kit.PoolBlock `json:"keys"`
	Preload       []int           `json:"preload"`
	Threads       [][]COp         `json:"threads"`
	// Repeat > 1 (only in hand-written finding cases): the whole scenario is executed up to
	// Repeat times on fresh stores, stopping at the first failure.
	Repeat int `json:"repeat,omitempty"`
}

var concKinds = []string{"put", "put", "putmany", "delete", "delete", "has", "has", "get", "getsize", "getsize", "view"}

func genConc(t *rapid.T) ConcCase {
	c := ConcCase{
		IDStore:       rapid.IntRange(0, 5).Draw(t, "idstore") == 0,
		BackingViewer: rapid.Bool().Draw(t, "viewer"),
		WaitBuild:     rapid.Bool().Draw(t, "waitbuild"),
	}
	// at least one cache layer; two-queue sizes >= 2 (1 is rejected by the constructor)
	switch rapid.IntRange(0, 6).Draw(t, "layers") {
	case 0, 1, 2:
		c.TQSize = rapid.IntRange(2, 8).Draw(t, "tq")
	case 3:
		c.BloomSize, c.BloomHashes = rapid.IntRange(1, 64).Draw(t, "bloom"), rapid.IntRange(1, 7).Draw(t, "hashes")
	default:
		c.TQSize = rapid.OneOf(rapid.IntRange(2, 4), rapid.IntRange(2, 64)).Draw(t, "tq")
		c.BloomSize, c.BloomHashes = rapid.IntRange(1, 4096).Draw(t, "bloom"), rapid.IntRange(1, 7).Draw(t, "hashes")
	}
	c.Keys = kit.GenPool(t, 3, 4, false)
	nk := len(c.Keys)
	for i := 0; i < nk; i++ {
		if rapid.Bool().Draw(t, "pre") {
			c.Preload = append(c.Preload, i)
		}
	}
	nt := rapid.IntRange(2, 6).Draw(t, "threads")
	rebuilds := 0
	for g := 0; g < nt; g++ {
		n := rapid.IntRange(5, kit.Scale(20, 30)).Draw(t, "nops")
		var ops []COp
		for i := 0; i < n; i++ {
			k := rapid.SampledFrom(concKinds).Draw(t, "kind")
			if c.BloomSize > 0 && rebuilds < 4 && rapid.IntRange(0, 14).Draw(t, "rebuild") == 0 {
				k = "rebuild"
				rebuilds++
			}
			op := COp{Kind: k}
			switch k {
			case "putmany":
				m := rapid.IntRange(1, 3).Draw(t, "nbatch")
				for j := 0; j < m; j++ {
					op.Batch = append(op.Batch, genRef(t, nk))
				}
			case "rebuild":
			default:
				op.R = genRef(t, nk)
			}
			if rapid.IntRange(0, 2).Draw(t, "delayed") == 0 {
				op.Pre = uint8(rapid.IntRange(0, 6).Draw(t, "pre"))
				op.Post = uint8(rapid.IntRange(0, 6).Draw(t, "post"))
			}
			ops = append(ops, op)
		}
		c.Threads = append(c.Threads, ops)
	}
	return c
}

// ---------------------------------------------------------------------------

type regIn struct {
	op int // 0 read, 1 put, 2 delete
	// relax is set only when a failing history is re-checked against the signature of an
	// open finding: 1 = the answer of this read is not constrained, 2 = this put may be lost
	relax int
}

type rec struct {
	client    int
	kind      string
	key       string
	in        regIn
	found     bool // reads
	call, ret int64
}

// The register is checked on sets of possible states (bit 0: absent, bit 1: present), so
// that the relaxed operations above stay deterministic for porcupine.
const (
	stAbsent  uint8 = 1
	stPresent uint8 = 2
)

func registerModel(initial bool) porcupine.Model {
	return porcupine.Model{
		Init: func() interface{} {
			if initial {
				return stPresent
			}
			return stAbsent
		},
		Step: func(state, input, output interface{}) (bool, interface{}) {
			st := state.(uint8)
			in := input.(regIn)
			switch in.op {
			case 1:
				if in.relax == 2 {
					return true, st | stPresent
				}
				return true, stPresent
			case 2:
				return true, stAbsent
			default:
				if in.relax == 1 {
					return true, st
				}
				want := stAbsent
				if output.(bool) {
					want = stPresent
				}
				if st&want == 0 {
					return false, st
				}
				return true, want
			}
		},
		Equal: func(a, b interface{}) bool { return a.(uint8) == b.(uint8) },
	}
}

func checkKey(initial bool, recs []rec) porcupine.CheckResult {
	ops := make([]porcupine.Operation, 0, len(recs))
	for _, r := range recs {
		ops = append(ops, porcupine.Operation{ClientId: r.client, Input: r.in, Call: r.call, Output: r.found, Return: r.ret})
	}
	return porcupine.CheckOperationsTimeout(registerModel(initial), ops, 20*time.Second)
}

// knownSignature re-checks a non-linearizable key history against the signatures of the
// open findings; all of them need a Bloom build running concurrently:
// (a) "absent" answers that overlap a Rebuild are unconstrained (bloom-rebuild-race);
// (b) with a two-queue cache: puts that overlap a Delete of the same key by another
//
//	goroutine, itself overlapping a build, may be lost, and "present" answers overlapping
//	such a Delete are unconstrained (tq-put-lost-during-delete);
//
// (c) answers of reads that overlap a Put of the same key by another goroutine, itself
//
//	overlapping a build, are unconstrained (bloom-build-exposes-inflight-put).
//
// It returns the finding key whose relaxation makes the history linearizable, or "".
func knownSignature(c ConcCase, rebuilds [][2]int64, initial bool, rs []rec) string {
	if c.BloomSize <= 0 {
		return ""
	}
	inRebuild := func(x rec) bool {
		for _, rb := range rebuilds {
			if x.call < rb[1] && rb[0] < x.ret {
				return true
			}
		}
		return false
	}
	// a Bloom build ran concurrently with the threads at some time (a slow lookup can carry
	// a decision taken under an older filter past the end of a build, so the overlap is not
	// required per operation)
	anyBuild := !c.WaitBuild || len(rebuilds) > 0
	exposed := func(x rec) bool { return anyBuild }
	overlaps := func(x, y rec) bool { return x.client != y.client && x.call < y.ret && y.call < x.ret }
	sigA := func(x rec) int {
		if x.in.op == 0 && !x.found && inRebuild(x) {
			return 1
		}
		return 0
	}
	sigB := func(x rec) int {
		if c.TQSize == 0 || x.in.op == 2 || (x.in.op == 0 && !x.found) {
			return 0
		}
		for _, d := range rs {
			if d.in.op == 2 && exposed(d) && overlaps(x, d) {
				if x.in.op == 1 {
					return 2
				}
				return 1
			}
		}
		return 0
	}
	sigC := func(x rec) int {
		if x.in.op != 0 {
			return 0
		}
		for _, p := range rs {
			if p.in.op == 1 && exposed(p) && overlaps(x, p) {
				return 1
			}
		}
		return 0
	}
	type sig struct {
		key   string
		relax []func(rec) int
	}
	for _, sg := range []sig{
		{findingRace, []func(rec) int{sigA}},
		{findingLost, []func(rec) int{sigB}},
		{findingExposed, []func(rec) int{sigC}},
		{findingLost, []func(rec) int{sigA, sigB, sigC}},
	} {
		if !kit.OpenFinding("C02", sg.key) {
			continue
		}
		relaxed := make([]rec, len(rs))
		n := 0
		for i, x := range rs {
			for _, f := range sg.relax {
				if v := f(x); v > x.in.relax {
					x.in.relax = v
				}
			}
			if x.in.relax != 0 {
				n++
			}
			relaxed[i] = x
		}
		if n > 0 && checkKey(initial, relaxed) == porcupine.Ok {
			return sg.key
		}
	}
	return ""
}

type concRun struct {
	c     ConcCase
	bs    bstore.Blockstore
	st    bstore.BloomCacheStatus
	forms [][]cid.Cid
	data  map[string][]byte // multihash -> the (only) honest bytes
	clock atomic.Int64

	mu        sync.Mutex
	recs      []rec
	rebuilds  [][2]int64
	buildErrs int
	firstErr  error
}

func (r *concRun) fail(format string, a ...any) {
	r.mu.Lock()
	if r.firstErr == nil {
		r.firstErr = fmt.Errorf(format, a...)
	}
	r.mu.Unlock()
}

func (r *concRun) cidOf(ref Ref) cid.Cid {
	f := r.forms[mod(ref.B, len(r.forms))]
	return f[mod(ref.F, len(f))]
}

func (r *concRun) add(rs ...rec) {
	r.mu.Lock()
	r.recs = append(r.recs, rs...)
	r.mu.Unlock()
}

// do executes one operation as client and records it. Identity CIDs under the idstore never
// reach the caches and are not recorded.
func (r *concRun) do(client int, op COp) {
	ctx := context.Background()
	if op.Pre != 0 || op.Post != 0 {
		ctx = context.WithValue(ctx, delayKey{}, &delay{pre: op.Pre, post: op.Post})
	}
	switch op.Kind {
	case "rebuild":
		if r.st == nil {
			return
		}
		call := r.clock.Add(1)
		err := r.st.Rebuild(ctx)
		ret := r.clock.Add(1)
		r.mu.Lock()
		r.rebuilds = append(r.rebuilds, [2]int64{call, ret})
		if err != nil {
			r.buildErrs++ // not a violation: answers must stay correct without the filter
		}
		r.mu.Unlock()
	case "put":
		c := r.cidOf(op.R)
		blk, _ := blocks.NewBlockWithCid(r.data[string(c.Hash())], c)
		call := r.clock.Add(1)
		err := r.bs.Put(ctx, blk)
		ret := r.clock.Add(1)
		if err != nil {
			r.fail("Put(%s): unexpected error %v", c, err)
		}
		r.add(rec{client: client, kind: "put", key: string(c.Hash()), in: regIn{op: 1}, call: call, ret: ret})
	case "putmany":
		var bl []blocks.Block
		seen := map[string]bool{}
		var rs []rec
		for _, ref := range op.Batch {
			c := r.cidOf(ref)
			blk, _ := blocks.NewBlockWithCid(r.data[string(c.Hash())], c)
			bl = append(bl, blk)
			if !seen[string(c.Hash())] {
				seen[string(c.Hash())] = true
				rs = append(rs, rec{client: client, kind: "putmany", key: string(c.Hash()), in: regIn{op: 1}})
			}
		}
		call := r.clock.Add(1)
		err := r.bs.PutMany(ctx, bl)
		ret := r.clock.Add(1)
		if err != nil {
			r.fail("PutMany: unexpected error %v", err)
		}
		for i := range rs {
			rs[i].call, rs[i].ret = call, ret
		}
		r.add(rs...)
	case "delete":
		c := r.cidOf(op.R)
		call := r.clock.Add(1)
		err := r.bs.DeleteBlock(ctx, c)
		ret := r.clock.Add(1)
		if err != nil {
			r.fail("DeleteBlock(%s): unexpected error %v", c, err)
		}
		r.add(rec{client: client, kind: "delete", key: string(c.Hash()), in: regIn{op: 2}, call: call, ret: ret})
	case "has", "get", "getsize", "view":
		c := r.cidOf(op.R)
		want := r.data[string(c.Hash())]
		var found bool
		call := r.clock.Add(1)
		switch op.Kind {
		case "has":
			has, err := r.bs.Has(ctx, c)
			if err != nil {
				r.fail("Has(%s): unexpected error %v", c, err)
			}
			found = has
		case "getsize":
			sz, err := r.bs.GetSize(ctx, c)
			if err == nil {
				found = true
				if sz != len(want) {
					r.fail("GetSize(%s) = %d, the block has %d bytes", c, sz, len(want))
				}
			} else if !notFound(err) {
				r.fail("GetSize(%s): unexpected error %v", c, err)
			}
		case "get":
			blk, err := r.bs.Get(ctx, c)
			if err == nil {
				found = true
				if !bytes.Equal(blk.RawData(), want) {
					r.fail("Get(%s) returned %x, the block is %x", c, blk.RawData(), want)
				}
			} else if !notFound(err) {
				r.fail("Get(%s): unexpected error %v", c, err)
			}
		case "view":
			v, ok := r.bs.(bstore.Viewer)
			if !ok {
				return
			}
			calls := 0
			err := v.View(ctx, c, func(b []byte) error {
				calls++
				if !bytes.Equal(b, want) {
					r.fail("View(%s) passed %x, the block is %x", c, b, want)
				}
				return nil
			})
			if err == nil {
				found = true
				if calls != 1 {
					r.fail("View(%s) succeeded with %d callback calls", c, calls)
				}
			} else if !notFound(err) || calls != 0 {
				r.fail("View(%s): unexpected error %v (callback calls %d)", c, err, calls)
			}
		}
		ret := r.clock.Add(1)
		r.add(rec{client: client, kind: op.Kind, key: string(c.Hash()), in: regIn{op: 0}, found: found, call: call, ret: ret})
	}
}

func describe(rs []rec) string {
	sort.Slice(rs, func(i, j int) bool { return rs[i].call < rs[j].call })
	var b bytes.Buffer
	for _, r := range rs {
		out := ""
		if r.in.op == 0 {
			out = fmt.Sprintf("=%v", r.found)
		}
		fmt.Fprintf(&b, " [%d,%d]c%d:%s%s", r.call, r.ret, r.client, r.kind, out)
	}
	return b.String()
}

func runConc(c ConcCase) kit.Result {
	res := runConcOnce(c)
	for i := 1; i < c.Repeat && res.Err == nil; i++ {
		res = runConcOnce(c)
	}
	return res
}

func runConcOnce(c ConcCase) kit.Result {
	if len(c.Keys) == 0 || len(c.Threads) == 0 {
		return kit.Result{}
	}
	if c.TQSize == 1 {
		return kit.Result{Classes: []string{"tq-size-1-skipped"}} // see sub-check "ctor"
	}
	bloom := c.BloomSize > 0
	r := &concRun{c: c, data: map[string][]byte{}}
	for _, p := range c.Keys {
		r.forms = append(r.forms, p.Forms())
		r.data[string(p.Cid().Hash())] = p.Data
	}
	fds := newFaultDS()
	plain := bstore.NewBlockstore(fds)
	ctx := context.Background()
	initial := map[string]bool{}
	for _, i := range c.Preload {
		p := c.Keys[mod(i, len(c.Keys))]
		if err := plain.Put(ctx, p.BlockAs(0)); err != nil {
			return kit.Fail("preload: %v", err)
		}
		initial[string(p.Cid().Hash())] = true
	}
	cbs, err := bstore.CachedBlockstore(ctx, newBacking(plain, c.BackingViewer),
		bstore.CacheOpts{HasTwoQueueCacheSize: c.TQSize, HasBloomFilterSize: c.BloomSize, HasBloomFilterHashes: c.BloomHashes})
	if err != nil {
		return kit.Fail("CachedBlockstore(tq=%d, bloom=%d/%d) rejected in-range options: %v", c.TQSize, c.BloomSize, c.BloomHashes, err)
	}
	if bloom {
		r.st, _ = cbs.(bstore.BloomCacheStatus)
		if r.st == nil {
			return kit.Fail("CachedBlockstore with a Bloom filter does not implement BloomCacheStatus")
		}
		if c.WaitBuild {
			if err := r.st.Wait(ctx); err != nil {
				r.buildErrs++
			}
		}
	}
	r.bs = cbs
	if c.IDStore {
		r.bs = bstore.NewIdStore(cbs)
	}

	start := make(chan struct{})
	var wg sync.WaitGroup
	for g, ops := range c.Threads {
		wg.Add(1)
		go func(g int, ops []COp) {
			defer wg.Done()
			<-start
			for _, op := range ops {
				r.do(g, op)
			}
		}(g, ops)
	}
	close(start)
	wg.Wait()
	if r.st != nil {
		if err := r.st.Wait(ctx); err != nil { // joins the build goroutine
			r.buildErrs++
		}
	}
	// quiescent reads: every key through every accessor, recorded as one more client, and a
	// direct comparison with the uncached store
	final := len(c.Threads)
	for i := range c.Keys {
		for _, k := range []string{"has", "getsize", "get", "view", "has"} {
			r.do(final, COp{Kind: k, R: Ref{B: i}})
		}
		cc := r.forms[i][0]
		uh, err := plain.Has(ctx, cc)
		if err != nil {
			return kit.Fail("uncached Has: %v", err)
		}
		ch, err := r.bs.Has(ctx, cc)
		if err != nil {
			return kit.Fail("Has(%s) at quiescence: %v", cc, err)
		}
		if uh != ch {
			return kit.Fail("at quiescence Has(%s) = %v through the caches but %v on the uncached store", cc, ch, uh)
		}
	}
	if r.firstErr != nil {
		return kit.Result{Err: r.firstErr}
	}

	// per-key linearizability
	byKey := map[string][]rec{}
	for _, x := range r.recs {
		byKey[x.key] = append(byKey[x.key], x)
	}
	keys := make([]string, 0, len(byKey))
	for k := range byKey {
		keys = append(keys, k)
	}
	sort.Strings(keys)
	overlapMut := false
	unknown := false
	for _, k := range keys {
		rs := byKey[k]
		for i := range rs {
			for j := range rs {
				if i != j && rs[i].in.op != 0 && rs[i].client != rs[j].client && rs[i].call < rs[j].ret && rs[j].call < rs[i].ret {
					overlapMut = true
				}
			}
		}
		switch checkKey(initial[k], rs) {
		case porcupine.Ok:
		case porcupine.Unknown:
			unknown = true
		case porcupine.Illegal:
			msg := fmt.Errorf("history of multihash %x (initially present=%v) is not linearizable against a register:%s", k, initial[k], describe(rs))
			if key := knownSignature(c, r.rebuilds, initial[k], rs); key != "" {
				return kit.Result{Err: msg, Known: key}
			}
			return kit.Result{Err: msg}
		}
	}
	cls := []string{fmt.Sprintf("tq:%s bloom:%v", sizeClass(c.TQSize), bloom), fmt.Sprintf("threads:%d", len(c.Threads))}
	if len(r.rebuilds) > 0 {
		cls = append(cls, "concurrent-rebuild")
	}
	if unknown {
		cls = append(cls, "linearizability-check-timeout")
	}
	if r.buildErrs > 0 {
		cls = append(cls, "bloom-build-error-without-fault")
	}
	if overlapMut {
		cls = append(cls, "overlapping-mutation")
	}
	return kit.Result{NonTrivial: overlapMut, Classes: cls}
}

var concSpec = kit.Spec[ConcCase]{
	Prop: "C02", Name: "conc",
	Rule:  "2-6 goroutines x 5-20 ops (thorough <=30) on 3-4 keys (all CID alias forms) over [two-queue 2..64] and/or [Bloom 1..4096 bytes], optional concurrent Rebuild (<=4) and an initial build racing the threads; generated yields/20-60us sleeps at the backing blockstore boundary; call/return stamped by one atomic counter; every key's history (PutMany = one put per key over the same interval), closed by quiescent reads through all accessors, is checked for linearizability against the register {absent|present} with porcupine; returned bytes/sizes and quiescent agreement with the uncached store are checked directly. non-trivial = two ops of different goroutines overlap on one key and one of them mutates",
	Quick: 500, Thorough: 2500,
	Gen: genConc, Run: runConc, Journal: true,
	Sample: func(c ConcCase) any {
		n := 0
		for _, t := range c.Threads {
			n += len(t)
		}
		return map[string]any{"tq_size": c.TQSize, "bloom_size": c.BloomSize, "bloom_hashes": c.BloomHashes, "keys": len(c.Keys),
			"preload": c.Preload, "threads": len(c.Threads), "ops": n, "first_thread": c.Threads[0]}
	},
}

func TestPropConc(t *testing.T) { kit.All(t, concSpec) }
