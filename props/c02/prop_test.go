package c02

// C02: the two-queue existence cache and the Bloom filter cache are observationally
// transparent. Sub-check "seq": sequential histories against a map model, with the key
// enumeration of the backing datastore held / failed / cancelled at generated positions
// during the initial Bloom build and during Rebuild. See conc_test.go ("conc"),
// ctor_test.go ("ctor") and stress_test.go ("rebuild") for the other sub-checks.

import (
	"bytes"
	"context"
	"errors"
	"fmt"
	"testing"
	"time"

	bstore "github.com/ipfs/boxo/blockstore"
	blocks "github.com/ipfs/go-block-format"
	cid "github.com/ipfs/go-cid"
	dsq "github.com/ipfs/go-datastore/query"
	ipld "github.com/ipfs/go-ipld-format"
	"github.com/multiformats/go-base32"
	"pgregory.net/rapid"
	"verif/kit"
)

func TestMain(m *testing.M) { kit.Main(m) }

const (
	findingCtor    = "tq-ctor-error-swallowed" // DESIGN §7-F21
	findingRace    = "bloom-rebuild-race"
	findingLost    = "tq-put-lost-during-delete"
	findingExposed = "bloom-build-exposes-inflight-put"
)

type Ref struct {
	B int `json:"b"`
	F int `json:"f"`
}

// Fault is the plan for one key enumeration of the backing datastore.
type Fault struct {
	Kind string `json:"kind,omitempty"` // "" | error | cancel
	Pos  int    `json:"pos"`            // fault before entry Pos (sorted key order); beyond the end: no fault
	Hold int    `json:"hold"`           // enumeration is held before entry Hold while other ops run; <0: no hold
}

type SOp struct {
	Kind      string `json:"kind"` // put putmany delete has get getsize view allkeys sweep wait rebuild
	R         Ref    `json:"r"`
	Batch     []Ref  `json:"batch,omitempty"`
	FailWrite bool   `json:"fail_write,omitempty"` // the backing datastore write of this op fails atomically
	Plan      *Fault `json:"plan,omitempty"`       // rebuild
	During    []SOp  `json:"during,omitempty"`     // rebuild: ops executed while the enumeration is held
}

type SeqCase struct {
	TQSize        int             `json:"tq_size"`
	BloomSize     int             `json:"bloom_size"` // bytes
	BloomHashes   int             `json:"bloom_hashes"`
	IDStore       bool            `json:"idstore"` // outermost, as callers compose it
	WriteThrough  bool            `json:"write_through"`
	NoPrefix      bool            `json:"no_prefix"`
	BackingViewer bool            `json:"backing_viewer"`
	Pool          []kit.PoolBlock `json:"pool"`
	Preload       []Ref           `json:"preload"`
	Init          Fault           `json:"init"`
	Ops           []SOp           `json:"ops"`
}

// ---------------------------------------------------------------------------
// generators

func genTQSize(t *rapid.T) int {
	// (rapid favours small values of a range, so the common class comes first)
	switch cl := rapid.IntRange(0, 39).Draw(t, "tqclass"); {
	case cl <= 20:
		return rapid.IntRange(2, 6).Draw(t, "tq")
	case cl <= 32:
		return rapid.IntRange(2, 64).Draw(t, "tq")
	case cl <= 38:
		return 0
	default:
		return 1 // rejected by the two-queue constructor; with a Bloom filter: finding F21
	}
}

func genBloom(t *rapid.T) (size, hashes int) {
	switch rapid.IntRange(0, 9).Draw(t, "bloomclass") {
	case 0, 1:
		return 0, 0
	case 2, 3, 4:
		return rapid.IntRange(1, 8).Draw(t, "bloom"), rapid.IntRange(1, 7).Draw(t, "hashes")
	default:
		return rapid.IntRange(1, 4096).Draw(t, "bloom"), rapid.IntRange(1, 7).Draw(t, "hashes")
	}
}

func genFault(t *rapid.T, n int) Fault {
	f := Fault{Hold: -1}
	switch rapid.IntRange(0, 5).Draw(t, "faultkind") {
	case 0, 1:
		f.Kind = "error"
	case 2:
		f.Kind = "cancel"
	}
	f.Pos = rapid.IntRange(0, n+1).Draw(t, "faultpos")
	if rapid.IntRange(0, 2).Draw(t, "holds") > 0 {
		f.Hold = rapid.IntRange(0, n+1).Draw(t, "hold")
	}
	return f
}

var seqKinds = []string{"put", "put", "put", "putmany", "delete", "delete", "has", "has", "get", "getsize", "getsize", "view", "allkeys", "sweep", "wait", "rebuild", "rebuild"}
var innerKinds = []string{"put", "put", "putmany", "delete", "has", "has", "get", "getsize", "view", "sweep"}

func genRef(t *rapid.T, npool int) Ref {
	return Ref{B: rapid.IntRange(0, npool-1).Draw(t, "blk"), F: rapid.IntRange(0, 3).Draw(t, "form")}
}

func genSOp(t *rapid.T, npool int, kinds []string, bloom bool) SOp {
	k := rapid.SampledFrom(kinds).Draw(t, "kind")
	if !bloom && (k == "wait" || k == "rebuild") {
		k = "has"
	}
	op := SOp{Kind: k}
	switch k {
	case "putmany":
		m := rapid.IntRange(0, 4).Draw(t, "nbatch")
		for j := 0; j < m; j++ {
			op.Batch = append(op.Batch, genRef(t, npool))
		}
	case "allkeys", "sweep", "wait":
	case "rebuild":
		f := genFault(t, npool)
		op.Plan = &f
		if f.Hold >= 0 {
			m := rapid.IntRange(1, 6).Draw(t, "nduring")
			for j := 0; j < m; j++ {
				op.During = append(op.During, genSOp(t, npool, innerKinds, bloom))
			}
		}
	default:
		op.R = genRef(t, npool)
	}
	switch k {
	case "put", "putmany", "delete":
		op.FailWrite = rapid.IntRange(0, 11).Draw(t, "failwrite") == 0
	}
	return op
}

func genSeq(t *rapid.T) SeqCase {
	c := SeqCase{
		IDStore:       rapid.IntRange(0, 3).Draw(t, "idstore") == 0,
		WriteThrough:  rapid.Bool().Draw(t, "wt"),
		NoPrefix:      rapid.IntRange(0, 3).Draw(t, "noprefix") == 0,
		BackingViewer: rapid.Bool().Draw(t, "viewer"),
	}
	c.TQSize = genTQSize(t)
	c.BloomSize, c.BloomHashes = genBloom(t)
	c.Pool = kit.GenPool(t, 4, 10, true)
	np := len(c.Pool)
	npre := rapid.IntRange(0, np).Draw(t, "npre")
	for i := 0; i < npre; i++ {
		c.Preload = append(c.Preload, genRef(t, np))
	}
	bloom := c.BloomSize > 0
	c.Init = Fault{Hold: -1}
	if bloom {
		c.Init = genFault(t, np)
	}
	n := rapid.IntRange(1, kit.Scale(40, 80)).Draw(t, "nops")
	for i := 0; i < n; i++ {
		c.Ops = append(c.Ops, genSOp(t, np, seqKinds, bloom))
	}
	return c
}

// ---------------------------------------------------------------------------
// model and harness

type seqRun struct {
	c     SeqCase
	ctx   context.Context
	fds   *faultDS
	bs    bstore.Blockstore // the store under test (outermost layer)
	st    bstore.BloomCacheStatus
	forms [][]cid.Cid
	store map[string][]byte // model: multihash -> bytes

	initPlan   *queryPlan
	initJoined bool
	lastFailed bool // the most recent completed enumeration reported an error to the builder
	timedOut   bool

	// bookkeeping for the non-triviality rule
	activeSeen        bool
	putAfterActive    bool
	negWhileActive    bool
	failedBuild       bool
	readAfterFail     bool
	opsDuringHold     int
	keyPhase          map[string]int // 1 read, 2 read+mutated, 3 read+mutated+read
	cacheInvalidation bool
	writeFaults       int
}

func (s *seqRun) cidOf(r Ref) cid.Cid {
	f := s.forms[mod(r.B, len(s.forms))]
	return f[mod(r.F, len(f))]
}

func mod(a, n int) int {
	a %= n
	if a < 0 {
		a += n
	}
	return a
}

func (s *seqRun) blockOf(r Ref) blocks.Block {
	b, err := blocks.NewBlockWithCid(s.c.Pool[mod(r.B, len(s.forms))].Data, s.cidOf(r))
	if err != nil {
		panic(err)
	}
	return b
}

func (s *seqRun) inlined(c cid.Cid) (bool, []byte) {
	if !s.c.IDStore {
		return false, nil
	}
	return kit.IsIdentity(c)
}

func (s *seqRun) lookup(c cid.Cid) ([]byte, bool) {
	if ok, d := s.inlined(c); ok {
		return d, true
	}
	b, ok := s.store[string(c.Hash())]
	return b, ok
}

func (s *seqRun) noteRead(c cid.Cid, present bool) {
	if s.st != nil && s.st.BloomActive() {
		s.activeSeen = true
		if !present {
			s.negWhileActive = true
		}
	}
	if s.failedBuild {
		s.readAfterFail = true
	}
	k := string(c.Hash())
	switch s.keyPhase[k] {
	case 0:
		s.keyPhase[k] = 1
	case 2:
		s.keyPhase[k] = 3
		if s.c.TQSize > 0 {
			s.cacheInvalidation = true
		}
	}
}

func (s *seqRun) noteWrite(c cid.Cid) {
	if s.st != nil && s.st.BloomActive() {
		s.activeSeen = true
	}
	k := string(c.Hash())
	if s.keyPhase[k] == 1 {
		s.keyPhase[k] = 2
	}
}

func notFound(err error) bool { return err != nil && ipld.IsNotFound(err) }

// read checks one accessor on one CID against the model.
func (s *seqRun) read(kind string, c cid.Cid, what string) error {
	want, present := s.lookup(c)
	s.noteRead(c, present)
	switch kind {
	case "has":
		has, err := s.bs.Has(s.ctx, c)
		if err != nil {
			return fmt.Errorf("%s: Has(%s): unexpected error %v", what, c, err)
		}
		if has != present {
			return fmt.Errorf("%s: Has(%s) = %v, the uncached store has present=%v", what, c, has, present)
		}
	case "getsize":
		sz, err := s.bs.GetSize(s.ctx, c)
		if present {
			if err != nil {
				return fmt.Errorf("%s: GetSize(%s) of a present block: %v", what, c, err)
			}
			if sz != len(want) {
				return fmt.Errorf("%s: GetSize(%s) = %d, stored block has %d bytes", what, c, sz, len(want))
			}
		} else if !notFound(err) {
			return fmt.Errorf("%s: GetSize(%s) of an absent block: got (%d, %v), want not-found", what, c, sz, err)
		}
	case "get":
		blk, err := s.bs.Get(s.ctx, c)
		if present {
			if err != nil {
				return fmt.Errorf("%s: Get(%s) of a present block: %v", what, c, err)
			}
			if !bytes.Equal(blk.RawData(), want) {
				return fmt.Errorf("%s: Get(%s) returned %x, stored %x", what, c, blk.RawData(), want)
			}
		} else if !notFound(err) {
			return fmt.Errorf("%s: Get(%s) of an absent block: got err=%v, want not-found", what, c, err)
		}
	case "view":
		v, ok := s.bs.(bstore.Viewer)
		if !ok {
			return s.read("get", c, what)
		}
		called := 0
		var got []byte
		err := v.View(s.ctx, c, func(b []byte) error {
			called++
			got = append([]byte{}, b...)
			return nil
		})
		if present {
			if err != nil {
				return fmt.Errorf("%s: View(%s) of a present block: %v", what, c, err)
			}
			if called != 1 || !bytes.Equal(got, want) {
				return fmt.Errorf("%s: View(%s) called back %d times with %x, stored %x", what, c, called, got, want)
			}
		} else if called != 0 || !notFound(err) {
			return fmt.Errorf("%s: View(%s) of an absent block: callback calls=%d err=%v, want not-found", what, c, called, err)
		}
	}
	return nil
}

var sweepOrder = []string{"has", "getsize", "get", "view"}

func (s *seqRun) sweep(what string, allForms bool) error {
	for i, fs := range s.forms {
		for j, c := range fs {
			if !allForms && j != i%len(fs) {
				continue
			}
			for _, k := range sweepOrder {
				if err := s.read(k, c, what+" sweep "+k); err != nil {
					return err
				}
			}
		}
	}
	return nil
}

func (s *seqRun) allKeys(what string) error {
	ch, err := s.bs.AllKeysChan(s.ctx)
	if err != nil {
		return fmt.Errorf("%s: AllKeysChan: %v", what, err)
	}
	got := map[string]bool{}
	for c := range ch {
		got[string(c.Hash())] = true
	}
	for k := range got {
		if _, ok := s.store[k]; !ok {
			return fmt.Errorf("%s: AllKeysChan enumerated multihash %x which the uncached store does not hold", what, k)
		}
	}
	for k := range s.store {
		if !got[k] {
			return fmt.Errorf("%s: AllKeysChan did not enumerate stored multihash %x", what, k)
		}
	}
	return nil
}

// checkRaw: the layers wrote through exactly what the uncached store would hold.
func (s *seqRun) checkRaw(what string) error {
	res, err := s.fds.inner.Query(s.ctx, dsq.Query{})
	if err != nil {
		return fmt.Errorf("%s: raw query: %v", what, err)
	}
	ents, err := res.Rest()
	if err != nil {
		return fmt.Errorf("%s: raw query: %v", what, err)
	}
	want := map[string][]byte{}
	for k, v := range s.store {
		key := "/" + base32.RawStdEncoding.EncodeToString([]byte(k))
		if !s.c.NoPrefix {
			key = "/blocks" + key
		}
		want[key] = v
	}
	for _, e := range ents {
		w, ok := want[e.Key]
		if !ok {
			return fmt.Errorf("%s: backing datastore holds %q, the uncached store would not", what, e.Key)
		}
		if !bytes.Equal(w, e.Value) {
			return fmt.Errorf("%s: backing datastore value under %q is %x, want %x", what, e.Key, e.Value, w)
		}
	}
	if len(ents) != len(want) {
		return fmt.Errorf("%s: backing datastore has %d keys, the uncached store would have %d", what, len(ents), len(want))
	}
	return nil
}

// mutate runs a Put/PutMany/Delete, with the optional atomic write fault.
func (s *seqRun) mutate(op SOp, what string) error {
	if op.FailWrite {
		s.fds.armWrite()
	}
	var err error
	var apply func()
	switch op.Kind {
	case "put":
		b := s.blockOf(op.R)
		s.noteWrite(b.Cid())
		err = s.bs.Put(s.ctx, b)
		apply = func() {
			if ok, _ := s.inlined(b.Cid()); !ok {
				s.store[string(b.Cid().Hash())] = b.RawData()
			}
		}
	case "putmany":
		var bl []blocks.Block
		for _, r := range op.Batch {
			b := s.blockOf(r)
			s.noteWrite(b.Cid())
			bl = append(bl, b)
		}
		err = s.bs.PutMany(s.ctx, bl)
		apply = func() {
			for _, b := range bl {
				if ok, _ := s.inlined(b.Cid()); !ok {
					s.store[string(b.Cid().Hash())] = b.RawData()
				}
			}
		}
	case "delete":
		c := s.cidOf(op.R)
		s.noteWrite(c)
		err = s.bs.DeleteBlock(s.ctx, c)
		apply = func() {
			if ok, _ := s.inlined(c); !ok {
				delete(s.store, string(c.Hash()))
			}
		}
	}
	fired := false
	if op.FailWrite {
		fired = s.fds.disarmWrite()
	}
	if fired {
		s.writeFaults++
		if err == nil {
			return fmt.Errorf("%s: the backing datastore write failed but the cached store reported success", what)
		}
		return nil // nothing was written; the model is unchanged
	}
	if err != nil {
		return fmt.Errorf("%s: unexpected error %v", what, err)
	}
	apply()
	if s.activeSeen && op.Kind != "delete" {
		s.putAfterActive = true
	}
	return nil
}

// joinInit releases the initial enumeration and waits for the initial build to end.
func (s *seqRun) joinInit(what string) error {
	if s.st == nil || s.initJoined {
		return nil
	}
	s.initJoined = true
	s.initPlan.Release()
	wctx, cancel := context.WithTimeout(context.Background(), safety)
	defer cancel()
	err := s.st.Wait(wctx)
	if wctx.Err() != nil {
		s.timedOut = true
		return nil
	}
	return s.afterBuild(what+" (initial build)", s.initPlan, err)
}

// afterBuild applies the enumeration clauses to a finished build.
func (s *seqRun) afterBuild(what string, p *queryPlan, err error) error {
	active := s.st.BloomActive()
	if err != nil && active {
		return fmt.Errorf("%s reported error %q but BloomActive() is true", what, err)
	}
	if p.kind == "error" && p.hasFired() {
		s.failedBuild = true
		if err == nil {
			return fmt.Errorf("%s: the key enumeration failed at position %d of %d but the build reported success", what, p.pos, p.n)
		}
		if active {
			return fmt.Errorf("%s: the key enumeration failed at position %d of %d but BloomActive() is true", what, p.pos, p.n)
		}
	}
	s.lastFailed = err != nil
	if active {
		s.activeSeen = true
	}
	return nil
}

func waitCh(ch <-chan struct{}) bool {
	select {
	case <-ch:
		return true
	case <-time.After(safety):
		return false
	}
}

func (s *seqRun) rebuild(op SOp, what string) error {
	if err := s.joinInit(what); err != nil || s.timedOut {
		return err
	}
	f := Fault{Hold: -1}
	if op.Plan != nil {
		f = *op.Plan
	}
	p := newPlan(f.Kind, f.Pos, f.Hold)
	rctx, cancel := context.WithCancel(context.Background())
	defer cancel()
	p.cancel = cancel
	s.fds.arm(p)
	defer s.fds.disarm(p)
	defer p.Release()
	done := make(chan error, 1)
	go func() { done <- s.st.Rebuild(rctx) }()
	join := func() (error, bool) {
		select {
		case err := <-done:
			return err, true
		case <-time.After(safety):
			s.timedOut = true
			return nil, false
		}
	}
	var rerr error
	joined := false
	select {
	case <-p.consumed:
	case rerr = <-done:
		joined = true
	case <-time.After(safety):
		s.timedOut = true
		return nil
	}
	if !joined {
		if !waitCh(p.settled) {
			s.timedOut = true
			return nil
		}
		if p.isHeld() {
			// the enumeration is incomplete: the filter must not be trusted now
			if s.st.BloomActive() {
				return fmt.Errorf("%s: BloomActive() is true while the rebuild enumeration is held at position %d of %d", what, f.Hold, p.n)
			}
			for i, in := range op.During {
				s.opsDuringHold++
				if err := s.exec(in, fmt.Sprintf("%s, held at %d/%d, inner op %d %s", what, f.Hold, p.n, i, in.Kind), true); err != nil {
					return err
				}
				if s.st.BloomActive() {
					return fmt.Errorf("%s: BloomActive() became true while the rebuild enumeration is still held", what)
				}
			}
			p.Release()
			var ok bool
			if rerr, ok = join(); !ok {
				return nil
			}
			return s.afterBuild(what, p, rerr)
		}
		var ok bool
		if rerr, ok = join(); !ok {
			return nil
		}
	}
	if err := s.afterBuild(what, p, rerr); err != nil {
		return err
	}
	for i, in := range op.During {
		if err := s.exec(in, fmt.Sprintf("%s (finished), inner op %d %s", what, i, in.Kind), true); err != nil {
			return err
		}
	}
	return nil
}

func (s *seqRun) exec(op SOp, what string, inner bool) error {
	if s.st != nil && s.lastFailed && s.st.BloomActive() {
		return fmt.Errorf("before %s: BloomActive() is true although the last key enumeration failed", what)
	}
	switch op.Kind {
	case "put", "putmany", "delete":
		return s.mutate(op, what)
	case "has", "get", "getsize", "view":
		return s.read(op.Kind, s.cidOf(op.R), what)
	case "allkeys":
		return s.allKeys(what)
	case "sweep":
		return s.sweep(what, false)
	case "wait":
		if inner {
			return nil
		}
		return s.joinInit(what)
	case "rebuild":
		if inner || s.st == nil {
			return nil
		}
		return s.rebuild(op, what)
	}
	return nil
}

func runSeq(c SeqCase) kit.Result {
	if len(c.Pool) == 0 {
		return kit.Result{}
	}
	bloom := c.BloomSize > 0
	cfg := fmt.Sprintf("tq:%s bloom:%v", sizeClass(c.TQSize), bloom)
	if c.TQSize == 1 && bloom && kit.OpenFinding("C02", findingCtor) {
		// would kill the process in a background goroutine (see sub-check "ctor")
		return kit.Result{Err: errors.New("excluded: two-queue size 1 with a Bloom filter"), Known: findingCtor}
	}
	s := &seqRun{c: c, ctx: context.Background(), fds: newFaultDS(), store: map[string][]byte{}, keyPhase: map[string]int{}}
	for _, p := range c.Pool {
		s.forms = append(s.forms, p.Forms())
	}
	opts := []bstore.Option{bstore.WriteThrough(c.WriteThrough)}
	if c.NoPrefix {
		opts = append(opts, bstore.NoPrefix())
	}
	plain := bstore.NewBlockstore(s.fds, opts...)
	for _, r := range c.Preload {
		b := s.blockOf(r)
		if ok, _ := s.inlined(b.Cid()); ok {
			continue
		}
		if err := plain.Put(s.ctx, b); err != nil {
			return kit.Fail("preload: %v", err)
		}
		s.store[string(b.Cid().Hash())] = b.RawData()
	}

	cctx, ccancel := context.WithCancel(context.Background())
	defer ccancel()
	if bloom {
		s.initPlan = newPlan(c.Init.Kind, c.Init.Pos, c.Init.Hold)
		s.initPlan.cancel = ccancel
		s.fds.arm(s.initPlan)
		defer s.initPlan.Release()
	}
	cbs, err := bstore.CachedBlockstore(cctx, newBacking(plain, c.BackingViewer),
		bstore.CacheOpts{HasTwoQueueCacheSize: c.TQSize, HasBloomFilterSize: c.BloomSize, HasBloomFilterHashes: c.BloomHashes})
	if err != nil {
		if bloom {
			s.fds.disarm(s.initPlan)
		}
		if c.TQSize == 1 {
			// the two-queue cache cannot be built with one entry: a clean error is acceptable
			return kit.Result{Classes: []string{cfg, "ctor-clean-error"}}
		}
		return kit.Fail("CachedBlockstore(tq=%d, bloom=%d/%d) rejected in-range options: %v", c.TQSize, c.BloomSize, c.BloomHashes, err)
	}
	if cbs == nil {
		return kit.Fail("CachedBlockstore returned nil without an error")
	}
	if bloom {
		st, ok := cbs.(bstore.BloomCacheStatus)
		if !ok {
			return kit.Fail("CachedBlockstore with a Bloom filter does not implement BloomCacheStatus")
		}
		s.st = st
		// the initial build runs in the background: wait until its enumeration has started
		// and is held (or over), so that the following ops meet a defined build state
		if !waitCh(s.initPlan.consumed) || !waitCh(s.initPlan.settled) {
			return kit.Result{Classes: []string{cfg, "harness-timeout"}}
		}
		if s.initPlan.isHeld() && st.BloomActive() {
			return kit.Fail("BloomActive() is true while the initial enumeration is held at position %d of %d", c.Init.Hold, s.initPlan.n)
		}
	}
	s.bs = cbs
	if c.IDStore {
		s.bs = bstore.NewIdStore(cbs)
	}

	for i, op := range c.Ops {
		heldBefore := s.st != nil && !s.initJoined && s.initPlan.isHeld()
		if err := s.exec(op, fmt.Sprintf("op %d %s", i, op.Kind), false); err != nil {
			return kit.Result{Err: err}
		}
		if s.timedOut {
			return kit.Result{Classes: []string{cfg, "harness-timeout"}}
		}
		if heldBefore && !s.initJoined {
			s.opsDuringHold++
			if s.st.BloomActive() {
				return kit.Fail("BloomActive() is true after op %d while the initial enumeration is still held", i)
			}
		}
	}
	if err := s.joinInit("end"); err != nil {
		return kit.Result{Err: err}
	}
	if s.timedOut {
		return kit.Result{Classes: []string{cfg, "harness-timeout"}}
	}
	if err := s.sweep("final", true); err != nil {
		return kit.Result{Err: err}
	}
	if err := s.allKeys("final"); err != nil {
		return kit.Result{Err: err}
	}
	if err := s.checkRaw("final"); err != nil {
		return kit.Result{Err: err}
	}

	cls := []string{cfg}
	if c.IDStore {
		cls = append(cls, "idstore")
	}
	if c.BackingViewer {
		cls = append(cls, "backing-viewer")
	}
	ntBloom := s.negWhileActive && s.putAfterActive
	ntFail := s.failedBuild && s.readAfterFail
	if ntBloom {
		cls = append(cls, "bloom-negative-possible+put-after-activation")
	}
	if ntFail {
		cls = append(cls, "failed-enumeration-then-reads")
	}
	if s.cacheInvalidation {
		cls = append(cls, "tq-entry-read-mutated-read")
	}
	if s.opsDuringHold > 0 {
		cls = append(cls, "ops-while-enumeration-held")
	}
	if s.writeFaults > 0 {
		cls = append(cls, "backing-write-failed")
	}
	if s.st != nil && s.st.BloomActive() {
		cls = append(cls, "bloom-active-at-end")
	}
	return kit.Result{NonTrivial: ntBloom || ntFail || s.cacheInvalidation, Classes: cls}
}

func sizeClass(n int) string {
	switch {
	case n == 0:
		return "none"
	case n == 1:
		return "1"
	case n <= 6:
		return "2-6"
	default:
		return "7-64"
	}
}

var seqSpec = kit.Spec[SeqCase]{
	Prop: "C02", Name: "seq",
	Rule:  "stack MapDatastore -> blockstore -> [two-queue cache 2..64] -> [Bloom 1..4096 bytes, 1..7 hashes] -> [idstore]; op list (<=40, thorough <=80) over a pool of 4-10 honest blocks in all CID alias forms, some preloaded: Put/PutMany/Delete/Has/Get/GetSize/View/AllKeysChan/full sweep/Wait/Rebuild; the backing Query of the initial build and of every Rebuild is planned: complete, error result at position i, context cancelled at position i, and optionally held at position j while further ops run (BloomActive must be false while held); a twelfth of the writes fail atomically in the datastore. Every answer is compared with a map model (= uncached store); final sweep of all CIDs and raw datastore comparison. non-trivial = (an absent key was read while the filter was active and a Put followed activation) or (an enumeration failed and reads followed) or (with a two-queue cache: a key was read, then mutated, then read again)",
	Quick: 2500, Thorough: 12000,
	Gen: genSeq, Run: runSeq, Journal: true,
}

func TestPropSeq(t *testing.T) { kit.All(t, seqSpec) }
