package c02

// Fakes under the cache layers: a datastore whose key enumeration can be held, failed or
// cancelled at a chosen position and whose writes can fail atomically, and a pass-through
// blockstore wrapper that injects generated delays (concurrent check) and optionally
// offers View.

import (
	"context"
	"errors"
	"runtime"
	"sort"
	"sync"
	"time"

	bstore "github.com/ipfs/boxo/blockstore"
	blocks "github.com/ipfs/go-block-format"
	cid "github.com/ipfs/go-cid"
	ds "github.com/ipfs/go-datastore"
	dsq "github.com/ipfs/go-datastore/query"
	dssync "github.com/ipfs/go-datastore/sync"
)

var (
	errEnum  = errors.New("injected enumeration error")
	errWrite = errors.New("injected write error")
)

// queryPlan controls one Query (the next one after arm).
type queryPlan struct {
	kind   string // "" | "error" | "cancel"
	pos    int    // the fault happens before entry pos is delivered (pos == n: after the last entry)
	hold   int    // the iterator blocks before entry hold (clamped to n) until released; <0: never
	cancel context.CancelFunc

	consumed chan struct{} // closed when a Query took the plan
	settled  chan struct{} // closed when the iterator is held, finished or closed
	release  chan struct{} // closed by the harness

	mu       sync.Mutex
	n        int
	held     bool
	fired    bool
	complete bool
	once     sync.Once
	relOnce  sync.Once
}

func newPlan(kind string, pos, hold int) *queryPlan {
	return &queryPlan{kind: kind, pos: pos, hold: hold,
		consumed: make(chan struct{}), settled: make(chan struct{}), release: make(chan struct{})}
}

func (p *queryPlan) settle()  { p.once.Do(func() { close(p.settled) }) }
func (p *queryPlan) Release() { p.relOnce.Do(func() { close(p.release) }) }
func (p *queryPlan) isHeld() bool {
	p.mu.Lock()
	defer p.mu.Unlock()
	return p.held
}
func (p *queryPlan) hasFired() bool {
	p.mu.Lock()
	defer p.mu.Unlock()
	return p.fired
}
func (p *queryPlan) isComplete() bool {
	p.mu.Lock()
	defer p.mu.Unlock()
	return p.complete
}

type faultDS struct {
	inner ds.Batching

	mu         sync.Mutex
	plan       *queryPlan
	failWrites bool
	wfired     bool
}

func newFaultDS() *faultDS {
	return &faultDS{inner: dssync.MutexWrap(ds.NewMapDatastore())}
}

func (f *faultDS) arm(p *queryPlan) {
	f.mu.Lock()
	f.plan = p
	f.mu.Unlock()
}

// disarm removes p if no Query consumed it.
func (f *faultDS) disarm(p *queryPlan) {
	f.mu.Lock()
	if f.plan == p {
		f.plan = nil
	}
	f.mu.Unlock()
}

func (f *faultDS) armWrite() {
	f.mu.Lock()
	f.failWrites, f.wfired = true, false
	f.mu.Unlock()
}

func (f *faultDS) disarmWrite() (fired bool) {
	f.mu.Lock()
	fired = f.wfired
	f.failWrites, f.wfired = false, false
	f.mu.Unlock()
	return fired
}

func (f *faultDS) writeFails() bool {
	f.mu.Lock()
	defer f.mu.Unlock()
	if f.failWrites {
		f.wfired = true
		return true
	}
	return false
}

func (f *faultDS) Get(ctx context.Context, k ds.Key) ([]byte, error) { return f.inner.Get(ctx, k) }
func (f *faultDS) Has(ctx context.Context, k ds.Key) (bool, error)   { return f.inner.Has(ctx, k) }
func (f *faultDS) GetSize(ctx context.Context, k ds.Key) (int, error) {
	return f.inner.GetSize(ctx, k)
}
func (f *faultDS) Sync(ctx context.Context, k ds.Key) error { return f.inner.Sync(ctx, k) }
func (f *faultDS) Close() error                             { return nil }

func (f *faultDS) Put(ctx context.Context, k ds.Key, v []byte) error {
	if f.writeFails() {
		return errWrite
	}
	return f.inner.Put(ctx, k, v)
}

func (f *faultDS) Delete(ctx context.Context, k ds.Key) error {
	if f.writeFails() {
		return errWrite
	}
	return f.inner.Delete(ctx, k)
}

type fbatchOp struct {
	k   ds.Key
	v   []byte
	del bool
}

type fbatch struct {
	f   *faultDS
	ops []fbatchOp
}

func (f *faultDS) Batch(ctx context.Context) (ds.Batch, error) { return &fbatch{f: f}, nil }

func (b *fbatch) Put(ctx context.Context, k ds.Key, v []byte) error {
	b.ops = append(b.ops, fbatchOp{k: k, v: v})
	return nil
}

func (b *fbatch) Delete(ctx context.Context, k ds.Key) error {
	b.ops = append(b.ops, fbatchOp{k: k, del: true})
	return nil
}

// Commit either fails as a whole (nothing applied) or applies every operation in order.
func (b *fbatch) Commit(ctx context.Context) error {
	if b.f.writeFails() {
		return errWrite
	}
	for _, o := range b.ops {
		var err error
		if o.del {
			err = b.f.inner.Delete(ctx, o.k)
		} else {
			err = b.f.inner.Put(ctx, o.k, o.v)
		}
		if err != nil {
			return err
		}
	}
	return nil
}

func (f *faultDS) Query(ctx context.Context, q dsq.Query) (dsq.Results, error) {
	f.mu.Lock()
	p := f.plan
	f.plan = nil
	f.mu.Unlock()
	if p == nil {
		return f.inner.Query(ctx, q)
	}
	res, err := f.inner.Query(ctx, q)
	if err != nil {
		close(p.consumed)
		p.settle()
		return nil, err
	}
	ents, err := res.Rest() // point-in-time snapshot, like the in-memory and LSM datastores
	if err != nil {
		close(p.consumed)
		p.settle()
		return nil, err
	}
	sort.Slice(ents, func(i, j int) bool { return ents[i].Key < ents[j].Key })
	p.mu.Lock()
	p.n = len(ents)
	p.mu.Unlock()
	hold := p.hold
	if hold > len(ents) {
		hold = len(ents)
	}
	close(p.consumed)
	i := 0
	stopped := false
	heldOnce := false
	next := func() (dsq.Result, bool) {
		if stopped {
			return dsq.Result{}, false
		}
		if i == hold && !heldOnce {
			heldOnce = true
			p.mu.Lock()
			p.held = true
			p.mu.Unlock()
			p.settle()
			<-p.release
			p.mu.Lock()
			p.held = false
			p.mu.Unlock()
		}
		if i == p.pos && p.kind != "" {
			p.mu.Lock()
			already := p.fired
			p.fired = true
			p.mu.Unlock()
			if !already {
				switch p.kind {
				case "error":
					stopped = true
					p.settle()
					return dsq.Result{Error: errEnum}, true
				case "cancel":
					if p.cancel != nil {
						p.cancel()
					}
				}
			}
		}
		if i >= len(ents) {
			stopped = true
			p.mu.Lock()
			p.complete = true
			p.mu.Unlock()
			p.settle()
			return dsq.Result{}, false
		}
		e := ents[i]
		i++
		return dsq.Result{Entry: e}, true
	}
	return dsq.ResultsFromIterator(q, dsq.Iterator{Next: next, Close: func() error { p.settle(); return nil }}), nil
}

// ---------------------------------------------------------------------------
// pass-through blockstore between the plain blockstore and the caches

type delayKey struct{}

type delay struct{ pre, post uint8 }

func pause(code uint8) {
	switch {
	case code == 0:
	case code <= 3:
		for i := uint8(0); i < code; i++ {
			runtime.Gosched()
		}
	case code == 4:
		time.Sleep(20 * time.Microsecond)
	case code == 5:
		time.Sleep(100 * time.Microsecond)
	default:
		time.Sleep(400 * time.Microsecond)
	}
}

func pre(ctx context.Context) *delay {
	d, _ := ctx.Value(delayKey{}).(*delay)
	if d != nil {
		pause(d.pre)
	}
	return d
}

func (d *delay) after() {
	if d != nil {
		pause(d.post)
	}
}

type backing struct {
	in bstore.Blockstore
}

var (
	_ bstore.Blockstore           = (*backing)(nil)
	_ bstore.AllKeysChanWithErrer = (*backing)(nil)
)

func (b *backing) DeleteBlock(ctx context.Context, c cid.Cid) error {
	d := pre(ctx)
	defer d.after()
	return b.in.DeleteBlock(ctx, c)
}

func (b *backing) Has(ctx context.Context, c cid.Cid) (bool, error) {
	d := pre(ctx)
	defer d.after()
	return b.in.Has(ctx, c)
}

func (b *backing) Get(ctx context.Context, c cid.Cid) (blocks.Block, error) {
	d := pre(ctx)
	defer d.after()
	return b.in.Get(ctx, c)
}

func (b *backing) GetSize(ctx context.Context, c cid.Cid) (int, error) {
	d := pre(ctx)
	defer d.after()
	return b.in.GetSize(ctx, c)
}

func (b *backing) Put(ctx context.Context, blk blocks.Block) error {
	d := pre(ctx)
	defer d.after()
	return b.in.Put(ctx, blk)
}

func (b *backing) PutMany(ctx context.Context, blks []blocks.Block) error {
	d := pre(ctx)
	defer d.after()
	return b.in.PutMany(ctx, blks)
}

func (b *backing) AllKeysChan(ctx context.Context) (<-chan cid.Cid, error) {
	return b.in.AllKeysChan(ctx)
}

func (b *backing) AllKeysChanWithErr(ctx context.Context) (<-chan cid.Cid, func() error, error) {
	return b.in.(bstore.AllKeysChanWithErrer).AllKeysChanWithErr(ctx)
}

// backingV additionally implements Viewer (as badger/pebble-backed blockstores do).
type backingV struct{ *backing }

var _ bstore.Viewer = backingV{}

func (b backingV) View(ctx context.Context, c cid.Cid, cb func([]byte) error) error {
	d := pre(ctx)
	defer d.after()
	blk, err := b.in.Get(ctx, c)
	if err != nil {
		return err
	}
	return cb(blk.RawData())
}

func newBacking(in bstore.Blockstore, viewer bool) bstore.Blockstore {
	b := &backing{in: in}
	if viewer {
		return backingV{b}
	}
	return b
}

// safety is the upper bound for waits that the harness expects to end at once; hitting it
// never produces a verdict.
const safety = 60 * time.Second
