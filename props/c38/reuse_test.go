package c38

// Sub-check "reuse": ONE tar.Extractor value is used for a sequence of extractions, its Path
// being re-assigned between the calls (Extractor is a plain struct with an exported Path and
// no constructor; Extract re-initialises its per-call state, so a caller may keep the value).
// Every single extraction is an "extraction of a tar archive into a target path" in the sense
// of the property, so the same snapshot clause holds for each step: everything under the
// sandbox except the target of THIS step - in particular the targets of the earlier steps - is
// unchanged, whether the step fails or not. State that an aborted (or finished) extraction
// leaves behind in the Extractor must never be applied while extracting somewhere else.
//
// SAFETY: all targets are T/target, T/target2, T/target3 inside the private sandbox; the ".."
// budget of prop_test.go is applied to the SUM over all archives of a case.

import (
	"archive/tar"
	"fmt"
	"os"
	"path/filepath"
	"strings"
	"testing"

	boxotar "github.com/ipfs/boxo/tar"
	"pgregory.net/rapid"
	"verif/kit"
)

type Step struct {
	Slot int  `json:"slot"` // 0,1,2 = T/target, T/target2, T/target3
	Arch Case `json:"arch"` // target kind / pre-population only used at the first use of a slot
	// CutPermille > 0: the archive bytes are truncated to that share of their length
	CutPermille int `json:"cut_permille,omitempty"`
}

type ReuseCase struct {
	Steps []Step `json:"steps"`
}

var slotNames = []string{"target", "target2", "target3"}

// ---------------------------------------------------------------------------
// generator

func genFormat(t *rapid.T) string {
	return rapid.SampledFrom([]string{"auto", "auto", "pax", "gnu"}).Draw(t, "format")
}

// genDirs: root directory plus nd nested directories, mostly with mode/mtime (these are
// the entries whose metadata the extractor defers), some files in between.
func genDirs(t *rapid.T, c *Case, nd int, rootMeta bool) (dirs []string) {
	root := Entry{Name: "root", Type: "dir"}
	if rootMeta {
		genMeta(t, &root)
	}
	c.Entries = append(c.Entries, root)
	dirs = []string{"root"}
	for i := 0; i < nd; i++ {
		p := dirs[len(dirs)-1-rapid.IntRange(0, len(dirs)-1).Draw(t, "dparent")]
		e := Entry{Name: p + "/" + rapid.SampledFrom([]string{"d", "e", "dd", "eee"}).Draw(t, "dname"), Type: "dir"}
		genMeta(t, &e)
		c.Entries = append(c.Entries, e)
		if strings.Count(e.Name, "/") < 4 {
			dirs = append(dirs, e.Name)
		}
		if rapid.IntRange(0, 2).Draw(t, "dfile") == 0 {
			f := Entry{Name: e.Name + "/" + rapid.SampledFrom([]string{"f", "g"}).Draw(t, "fname"), Type: "file", Mode: genMode(t), Data: genData(t)}
			genTime(t, &f)
			c.Entries = append(c.Entries, f)
		}
	}
	return dirs
}

// genAbortArch: directories with metadata first, then something the extractor refuses (or a
// truncated stream), so that Extract returns an error part-way.
func genAbortArch(t *rapid.T) (c Case, cut int) {
	c.Format = genFormat(t)
	c.Target = rapid.SampledFrom([]string{"fresh", "fresh", "fresh", "dir"}).Draw(t, "target")
	dirs := genDirs(t, &c, rapid.IntRange(1, 4).Draw(t, "ndirs"), true)
	p := dirs[len(dirs)-1-rapid.IntRange(0, len(dirs)-1).Draw(t, "tparent")]
	file := func(name string) Entry { return Entry{Name: name, Type: "file", Mode: 0o644, Data: []byte("x:" + name)} }
	switch rapid.IntRange(0, 7).Draw(t, "tail") {
	case 0: // outside the archive root
		c.Entries = append(c.Entries, file(rapid.SampledFrom([]string{"rootx/f", "elsewhere/x", "other", "roo/f"}).Draw(t, "elsewhere")))
	case 1:
		e := file(rapid.SampledFrom(hostileNames).Draw(t, "hostile"))
		e.Type = rapid.SampledFrom([]string{"file", "dir", "symlink"}).Draw(t, "htype")
		if e.Type == "symlink" {
			e.Link = genLink(t, e.Name)
		}
		c.Entries = append(c.Entries, e)
	case 2: // through a symlink
		l := Entry{Name: p + "/l", Type: "symlink", Mode: 0o777}
		l.Link = genLink(t, l.Name)
		c.Entries = append(c.Entries, l, file(l.Name+"/f"))
	case 3: // a type the extractor does not know
		c.Entries = append(c.Entries, Entry{Name: p + "/h", Type: rapid.SampledFrom([]string{"fifo", "hardlink"}).Draw(t, "otype"), Link: "/outside/victim", Mode: 0o644})
	case 4: // through a regular file
		c.Entries = append(c.Entries, file(p+"/f"), file(p+"/f/x"))
	case 5: // truncated stream; the large file at the end makes the cut fall into its data mostly
		big := file(p + "/big")
		big.Data = kit.FillBytes(t, rapid.IntRange(2000, 6000).Draw(t, "bign"))
		c.Entries = append(c.Entries, big)
		cut = rapid.IntRange(400, 995).Draw(t, "cut")
	case 6: // the root again
		again := Entry{Name: "root", Type: "dir"}
		genMeta(t, &again)
		c.Entries = append(c.Entries, again)
	default: // directory below a regular file
		d := Entry{Name: p + "/f/d", Type: "dir"}
		genMeta(t, &d)
		c.Entries = append(c.Entries, file(p+"/f"), d)
	}
	if rapid.IntRange(0, 3).Draw(t, "more") == 0 {
		c.Entries = append(c.Entries, file("root/after"))
	}
	return c, cut
}

// genGoodArch: an ordinary archive that is expected to extract completely.
func genGoodArch(t *rapid.T) Case {
	c := Case{Format: genFormat(t)}
	c.Target = rapid.SampledFrom([]string{"fresh", "fresh", "fresh", "dir"}).Draw(t, "target")
	dirs := genDirs(t, &c, rapid.IntRange(0, 3).Draw(t, "ndirs"), rapid.Bool().Draw(t, "rootmeta"))
	n := rapid.IntRange(0, 3).Draw(t, "nextra")
	for i := 0; i < n; i++ {
		p := dirs[len(dirs)-1-rapid.IntRange(0, len(dirs)-1).Draw(t, "xparent")]
		switch rapid.IntRange(0, 2).Draw(t, "xtype") {
		case 0, 1:
			f := Entry{Name: p + "/" + rapid.SampledFrom([]string{"f", "g"}).Draw(t, "xf"), Type: "file", Mode: genMode(t), Data: genData(t)}
			genTime(t, &f)
			c.Entries = append(c.Entries, f)
		default:
			l := Entry{Name: p + "/l", Type: "symlink", Mode: 0o777, Link: rapid.SampledFrom([]string{"f", "g", "d", "../f", "missing", "."}).Draw(t, "xl")}
			genTime(t, &l)
			c.Entries = append(c.Entries, l)
		}
	}
	return c
}

func genReuse(t *rapid.T) ReuseCase {
	n := rapid.SampledFrom([]int{2, 2, 2, 3, 3, 4}).Draw(t, "nsteps")
	var rc ReuseCase
	slot := 0
	for i := 0; i < n; i++ {
		st := Step{}
		if i > 0 {
			// mostly another target than the one before; sometimes the same again
			slot = (slot + 1 + rapid.SampledFrom([]int{0, 0, 0, 0, 1, 1, 2}).Draw(t, "slotstep")) % 3
		}
		st.Slot = slot
		kinds := []string{"good", "good", "good", "abort", "free"}
		if i == 0 {
			kinds = []string{"abort", "abort", "abort", "good", "free"}
		}
		switch rapid.SampledFrom(kinds).Draw(t, "kind") {
		case "abort":
			st.Arch, st.CutPermille = genAbortArch(t)
		case "good":
			st.Arch = genGoodArch(t)
		default:
			st.Arch = gen(t)
			if rapid.IntRange(0, 5).Draw(t, "freecut") == 0 {
				st.CutPermille = rapid.IntRange(100, 995).Draw(t, "cut")
			}
		}
		rc.Steps = append(rc.Steps, st)
	}
	return rc
}

// ---------------------------------------------------------------------------
// run

func validRootDir(hs []hdr) bool {
	if len(hs) == 0 || hs[0].Type != tar.TypeDir {
		return false
	}
	r := hs[0].Name
	return r != "" && r != "." && r != ".." && !strings.Contains(r, "/")
}

// hasDirMeta: some directory header (the root included) carries a mode or an mtime, i.e.
// the extractor has something to defer once it gets to that entry.
func hasDirMeta(hs []hdr) bool {
	for _, h := range hs {
		if h.Type == tar.TypeDir && (h.Mode != 0 || !h.ModTime.IsZero()) {
			return true
		}
	}
	return false
}

func runReuse(rc ReuseCase) kit.Result {
	if len(rc.Steps) == 0 {
		return kit.Result{Classes: []string{"empty"}}
	}
	for _, st := range rc.Steps {
		if st.Slot < 0 || st.Slot >= len(slotNames) || len(st.Arch.Entries) == 0 {
			return kit.Result{Classes: []string{"empty"}}
		}
	}
	sb := newSandbox()
	defer sb.cleanup()

	tars := make([][]byte, len(rc.Steps))
	heads := make([][]hdr, len(rc.Steps))
	ups := 0
	for i, st := range rc.Steps {
		b, _ := buildTar(st.Arch.Format, st.Arch.Entries, sb.resolveLink)
		if st.CutPermille > 0 && st.CutPermille < 1000 {
			b = b[:len(b)*st.CutPermille/1000]
		}
		tars[i] = b
		heads[i] = parseHeaders(b)
		if ok, why := safeArchive(heads[i], sb.T); !ok {
			return kit.Result{Classes: []string{"skipped-unsafe:" + why}}
		}
		for _, h := range heads[i] {
			ups += countUps(h.Name) + countUps(h.Link)
		}
	}
	if ups > upBudget {
		// links made by one step may be met by a later one: the bound covers the whole case
		return kit.Result{Classes: []string{"skipped-unsafe:too many .. components"}}
	}

	ex := &boxotar.Extractor{} // the ONE value all steps go through
	prepared := map[int]bool{}
	type done struct {
		slot     int
		leftMeta bool // a directory with metadata was (very probably) extracted
		aborted  bool
	}
	var hist []done
	nt := false
	seen := map[string]bool{}
	var cls []string
	add := func(c string) {
		if !seen[c] {
			seen[c] = true
			cls = append(cls, c)
		}
	}
	for i, st := range rc.Steps {
		sb.target = filepath.Join(sb.T, slotNames[st.Slot])
		if !prepared[st.Slot] {
			prepared[st.Slot] = true
			sb.prepareTarget(st.Arch)
		}
		res, err := extractAndCheckWith(sb, ex, st.Arch, tars[i])
		if res.Err != nil {
			var prev []string
			for _, d := range hist {
				s := slotNames[d.slot]
				if d.aborted {
					s += "(aborted)"
				}
				prev = append(prev, s)
			}
			res.Err = fmt.Errorf("step %d of %d, extracting into %s with an Extractor value already used for [%s]: %w",
				i+1, len(rc.Steps), slotNames[st.Slot], strings.Join(prev, " "), res.Err)
			return res
		}
		for _, c := range res.Classes {
			add(c)
		}
		if i > 0 {
			foreign, foreignAborted := false, false
			for _, d := range hist {
				if d.slot != st.Slot && d.leftMeta {
					foreign = true
					foreignAborted = foreignAborted || d.aborted
				}
			}
			switch {
			case !foreign:
				add("reuse:no-foreign-dir-metadata")
			case !validRootDir(heads[i]):
				add("reuse:foreign-metadata+this-stops-at-root")
			default:
				nt = true
				k := "reuse:after-ok"
				if foreignAborted {
					k = "reuse:after-aborted"
				}
				if err == nil {
					k += "+this-ok"
				} else {
					k += "+this-aborted"
				}
				add(k)
			}
			if st.Slot == rc.Steps[i-1].Slot {
				add("reuse:same-target-again")
			}
		}
		fi, serr := os.Lstat(sb.target)
		hist = append(hist, done{slot: st.Slot, aborted: err != nil,
			leftMeta: validRootDir(heads[i]) && hasDirMeta(heads[i]) && serr == nil && fi.IsDir()})
	}
	add(fmt.Sprintf("reuse:steps=%d", len(rc.Steps)))
	return kit.Result{NonTrivial: nt, Classes: cls}
}

var reuseSpec = kit.Spec[ReuseCase]{
	Prop: "C38", Name: "reuse",
	Rule: "one tar.Extractor value used for 2..4 extractions in a row, Path re-assigned to T/target, T/target2, T/target3 (mostly a different one than before) inside one sandbox; step archives: 'abort' = root + 1..4 nested directories with mode/mtime, then an entry the extractor refuses (outside the root, hostile name, through a symlink / a file, unknown type, root repeated) or a truncated stream; 'good' = ordinary well-formed tree with directory metadata; 'free' = an archive of the main generator (any target kind, hostile), sometimes truncated; first step mostly 'abort', later steps mostly 'good'. Per step the main oracle: lstat+content+ctime snapshot of everything under the sandbox except the target of this step (so the earlier targets are observed) unchanged, whether or not Extract fails. non-trivial = a step >= 2 with a valid root directory, run after a step into a different target that extracted a directory carrying mode/mtime",
	Quick: 500, Thorough: 1200,
	Gen: genReuse, Run: runReuse,
	Sample: func(rc ReuseCase) any {
		var out []any
		for _, st := range rc.Steps {
			m := spec.Sample(st.Arch).(map[string]any)
			m["slot"] = slotNames[st.Slot]
			if st.CutPermille > 0 {
				m["cut_permille"] = st.CutPermille
			}
			out = append(out, m)
		}
		return out
	},
}

func TestPropReuse(t *testing.T) { kit.All(t, reuseSpec) }
