// Package c38 checks property C38: extracting any tar archive with boxo's tar.Extractor
// touches nothing outside the target path.
//
// SAFETY. The process runs as root and the extractor under test (or a deliberately broken
// copy of it during sensitivity runs) may follow symlinks or ".." components. Therefore
//   - every case runs in a private sandbox S (os.MkdirTemp) whose working level T lies
//     padDepth directories below S; everything under S except T/target is observed;
//   - absolute symlink targets are always re-rooted at T (a link "/outside/x" in a case
//     means T/outside/x); raw archives with absolute link targets are not extracted;
//   - the total number of ".." components in all entry names and link targets of an
//     archive is bounded by upBudget < padDepth, so that no path resolution, even by a
//     broken extractor, can leave S.
package c38

import (
	"archive/tar"
	"bytes"
	"crypto/sha256"
	"flag"
	"fmt"
	"os"
	"path/filepath"
	"sort"
	"strings"
	"syscall"
	"testing"
	"time"

	"github.com/ipfs/boxo/files"
	boxotar "github.com/ipfs/boxo/tar"
	"pgregory.net/rapid"
	"verif/kit"
)

func TestMain(m *testing.M) {
	// an execution costs about a millisecond (sandbox + two snapshots); the default 60 s
	// of corpus minimisation per interesting input would eat the whole fuzz budget
	if f := flag.Lookup("test.fuzzminimizetime"); f != nil {
		f.Value.Set("10x")
	}
	removeStaleFuzzSandboxes()
	kit.Main(m)
}

const (
	padDepth = 12
	upBudget = 8
)

// ---------------------------------------------------------------------------
// case

type Entry struct {
	Name    string `json:"name"`
	Type    string `json:"type"` // dir | file | symlink | hardlink | fifo
	Link    string `json:"link,omitempty"`
	Mode    int64  `json:"mode"`
	HasTime bool   `json:"has_time,omitempty"`
	Sec     int64  `json:"sec,omitempty"`
	Nsec    int64  `json:"nsec,omitempty"`
	Data    []byte `json:"data,omitempty"`
}

// Pre is an object placed below the target before extraction.
type Pre struct {
	Path string `json:"path"` // relative to target, components from the archive name pool
	Kind string `json:"kind"` // dir | file | symlink
	Link string `json:"link,omitempty"`
}

type Case struct {
	// Target: fresh (does not exist) | dir (pre-populated directory) | symlink (target path is a
	// symlink to T/outside/dir) | dangling (symlink to a missing name in T/outside) | file
	Target  string  `json:"target"`
	Pre     []Pre   `json:"pre,omitempty"`
	Format  string  `json:"format"` // auto | pax | gnu
	Entries []Entry `json:"entries"`
}

// ---------------------------------------------------------------------------
// sandbox

type sandbox struct {
	S, T, target string
}

func must(err error) {
	if err != nil {
		panic("c38 harness: " + err.Error())
	}
}

var oldTime = time.Unix(981173106, 0) // 2001-02-03

// sandboxBase prefers a memory-backed filesystem (much faster than the disk; same
// semantics for everything the snapshot observes); "" = os.TempDir().
func sandboxBase() string {
	if fi, err := os.Stat("/dev/shm"); err == nil && fi.IsDir() {
		return "/dev/shm"
	}
	return ""
}

func newSandbox() *sandbox { return newSandboxNamed("c38-") }

func newSandboxNamed(prefix string) *sandbox {
	s, err := os.MkdirTemp(sandboxBase(), prefix)
	must(err)
	s, err = filepath.EvalSymlinks(s)
	must(err)
	t := s
	for i := 0; i < padDepth; i++ {
		t = filepath.Join(t, "p")
	}
	must(os.MkdirAll(t, 0o755))
	sb := &sandbox{S: s, T: t, target: filepath.Join(t, "target")}
	// decoys outside the target; names overlap with the archive name pool so that an
	// escaping write lands on an existing victim as well as on fresh names
	mkdir := func(rel string, mode os.FileMode) {
		p := filepath.Join(t, rel)
		must(os.Mkdir(p, 0o755))
		must(os.Chmod(p, mode))
	}
	mkfile := func(rel string, mode os.FileMode, data string) {
		p := filepath.Join(t, rel)
		must(os.WriteFile(p, []byte(data), 0o600))
		must(os.Chmod(p, mode))
	}
	mkdir("outside", 0o750)
	mkfile("outside/victim", 0o640, "victim-data")
	mkfile("outside/f", 0o600, "outside-f")
	mkdir("outside/dir", 0o710)
	mkfile("outside/dir/victim", 0o604, "dir-victim")
	mkfile("outside/dir/f", 0o640, "dir-f")
	mkdir("outside/dir/d", 0o700)
	mkfile("outside/dir/d/f", 0o600, "dir-d-f")
	mkdir("outside/d", 0o705)
	must(os.Symlink("victim", filepath.Join(t, "outside/link")))
	must(os.Symlink("dir", filepath.Join(t, "outside/dirlink")))
	mkfile("f", 0o640, "T-f")
	mkdir("d", 0o750)
	mkfile("d/f", 0o640, "T-d-f")
	mkfile("root", 0o640, "T-root")
	for _, rel := range []string{"outside/dir/d/f", "outside/dir/d", "outside/dir/f", "outside/dir/victim", "outside/dir", "outside/d",
		"outside/f", "outside/victim", "outside", "d/f", "d", "f", "root"} {
		must(os.Chtimes(filepath.Join(t, rel), oldTime, oldTime))
	}
	return sb
}

func (sb *sandbox) cleanup() {
	if os.RemoveAll(sb.S) != nil {
		// not root: make everything removable again whatever modes were set
		filepath.Walk(sb.S, func(p string, fi os.FileInfo, err error) error {
			if err == nil && fi.IsDir() {
				os.Chmod(p, 0o700)
			}
			return nil
		})
		os.RemoveAll(sb.S)
	}
}

// resolveLink maps a link target of a case to the one used in the sandbox: absolute
// targets are re-rooted at T, so they can never name a real system path.
func (sb *sandbox) resolveLink(l string) string {
	if strings.HasPrefix(l, "/") {
		return sb.T + l
	}
	return l
}

func (sb *sandbox) prepareTarget(c Case) {
	switch c.Target {
	case "fresh":
	case "file":
		must(os.WriteFile(sb.target, []byte("old target file"), 0o644))
	case "symlink":
		must(os.Symlink(filepath.Join(sb.T, "outside/dir"), sb.target))
	case "dangling":
		must(os.Symlink(filepath.Join(sb.T, "outside/missing"), sb.target))
	default: // dir
		must(os.Mkdir(sb.target, 0o755))
		for _, p := range c.Pre {
			if !safeRel(p.Path) {
				continue
			}
			full := filepath.Join(sb.target, p.Path)
			if !parentIsRealDir(sb.target, full) {
				continue
			}
			switch p.Kind {
			case "dir":
				os.Mkdir(full, 0o755)
			case "file":
				if _, err := os.Lstat(full); err != nil {
					os.WriteFile(full, []byte("old:"+p.Path), 0o644)
				}
			case "symlink":
				os.Symlink(sb.resolveLink(p.Link), full)
			}
		}
	}
}

// safeRel: a pre-population path must be a plain relative path without "." / ".." / "".
func safeRel(p string) bool {
	if p == "" {
		return false
	}
	for _, e := range strings.Split(p, "/") {
		if e == "" || e == "." || e == ".." || strings.ContainsRune(e, 0) {
			return false
		}
	}
	return true
}

// parentIsRealDir: all directories between root and the parent of full are real
// directories (the harness itself must not write through a symlink).
func parentIsRealDir(root, full string) bool {
	rel, err := filepath.Rel(root, filepath.Dir(full))
	if err != nil {
		return false
	}
	cur := root
	if rel != "." {
		for _, e := range strings.Split(rel, "/") {
			cur = filepath.Join(cur, e)
			fi, err := os.Lstat(cur)
			if err != nil || !fi.IsDir() {
				return false
			}
		}
	}
	return true
}

// ---------------------------------------------------------------------------
// snapshot

type obj struct {
	Mode   os.FileMode
	Size   int64
	Mtime  int64
	Ctime  int64
	Ino    uint64
	Uid    uint32
	Gid    uint32
	Nlink  uint64
	Sum    [32]byte
	Link   string
	IsFile bool
}

type snapshot map[string]obj

// snap records every object under S except T/target (which is not entered).
func (sb *sandbox) snap() snapshot {
	out := snapshot{}
	var walk func(p string)
	walk = func(p string) {
		if p == sb.target {
			return
		}
		fi, err := os.Lstat(p)
		if err != nil {
			panic("c38 harness: lstat " + p + ": " + err.Error())
		}
		st := fi.Sys().(*syscall.Stat_t)
		o := obj{Mode: fi.Mode(), Mtime: fi.ModTime().UnixNano(), Ctime: st.Ctim.Sec*1e9 + st.Ctim.Nsec, Ino: st.Ino,
			Uid: st.Uid, Gid: st.Gid, Nlink: uint64(st.Nlink)}
		switch {
		case fi.Mode()&os.ModeSymlink != 0:
			o.Link, _ = os.Readlink(p)
		case fi.Mode().IsRegular():
			o.IsFile = true
			o.Size = fi.Size()
			b, err := os.ReadFile(p)
			if err == nil {
				o.Sum = sha256.Sum256(b)
			}
		case fi.IsDir():
			ents, err := os.ReadDir(p)
			if err != nil {
				panic("c38 harness: readdir " + p + ": " + err.Error())
			}
			for _, e := range ents {
				walk(filepath.Join(p, e.Name()))
			}
		}
		if p == sb.T {
			// T is the parent directory of the target: creating, replacing or removing the
			// target object itself legitimately updates T's own timestamps and link count.
			o.Mtime, o.Ctime, o.Nlink = 0, 0, 0
		}
		out[p] = o
	}
	walk(sb.S)
	return out
}

type diff struct {
	Path   string
	What   []string // created | removed | mode | mtime | ctime | content | size | link | ino | owner | nlink
	Before obj
	After  obj
}

func compare(a, b snapshot) []diff {
	var ds []diff
	for p, x := range a {
		y, ok := b[p]
		if !ok {
			ds = append(ds, diff{Path: p, What: []string{"removed"}, Before: x})
			continue
		}
		var w []string
		if x.Mode != y.Mode {
			w = append(w, "mode")
		}
		if x.Mtime != y.Mtime {
			w = append(w, "mtime")
		}
		if x.Ino != y.Ino {
			w = append(w, "ino")
		}
		if x.Size != y.Size {
			w = append(w, "size")
		}
		if x.Sum != y.Sum {
			w = append(w, "content")
		}
		if x.Link != y.Link {
			w = append(w, "link")
		}
		if x.Uid != y.Uid || x.Gid != y.Gid {
			w = append(w, "owner")
		}
		if x.Nlink != y.Nlink {
			w = append(w, "nlink")
		}
		if x.Ctime != y.Ctime {
			w = append(w, "ctime")
		}
		if len(w) > 0 {
			ds = append(ds, diff{Path: p, What: w, Before: x, After: y})
		}
	}
	for p, y := range b {
		if _, ok := a[p]; !ok {
			ds = append(ds, diff{Path: p, What: []string{"created"}, After: y})
		}
	}
	sort.Slice(ds, func(i, j int) bool { return ds[i].Path < ds[j].Path })
	return ds
}

// ---------------------------------------------------------------------------
// archive construction and inspection

type hdr struct {
	Name, Link string
	Type       byte
	Mode       int64
	ModTime    time.Time
}

// parseHeaders lists the headers exactly as the extractor's archive/tar reader sees them.
func parseHeaders(b []byte) []hdr {
	var out []hdr
	tr := tar.NewReader(bytes.NewReader(b))
	for len(out) < 4096 {
		h, err := tr.Next()
		if err != nil || h == nil {
			break
		}
		out = append(out, hdr{Name: h.Name, Link: h.Linkname, Type: h.Typeflag, Mode: h.Mode, ModTime: h.ModTime})
	}
	return out
}

func countUps(s string) int {
	n := 0
	for _, e := range strings.Split(s, "/") {
		if e == ".." {
			n++
		}
	}
	return n
}

// safeArchive: see the SAFETY note at the top. abs reports an absolute link target that
// does not lie in the sandbox rooted at t.
func safeArchive(hs []hdr, t string) (ok bool, why string) {
	ups := 0
	for _, h := range hs {
		ups += countUps(h.Name) + countUps(h.Link)
		if strings.HasPrefix(h.Link, "/") && !(h.Link == t || strings.HasPrefix(h.Link, t+"/")) {
			return false, "absolute link target outside the sandbox"
		}
	}
	if ups > upBudget {
		return false, "too many .. components"
	}
	return true, ""
}

var typeFlags = map[string]byte{"dir": tar.TypeDir, "file": tar.TypeReg, "symlink": tar.TypeSymlink, "hardlink": tar.TypeLink, "fifo": tar.TypeFifo}

func putOctal(b []byte, v int64) {
	if v < 0 {
		v = 0
	}
	s := fmt.Sprintf("%0*o", len(b)-1, v)
	if len(s) > len(b)-1 {
		s = s[len(s)-(len(b)-1):]
	}
	copy(b, s)
}

// rawHeader is used for entries archive/tar's writer refuses (NUL in a name, ...): a
// hand-made USTAR block, so that the reader still gets to see something hostile.
func rawHeader(name, link string, typ byte, mode, size, mtime int64) []byte {
	b := make([]byte, 512)
	copy(b[0:100], name)
	putOctal(b[100:108], mode&0o7777777)
	putOctal(b[108:116], 0)
	putOctal(b[116:124], 0)
	putOctal(b[124:136], size)
	putOctal(b[136:148], mtime)
	b[156] = typ
	copy(b[157:257], link)
	copy(b[257:263], "ustar\x00")
	copy(b[263:265], "00")
	for i := 148; i < 156; i++ {
		b[i] = ' '
	}
	sum := 0
	for _, c := range b {
		sum += int(c)
	}
	copy(b[148:156], fmt.Sprintf("%06o\x00 ", sum))
	return b
}

// buildTar serialises the entries; link targets must already be sandbox-resolved.
func buildTar(format string, entries []Entry, link func(string) string) (out []byte, raws int) {
	var buf bytes.Buffer
	for _, e := range entries {
		tf, ok := typeFlags[e.Type]
		if !ok {
			tf = tar.TypeReg
		}
		h := &tar.Header{Name: e.Name, Typeflag: tf, Mode: e.Mode}
		if tf == tar.TypeSymlink || tf == tar.TypeLink {
			h.Linkname = link(e.Link)
		}
		data := e.Data
		if tf != tar.TypeReg {
			data = nil
		}
		h.Size = int64(len(data))
		if e.HasTime {
			h.ModTime = time.Unix(e.Sec, e.Nsec)
		}
		switch format {
		case "pax":
			h.Format = tar.FormatPAX
		case "gnu":
			h.Format = tar.FormatGNU
		}
		// every entry is written by its own writer and the end-of-archive marker removed:
		// a header the writer rejects then does not poison the rest of the stream
		var one bytes.Buffer
		tw := tar.NewWriter(&one)
		err := tw.WriteHeader(h)
		if err != nil && h.Format != tar.FormatUnknown {
			h.Format = tar.FormatUnknown
			one.Reset()
			tw = tar.NewWriter(&one)
			err = tw.WriteHeader(h)
		}
		if err == nil {
			_, err = tw.Write(data)
		}
		if err == nil {
			err = tw.Flush()
		}
		if err == nil {
			buf.Write(one.Bytes())
			continue
		}
		raws++
		buf.Write(rawHeader(e.Name, h.Linkname, tf, e.Mode, int64(len(data)), e.Sec))
		buf.Write(data)
		if pad := (512 - len(data)%512) % 512; pad > 0 {
			buf.Write(make([]byte, pad))
		}
	}
	buf.Write(make([]byte, 1024))
	return buf.Bytes(), raws
}

// ---------------------------------------------------------------------------
// oracle (shared by the generated check and the fuzz target)

// isF15 recognises exactly the known defect F15: a directory entry with a non-zero mode whose
// name is later re-used by a symlink entry; the deferred chmod of the directory then follows
// that symlink. Signature: the only change of the object is its permission bits (and hence
// ctime), the object is what such a symlink resolves to, and the new bits are the ones of
// the directory header.
func isF15(d diff, hs []hdr, sb *sandbox) bool {
	for _, w := range d.What {
		if w != "mode" && w != "ctime" {
			return false
		}
	}
	if len(hs) == 0 {
		return false
	}
	root := hs[0].Name
	for i := 1; i < len(hs); i++ {
		if hs[i].Type != tar.TypeDir || hs[i].Mode == 0 || !strings.HasPrefix(hs[i].Name, root+"/") {
			continue
		}
		want := files.UnixPermsToModePerms(uint32(hs[i].Mode))
		if want == 0 {
			continue
		}
		typeMask := os.ModeType
		if d.After.Mode&^typeMask != want {
			continue
		}
		loc := filepath.Join(sb.target, hs[i].Name[len(root)+1:])
		for j := i + 1; j < len(hs); j++ {
			if hs[j].Type != tar.TypeSymlink || hs[j].Name != hs[i].Name {
				continue
			}
			cand := hs[j].Link
			if !filepath.IsAbs(cand) {
				cand = filepath.Join(filepath.Dir(loc), cand)
			}
			if real, err := filepath.EvalSymlinks(cand); err == nil && real == d.Path {
				return true
			}
		}
	}
	return false
}

func errClass(err error) string {
	if err == nil {
		return "extract:ok"
	}
	s := err.Error()
	for _, k := range []string{"cannot traverse symlinks", "cannot traverse non-directory", "cannot extract to symlink", "multiple components",
		"more than one root", "root was not a directory", "invalid root", "path contains", "starts with '/'", "path is empty", "unrecognized tar header", "cannot be '..'",
		"cannot contain null", "empty tar file", "directory not empty", "not a directory", "no such file", "file exists", "invalid argument", "unexpected EOF", "invalid tar header"} {
		if strings.Contains(s, k) {
			return "extract:err:" + k
		}
	}
	return "extract:err:other"
}

// nonTrivial: the archive contains a symlink and a later entry whose path passes through or
// re-uses that name, or a directory with metadata later replaced by a symlink, or an entry
// whose path passes through / re-uses the name of a symlink that already exists below (or
// at) the target; and the first entry is an acceptable root so that extraction gets going.
func nonTrivial(hs []hdr, c Case) (bool, []string) {
	if len(hs) == 0 {
		return false, nil
	}
	root := hs[0].Name
	if strings.Contains(root, "/") || root == "" || root == "." || root == ".." {
		return false, []string{"root:invalid"}
	}
	var cls []string
	if hs[0].Type != tar.TypeDir {
		if len(hs) == 1 && (c.Target == "symlink" || c.Target == "dangling") {
			return true, []string{"nt:target-is-symlink", "root:single"}
		}
		return false, []string{"root:single"}
	}
	through := func(name, link string) bool { return name == link || strings.HasPrefix(name, link+"/") }
	nt := false
	for i, h := range hs {
		if h.Type == tar.TypeSymlink {
			for _, l := range hs[i+1:] {
				if through(l.Name, h.Name) {
					nt = true
					cls = append(cls, "nt:archive-symlink-then-through")
					break
				}
			}
			for _, p := range hs[:i] {
				if p.Type == tar.TypeDir && p.Name == h.Name && (p.Mode != 0 || !p.ModTime.IsZero()) {
					nt = true
					cls = append(cls, "nt:dir-meta-then-symlink")
					break
				}
			}
		}
	}
	if c.Target == "symlink" || c.Target == "dangling" {
		nt = true
		cls = append(cls, "nt:target-is-symlink")
	}
	if c.Target == "dir" {
	pre:
		for _, p := range c.Pre {
			if p.Kind != "symlink" {
				continue
			}
			for _, h := range hs[1:] {
				if through(h.Name, root+"/"+p.Path) {
					nt = true
					cls = append(cls, "nt:preexisting-symlink-through")
					break pre
				}
			}
		}
	}
	return nt, cls
}

// flushClasses models, on header names only, when the extractor applies the metadata it has
// deferred for directory entries (tar/extractor.go deferUpdate: the most recent deferral is
// applied early when a directory entry with a shorter path below the same parent prefix
// arrives; everything else at the end of the archive) and reports which of these two paths
// met a directory that a later symlink / file entry of the same name had replaced. Only
// meaningful when every entry was extracted (Extract returned nil). Coverage label only.
func flushClasses(hs []hdr) []string {
	if len(hs) == 0 || hs[0].Type != tar.TypeDir {
		return nil
	}
	type def struct {
		name     string
		replaced string
	}
	var stack []def
	seen := map[string]bool{}
	for _, h := range hs {
		name := strings.TrimSuffix(h.Name, "/")
		switch h.Type {
		case tar.TypeSymlink, tar.TypeReg:
			for i := range stack {
				if stack[i].name == name {
					stack[i].replaced = "symlink"
					if h.Type == tar.TypeReg {
						stack[i].replaced = "file"
					}
				}
			}
		case tar.TypeDir:
			for i := range stack {
				if stack[i].name == name {
					stack[i].replaced = ""
				}
			}
			if h.Mode == 0 && h.ModTime.IsZero() {
				continue
			}
			parent := name
			if i := strings.LastIndexByte(name, '/'); i >= 0 {
				parent = name[:i]
			}
			if n := len(stack); n > 0 && len(name) < len(stack[n-1].name) && strings.HasPrefix(stack[n-1].name, parent) {
				seen["flush:early"] = true
				if r := stack[n-1].replaced; r != "" {
					seen["flush:early-of-dir-replaced-by-"+r] = true
				}
				stack = stack[:n-1]
			}
			stack = append(stack, def{name: name})
		}
	}
	for _, d := range stack {
		if d.replaced != "" {
			seen["flush:final-of-dir-replaced-by-"+d.replaced] = true
		}
	}
	var out []string
	for k := range seen {
		out = append(out, k)
	}
	sort.Strings(out)
	return out
}

// extractAndCheck runs a fresh extractor on raw archive bytes inside sb and applies the oracle.
func extractAndCheck(sb *sandbox, c Case, tarBytes []byte) kit.Result {
	res, _ := extractAndCheckWith(sb, &boxotar.Extractor{}, c, tarBytes)
	return res
}

// extractAndCheckWith does the same with the Extractor value of the caller (which may have
// been used for earlier extractions, see reuse_test.go); its Path is set to sb.target, the
// only thing under the sandbox that is not observed. Also returns the error of Extract.
func extractAndCheckWith(sb *sandbox, ex *boxotar.Extractor, c Case, tarBytes []byte) (kit.Result, error) {
	hs := parseHeaders(tarBytes)
	if ok, why := safeArchive(hs, sb.T); !ok {
		return kit.Result{Classes: []string{"skipped-unsafe:" + why}}, nil
	}
	before := sb.snap()
	ex.Path = sb.target
	err := ex.Extract(bytes.NewReader(tarBytes))
	after := sb.snap()
	ds := compare(before, after)

	nt, cls := nonTrivial(hs, c)
	cls = append(cls, errClass(err), "target:"+c.Target)
	if err == nil {
		cls = append(cls, flushClasses(hs)...)
	}
	if len(ds) > 0 {
		known := true
		var msgs []string
		for _, d := range ds {
			rel, _ := filepath.Rel(sb.T, d.Path)
			m := fmt.Sprintf("%s: %s", rel, strings.Join(d.What, "+"))
			for _, w := range d.What {
				if w == "mode" {
					m += fmt.Sprintf(" (%v -> %v)", d.Before.Mode, d.After.Mode)
				}
				if w == "mtime" {
					m += fmt.Sprintf(" (mtime %v -> %v)", time.Unix(0, d.Before.Mtime).UTC(), time.Unix(0, d.After.Mtime).UTC())
				}
			}
			msgs = append(msgs, m)
			if !isF15(d, hs, sb) {
				known = false
			}
		}
		res := kit.Result{Err: fmt.Errorf("objects outside the target changed (paths relative to the parent of the target; Extract error: %v): %s",
			err, strings.Join(msgs, "; "))}
		if known {
			res.Known = "F15"
		}
		return res, err
	}
	return kit.Result{NonTrivial: nt, Classes: cls}, err
}

func run(c Case) kit.Result {
	if len(c.Entries) == 0 {
		return kit.Result{Classes: []string{"empty"}}
	}
	sb := newSandbox()
	defer sb.cleanup()
	sb.prepareTarget(c)
	tarBytes, raws := buildTar(c.Format, c.Entries, sb.resolveLink)
	res := extractAndCheck(sb, c, tarBytes)
	if res.Err == nil && raws > 0 {
		res.Classes = append(res.Classes, "raw-header")
	}
	return res
}

// ---------------------------------------------------------------------------
// generator

var comps = []string{"d", "f", "l", "e"}

func genPath(t *rapid.T) string {
	n := rapid.SampledFrom([]int{1, 1, 1, 2, 2, 3}).Draw(t, "ncomp")
	var p []string
	for i := 0; i < n; i++ {
		p = append(p, rapid.SampledFrom(comps).Draw(t, "comp"))
	}
	return strings.Join(p, "/")
}

var hostileNames = []string{
	"root/../outside/victim", "root/../outside/dir/f", "root/../f", "root/d/../../outside/f", "root/..", "root/../..", "../outside/victim",
	"/outside/victim", "/root/f", "root//f", "root/./f", "root/d/", "root/", "", ".", "..", "root", "rootx/f", "root/d/..", "root/\x00f",
	"root/f\x00/../../outside/victim", "root/l/../victim", "root/l/../../outside/victim", "outside/victim", "root/d//../f", "./root/f", "root/...",
}

func genLink(t *rapid.T, name string) string {
	depth := strings.Count(name, "/") // for root/x: 1 -> one ".." reaches T
	if depth < 1 {
		depth = 1
	}
	if depth > 3 {
		depth = 3
	}
	up := strings.Repeat("../", depth)
	outs := []string{"outside/dir", "outside/victim", "outside", "outside/dir/d", "outside/link", "outside/dirlink", "outside/d", "outside/missing", "f", "d", ""}
	switch rapid.IntRange(0, 9).Draw(t, "linkclass") {
	case 0, 1, 2:
		return "/" + rapid.SampledFrom(outs[:8]).Draw(t, "abs")
	case 3, 4, 5, 6:
		return up + rapid.SampledFrom(outs).Draw(t, "rel")
	case 7:
		return rapid.SampledFrom([]string{"..", "../..", ".", "../outside/dir", "../../outside/dir", "../outside/victim", "../target", "/", ""}).Draw(t, "odd")
	default:
		return rapid.SampledFrom([]string{"d", "f", "l", "e", "d/f", "../d", "./d"}).Draw(t, "inside")
	}
}

func genMode(t *rapid.T) int64 {
	switch rapid.IntRange(0, 5).Draw(t, "modeclass") {
	case 0:
		return 0
	case 1, 2:
		return rapid.SampledFrom([]int64{0o777, 0o755, 0o700, 0o644, 0o600, 0o400, 0o111, 0o4755, 0o2755, 0o1777, 0o7777, 0o1}).Draw(t, "mode")
	case 3:
		return int64(rapid.IntRange(0, 0o7777).Draw(t, "mode"))
	case 4:
		return int64(rapid.IntRange(0, 0o7777).Draw(t, "mode")) | int64(rapid.SampledFrom([]int{0o40000, 0o100000, 0o120000, 0o170000}).Draw(t, "typebits"))
	default:
		return rapid.SampledFrom([]int64{0o7777777, 1 << 31, 1<<32 | 0o777, 0o10000}).Draw(t, "bigmode")
	}
}

func genTime(t *rapid.T, e *Entry) {
	switch rapid.IntRange(0, 5).Draw(t, "timeclass") {
	case 0, 1:
	case 2, 3:
		e.HasTime = true
		e.Sec = rapid.SampledFrom([]int64{0, 1, 1000000000, 1700000000, 2147483647, 2147483648, 4102444800}).Draw(t, "sec")
	case 4:
		e.HasTime = true
		e.Sec = int64(rapid.IntRange(0, 2000000000).Draw(t, "sec"))
		e.Nsec = int64(rapid.IntRange(0, 999999999).Draw(t, "nsec"))
	default:
		e.HasTime = true
		e.Sec = rapid.SampledFrom([]int64{-1, -1000000, 1 << 33, 1 << 40, 253402300800}).Draw(t, "oddsec")
	}
}

func genType(t *rapid.T) string {
	return rapid.SampledFrom([]string{"symlink", "dir", "file", "symlink", "dir", "file", "symlink", "dir", "file", "symlink", "dir", "file", "symlink", "dir", "file", "symlink", "dir",
		"hardlink", "fifo"}).Draw(t, "type")
}

func genData(t *rapid.T) []byte {
	if rapid.IntRange(0, 19).Draw(t, "bigdata") == 0 {
		return kit.FillBytes(t, rapid.IntRange(4000, 9000).Draw(t, "n"))
	}
	return kit.FillBytes(t, rapid.IntRange(0, 40).Draw(t, "n"))
}

// genMeta draws metadata for a directory entry that should take part in the deferred
// metadata handling: mostly a non-zero mode and/or a time, sometimes neither.
func genMeta(t *rapid.T, e *Entry) {
	switch rapid.IntRange(0, 7).Draw(t, "metaclass") {
	case 0, 1, 2, 3:
		e.Mode = rapid.SampledFrom([]int64{0o700, 0o755, 0o777, 0o500, 0o711, 0o1777, 0o2750, 0o4755, 0o7777, 0o1}).Draw(t, "dmode")
		genTime(t, e)
	case 4:
		e.Mode = 0
		e.HasTime = true
		e.Sec = rapid.SampledFrom([]int64{1, 1000000000, 1700000000, 4102444800}).Draw(t, "dsec")
	default:
		e.Mode = genMode(t)
		genTime(t, e)
	}
}

// genDeferBlock draws the entry sequence that exercises the extractor's deferred directory
// metadata (DESIGN C38 mechanism "deferred directory metadata"): a directory entry X with
// metadata, optionally something in between, an entry of another type re-using the name X
// (it replaces X while X is empty), and then one to three further entries - mostly
// directories with metadata - at names around X: shorter and longer siblings, the level
// above, X itself, below X. The extractor applies X's pending metadata either early (a
// directory entry with a shorter path below the same parent prefix arrives) or at the end
// of the archive; the names come in different lengths and depths so that both happen.
// Returns the entries and the names of created directories / symlinks for the model.
func genDeferBlock(t *rapid.T, rootName string, parents []string) (es []Entry, made []string) {
	parent := rootName
	if rapid.IntRange(0, 2).Draw(t, "blk-parentclass") == 2 {
		parent = parents[len(parents)-1-rapid.IntRange(0, len(parents)-1).Draw(t, "blk-parent")]
	}
	level := parent // the directory whose children the followers are
	if strings.Count(parent, "/") < 3 && rapid.IntRange(0, 2).Draw(t, "blk-deep") == 0 {
		// X one level further down, below a directory created right here
		mid := Entry{Name: parent + "/" + rapid.SampledFrom([]string{"d", "e", "dd"}).Draw(t, "blk-mid"), Type: "dir"}
		genMeta(t, &mid)
		es = append(es, mid)
		made = append(made, mid.Name)
		parent = mid.Name
	}
	x := Entry{Name: parent + "/" + rapid.SampledFrom([]string{"dd", "eee", "llll", "d", "e", "l", "dd", "eee"}).Draw(t, "blk-x"), Type: "dir"}
	genMeta(t, &x)
	es = append(es, x)
	made = append(made, x.Name)

	switch rapid.IntRange(0, 9).Draw(t, "blk-between") {
	case 0: // X is not empty any more: the replacement has to fail
		es = append(es, Entry{Name: x.Name + "/f", Type: "file", Mode: 0o644, Data: []byte("in-x")})
	case 1: // unrelated file next to X
		es = append(es, Entry{Name: parent + "/f", Type: "file", Mode: genMode(t), Data: []byte("next-to-x")})
	case 2: // a directory without metadata (nothing deferred) next to X
		es = append(es, Entry{Name: parent + "/e", Type: "dir"})
		made = append(made, parent+"/e")
	}

	r := Entry{Name: x.Name, Type: rapid.SampledFrom([]string{"symlink", "symlink", "symlink", "symlink", "file", "dir", "symlink", "hardlink"}).Draw(t, "blk-rtype")}
	r.Mode = genMode(t)
	genTime(t, &r)
	switch r.Type {
	case "symlink", "hardlink":
		if rapid.IntRange(0, 3).Draw(t, "blk-linkclass") == 0 {
			r.Link = genLink(t, r.Name)
		} else {
			// an existing object outside the target, so that following the link has an effect
			up := strings.Repeat("../", strings.Count(r.Name, "/"))
			o := rapid.SampledFrom([]string{"outside/dir", "outside/d", "outside", "outside/victim", "outside/dir/d", "outside/dirlink", "outside/link", "outside/dir/f", "d", "f"}).Draw(t, "blk-out")
			if strings.Count(r.Name, "/") <= 3 && rapid.Bool().Draw(t, "blk-rel") {
				r.Link = up + o
			} else {
				r.Link = "/" + o
			}
		}
	case "file":
		r.Data = genData(t)
	}
	es = append(es, r)

	nf := rapid.IntRange(1, 3).Draw(t, "blk-nfollow")
	for i := 0; i < nf; i++ {
		f := Entry{Type: rapid.SampledFrom([]string{"dir", "dir", "dir", "dir", "dir", "file", "symlink"}).Draw(t, "blk-ftype")}
		switch rapid.IntRange(0, 9).Draw(t, "blk-fname") {
		case 0, 1, 2: // sibling of X, shorter or longer than X's name
			f.Name = parent + "/" + rapid.SampledFrom([]string{"e", "f", "d", "ee", "ffffff"}).Draw(t, "blk-sib")
		case 3, 4: // child of the level the block started at
			f.Name = level + "/" + rapid.SampledFrom([]string{"e", "f", "l", "ee", "ffffff"}).Draw(t, "blk-lsib")
		case 5: // the directory containing X, again
			f.Name = parent
		case 6: // X again
			f.Name = x.Name
		case 7: // below X
			f.Name = x.Name + "/" + rapid.SampledFrom(comps).Draw(t, "blk-child")
		case 8: // directly below the root
			f.Name = rootName + "/" + rapid.SampledFrom([]string{"e", "f", "l", "ee"}).Draw(t, "blk-top")
		default:
			f.Name = rootName + "/" + genPath(t)
		}
		switch f.Type {
		case "dir":
			genMeta(t, &f)
			made = append(made, f.Name)
		case "file":
			f.Mode = genMode(t)
			genTime(t, &f)
			f.Data = genData(t)
		default:
			f.Mode = genMode(t)
			genTime(t, &f)
			f.Link = genLink(t, f.Name)
			made = append(made, f.Name)
		}
		es = append(es, f)
	}
	return es, made
}

func gen(t *rapid.T) Case {
	c := Case{}
	// NB rapid favours early alternatives, so the interesting ones come first everywhere
	c.Target = rapid.SampledFrom([]string{"dir", "dir", "dir", "dir", "dir", "dir", "dir", "fresh", "fresh", "fresh", "fresh", "fresh", "dir", "dir", "dir", "fresh",
		"symlink", "symlink", "dangling", "file"}).Draw(t, "target")
	c.Format = rapid.SampledFrom([]string{"auto", "auto", "pax", "gnu"}).Draw(t, "format")
	if c.Target == "dir" {
		kinds := []string{"none", "none", "dir", "dir", "file", "symdir", "symdir", "symfile", "symrel"}
		add := func(path, kind string) {
			switch kind {
			case "dir", "file":
				c.Pre = append(c.Pre, Pre{Path: path, Kind: kind})
			case "symdir":
				c.Pre = append(c.Pre, Pre{Path: path, Kind: "symlink", Link: rapid.SampledFrom([]string{"/outside/dir", "/outside", "/outside/dirlink", "/outside/d"}).Draw(t, "l")})
			case "symfile":
				c.Pre = append(c.Pre, Pre{Path: path, Kind: "symlink", Link: rapid.SampledFrom([]string{"/outside/victim", "/outside/link", "/outside/dir/f"}).Draw(t, "l")})
			case "symrel":
				up := strings.Repeat("../", strings.Count(path, "/")+1)
				c.Pre = append(c.Pre, Pre{Path: path, Kind: "symlink", Link: up + rapid.SampledFrom([]string{"outside/dir", "outside/victim", "outside"}).Draw(t, "l")})
			}
		}
		for _, n := range comps {
			k := rapid.SampledFrom(kinds).Draw(t, "pre-"+n)
			add(n, k)
			if k == "dir" {
				for _, m := range comps[:3] {
					add(n+"/"+m, rapid.SampledFrom(kinds).Draw(t, "pre-"+n+"-"+m))
				}
			}
		}
	}

	rootName := "root"
	first := Entry{Name: rootName, Type: "dir"}
	switch rapid.IntRange(0, 19).Draw(t, "rootclass") {
	case 17:
		first.Type = "file"
	case 18:
		first.Type = "symlink"
	case 19:
		first.Type = genType(t)
		first.Name = rapid.SampledFrom([]string{"", ".", "..", "a/b", "/root", "ro\x00ot", "root/", "../outside"}).Draw(t, "badroot")
	}
	first.Mode = genMode(t)
	genTime(t, &first)
	if first.Type == "symlink" || first.Type == "hardlink" {
		first.Link = genLink(t, "x")
	}
	if first.Type == "file" {
		first.Data = genData(t)
	}
	c.Entries = append(c.Entries, first)

	// model of the names the archive has created so far: directories one can descend into
	// and symlinks one can try to pass through (generation from model state only)
	parents := []string{rootName}
	if c.Target == "dir" {
		for _, p := range c.Pre {
			if p.Kind != "file" {
				parents = append(parents, rootName+"/"+p.Path)
			}
		}
	}
	n := rapid.IntRange(0, 9).Draw(t, "nentries")
	// about every fourth archive contains a deferred-metadata block (genDeferBlock) in place
	// of some of its free entries; early positions preferred because one refused entry ends
	// the extraction
	blockAt := -1
	if rapid.IntRange(0, 3).Draw(t, "block") == 0 {
		if n > 3 {
			n = 3
		}
		blockAt = rapid.SampledFrom([]int{0, 0, 0, 1, 2, 3}).Draw(t, "blockat")
		if blockAt > n {
			blockAt = n
		}
	}
	addBlock := func() {
		es, made := genDeferBlock(t, rootName, parents)
		c.Entries = append(c.Entries, es...)
		for _, m := range made {
			if strings.Count(m, "/") < 4 {
				parents = append(parents, m)
			}
		}
	}
	for i := 0; i < n; i++ {
		if i == blockAt {
			addBlock()
		}
		e := Entry{}
		switch rapid.IntRange(0, 15).Draw(t, "nameclass") {
		case 15:
			e.Name = rapid.SampledFrom(hostileNames).Draw(t, "hostile")
		case 12, 13, 14:
			// re-use the name of an earlier entry (type conflicts on one name), recent ones first
			k := len(c.Entries) - 1 - rapid.IntRange(0, len(c.Entries)-1).Draw(t, "reuse")
			if k == 0 && len(c.Entries) > 1 {
				k = 1
			}
			e.Name = c.Entries[k].Name
		case 10, 11:
			e.Name = rootName + "/" + genPath(t)
		default:
			// below a name the archive (or the pre-population) has created, recent ones first
			k := len(parents) - 1 - rapid.IntRange(0, len(parents)-1).Draw(t, "parent")
			e.Name = parents[k] + "/" + rapid.SampledFrom(comps).Draw(t, "leaf")
		}
		e.Type = genType(t)
		e.Mode = genMode(t)
		genTime(t, &e)
		switch e.Type {
		case "symlink", "hardlink":
			e.Link = genLink(t, e.Name)
		case "file":
			e.Data = genData(t)
		}
		if (e.Type == "dir" || e.Type == "symlink") && strings.Count(e.Name, "/") < 4 {
			parents = append(parents, e.Name)
		}
		c.Entries = append(c.Entries, e)
	}
	if blockAt >= n {
		addBlock()
	}
	return c
}

var spec = kit.Spec[Case]{
	Prop: "C38", Name: "main",
	Rule: "sandbox T/{outside/..,target}; archive of 1..11 entries (dir/file/symlink/other; names from a 4-component pool so that names collide, plus hostile names with '..', absolute, empty, NUL, '//'; every fourth archive contains a deferred-metadata block: directory X with mode/mtime, an entry of another type re-using the name X, then 1..3 entries - mostly directories with metadata - at shorter/longer sibling names, the level above, X itself or below X, so that X's pending metadata is applied early as well as at the end; symlink targets absolute-into-T/outside or relative ../outside/..; modes incl. 0..07777 and type bits; mtimes unset/odd) extracted into a fresh / pre-populated (incl. symlinks to outside) / symlink / file target; lstat+content+ctime snapshot of everything under the sandbox except the target must be unchanged whether or not Extract fails. non-trivial = valid root and (a symlink entry followed by an entry through or at its name, or a directory with metadata later replaced by a symlink, or an entry through or at a pre-existing symlink, or the target path itself is a symlink)",
	Quick: 1500, Thorough: 3200,
	Gen: gen, Run: run,
	Sample: func(c Case) any {
		var s []string
		for _, e := range c.Entries {
			x := fmt.Sprintf("%s %q mode=%o", e.Type, e.Name, e.Mode)
			if e.Link != "" {
				x += " -> " + e.Link
			}
			s = append(s, x)
		}
		var pre []string
		for _, p := range c.Pre {
			x := p.Kind + " " + p.Path
			if p.Link != "" {
				x += " -> " + p.Link
			}
			pre = append(pre, x)
		}
		return map[string]any{"target": c.Target, "pre": pre, "format": c.Format, "entries": s}
	},
}

func TestProp(t *testing.T) { kit.All(t, spec) }
