package c38

import (
	"fmt"
	"os"
	"path/filepath"
	"strconv"
	"strings"
	"testing"

	"verif/kit"
)

// fuzzPre is the fixed pre-population used by the fuzz target for the "dir" target kind.
var fuzzPre = []Pre{
	{Path: "d", Kind: "dir"},
	{Path: "d/l", Kind: "symlink", Link: "/outside/dir"},
	{Path: "d/f", Kind: "file"},
	{Path: "l", Kind: "symlink", Link: "../outside/dir"},
	{Path: "e", Kind: "symlink", Link: "/outside/victim"},
	{Path: "f", Kind: "file"},
}

var fuzzTargets = []string{"fresh", "dir", "dir", "symlink", "dangling", "file"}

func fuzzSeeds() [][]byte {
	rel := func(s string) string { return s }
	mk := func(es ...Entry) []byte { b, _ := buildTar("auto", es, rel); return b }
	root := Entry{Name: "root", Type: "dir", Mode: 0o755}
	return [][]byte{
		mk(root, Entry{Name: "root/f", Type: "file", Mode: 0o644, Data: []byte("hello")}, Entry{Name: "root/d", Type: "dir", Mode: 0o700, HasTime: true, Sec: 1e9},
			Entry{Name: "root/d/f", Type: "file", Mode: 0o600, Data: []byte("x")}),
		mk(root, Entry{Name: "root/l", Type: "symlink", Link: "../outside/dir", Mode: 0o777}, Entry{Name: "root/l/f", Type: "file", Mode: 0o666, Data: []byte("evil")}),
		mk(root, Entry{Name: "root/l", Type: "symlink", Link: "../outside/victim", Mode: 0o777, HasTime: true, Sec: 5}, Entry{Name: "root/l", Type: "file", Mode: 0o666, Data: []byte("evil")}),
		mk(root, Entry{Name: "root/../outside/victim", Type: "file", Mode: 0o666, Data: []byte("evil")}),
		mk(root, Entry{Name: "root/d", Type: "dir"}, Entry{Name: "root/d/l", Type: "symlink", Link: "../../outside/dir"}, Entry{Name: "root/d/l/d", Type: "dir", Mode: 0o777},
			Entry{Name: "root/d/l/new", Type: "file", Data: []byte("evil")}),
		mk(root, Entry{Name: "root/d", Type: "dir"}, Entry{Name: "root/d", Type: "symlink", Link: "../outside/dir"}, Entry{Name: "root/d/f", Type: "file", Data: []byte("evil")}),
		mk(root, Entry{Name: "root/e", Type: "dir", Mode: 0o700}, Entry{Name: "root/e", Type: "file", Data: []byte("evil"), Mode: 0o4755}),
		mk(Entry{Name: "root", Type: "file", Mode: 0o644, Data: []byte("single")}),
		mk(Entry{Name: "root", Type: "symlink", Link: "outside/victim"}),
		mk(Entry{Name: "a/b", Type: "dir"}),
		mk(root, Entry{Name: "/outside/victim", Type: "file", Data: []byte("evil")}, Entry{Name: "root//f", Type: "file"}),
		mk(root, Entry{Name: "root/h", Type: "hardlink", Link: "../outside/victim"}),
		{},
		[]byte("not a tar file"),
	}
}

// fuzzSeedsDeferred: deferred directory metadata - the directory is replaced by a symlink and
// its pending update is applied early (shorter sibling / shallower directory) or at the end.
// Added with an explicit target kind (fresh, pre-populated).
func fuzzSeedsDeferred() [][]byte {
	rel := func(s string) string { return s }
	mk := func(es ...Entry) []byte { b, _ := buildTar("auto", es, rel); return b }
	root := Entry{Name: "root", Type: "dir", Mode: 0o755}
	return [][]byte{
		mk(root, Entry{Name: "root/dd", Type: "dir", Mode: 0o700, HasTime: true, Sec: 1e9}, Entry{Name: "root/dd", Type: "symlink", Link: "../outside/dir"},
			Entry{Name: "root/e", Type: "dir", Mode: 0o755}),
		mk(root, Entry{Name: "root/d", Type: "dir", Mode: 0o755}, Entry{Name: "root/d/e", Type: "dir", Mode: 0o777}, Entry{Name: "root/d/e", Type: "symlink", Link: "../../outside/victim"},
			Entry{Name: "root/f", Type: "dir", Mode: 0o700, HasTime: true, Sec: 5}, Entry{Name: "root/f/d", Type: "dir", Mode: 0o711}),
	}
}

// FuzzExtract feeds raw tar bytes to the extractor inside the sandbox and applies the same
// containment oracle as the generated check.
func FuzzExtract(f *testing.F) {
	for i, s := range fuzzSeeds() {
		f.Add(s, uint8(i))
	}
	for _, s := range fuzzSeedsDeferred() {
		f.Add(s, uint8(0))
		f.Add(s, uint8(1))
	}
	f.Fuzz(func(t *testing.T, data []byte, kind uint8) {
		if len(data) > 1<<16 {
			return
		}
		c := Case{Target: fuzzTargets[int(kind)%len(fuzzTargets)]}
		if c.Target == "dir" {
			c.Pre = fuzzPre
		}
		sb := fuzzSandbox()
		sb.prepareTarget(c)
		res := kit.SafeRun(func(c Case) kit.Result { return extractAndCheck(sb, c, data) }, c)
		if res.Err != nil {
			dropFuzzSandbox()
			if res.Known != "" && kit.OpenFinding("C38", res.Known) {
				t.Skip("known finding " + res.Known)
			}
			t.Fatalf("property C38 violated: %v", res.Err)
		}
	})
}

// The fuzz worker keeps one sandbox per process and only re-creates the target between
// executions: an execution that passes the oracle has, by that very oracle, left everything
// outside the target identical, so the next execution starts from the same state as a
// fresh sandbox would give. Any failing (or known-finding) execution drops the sandbox.
var fzSB *sandbox

func fuzzSandbox() *sandbox {
	if fzSB == nil {
		removeStaleFuzzSandboxes()
		fzSB = newSandboxNamed(fmt.Sprintf("c38-fz-%d-", os.Getpid()))
	}
	if err := os.RemoveAll(fzSB.target); err != nil {
		panic("c38 harness: " + err.Error())
	}
	return fzSB
}

func dropFuzzSandbox() {
	if fzSB != nil {
		fzSB.cleanup()
		fzSB = nil
	}
}

// fuzz workers are killed, not shut down: remove sandboxes of processes that no longer exist
func removeStaleFuzzSandboxes() {
	base := sandboxBase()
	if base == "" {
		base = os.TempDir()
	}
	ms, _ := filepath.Glob(filepath.Join(base, "c38-fz-*"))
	for _, m := range ms {
		parts := strings.Split(filepath.Base(m), "-")
		if len(parts) < 4 {
			continue
		}
		pid, err := strconv.Atoi(parts[2])
		if err != nil || pid <= 0 {
			continue
		}
		if _, err := os.Stat(fmt.Sprintf("/proc/%d", pid)); os.IsNotExist(err) {
			os.RemoveAll(m)
		}
	}
}
