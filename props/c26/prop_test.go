package c26

import (
	"bytes"
	"errors"
	"fmt"
	"testing"
	"time"

	"github.com/ipfs/boxo/ipns"
	"github.com/ipfs/boxo/path"
	ic "github.com/libp2p/go-libp2p/core/crypto"
	"github.com/libp2p/go-libp2p/core/peer"
	"pgregory.net/rapid"
	"verif/kit"
)

func TestMain(m *testing.M) { kit.Main(m) }

// Case: one record specification; if Bad is set, that (documented-invalid) metadata entry
// is added and creation must fail.
//
// Zone: the expiry is an instant, but the time.Time handed to NewRecord also carries a
// Location (real callers pass time.Now().Add(lifetime), i.e. the process' local zone).
// nil = time.UTC; otherwise the same instant is expressed in time.FixedZone("verif", *Zone)
// (seconds east of UTC). The instant, and therefore every expected output, is unchanged.
//
// Pad: record size boundary. The IPNS size limit is inclusive (errors.go: ErrRecordSize "is
// returned when an IPNS Record exceeds the maximum size"; Validate rejects only
// proto.Size > MaxRecordSize), so a record of at most MaxRecordSize serialized bytes is an
// ordinary member of the property's domain. With Pad set, run adds one more valid metadata
// entry (bytes or string) whose length it tunes so that MarshalRecord yields exactly
// MaxRecordSize+Delta bytes (Delta <= 0). The payload itself is not part of the case (it is a
// pure function of the case: Fill repeated), only its target is.
type Case struct {
	Rec  kit.IpnsRecSpec `json:"rec"`
	Bad  *kit.IpnsMeta   `json:"bad,omitempty"`
	Zone *int            `json:"zone,omitempty"`
	Pad  *PadSpec        `json:"pad,omitempty"`
}

type PadSpec struct {
	Kind  string `json:"kind"`  // "bytes" | "string"
	Delta int    `json:"delta"` // target size = ipns.MaxRecordSize + Delta, Delta <= 0
	Fill  byte   `json:"fill"`  // payload byte (strings: 'a' + Fill%26)
}

func genPad(t *rapid.T) *PadSpec {
	p := &PadSpec{Kind: rapid.SampledFrom([]string{"bytes", "bytes", "string"}).Draw(t, "padkind")}
	switch rapid.IntRange(0, 5).Draw(t, "padclass") {
	case 0, 1, 2:
		p.Delta = 0
	case 3:
		p.Delta = -1
	case 4:
		p.Delta = -rapid.IntRange(2, 8).Draw(t, "paddelta")
	default:
		p.Delta = -rapid.IntRange(9, 4000).Draw(t, "paddelta")
	}
	p.Fill = rapid.Byte().Draw(t, "padfill")
	return p
}

// padEntry is the padding metadata entry of n payload bytes under a key not used by spec.
func padEntry(spec kit.IpnsRecSpec, p PadSpec, n int) kit.IpnsMeta {
	key := "_pad"
	for used := true; used; {
		used = false
		for _, m := range spec.Meta {
			if m.Key == key {
				used = true
				key += "_"
				break
			}
		}
	}
	if p.Kind == "string" {
		return kit.IpnsMeta{Key: key, Kind: "string", S: string(bytes.Repeat([]byte{'a' + p.Fill%26}, n))}
	}
	var b []byte
	if n > 0 {
		b = bytes.Repeat([]byte{p.Fill}, n)
	}
	return kit.IpnsMeta{Key: key, Kind: "bytes", B: b}
}

// buildPadded creates the record of spec plus a padding entry tuned so that the marshalled
// record has exactly ipns.MaxRecordSize+Delta bytes. The serialized size grows by one byte per
// payload byte in the range used (the CBOR and protobuf length prefixes do not change width
// between 256 and 16383 bytes), so the second attempt normally hits the target; signatures of
// variable length (ECDSA: DER) can move it by a byte or two, hence a few more rounds. If the
// exact target is not reached, the largest attempt that stays within the limit is used. The
// returned spec includes the padding entry.
func buildPadded(c Case, spec kit.IpnsRecSpec, now time.Time) (*kit.IpnsBuilt, error) {
	target := ipns.MaxRecordSize + c.Pad.Delta
	if c.Pad.Delta > 0 {
		return nil, fmt.Errorf("%w: pad delta %d > 0", kit.ErrIpnsHarness, c.Pad.Delta)
	}
	var best *kit.IpnsBuilt
	n := target - 2500
	if n < 300 {
		n = 300
	}
	for round := 0; round < 10; round++ {
		s := spec
		s.Meta = append(append([]kit.IpnsMeta{}, spec.Meta...), padEntry(spec, *c.Pad, n))
		b, err := build(c, s, now)
		if err != nil {
			return nil, err
		}
		d := target - len(b.Bytes)
		if d >= 0 && (best == nil || len(b.Bytes) > len(best.Bytes)) {
			best = b
		}
		if d == 0 {
			break
		}
		n += d
		if n < 300 {
			break
		}
	}
	if best == nil {
		return nil, fmt.Errorf("%w: no padded record within %d bytes", kit.ErrIpnsHarness, target)
	}
	return best, nil
}

// zoneOffsets: offsets of real zones (whole hours, half/quarter hours, the extremes
// -12:00/+14:00), a non-UTC location with offset 0, and historical local-mean-time offsets
// with seconds (Amsterdam +0:19:32, Monrovia -0:44:30).
var zoneOffsets = []int{2 * 3600, -5 * 3600, 3600, -8 * 3600, 5*3600 + 1800, -(3*3600 + 1800), 5*3600 + 2700, 14 * 3600, -12 * 3600, 0, 19*60 + 32, -(44*60 + 30)}

func genZone(t *rapid.T) *int {
	var off int
	switch rapid.IntRange(0, 5).Draw(t, "zoneclass") {
	case 0, 1, 2:
		return nil // time.UTC
	case 3, 4:
		off = rapid.SampledFrom(zoneOffsets).Draw(t, "zoneoff")
	default:
		off = rapid.IntRange(-18*3600, 18*3600).Draw(t, "zoneoff")
	}
	return &off
}

// build is kit.IpnsRecSpec.Build with the expiry expressed in the case's zone.
func build(c Case, spec kit.IpnsRecSpec, now time.Time) (*kit.IpnsBuilt, error) {
	sk, err := kit.IpnsKey(spec.Key)
	if err != nil {
		return nil, fmt.Errorf("%w: key: %v", kit.ErrIpnsHarness, err)
	}
	name, err := kit.IpnsNameOf(sk)
	if err != nil {
		return nil, fmt.Errorf("%w: name: %v", kit.ErrIpnsHarness, err)
	}
	p, err := path.NewPath(spec.Value)
	if err != nil {
		return nil, fmt.Errorf("%w: value %q is not a path: %v", kit.ErrIpnsHarness, spec.Value, err)
	}
	eol := spec.EOL(now) // UTC
	if c.Zone != nil {
		z := eol.In(time.FixedZone("verif", *c.Zone))
		if !z.Equal(eol) {
			return nil, fmt.Errorf("%w: zone conversion changed the instant", kit.ErrIpnsHarness)
		}
		eol = z
	}
	rec, err := ipns.NewRecord(sk, p, spec.Seq, eol, time.Duration(spec.TTL), spec.Options()...)
	if err != nil {
		return nil, err
	}
	b, err := ipns.MarshalRecord(rec)
	if err != nil {
		return nil, fmt.Errorf("MarshalRecord: %w", err)
	}
	return &kit.IpnsBuilt{Spec: spec, Key: sk, Name: name, Path: p, EOL: eol, Rec: rec, Bytes: b}, nil
}

func zoneClass(z *int) string {
	switch {
	case z == nil:
		return "zone:utc"
	case *z == 0:
		return "zone:fixed0"
	case *z%60 != 0:
		return "zone:seconds"
	case *z > 0:
		return "zone:east"
	}
	return "zone:west"
}

func gen(t *rapid.T) Case {
	c := Case{Rec: kit.IpnsRecSpecs().Draw(t, "rec")}
	c.Zone = genZone(t)
	if rapid.IntRange(0, 5).Draw(t, "bad") == 0 {
		b := kit.IpnsMetaInvalid(t)
		c.Bad = &b
	} else if rapid.IntRange(0, 7).Draw(t, "pad") == 0 {
		c.Pad = genPad(t)
	}
	return c
}

func seqClass(s uint64) string {
	switch {
	case s == 0:
		return "seq:0"
	case s < 1<<63:
		return "seq:<2^63"
	case s == 1<<63:
		return "seq:2^63"
	case s == 1<<64-1:
		return "seq:max"
	}
	return "seq:>2^63"
}

func run(c Case) kit.Result {
	now := time.Now()
	spec := c.Rec
	cls := []string{"key:" + spec.Key.Type, fmt.Sprintf("v1:%d", spec.V1), fmt.Sprintf("embed:%d", spec.Embed), seqClass(spec.Seq), zoneClass(c.Zone)}

	if c.Bad != nil {
		if c.Bad.Valid() {
			return kit.Fail("harness: 'bad' metadata entry %+v is valid", *c.Bad)
		}
		// the invalid entry replaces any valid entry of the same key
		var meta []kit.IpnsMeta
		for _, m := range spec.Meta {
			if m.Key != c.Bad.Key {
				meta = append(meta, m)
			}
		}
		spec.Meta = append(meta, *c.Bad)
		_, err := build(c, spec, now)
		if errors.Is(err, kit.ErrIpnsHarness) {
			return kit.Fail("%v", err)
		}
		if err == nil {
			return kit.Fail("NewRecord accepted invalid metadata entry key=%q kind=%s", c.Bad.Key, c.Bad.Kind)
		}
		bc := "bad:type:" + c.Bad.Kind
		if c.Bad.Key == "" {
			bc = "bad:emptykey"
		} else if !(kit.IpnsMeta{Key: c.Bad.Key, Kind: "int"}).Valid() {
			bc = "bad:reserved"
		}
		return kit.Result{NonTrivial: true, Classes: append(cls, "rejected", bc)}
	}

	if !spec.MetaValid() {
		return kit.Fail("harness: generated metadata is not valid")
	}
	var b *kit.IpnsBuilt
	var err error
	if c.Pad != nil {
		b, err = buildPadded(c, spec, now)
	} else {
		b, err = build(c, spec, now)
	}
	if errors.Is(err, kit.ErrIpnsHarness) {
		return kit.Fail("%v", err)
	}
	if err != nil {
		return kit.Fail("NewRecord failed on valid inputs: %v", err)
	}
	spec = b.Spec // includes the padding entry, if any
	if !spec.MetaValid() {
		return kit.Fail("harness: padded metadata is not valid")
	}
	switch sz := len(b.Bytes); {
	case sz > ipns.MaxRecordSize:
		// NewRecord has no documented size check and records over the limit are documented
		// to be refused by UnmarshalRecord/Validate: outside the property's domain. The
		// generator does not aim here (base records stay far below the limit).
		return kit.Result{Classes: append(cls, "size:over-limit")}
	case sz == ipns.MaxRecordSize:
		cls = append(cls, "size:=max")
	case sz >= ipns.MaxRecordSize-8:
		cls = append(cls, "size:max-1..8")
	case c.Pad != nil:
		cls = append(cls, "size:padded")
	}
	pub := b.Key.GetPublic()

	// accessors of the freshly created record
	if err := kit.IpnsCheckAccessors(b.Rec, b); err != nil {
		return kit.Fail("created record: %v", err)
	}
	// marshal -> unmarshal
	rec2, err := ipns.UnmarshalRecord(b.Bytes)
	if err != nil {
		return kit.Fail("UnmarshalRecord(MarshalRecord(rec)): %v", err)
	}
	if err := kit.IpnsCheckAccessors(rec2, b); err != nil {
		return kit.Fail("after marshal/unmarshal: %v", err)
	}
	b2, err := ipns.MarshalRecord(rec2)
	if err != nil {
		return kit.Fail("re-marshal: %v", err)
	}
	if !bytes.Equal(b2, b.Bytes) {
		return kit.Fail("marshal(unmarshal(bytes)) differs from bytes")
	}

	// validation
	rk := string(b.Name.RoutingKey())
	derivable := spec.Embedded() || spec.Key.Inlinable()
	for _, r := range []*ipns.Record{b.Rec, rec2} {
		if err := ipns.Validate(r, pub); err != nil {
			return kit.Fail("Validate(rec, pub): %v", err)
		}
	}
	pid := b.Name.Peer()
	kb := &kit.IpnsKeyBook{Keys: map[peer.ID]ic.PubKey{pid: pub}}
	if err := (ipns.Validator{KeyBook: kb}).Validate(rk, b.Bytes); err != nil {
		return kit.Fail("Validator{KeyBook with the key}.Validate: %v", err)
	}
	if derivable {
		cls = append(cls, "derivable")
		if err := ipns.ValidateWithName(rec2, b.Name); err != nil {
			return kit.Fail("ValidateWithName: %v", err)
		}
		if err := ipns.ValidateWithName(b.Rec, b.Name); err != nil {
			return kit.Fail("ValidateWithName (created record): %v", err)
		}
		if err := (ipns.Validator{}).Validate(rk, b.Bytes); err != nil {
			return kit.Fail("Validator{}.Validate: %v", err)
		}
		pk, err := ipns.ExtractPublicKey(rec2, b.Name)
		if err != nil || !pk.Equals(pub) {
			return kit.Fail("ExtractPublicKey: key mismatch or error %v", err)
		}
	} else {
		cls = append(cls, "key-not-derivable")
	}

	// embedded key accessor
	pk, err := rec2.PubKey()
	if spec.Embedded() {
		if err != nil || !pk.Equals(pub) {
			return kit.Fail("PubKey() of a record with embedded key: err=%v", err)
		}
	} else if !errors.Is(err, ipns.ErrPublicKeyNotFound) {
		return kit.Fail("PubKey() of a record without embedded key: err=%v, want ErrPublicKeyNotFound", err)
	}

	// option effects on the wire (WithV1Compatibility / WithPublicKey docs)
	fs, err := kit.PBParse(b.Bytes)
	if err != nil {
		return kit.Fail("record bytes are not a protobuf message: %v", err)
	}
	seen := map[int32]bool{}
	for _, f := range fs {
		if f.Num < 1 || f.Num > 9 || seen[f.Num] {
			return kit.Fail("record bytes carry unknown or duplicate field %d", f.Num)
		}
		seen[f.Num] = true
	}
	eff := kit.IpnsEffective(fs)
	if len(eff.Data) == 0 || len(eff.SigV2) == 0 {
		return kit.Fail("record lacks data or signatureV2")
	}
	if (len(eff.PubKey) != 0) != spec.Embedded() {
		return kit.Fail("pubKey field present=%v, option says embedded=%v", len(eff.PubKey) != 0, spec.Embedded())
	}
	if spec.V1Compat() {
		if string(eff.Value) != b.Path.String() || len(eff.SigV1) == 0 || !eff.HasSequence || eff.Sequence != spec.Seq ||
			!eff.HasTTL || eff.TTL != uint64(spec.TTL) || eff.ValidityType != 0 {
			return kit.Fail("legacy fields of a V1-compatible record do not carry the inputs")
		}
		lt, err := time.Parse(time.RFC3339Nano, string(eff.Validity))
		if err != nil || !lt.Equal(b.EOL) {
			return kit.Fail("legacy validity %q does not equal the EOL", eff.Validity)
		}
	} else if eff.Value != nil || eff.SigV1 != nil || eff.Validity != nil || eff.HasSequence || eff.HasTTL || eff.HasValidityType {
		return kit.Fail("record created with WithV1Compatibility(false) carries legacy fields")
	}

	nt := spec.Seq >= 1<<63 || len(spec.Meta) > 0
	cls = append(cls, fmt.Sprintf("meta:%d", len(spec.Meta)))
	if spec.EOLRel {
		cls = append(cls, "eol:rel")
	} else if spec.EOLSec == kit.IpnsMaxEOL {
		cls = append(cls, "eol:9999")
	} else {
		cls = append(cls, "eol:abs")
	}
	return kit.Result{NonTrivial: nt, Classes: cls}
}

var spec = kit.Spec[Case]{
	Prop: "C26", Name: "main",
	Rule:  "one generated (key type, value path, sequence over uint64 classes, future EOL with nanoseconds up to year 9999 given as a time.Time in UTC or in a fixed non-UTC zone (same instant), TTL class, metadata map, V1-compat/embed options; in 1/8 of the valid cases one more bytes/string metadata entry sized so that the serialized record is exactly MaxRecordSize, MaxRecordSize-1..8 or some hundreds/thousands of bytes below (the limit is inclusive)): NewRecord -> accessors -> Marshal -> Unmarshal -> accessors -> Validate family; or one documented-invalid metadata entry added -> NewRecord must fail; non-trivial = sequence >= 2^63, metadata non-empty, or invalid-metadata case",
	Quick: 4000, Thorough: 20000,
	Gen: gen, Run: run,
}

func TestProp(t *testing.T) { kit.All(t, spec) }
