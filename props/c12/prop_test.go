package c12

// C12: DAG walks visit exactly the reachable nodes and report the right CIDs.
//
// A generated DAG (<= 40 nodes, dag-pb interior nodes and raw leaves, sharing, blocks that are
// missing / undecodable / already local) is stored in a "remote" blockstore behind an offline
// exchange; the DAG service under test has its own local blockstore. One of Walk, WalkDepth,
// FetchGraph, FetchGraphWithDepthLimit is run with a generated ordered list of walk options and
// compared with a reference BFS:
//
//   * the set of CIDs for which the visit callback returned true == nodes whose shortest
//     distance (through fetchable nodes) is within the limit (minus the root under SkipRoot);
//   * FetchGraph leaves exactly local-before ∪ reached-and-present blocks local;
//   * every OnError / OnMissing invocation carries the CID of a block that really failed and was
//     reached; with no fatal failure the invocations with a non-nil error are exactly the ones
//     the option chain prescribes;
//   * walk error != nil  <=>  some reached failure is not swallowed by the option chain, and the
//     returned error is one the chain can produce;
//   * the provider is asked for reached nodes only, and for every reached node that was fetched;
//     the provider's StartProviding may fail (always, or for a generated subset of the nodes):
//     announcing is a side effect of the walk ("calls StartProviding() on every fetched node"),
//     so a failing provider changes neither the visited set, the fetched blocks, the handler
//     invocations nor the walk's result, and its error is never what the walk returns or what
//     an error handler is given;
//   * every option list terminates (also: no concurrent visit calls, as documented). The walk gets
//     a context WITHOUT deadline (a deadline would release workers that wait for the caller's
//     context and so hide a stuck walk). A walk that has not returned after a second is probed
//     through goroutine dumps: if the walk goroutine and every goroutine it (transitively)
//     started are parked in channel/lock waits, nothing else in the process is runnable and the
//     picture is identical in three consecutive dumps, nothing can ever wake the walk (the
//     harness owns the only other party, the context): deadlock, reported without timing
//     judgement. Slowness alone is only reported after 120 s, twice.
//   * "gate" cases own the schedule of failing fetches: a failing fetch is held (<= 5 ms) until
//     a second failing fetch is pending, so that two workers fail at the same time.
//
// Go stack overflows are fatal errors, so while finding C12/F6a is open every case with two or
// more error-handling options runs in a child process (re-exec of this test binary).

import (
	"bufio"
	"bytes"
	"context"
	"encoding/json"
	"errors"
	"fmt"
	"hash/fnv"
	"io"
	"os"
	"os/exec"
	"regexp"
	"runtime"
	"runtime/debug"
	"sort"
	"strconv"
	"strings"
	"sync"
	"sync/atomic"
	"testing"
	"time"

	bserv "github.com/ipfs/boxo/blockservice"
	bstore "github.com/ipfs/boxo/blockstore"
	offline "github.com/ipfs/boxo/exchange/offline"
	"github.com/ipfs/boxo/ipld/merkledag"
	blocks "github.com/ipfs/go-block-format"
	cid "github.com/ipfs/go-cid"
	ds "github.com/ipfs/go-datastore"
	dssync "github.com/ipfs/go-datastore/sync"
	format "github.com/ipfs/go-ipld-format"
	mh "github.com/multiformats/go-multihash"
	"pgregory.net/rapid"
	"verif/kit"
)

const childEnv = "C12_CHILD"

func TestMain(m *testing.M) {
	if os.Getenv(childEnv) != "" {
		childMain()
		return
	}
	kit.Main(m)
}

// ---------------------------------------------------------------------------
// case

type NodeSpec struct {
	Kind  string `json:"kind"`            // pb | raw
	V1    bool   `json:"v1,omitempty"`    // CIDv1 for pb nodes
	State string `json:"state"`           // remote | local | missing | corrupt
	Links []int  `json:"links,omitempty"` // indices of children (always larger than own index)
	// ProvErr: a provider with Arg "failsome" returns an error when asked to announce this node
	ProvErr bool `json:"proverr,omitempty"`
}

type Opt struct {
	Kind string `json:"kind"`          // skiproot | ignoreerrors | ignoremissing | onmissing | onerror | provider
	Arg  string `json:"arg,omitempty"` // onerror: pass | swallow | replace | swallownf; provider: "" (never fails) | failall | failsome
}

type Case struct {
	Nodes  []NodeSpec `json:"nodes"` // node 0 is the root
	API    string     `json:"api"`   // walk | walkdepth | fetch | fetchdepth
	Getter string     `json:"getter,omitempty"`
	Depth  int        `json:"depth"`
	Conc   int        `json:"conc"` // 0: no option, -1: Concurrent(), n: Concurrency(n)
	Opts   []Opt      `json:"opts"`
	// Gate: a failing fetch is held back until a second failing fetch is pending (at most
	// gateWait), so that concurrent workers report their failures together.
	Gate bool `json:"gate,omitempty"`
}

func isHandler(k string) bool {
	return k == "ignoreerrors" || k == "ignoremissing" || k == "onmissing" || k == "onerror"
}

func handlerCount(c Case) int {
	n := 0
	for _, o := range c.Opts {
		if isHandler(o.Kind) {
			n++
		}
	}
	return n
}

// ---------------------------------------------------------------------------
// generator

func gen(t *rapid.T) Case {
	c := Case{}
	// (rapid's integer draws favour small values; the maximum of two draws keeps shrinking
	// towards small DAGs and still makes large ones frequent)
	maxN := kit.Scale(30, 40)
	n := max(rapid.IntRange(1, maxN).Draw(t, "n"), rapid.IntRange(1, maxN).Draw(t, "n2"))
	c.Nodes = make([]NodeSpec, n)
	for i := 0; i < n; i++ {
		nd := &c.Nodes[i]
		nd.Kind = "pb" // childless nodes may become raw leaves below
		nd.V1 = rapid.Bool().Draw(t, "v1")
		nd.State = "remote"
		if rapid.IntRange(0, 5).Draw(t, "local") == 5 {
			nd.State = "local"
		}
	}
	// failing blocks: none / one or two / roughly every 8th node / several children of one node
	failKinds := []string{"missing", "missing", "corrupt"}
	failures := rapid.SampledFrom([]string{"sparse", "none", "dense", "sparse", "none", "siblings", "siblings"}).Draw(t, "failures")
	switch failures {
	case "sparse":
		for k := rapid.IntRange(1, 2).Draw(t, "nfail"); k > 0; k-- {
			i := rapid.IntRange(0, n-1).Draw(t, "failidx")
			if rapid.Bool().Draw(t, "fromend") {
				i = n - 1 - i
			}
			c.Nodes[i].State = rapid.SampledFrom(failKinds).Draw(t, "failkind")
		}
	case "dense":
		for i := range c.Nodes {
			if rapid.IntRange(0, 7).Draw(t, "fails") == 7 {
				c.Nodes[i].State = rapid.SampledFrom(failKinds).Draw(t, "failkind")
			}
		}
	}
	// a primary parent for most nodes, chosen close by so that the DAG gets deep
	width := rapid.SampledFrom([]int{1, 2, 3, 4, 5, 6, 8, 10}).Draw(t, "width") // small: deep chains; large: bushy
	parent := make([]int, n)
	for i := range parent {
		parent[i] = -1
	}
	for i := 1; i < n; i++ {
		if rapid.IntRange(0, 19).Draw(t, "orphan") == 19 {
			continue
		}
		lo := i - rapid.IntRange(1, width).Draw(t, "back")
		if lo < 0 {
			lo = 0
		}
		p := lo
		parent[i] = p
		c.Nodes[p].Links = append(c.Nodes[p].Links, i)
	}
	// extra edges: sharing, duplicate links
	extra := rapid.IntRange(0, n).Draw(t, "extra")
	for k := 0; k < extra && n > 1; k++ {
		p := rapid.IntRange(0, n-2).Draw(t, "from")
		q := rapid.IntRange(p+1, n-1).Draw(t, "to")
		c.Nodes[p].Links = append(c.Nodes[p].Links, q)
	}
	// shortcuts from an ancestor (>= 2 levels up the primary chain) to a node: the node is then
	// linked at two depths, and a depth-first walk usually meets the deeper occurrence first
	for k := rapid.IntRange(0, 6).Draw(t, "shortcuts"); k > 0 && n > 2; k-- {
		q := rapid.IntRange(2, n-1).Draw(t, "target")
		a := parent[q]
		for up := rapid.IntRange(1, 4).Draw(t, "up"); up > 0 && a > 0 && parent[a] >= 0; up-- {
			a = parent[a]
		}
		if a >= 0 && a != parent[q] {
			c.Nodes[a].Links = append(c.Nodes[a].Links, q)
		}
	}
	// several failing siblings: a concurrent walk dispatches them together, so more than one
	// worker has a failure to report at the same moment
	if failures == "siblings" {
		var cands []int
		for i := range c.Nodes {
			if len(distinct(c.Nodes[i].Links)) >= 2 {
				cands = append(cands, i)
			}
		}
		if len(cands) > 0 {
			p := cands[rapid.IntRange(0, len(cands)-1).Draw(t, "sibparent")] // small: close to the root
			kids := distinct(c.Nodes[p].Links)
			k := max(rapid.IntRange(2, len(kids)).Draw(t, "nsib"), rapid.IntRange(2, len(kids)).Draw(t, "nsib2"))
			off := rapid.IntRange(0, len(kids)-k).Draw(t, "siboff")
			for _, j := range kids[off : off+k] {
				c.Nodes[j].State = rapid.SampledFrom(failKinds).Draw(t, "failkind")
			}
		}
	}
	for i := range c.Nodes {
		if i > 0 && len(c.Nodes[i].Links) == 0 && rapid.Bool().Draw(t, "raw") {
			c.Nodes[i].Kind = "raw"
		}
		if len(c.Nodes[i].Links) > 1 && rapid.IntRange(0, 2).Draw(t, "shuffle") == 0 {
			c.Nodes[i].Links = rapid.Permutation(c.Nodes[i].Links).Draw(t, "order")
		}
	}
	// height of the DAG (ignoring block states), to place depth limits where they cut
	dist := map[int]int{0: 0}
	height := 0
	for queue := []int{0}; len(queue) > 0; queue = queue[1:] {
		i := queue[0]
		if c.Nodes[i].Kind != "pb" {
			continue
		}
		for _, j := range c.Nodes[i].Links {
			if _, ok := dist[j]; !ok {
				dist[j] = dist[i] + 1
				if dist[j] > height {
					height = dist[j]
				}
				queue = append(queue, j)
			}
		}
	}
	c.API = rapid.SampledFrom([]string{"fetchdepth", "walkdepth", "walk", "fetch", "fetchdepth", "walkdepth", "walk"}).Draw(t, "api")
	fetch := c.API == "fetch" || c.API == "fetchdepth"
	if !fetch {
		c.Getter = rapid.SampledFrom([]string{"direct", "direct", "dag"}).Draw(t, "getter")
	}
	c.Depth = -1
	if c.API == "walkdepth" || c.API == "fetchdepth" {
		h := height
		c.Depth = rapid.SampledFrom([]int{h - 1, h - 2, h - 1, h - 2, h - 3, h, -1, 0, 1, 2, 3, 4, 5, 6}).Draw(t, "depth")
		c.Depth = max(-1, min(6, c.Depth))
	}
	if rapid.Bool().Draw(t, "sequential") {
		c.Conc = 1 // Concurrency(1): sequential also for FetchGraph
		if !fetch && rapid.Bool().Draw(t, "noopt") {
			c.Conc = 0
		}
	} else {
		switch rapid.IntRange(0, 3).Draw(t, "concclass") {
		case 0:
			c.Conc = -1 // Concurrent()
			if fetch && rapid.Bool().Draw(t, "noopt") {
				c.Conc = 0 // FetchGraph's default
			}
		case 1:
			c.Conc = rapid.IntRange(2, 4).Draw(t, "conc")
		default:
			c.Conc = rapid.IntRange(2, 32).Draw(t, "conc")
		}
	}
	nh := rapid.SampledFrom([]int{0, 0, 1, 1, 1, 1, 1, 2, 2, 2, 3}).Draw(t, "nhandlers")
	for i := 0; i < nh; i++ {
		o := Opt{Kind: rapid.SampledFrom([]string{"ignoreerrors", "ignoreerrors", "ignoremissing", "onmissing", "onerror", "onerror", "onerror"}).Draw(t, "handler")}
		if o.Kind == "onerror" {
			o.Arg = rapid.SampledFrom([]string{"pass", "swallow", "swallow", "swallow", "replace", "swallownf"}).Draw(t, "arg")
		}
		c.Opts = append(c.Opts, o)
	}
	for k := rapid.IntRange(0, 3).Draw(t, "skiproot"); k >= 2; k-- { // 0,1: none; 2: once; 3: twice
		c.Opts = append(c.Opts, Opt{Kind: "skiproot"})
	}
	if rapid.Bool().Draw(t, "provider") {
		// a provider is a network-facing component; its StartProviding may fail for every call
		// or for some of the nodes (leaves and interior nodes, early and late in the traversal)
		o := Opt{Kind: "provider", Arg: rapid.SampledFrom([]string{"", "failsome", "failall", "failsome"}).Draw(t, "provfail")}
		if o.Arg == "failsome" {
			some := false
			for i := range c.Nodes {
				c.Nodes[i].ProvErr = rapid.IntRange(0, 2).Draw(t, "proverr") == 0
				some = some || c.Nodes[i].ProvErr
			}
			if !some {
				c.Nodes[rapid.IntRange(0, n-1).Draw(t, "proverridx")].ProvErr = true
			}
		}
		c.Opts = append(c.Opts, o)
	}
	if len(c.Opts) > 1 {
		c.Opts = rapid.Permutation(c.Opts).Draw(t, "optorder")
	}
	if c.Opts == nil {
		c.Opts = []Opt{}
	}
	c.Gate = rapid.Bool().Draw(t, "gate")
	return c
}

func distinct(xs []int) []int {
	var out []int
	seen := map[int]bool{}
	for _, x := range xs {
		if !seen[x] {
			seen[x] = true
			out = append(out, x)
		}
	}
	return out
}

// ---------------------------------------------------------------------------
// building the DAG

type built struct {
	cids    []cid.Cid
	blks    []blocks.Block
	index   map[cid.Cid]int
	local   bstore.Blockstore
	remote  bstore.Blockstore
	dserv   format.DAGService
	preLoc  map[int]bool
	effSt   []string // effective state per node
	effLink [][]int  // effective links per node (empty for raw/corrupt)
}

var (
	pbV0  = kit.PrefixSpec{Version: 0, Codec: cid.DagProtobuf, MhType: mh.SHA2_256, MhLength: 32}
	pbV1  = kit.PrefixSpec{Version: 1, Codec: cid.DagProtobuf, MhType: mh.SHA2_256, MhLength: 32}
	rawV1 = kit.PrefixSpec{Version: 1, Codec: cid.Raw, MhType: mh.SHA2_256, MhLength: 32}
)

func build(c Case) (*built, error) {
	n := len(c.Nodes)
	b := &built{cids: make([]cid.Cid, n), blks: make([]blocks.Block, n), index: map[cid.Cid]int{}, preLoc: map[int]bool{},
		effSt: make([]string, n), effLink: make([][]int, n)}
	ctx := context.Background()
	b.local = bstore.NewBlockstore(dssync.MutexWrap(ds.NewMapDatastore()))
	b.remote = bstore.NewBlockstore(dssync.MutexWrap(ds.NewMapDatastore()))
	for i := n - 1; i >= 0; i-- {
		nd := c.Nodes[i]
		st := nd.State
		if st == "corrupt" && nd.Kind == "raw" {
			st = "remote" // raw bytes cannot be undecodable
		}
		b.effSt[i] = st
		pfx := pbV0
		if nd.V1 {
			pfx = pbV1
		}
		switch {
		case nd.Kind == "raw":
			b.blks[i] = kit.Block([]byte(fmt.Sprintf("raw-%d", i)), rawV1)
		case st == "corrupt":
			// honest hash, but not a dag-pb message (field 31 with wire type 7)
			b.blks[i] = kit.Block([]byte{0xff, 0xff, byte(i), 'x'}, pfx)
			if _, err := merkledag.DecodeProtobufBlock(b.blks[i]); err == nil {
				return nil, fmt.Errorf("harness: corrupt block decodes")
			}
		default:
			pn := merkledag.NodeWithData([]byte(fmt.Sprintf("pb-%d", i)))
			if err := pn.SetCidBuilder(pfx.Prefix()); err != nil {
				return nil, err
			}
			for k, j := range nd.Links {
				if j <= i || j >= n {
					return nil, fmt.Errorf("harness: bad link %d -> %d", i, j)
				}
				if err := pn.AddRawLink(fmt.Sprintf("%02d", k), &format.Link{Cid: b.cids[j], Size: 1}); err != nil {
					return nil, err
				}
			}
			b.effLink[i] = nd.Links
			b.blks[i] = pn
		}
		b.cids[i] = b.blks[i].Cid()
		if _, dup := b.index[b.cids[i]]; dup {
			return nil, fmt.Errorf("harness: duplicate CID")
		}
		b.index[b.cids[i]] = i
		switch st {
		case "remote", "corrupt":
			if err := b.remote.Put(ctx, b.blks[i]); err != nil {
				return nil, err
			}
		case "local":
			if err := b.local.Put(ctx, b.blks[i]); err != nil {
				return nil, err
			}
			b.preLoc[i] = true
		}
	}
	b.dserv = merkledag.NewDAGService(bserv.New(b.local, offline.Exchange(b.remote)))
	return b, nil
}

// ---------------------------------------------------------------------------
// reference

type refModel struct {
	dist    map[int]int       // reached nodes (visit must return true for them) -> shortest distance
	failing map[int]string    // reached nodes whose fetch fails -> "nf" | "other"
	final   map[int]string    // failing node -> error token after the option chain ("" = swallowed)
	hcalls  []map[string]bool // per option index: expected "<node>/<token>" invocations with non-nil error (onerror) or callback (onmissing)
	fatal   bool
}

func failKind(c Case, b *built, i int) string {
	if c.Getter == "dag" && c.Nodes[i].Kind == "raw" {
		return "" // GetLinks never fetches raw leaves
	}
	switch b.effSt[i] {
	case "missing":
		return "nf"
	case "corrupt":
		return "other"
	}
	return ""
}

func reference(c Case, b *built) *refModel {
	r := &refModel{dist: map[int]int{}, failing: map[int]string{}, final: map[int]string{}}
	r.hcalls = make([]map[string]bool, len(c.Opts))
	for i := range r.hcalls {
		r.hcalls[i] = map[string]bool{}
	}
	queue := []int{0}
	r.dist[0] = 0
	for len(queue) > 0 {
		i := queue[0]
		queue = queue[1:]
		if fk := failKind(c, b, i); fk != "" {
			r.failing[i] = fk
			continue
		}
		if c.Depth >= 0 && r.dist[i]+1 > c.Depth {
			continue
		}
		for _, j := range b.effLink[i] {
			if _, ok := r.dist[j]; !ok {
				r.dist[j] = r.dist[i] + 1
				queue = append(queue, j)
			}
		}
	}
	for i, fk := range r.failing {
		e := fk
		for k, o := range c.Opts {
			switch o.Kind {
			case "ignoreerrors":
				e = ""
			case "ignoremissing":
				if e == "nf" {
					e = ""
				}
			case "onmissing":
				if e == "nf" {
					r.hcalls[k][fmt.Sprintf("%d/nf", i)] = true
				}
			case "onerror":
				if e != "" {
					r.hcalls[k][fmt.Sprintf("%d/%s", i, e)] = true
				}
				switch o.Arg {
				case "swallow":
					e = ""
				case "replace":
					if e != "" {
						e = fmt.Sprintf("repl%d", k)
					}
				case "swallownf":
					if e == "nf" {
						e = ""
					}
				}
			}
		}
		r.final[i] = e
		if e != "" {
			r.fatal = true
		}
	}
	return r
}

// ---------------------------------------------------------------------------
// running the walk

type observed struct {
	mu         sync.Mutex
	visitTrue  map[cid.Cid]bool
	visitArgs  []string // problems found inside visit
	overlap    bool
	hcalls     []map[string]bool // per option: "<cidkey>/<token>"
	hnil       []map[string]bool // onerror invocations with a nil error: "<cidkey>"
	provided   map[string]int    // multihash -> count
	provFailed int               // StartProviding calls that returned errProvider
	err        error
	deadlock   string // the walk's goroutines are all parked for good (see probeWalk)
	hang       string // no deadlock picture, but still running after hardLimit
}

var replErrs = func() []error {
	var out []error
	for i := 0; i < 16; i++ {
		out = append(out, fmt.Errorf("replacement error of handler %d", i))
	}
	return out
}()

func token(err error) string {
	switch {
	case err == nil:
		return ""
	case errors.Is(err, context.DeadlineExceeded) || errors.Is(err, context.Canceled):
		return "ctx"
	case errors.Is(err, errProvider):
		return "prov" // never a token the option chain can produce
	}
	for i, r := range replErrs {
		if errors.Is(err, r) {
			return fmt.Sprintf("repl%d", i)
		}
	}
	if format.IsNotFound(err) {
		return "nf"
	}
	return "other"
}

// errProvider is what a failing provider returns from StartProviding.
var errProvider = errors.New("provider: cannot announce (generated provider failure)")

// recProvider records every multihash it is asked to announce; failAll / failFor (multihashes
// of the nodes with ProvErr) make StartProviding return errProvider after recording.
type recProvider struct {
	o       *observed
	failAll bool
	failFor map[string]bool
}

func (p recProvider) StartProviding(force bool, keys ...mh.Multihash) error {
	p.o.mu.Lock()
	defer p.o.mu.Unlock()
	fail := p.failAll
	for _, k := range keys {
		p.o.provided[string(k)]++
		if p.failFor[string(k)] {
			fail = true
		}
	}
	if fail {
		p.o.provFailed++
		return errProvider
	}
	return nil
}

// Watchdog of one walk (see waitWalk). None of these durations decides a deadlock verdict:
// they only say when to look. A healthy walk over <= 40 in-memory blocks takes well under a
// millisecond.
const (
	probeAfter  = 1 * time.Second        // first look at a walk that has not returned
	probeEvery  = 400 * time.Millisecond // distance between looks
	probeStable = 3                      // identical quiescent pictures needed
	hardLimit   = 120 * time.Second      // "still running" (no deadlock picture): reported only twice in a row
	drainWait   = 5 * time.Second        // after the verdict the context is cancelled; wait this long for the walk to go away
	gateWait    = 5 * time.Millisecond
	// once a deadlock has been established in this process (the search is over, rapid is
	// minimising the case and most candidates deadlock again) look sooner and more often;
	// the verdict itself does not depend on these durations
	fastProbeAfter = 100 * time.Millisecond
	fastProbeEvery = 50 * time.Millisecond
)

var deadlockSeen atomic.Bool

// failGate holds a failing fetch back until a second failing fetch is pending (or gateWait has
// passed, or the context is done) and then releases both.
type failGate struct {
	mu      sync.Mutex
	waiting int
	wave    chan struct{}
}

//go:noinline
func (g *failGate) hold(ctx context.Context) {
	g.mu.Lock()
	if g.wave == nil {
		g.wave = make(chan struct{})
	}
	ch := g.wave
	g.waiting++
	if g.waiting >= 2 {
		close(ch)
		g.wave, g.waiting = nil, 0
		g.mu.Unlock()
		return
	}
	g.mu.Unlock()
	tm := time.NewTimer(gateWait)
	defer tm.Stop()
	select {
	case <-ch:
		return
	case <-tm.C:
	case <-ctx.Done():
	}
	g.mu.Lock()
	if g.wave == ch {
		g.wave, g.waiting = nil, 0
	}
	g.mu.Unlock()
}

// gatedDAG delays failing Get calls of the DAG service (FetchGraph builds its own link getter).
type gatedDAG struct {
	format.DAGService
	gate *failGate
}

func (d gatedDAG) Get(ctx context.Context, ci cid.Cid) (format.Node, error) {
	nd, err := d.DAGService.Get(ctx, ci)
	if err != nil {
		d.gate.hold(ctx)
	}
	return nd, err
}

func execute(c Case, b *built) *observed {
	o := &observed{visitTrue: map[cid.Cid]bool{}, provided: map[string]int{}}
	o.hcalls = make([]map[string]bool, len(c.Opts))
	o.hnil = make([]map[string]bool, len(c.Opts))
	var opts []merkledag.WalkOption
	switch {
	case c.Conc == -1:
		opts = append(opts, merkledag.Concurrent())
	case c.Conc > 0:
		opts = append(opts, merkledag.Concurrency(c.Conc))
	}
	for k, op := range c.Opts {
		k, op := k, op
		o.hcalls[k] = map[string]bool{}
		o.hnil[k] = map[string]bool{}
		switch op.Kind {
		case "skiproot":
			opts = append(opts, merkledag.SkipRoot())
		case "ignoreerrors":
			opts = append(opts, merkledag.IgnoreErrors())
		case "ignoremissing":
			opts = append(opts, merkledag.IgnoreMissing())
		case "onmissing":
			opts = append(opts, merkledag.OnMissing(func(ci cid.Cid) {
				o.mu.Lock()
				o.hcalls[k][ci.KeyString()+"/nf"] = true
				o.mu.Unlock()
			}))
		case "onerror":
			opts = append(opts, merkledag.OnError(func(ci cid.Cid, err error) error {
				tk := token(err)
				o.mu.Lock()
				if tk == "" {
					o.hnil[k][ci.KeyString()] = true
				} else {
					o.hcalls[k][ci.KeyString()+"/"+tk] = true
				}
				o.mu.Unlock()
				switch op.Arg {
				case "swallow":
					return nil
				case "replace":
					if err != nil {
						return replErrs[k%len(replErrs)]
					}
					return nil
				case "swallownf":
					if format.IsNotFound(err) {
						return nil
					}
				}
				return err
			}))
		case "provider":
			p := recProvider{o: o, failAll: op.Arg == "failall"}
			if op.Arg == "failsome" {
				p.failFor = map[string]bool{}
				for i, nd := range c.Nodes {
					if nd.ProvErr {
						p.failFor[string(b.cids[i].Hash())] = true
					}
				}
			}
			opts = append(opts, merkledag.WithProvider(p))
		}
	}
	var busy int32
	enter := func() {
		if !atomic.CompareAndSwapInt32(&busy, 0, 1) {
			o.mu.Lock()
			o.overlap = true
			o.mu.Unlock()
		}
	}
	leave := func() { atomic.StoreInt32(&busy, 0) }
	seen := map[cid.Cid]int{}
	visitSet := func(ci cid.Cid) bool {
		enter()
		defer leave()
		o.mu.Lock()
		defer o.mu.Unlock()
		if _, ok := seen[ci]; ok {
			return false
		}
		seen[ci] = 0
		o.visitTrue[ci] = true
		return true
	}
	// the rule documented at FetchGraphWithDepthLimit
	visitDepth := func(ci cid.Cid, depth int) bool {
		enter()
		defer leave()
		o.mu.Lock()
		defer o.mu.Unlock()
		if i, known := b.index[ci]; !known || depth < 0 || (i == 0) != (depth == 0) {
			// depth is the length of the path taken from the root; only the root is at depth 0
			o.visitArgs = append(o.visitArgs, fmt.Sprintf("visit(%s, depth %d)", ci, depth))
		}
		old, ok := seen[ci]
		if (ok && c.Depth < 0) || (c.Depth >= 0 && depth > c.Depth) {
			return false
		}
		if !ok || old > depth {
			seen[ci] = depth
			o.visitTrue[ci] = true
			return true
		}
		return false
	}
	// no deadline: the walk must return on its own
	ctx, cancel := context.WithCancel(context.Background())
	defer cancel()
	dserv := b.dserv
	var getLinks merkledag.GetLinks
	if c.Getter == "dag" {
		getLinks = merkledag.GetLinksWithDAG(b.dserv)
	} else {
		getLinks = merkledag.GetLinksDirect(b.dserv)
	}
	if c.Gate {
		gate := &failGate{}
		inner := getLinks
		getLinks = func(ctx context.Context, ci cid.Cid) ([]*format.Link, error) {
			links, err := inner(ctx, ci)
			if err != nil {
				gate.hold(ctx)
			}
			return links, err
		}
		dserv = gatedDAG{b.dserv, gate}
	}
	root := b.cids[0]
	done := make(chan error, 1)
	var walkGID atomic.Int64
	go func() {
		walkGID.Store(int64(curGoroutineID()))
		var err error
		switch c.API {
		case "walk":
			err = merkledag.Walk(ctx, getLinks, root, visitSet, opts...)
		case "walkdepth":
			err = merkledag.WalkDepth(ctx, getLinks, root, visitDepth, opts...)
		case "fetch":
			err = merkledag.FetchGraph(ctx, root, dserv, opts...)
		case "fetchdepth":
			err = merkledag.FetchGraphWithDepthLimit(ctx, root, c.Depth, dserv, opts...)
		default:
			err = fmt.Errorf("harness: unknown api %q", c.API)
		}
		done <- err
	}()
	waitWalk(o, done, &walkGID, cancel)
	return o
}

// waitWalk waits for the walk and fills o.err, or o.deadlock / o.hang.
func waitWalk(o *observed, done chan error, walkGID *atomic.Int64, cancel func()) {
	after, every := probeAfter, probeEvery
	if deadlockSeen.Load() {
		after, every = fastProbeAfter, fastProbeEvery
	}
	first := time.NewTimer(after)
	defer first.Stop()
	select {
	case o.err = <-done:
		return
	case <-first.C:
	}
	start := time.Now()
	stable, lastSig := 0, ""
	for {
		tm := time.NewTimer(every)
		select {
		case o.err = <-done:
			tm.Stop()
			return
		case <-tm.C:
		}
		p := probeWalk(int(walkGID.Load()))
		switch {
		case !p.quiet:
			stable = 0
		case stable > 0 && p.sig == lastSig:
			stable++
		default:
			stable = 1
		}
		lastSig = p.sig
		if stable >= probeStable {
			o.deadlock = p.desc
			deadlockSeen.Store(true)
			break
		}
		if time.Since(start) > hardLimit {
			o.hang = "walk still running " + (probeAfter + hardLimit).String() + " after start (context without deadline); its goroutines: " + p.desc
			break
		}
	}
	// let the goroutines of the walk go away if they still listen to the context
	cancel()
	dr := time.NewTimer(drainWait)
	defer dr.Stop()
	select {
	case <-done:
	case <-dr.C:
	}
}

// ---------------------------------------------------------------------------
// deadlock probe

type goroutineInfo struct {
	id, parent int
	state      string
	funcs      []string // "function file:line" of every frame
}

type probeResult struct {
	quiet bool   // walk goroutine and all its descendants parked for good, nothing else runnable
	sig   string // identity of that picture
	desc  string // for the report
}

var (
	reGoHeader  = regexp.MustCompile(`^goroutine (\d+) \[([^\],]+)`)
	reGoCreated = regexp.MustCompile(`(?m)^created by .* in goroutine (\d+)$`)
)

// states in which a goroutine waits for another goroutine (not for time, I/O or the scheduler)
var parkedStates = map[string]bool{
	"chan send": true, "chan receive": true, "select": true, "select (no cases)": true,
	"chan send (nil chan)": true, "chan receive (nil chan)": true,
	"sync.WaitGroup.Wait": true, "semacquire": true, "sync.Mutex.Lock": true,
	"sync.RWMutex.Lock": true, "sync.RWMutex.RLock": true, "sync.Cond.Wait": true,
}

func curGoroutineID() int {
	buf := make([]byte, 64)
	buf = buf[:runtime.Stack(buf, false)]
	if m := reGoHeader.FindSubmatch(buf); m != nil {
		id, _ := strconv.Atoi(string(m[1]))
		return id
	}
	return -1
}

func allGoroutines() (self int, gs map[int]*goroutineInfo) {
	buf := make([]byte, 4<<20)
	for {
		n := runtime.Stack(buf, true)
		if n < len(buf) {
			buf = buf[:n]
			break
		}
		buf = make([]byte, 2*len(buf))
	}
	gs = map[int]*goroutineInfo{}
	self = -1
	for _, blk := range strings.Split(string(buf), "\n\n") {
		m := reGoHeader.FindStringSubmatch(blk)
		if m == nil {
			continue
		}
		g := &goroutineInfo{parent: -1, state: strings.TrimSpace(m[2])}
		g.id, _ = strconv.Atoi(m[1])
		if self < 0 {
			self = g.id // the calling goroutine comes first
		}
		if c := reGoCreated.FindStringSubmatch(blk); c != nil {
			g.parent, _ = strconv.Atoi(c[1])
		}
		lines := strings.Split(blk, "\n")[1:]
		for k, l := range lines {
			if l == "" || strings.HasPrefix(l, "\t") || strings.HasPrefix(l, "created by ") {
				continue
			}
			if p := strings.LastIndex(l, "("); p > 0 {
				l = l[:p] // argument values are of no interest
			}
			if k+1 < len(lines) && strings.HasPrefix(lines[k+1], "\t") {
				loc := strings.Fields(lines[k+1])[0]
				l += " " + loc[strings.LastIndex(loc, "/")+1:]
			}
			g.funcs = append(g.funcs, l)
		}
		gs[g.id] = g
	}
	return self, gs
}

func probeWalk(walkGID int) probeResult {
	self, gs := allGoroutines()
	if gs[walkGID] == nil {
		return probeResult{desc: "walk goroutine gone"}
	}
	// the walk goroutine and everything it started, transitively
	in := map[int]bool{walkGID: true}
	for changed := true; changed; {
		changed = false
		for id, g := range gs {
			if !in[id] && in[g.parent] {
				in[id] = true
				changed = true
			}
		}
	}
	var ids []int
	for id := range in {
		ids = append(ids, id)
	}
	sort.Ints(ids)
	quiet := true
	for id, g := range gs {
		if id != self && !in[id] && (g.state == "running" || g.state == "runnable") {
			quiet = false // somebody else is busy: judge later
		}
	}
	var sig, desc []string
	for _, id := range ids {
		g := gs[id]
		if !parkedStates[g.state] {
			quiet = false
		}
		top := ""
		for _, f := range g.funcs {
			if strings.Contains(f, "c12.(*failGate).hold") {
				quiet = false // waits for the gate's timer
			}
			if top == "" && strings.Contains(f, "github.com/ipfs/boxo/") {
				top = strings.TrimPrefix(f, "github.com/ipfs/boxo/")
			}
		}
		sig = append(sig, fmt.Sprintf("%d [%s] %s", id, g.state, strings.Join(g.funcs, ";")))
		desc = append(desc, fmt.Sprintf("[%s] in %s", g.state, top))
	}
	// compress equal lines for the report
	cnt := map[string]int{}
	var order []string
	for _, d := range desc {
		if cnt[d] == 0 {
			order = append(order, d)
		}
		cnt[d]++
	}
	var parts []string
	for _, d := range order {
		parts = append(parts, fmt.Sprintf("%dx %s", cnt[d], d))
	}
	return probeResult{quiet: quiet, sig: strings.Join(sig, "\n"), desc: strings.Join(parts, ", ")}
}

func parallelMode(c Case) bool {
	fetch := c.API == "fetch" || c.API == "fetchdepth"
	switch {
	case c.Conc == -1:
		return true
	case c.Conc == 0:
		return fetch // FetchGraph defaults to Concurrent()
	}
	return c.Conc > 1
}

// ---------------------------------------------------------------------------
// oracle

type verdict struct {
	plain []string // violations outside every known signature
	f6b   []string // violations matching the F6b signature: parallel walk reported the walk root's CID
}

// schedReps: how often a concurrent walk with several reached failures is repeated (fresh stores
// each time): which workers fail together is up to the scheduler, the property quantifies over
// schedules.
const schedReps = 4

func runInProc(c Case) kit.Result {
	if len(c.Nodes) == 0 {
		return kit.Fail("harness: empty DAG")
	}
	reps := 1
	if parallelMode(c) {
		b, err := build(c)
		if err != nil {
			return kit.Fail("%v", err)
		}
		if len(reference(c, b).failing) >= 2 {
			reps = schedReps
		}
	}
	var res kit.Result
	for ; reps > 0; reps-- {
		if res = runOnce(c); res.Err != nil {
			break
		}
	}
	return res
}

func runOnce(c Case) kit.Result {
	b, err := build(c)
	if err != nil {
		return kit.Fail("%v", err)
	}
	ref := reference(c, b)
	o := execute(c, b)
	deadlocked := func(o *observed) kit.Result {
		// termination is part of the statement; the goroutine picture is the confirmation
		// (no second run: which worker gets stuck depends on the schedule)
		want := "return nil"
		if ref.fatal {
			want = "return the error of a failing block, " + describeFatal(ref, b)
		}
		mode := "sequential"
		if parallelMode(c) {
			mode = "concurrent"
		}
		return kit.Fail("%s walk never returns (context without deadline; expected: %s): deadlock, every goroutine of the walk is parked and nothing is left to wake them: %s", mode, want, o.deadlock)
	}
	if o.deadlock != "" {
		return deadlocked(o)
	}
	if o.hang != "" {
		// no deadlock picture: confirm on a fresh instance before reporting
		b2, _ := build(c)
		o2 := execute(c, b2)
		switch {
		case o2.deadlock != "":
			return deadlocked(o2)
		case o2.hang != "":
			return kit.Fail("walk does not terminate (twice): %s; %s", o.hang, o2.hang)
		}
		o, b = o2, b2
	}
	par := parallelMode(c)
	skip := false
	hasProv := false
	for _, op := range c.Opts {
		if op.Kind == "skiproot" {
			skip = true
		}
		if op.Kind == "provider" {
			hasProv = true
		}
	}
	rootKey := b.cids[0].KeyString()
	var v verdict
	bad := func(format string, a ...any) { v.plain = append(v.plain, fmt.Sprintf(format, a...)) }

	if o.overlap {
		bad("visit was called concurrently (documented: never)")
	}
	for _, p := range o.visitArgs {
		bad("bad visit argument: %s", p)
	}

	// walk error
	tk := token(o.err)
	if tk == "prov" {
		bad("walk returned the error of the provider's StartProviding (announcing is a side effect; %d of the provider's calls failed)", o.provFailed)
	}
	if ref.fatal {
		if o.err == nil {
			bad("walk returned nil although a reached failure is not handled: %s", describeFatal(ref, b))
		} else {
			okTok := false
			for _, e := range ref.final {
				if e != "" && e == tk {
					okTok = true
				}
			}
			if !okTok {
				bad("walk returned %q (%s), the option chain can only produce %s", o.err, tk, describeFatal(ref, b))
			}
		}
	} else if o.err != nil {
		bad("walk returned %q although every reached failure is swallowed by the options (failing reached nodes: %v)", o.err, keysOf(ref.failing))
	}

	// visited set
	if c.API == "walk" || c.API == "walkdepth" {
		for ci := range o.visitTrue {
			i, ok := b.index[ci]
			if !ok {
				bad("visit accepted unknown CID %s", ci)
				continue
			}
			if _, reach := ref.dist[i]; !reach {
				bad("visited node %d which is not reachable within the limit", i)
			}
			if i == 0 && skip {
				bad("root was passed to visit despite SkipRoot")
			}
		}
		if !ref.fatal {
			for i := range ref.dist {
				if i == 0 && skip {
					continue
				}
				if !o.visitTrue[b.cids[i]] {
					bad("node %d (distance %d) is reachable within the limit but was never visited", i, ref.dist[i])
				}
			}
		}
	}

	// local blocks after FetchGraph
	if c.API == "fetch" || c.API == "fetchdepth" {
		for i := range c.Nodes {
			has, err := b.local.Has(context.Background(), b.cids[i])
			if err != nil {
				bad("local.Has: %v", err)
				continue
			}
			_, reach := ref.dist[i]
			switch {
			case b.preLoc[i]:
				if !has {
					bad("block %d was local before and is gone", i)
				}
			case has && !(reach && (b.effSt[i] == "remote" || b.effSt[i] == "corrupt")):
				bad("block %d is local after FetchGraph but not reachable within the limit (state %s)", i, b.effSt[i])
			case !has && reach && b.effSt[i] == "remote" && !ref.fatal:
				bad("block %d (distance %d) is reachable within the limit but not local after FetchGraph", i, ref.dist[i])
			}
		}
	}

	// handler invocations
	for k, op := range c.Opts {
		if op.Kind != "onerror" && op.Kind != "onmissing" {
			continue
		}
		want := map[string]bool{}
		for key := range ref.hcalls[k] {
			var i int
			var tok string
			fmt.Sscanf(key, "%d/%s", &i, &tok)
			want[b.cids[i].KeyString()+"/"+tok] = true
		}
		onlyRoot := true
		wrong := 0
		for key := range o.hcalls[k] {
			ck := key[:strings.LastIndex(key, "/")]
			if want[key] {
				continue
			}
			wrong++
			if ck != rootKey {
				onlyRoot = false
			}
		}
		for ck := range o.hnil[k] {
			// invoked with a nil error (an earlier option swallowed it): CID must still be a reached failing block
			ci, _ := cid.Cast([]byte(ck))
			if i, ok := b.index[ci]; !ok || ref.failing[i] == "" {
				wrong++
				if ck != rootKey {
					onlyRoot = false
				}
			}
		}
		missing := 0
		if !ref.fatal {
			for key := range want {
				if !o.hcalls[k][key] {
					missing++
				}
			}
		}
		if wrong > 0 || missing > 0 {
			msg := fmt.Sprintf("option #%d %s: invoked with %s; expected (CID of the failing block) %s", k, op.Kind, describeCalls(o.hcalls[k], o.hnil[k], b), describeCalls(want, nil, b))
			if par && wrong > 0 && onlyRoot {
				v.f6b = append(v.f6b, msg+" [parallel walk passed the walk root]")
			} else {
				v.plain = append(v.plain, msg)
			}
		}
	}

	// provider
	if hasProv {
		gotOther, gotRootOnly := 0, true
		for k := range o.provided {
			found := -1
			for i := range c.Nodes {
				if string(b.cids[i].Hash()) == k {
					found = i
				}
			}
			if found < 0 {
				bad("provider was given an unknown multihash")
				continue
			}
			if _, reach := ref.dist[found]; !reach {
				bad("provider was given node %d which was not reached", found)
			}
			if found != 0 {
				gotRootOnly = false
				gotOther++
			}
		}
		if !ref.fatal {
			var lack []int
			for i := range ref.dist {
				if ref.failing[i] != "" || (i == 0 && skip) {
					continue // failed fetches and a skipped root: either way is accepted
				}
				if o.provided[string(b.cids[i].Hash())] == 0 {
					lack = append(lack, i)
				}
			}
			if len(lack) > 0 {
				sort.Ints(lack)
				msg := fmt.Sprintf("provider was not asked to announce reached and fetched nodes %v (got %d distinct multihashes)", lack, len(o.provided))
				if par && gotRootOnly && len(o.provided) > 0 {
					v.f6b = append(v.f6b, msg+" [parallel walk announced only the walk root]")
				} else {
					v.plain = append(v.plain, msg)
				}
			}
		}
	} else if len(o.provided) > 0 {
		bad("harness: provider called without provider option")
	}

	if len(v.plain) > 0 {
		return kit.Fail("%s", strings.Join(v.plain, "; "))
	}
	if len(v.f6b) > 0 {
		return kit.Result{Err: errors.New(strings.Join(v.f6b, "; ")), Known: "F6b"}
	}

	// classification
	nh := handlerCount(c)
	mode := "seq"
	if par {
		mode = "par"
	}
	sharedDeeper := false
	for i := range ref.dist {
		if ref.failing[i] != "" {
			continue
		}
		for _, j := range b.effLink[i] {
			if dj, ok := ref.dist[j]; ok && dj < ref.dist[i]+1 {
				sharedDeeper = true
			}
		}
	}
	cls := []string{"api:" + c.API, "mode:" + mode, fmt.Sprintf("handlers:%d", nh)}
	if len(ref.failing) > 0 {
		cls = append(cls, "failing-reached")
		if ref.fatal {
			cls = append(cls, "aborted")
		} else {
			cls = append(cls, "failures-all-swallowed")
		}
	}
	nFatal := 0
	for _, e := range ref.final {
		if e != "" {
			nFatal++
		}
	}
	if par && nFatal >= 2 {
		cls = append(cls, "par-several-fatal-failures")
		if c.Gate {
			cls = append(cls, "par-several-fatal-failures-gated")
		}
	}
	if c.Gate && len(ref.failing) > 0 {
		cls = append(cls, "gate-used")
	}
	if sharedDeeper {
		cls = append(cls, "shared-at-two-depths")
	}
	if skip {
		cls = append(cls, "skiproot")
	}
	if hasProv {
		cls = append(cls, "provider")
		if o.provFailed > 0 {
			cls = append(cls, "provider-failed")
			if !par {
				cls = append(cls, "provider-failed-seq")
			}
		}
	}
	if c.Depth >= 0 {
		cut := false
		for i := range ref.dist {
			if ref.dist[i] == c.Depth && len(b.effLink[i]) > 0 && ref.failing[i] == "" {
				cut = true
			}
		}
		if cut {
			cls = append(cls, "depth-limit-cuts")
		}
	}
	return kit.Result{NonTrivial: len(ref.failing) > 0 || nh >= 2 || sharedDeeper, Classes: cls}
}

func keysOf(m map[int]string) []int {
	var out []int
	for k := range m {
		out = append(out, k)
	}
	sort.Ints(out)
	return out
}

func describeFatal(r *refModel, b *built) string {
	var out []string
	for _, i := range keysOf(r.final) {
		if r.final[i] != "" {
			out = append(out, fmt.Sprintf("node %d→%s", i, r.final[i]))
		}
	}
	return "{" + strings.Join(out, ", ") + "}"
}

func describeCalls(calls map[string]bool, nils map[string]bool, b *built) string {
	var out []string
	name := func(ck string) string {
		ci, err := cid.Cast([]byte(ck))
		if err != nil {
			return "?"
		}
		if i, ok := b.index[ci]; ok {
			return fmt.Sprintf("node %d", i)
		}
		return ci.String()
	}
	for key := range calls {
		p := strings.LastIndex(key, "/")
		out = append(out, name(key[:p])+"/"+key[p+1:])
	}
	for ck := range nils {
		out = append(out, name(ck)+"/nil")
	}
	sort.Strings(out)
	return "{" + strings.Join(out, ", ") + "}"
}

// ---------------------------------------------------------------------------
// child-process isolation (while F6a is open)
//
// A worker child (re-exec of this test binary with C12_CHILD=1) reads one case per line on
// stdin, runs it exactly like the in-process path and answers with one result line. If the
// library kills the worker (fatal error), the parent classifies the death and starts a new
// worker. Results do not depend on which worker ran a case.

type childResult struct {
	Err        string   `json:"err,omitempty"`
	Known      string   `json:"known,omitempty"`
	NonTrivial bool     `json:"nontrivial"`
	Classes    []string `json:"classes"`
}

const resultMarker = "C12-CHILD-RESULT "

func childMain() {
	debug.SetMaxStack(4 << 20) // reach a stack overflow in milliseconds instead of after 1 GB
	in := bufio.NewReaderSize(os.Stdin, 1<<20)
	out := bufio.NewWriter(os.Stdout)
	for {
		line, err := in.ReadBytes('\n')
		if len(bytes.TrimSpace(line)) > 0 {
			var c Case
			if e := json.Unmarshal(line, &c); e != nil {
				fmt.Fprintln(os.Stderr, "child: cannot read case:", e)
				os.Exit(4)
			}
			res := kit.SafeRun(runInProc, c)
			cr := childResult{Known: res.Known, NonTrivial: res.NonTrivial, Classes: res.Classes}
			if res.Err != nil {
				cr.Err = res.Err.Error()
			}
			js, _ := json.Marshal(cr)
			out.WriteString(resultMarker + string(js) + "\n")
			out.Flush()
		}
		if err != nil {
			os.Exit(0)
		}
	}
}

func harnessTrouble(format string, a ...any) {
	// not a verdict about boxo: make the driver report INCONCLUSIVE
	fmt.Printf("C12 harness trouble: "+format+"\n", a...)
	kit.FlushStats()
	os.Exit(3)
}

type worker struct {
	cmd    *exec.Cmd
	stdin  io.WriteCloser
	lines  chan string // stdout lines; closed at EOF
	stderr *bytes.Buffer
}

var (
	workerMu  sync.Mutex
	theWorker *worker
)

func startWorker() *worker {
	cmd := exec.Command(os.Args[0], "-test.run", "^$")
	env := []string{childEnv + "=1"}
	for _, e := range os.Environ() {
		if strings.HasPrefix(e, "VERIF_STATS=") || strings.HasPrefix(e, childEnv+"=") {
			continue
		}
		env = append(env, e)
	}
	cmd.Env = env
	w := &worker{cmd: cmd, lines: make(chan string, 4), stderr: &bytes.Buffer{}}
	var err error
	if w.stdin, err = cmd.StdinPipe(); err != nil {
		harnessTrouble("stdin pipe: %v", err)
	}
	so, err := cmd.StdoutPipe()
	if err != nil {
		harnessTrouble("stdout pipe: %v", err)
	}
	cmd.Stderr = w.stderr
	if err := cmd.Start(); err != nil {
		harnessTrouble("cannot start child: %v", err)
	}
	go func() {
		r := bufio.NewReaderSize(so, 1<<20)
		for {
			l, err := r.ReadString('\n')
			if l != "" {
				w.lines <- l
			}
			if err != nil {
				close(w.lines)
				return
			}
		}
	}()
	return w
}

// runInChild returns the child's verdict, or died=true with the child's stderr.
func runInChild(c Case) (res kit.Result, died bool, stderr string) {
	workerMu.Lock()
	defer workerMu.Unlock()
	if theWorker == nil {
		theWorker = startWorker()
	}
	w := theWorker
	cj, _ := json.Marshal(c)
	if _, err := w.stdin.Write(append(cj, '\n')); err != nil {
		// a worker that is already dead at this point died outside any case: harness problem
		harnessTrouble("child not accepting input: %v; stderr: %.500s", err, w.stderr.String())
	}
	guard := time.NewTimer(4 * time.Minute)
	defer guard.Stop()
	for {
		select {
		case l, ok := <-w.lines:
			if !ok {
				err := w.cmd.Wait()
				theWorker = nil
				text := w.stderr.String()
				if _, isExit := err.(*exec.ExitError); !isExit {
					harnessTrouble("child ended without result (%v): %.500s", err, text)
				}
				return kit.Result{}, true, text
			}
			if !strings.HasPrefix(l, resultMarker) {
				continue
			}
			var cr childResult
			if e := json.Unmarshal([]byte(strings.TrimSpace(l[len(resultMarker):])), &cr); e != nil {
				harnessTrouble("bad child result %q: %v", l, e)
			}
			r := kit.Result{Known: cr.Known, NonTrivial: cr.NonTrivial, Classes: append(cr.Classes, "ran-in-child")}
			if cr.Err != "" {
				r.Err = errors.New(cr.Err)
			}
			return r, false, ""
		case <-guard.C:
			w.cmd.Process.Kill()
			harnessTrouble("child did not answer within 4 minutes")
		}
	}
}

// isolate reports whether the case must not run inside this process.
func isolate(c Case) bool {
	if os.Getenv(childEnv) != "" {
		return false
	}
	return handlerCount(c) >= 2 && ((kit.OpenFinding("C12", "F6a") && !noExclusions()) || os.Getenv("C12_ISOLATE") != "")
}

// C12_NO_EXCLUSIONS=1 (development aid, used to validate the proposed fixes in a scratch tree):
// behave as if no finding were open - everything runs in-process and nothing is excused.
func noExclusions() bool { return os.Getenv("C12_NO_EXCLUSIONS") != "" }

// Of the cases for which the open finding F6a predicts the process-killing recursion (>= 2
// error-handling options and a failing block is reached, i.e. the composed handler is invoked)
// only every crashSample-th (by case hash) is really executed; the others are counted as
// excluded without being run, because every execution costs a process start and a crash dump.
const crashSample = 48

func run(c Case) kit.Result {
	res := run0(c)
	if noExclusions() {
		res.Known = ""
	}
	return res
}

func run0(c Case) kit.Result {
	if !isolate(c) {
		return runInProc(c)
	}
	if len(c.Nodes) == 0 {
		return kit.Fail("harness: empty DAG")
	}
	b, err := build(c)
	if err != nil {
		return kit.Fail("%v", err)
	}
	predicted := len(reference(c, b).failing) > 0
	if predicted && os.Getenv("C12_ISOLATE") == "" {
		cj, _ := json.Marshal(c)
		h := fnv.New32a()
		h.Write(cj)
		if h.Sum32()%crashSample != 0 && len(c.Nodes) > 2 {
			return kit.Result{Err: errors.New("not executed: >=2 error-handling options with a reachable failure (open finding F6a predicts a fatal stack overflow)"), Known: "F6a"}
		}
	}
	res, died, text := runInChild(c)
	if !died {
		return res
	}
	head := text
	if len(head) > 1500 {
		head = head[:1500]
	}
	if strings.Contains(text, "stack overflow") && strings.Contains(text, "addHandler") {
		msg := fmt.Sprintf("walk with %d error-handling options killed the process: fatal error: stack overflow in merkledag.(*walkOptions).addHandler (composed handler calls itself)", handlerCount(c))
		if predicted {
			return kit.Result{Err: errors.New(msg), Known: "F6a"}
		}
		return kit.Fail("%s although no reached block fails (handler invoked without a failure)", msg)
	}
	if strings.Contains(text, "fatal error:") || strings.Contains(text, "panic:") {
		return kit.Fail("walk killed the process: %s", head)
	}
	harnessTrouble("child failed: %s", head)
	return kit.Result{}
}

var spec = kit.Spec[Case]{
	Prop: "C12", Name: "main",
	Rule:  "random DAG (<=30, thorough <=40 nodes; dag-pb + raw leaves; sharing; missing/undecodable/already-local blocks) walked by Walk/WalkDepth/FetchGraph/FetchGraphWithDepthLimit with depth -1..6, concurrency none/default/1..32 and an ordered list of 0..3 error-handling options plus SkipRoot/WithProvider (failure placement: none / 1-2 / every 8th node / several children of one node; optionally failing fetches held until two are pending; the provider never fails / fails always / fails for a generated subset of nodes), compared with a reference BFS, termination judged by a goroutine-dump deadlock probe; non-trivial = a failing block is reached, or >=2 error-handling options are composed, or a node is linked at two different depths",
	Quick: 1500, Thorough: 12000,
	Gen: gen, Run: run, Journal: true,
}

func TestProp(t *testing.T) { kit.All(t, spec) }
