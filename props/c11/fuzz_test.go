package c11

import (
	"bytes"
	"math"
	"sort"
	"testing"

	"github.com/ipfs/boxo/ipld/merkledag"
	cid "github.com/ipfs/go-cid"
	format "github.com/ipfs/go-ipld-format"
	mh "github.com/multiformats/go-multihash"
)

// FuzzDagPB: arbitrary bytes -> DecodeProtobuf. If the bytes are accepted:
//   - the node returns exactly those bytes and a CID that is their hash;
//   - a forced re-encode decodes again to the same data and links (when every Tsize is within
//     the stated domain <= 2^63-1) and is a fixpoint of encode∘decode, with a matching CID;
//   - after one link mutation the node is sorted by name (stable), and CID/encoding/decoding
//     agree with the model (full oracle of the property check).
func FuzzDagPB(f *testing.F) {
	l := func(name string, t int, size uint64) mlink { return mlink{name, targetPool[t], size} }
	f.Add([]byte{})
	f.Add(encodePB([]byte("hello"), true, nil))
	f.Add(encodePB(nil, false, []mlink{l("a", 0, 1), l("b", 1, 2)}))
	f.Add(encodePB([]byte{}, true, []mlink{l("b", 0, 1), l("a", 1, math.MaxInt64), l("", 2, 0), l("a", 3, 7)}))
	f.Add(encodePB([]byte{8, 1}, true, []mlink{l("日本", 4, 1<<40), l("", 5, 3), l("", 0, 4)}))
	f.Add(encodePB(nil, false, []mlink{l("x", 0, 1<<63)}))
	f.Add(encodePB(nil, false, []mlink{l("x", 0, math.MaxUint64)}))
	f.Add([]byte{0x0a, 0x00})                   // empty data
	f.Add([]byte{0x12, 0x00})                   // link without hash
	f.Add([]byte{0x0a, 0x01, 0x61, 0x12, 0x00}) // data before links
	f.Add([]byte{0x12, 0x04, 0x0a, 0x02, 0x12, 0x20})
	f.Add([]byte{0xff, 0xff, 0xff, 0xff, 0xff, 0xff, 0xff, 0xff, 0xff, 0xff, 0x01})
	f.Add([]byte{0x1a, 0x01, 0x00}) // unknown field 3
	f.Fuzz(func(t *testing.T, in []byte) {
		n, err := merkledag.DecodeProtobuf(in)
		if err != nil {
			return
		}
		v0 := cid.Prefix{Version: 0, Codec: cid.DagProtobuf, MhType: mh.SHA2_256, MhLength: -1}
		if !bytes.Equal(n.RawData(), in) {
			t.Fatalf("decoded node returns RawData %x for input %x", n.RawData(), in)
		}
		want, _ := v0.Sum(in)
		if !n.Cid().Equals(want) {
			t.Fatalf("decoded node has CID %s, hash of its bytes is %s", n.Cid(), want)
		}
		links := fromFormat(n.Links())
		data := n.Data()
		inDomain := true
		for _, lk := range links {
			if lk.size > math.MaxInt64 {
				inDomain = false
			}
		}
		b2, err := n.EncodeProtobuf(true)
		if err != nil {
			t.Fatalf("re-encode of an accepted node failed: %v", err)
		}
		n2, err := merkledag.DecodeProtobuf(b2)
		if err != nil {
			t.Fatalf("re-encoded form %x does not decode: %v", b2, err)
		}
		if inDomain {
			// (an input with badly sorted links is re-encoded sorted: compare the stable-sorted contents)
			if !bytes.Equal(n2.Data(), data) || !(&model{links: links}).agree(fromFormat(n2.Links())) {
				t.Fatalf("re-encode/decode changed the node: %x %s -> %x %s", data, fmtLinks(links), n2.Data(), fmtLinks(fromFormat(n2.Links())))
			}
		}
		b3, err := n2.EncodeProtobuf(true)
		if err != nil || !bytes.Equal(b3, b2) {
			t.Fatalf("encode∘decode is not a fixpoint: %x -> %x (%v)", b2, b3, err)
		}
		w2, _ := v0.Sum(b2)
		if !n2.Cid().Equals(w2) || !n.Cid().Equals(w2) {
			t.Fatalf("CID after re-encode: node %s, decoded %s, hash of bytes %s", n.Cid(), n2.Cid(), w2)
		}
		if !inDomain {
			return
		}
		// one mutation: model = links + new link, stable sorted by name
		m := &model{data: data, links: links, prefix: v0}
		if err := n.AddRawLink("m", &format.Link{Cid: targetPool[1], Size: 5}); err != nil {
			t.Fatalf("AddRawLink: %v", err)
		}
		m.links = append(m.links, mlink{"m", targetPool[1], 5})
		sort.SliceStable(m.links, func(i, j int) bool { return m.links[i].name < m.links[j].name })
		m.sorted = true
		if err := full(n, m, "cid"); err != nil {
			t.Fatalf("after AddRawLink on decoded node: %v", err)
		}
		if err := n.RemoveNodeLink("m"); err != nil {
			t.Fatalf("RemoveNodeLink: %v", err)
		}
		keep := m.links[:0]
		for _, lk := range m.links {
			if lk.name != "m" {
				keep = append(keep, lk)
			}
		}
		m.links = keep
		if err := full(n, m, "raw"); err != nil {
			t.Fatalf("after RemoveNodeLink on decoded node: %v", err)
		}
	})
}
