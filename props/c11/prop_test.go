package c11

// C11: dag-pb nodes encode canonically and never expose a stale CID.
//
// A generated history of mutations (AddRawLink, AddNodeLink, RemoveNodeLink, SetData, SetLinks,
// SetCidBuilder, Copy, UpdateNodeLink) with interleaved observations is applied to one
// merkledag.ProtoNode and to a plain list model. Observations come in two kinds: "light"
// accessors that only sort (Links, Tree, MarshalJSON, Data) and "heavy" ones that encode (Cid,
// RawData, Size, Stat, ...). After every heavy observation the full oracle is applied:
//
//   Cid() == builder.Sum(RawData());  an independent wire parser and DecodeProtobuf both read
//   RawData() back to the model's data and (name, cid, tsize) list in the model's order, which
//   is the stable sort by name of the insertion order.
//
// Copy and UpdateNodeLink produce a second node; the history continues on one of the two (generated)
// and the other is set aside untouched. Every node set aside is re-checked with the full oracle
// against its own model at later "full" observations and at the end: mutating one node must not
// change the CID, encoding, data or links of another (shared link storage). A SetLinks whose list
// contains an out-of-domain Tsize must be refused without effect or taken whole.
//
// At the end, if the link names are distinct, a fresh node is built from the same data and
// links in a generated permutation; it must encode to the same bytes and CID.

import (
	"bytes"
	"encoding/binary"
	"encoding/json"
	"errors"
	"fmt"
	"math"
	"sort"
	"testing"

	"github.com/ipfs/boxo/ipld/merkledag"
	cid "github.com/ipfs/go-cid"
	format "github.com/ipfs/go-ipld-format"
	mh "github.com/multiformats/go-multihash"
	"pgregory.net/rapid"
	"verif/kit"
)

func TestMain(m *testing.M) { kit.Main(m) }

// ---------------------------------------------------------------------------
// case

type LinkSpec struct {
	Name   string `json:"name"`
	Target int    `json:"target"` // index into targetPool
	Size   uint64 `json:"size"`
}

type Op struct {
	Kind    string          `json:"kind"`
	Name    string          `json:"name,omitempty"`
	Target  int             `json:"target,omitempty"`
	Size    uint64          `json:"size,omitempty"`
	Data    []byte          `json:"data,omitempty"`
	NilData bool            `json:"nil_data,omitempty"`
	Links   []LinkSpec      `json:"links,omitempty"`
	Prefix  *kit.PrefixSpec `json:"prefix,omitempty"`
	// Stay (copy/update only): the history continues on the original node and the new node is
	// the one set aside; otherwise the history continues on the new node and the original is
	// set aside. Nodes set aside receive no further operations and are re-checked later.
	Stay bool `json:"stay,omitempty"`
}

type Case struct {
	Start       string          `json:"start"` // new | data | decoded | block | unsorted
	StartData   []byte          `json:"start_data,omitempty"`
	StartNil    bool            `json:"start_nil,omitempty"`
	StartLinks  []LinkSpec      `json:"start_links,omitempty"`
	StartPrefix *kit.PrefixSpec `json:"start_prefix,omitempty"`
	Ops         []Op            `json:"ops"`
	Perm        []int           `json:"perm"` // sort keys for the insertion-order permutation
}

var names = []string{"", "a", "b", "c", "ab", "a ", "B", "ü", "日本"}

var targetPool []cid.Cid
var childPool []*merkledag.ProtoNode

func init() {
	mk := func(p cid.Prefix, s string) cid.Cid {
		c, err := p.Sum([]byte(s))
		if err != nil {
			panic(err)
		}
		return c
	}
	targetPool = []cid.Cid{
		mk(cid.Prefix{Version: 0, Codec: cid.DagProtobuf, MhType: mh.SHA2_256, MhLength: -1}, "t0"),
		mk(cid.Prefix{Version: 1, Codec: cid.DagProtobuf, MhType: mh.SHA2_256, MhLength: -1}, "t1"),
		mk(cid.Prefix{Version: 1, Codec: cid.Raw, MhType: mh.SHA2_256, MhLength: -1}, "t2"),
		mk(cid.Prefix{Version: 1, Codec: cid.DagCBOR, MhType: mh.SHA2_512, MhLength: -1}, "t3"),
		mk(cid.Prefix{Version: 1, Codec: cid.Raw, MhType: mh.IDENTITY, MhLength: -1}, "id"),
		mk(cid.Prefix{Version: 0, Codec: cid.DagProtobuf, MhType: mh.SHA2_256, MhLength: -1}, "t5"),
	}
	c0 := merkledag.NodeWithData([]byte("leaf"))
	c1 := merkledag.NodeWithData(nil)
	c2 := merkledag.NodeWithData([]byte("inner"))
	if err := c2.AddRawLink("x", &format.Link{Cid: targetPool[0], Size: 1000}); err != nil {
		panic(err)
	}
	c2.SetCidBuilder(cid.Prefix{Version: 1, Codec: cid.DagProtobuf, MhType: mh.SHA2_256, MhLength: -1})
	childPool = []*merkledag.ProtoNode{c0, c1, c2}
}

// ---------------------------------------------------------------------------
// generator

var sizeGen = rapid.OneOf(
	rapid.Just(uint64(0)), rapid.Just(uint64(1)),
	rapid.Uint64Range(0, 300),
	rapid.Uint64Range(0, math.MaxInt64),
	rapid.Just(uint64(math.MaxInt64)),
	rapid.Just(uint64(math.MaxInt64-1)),
	rapid.Just(uint64(1)<<32),
)

func genLink(t *rapid.T) LinkSpec {
	return LinkSpec{
		Name:   rapid.SampledFrom(names).Draw(t, "name"),
		Target: rapid.IntRange(0, len(targetPool)-1).Draw(t, "target"),
		Size:   sizeGen.Draw(t, "size"),
	}
}

func genData(t *rapid.T) (d []byte, isNil bool) {
	switch rapid.IntRange(0, 5).Draw(t, "dataclass") {
	case 0:
		return nil, true
	case 1:
		return []byte{}, false
	default:
		return kit.Bytes(kit.Scale(200, 3000)).Draw(t, "data"), false
	}
}

var mutKinds = []string{"addraw", "addraw", "addraw", "addnode", "remove", "remove", "setdata", "setdata", "setlinks", "setbuilder", "badbuilder", "copy", "update", "addbig", "setlinksbig"}
var obsKinds = []string{"full", "full", "cid", "raw", "size", "stat", "links", "tree", "json", "data", "force", "getlink"}

func gen(t *rapid.T) Case {
	c := Case{}
	c.Start = rapid.SampledFrom([]string{"new", "new", "data", "decoded", "block", "unsorted"}).Draw(t, "start")
	if c.Start != "new" {
		c.StartData, c.StartNil = genData(t)
	} else {
		c.StartNil = true
	}
	if c.Start == "decoded" || c.Start == "block" || c.Start == "unsorted" {
		n := rapid.IntRange(0, 5).Draw(t, "nstart")
		for i := 0; i < n; i++ {
			c.StartLinks = append(c.StartLinks, genLink(t))
		}
	}
	if c.Start == "block" {
		sp := kit.Prefixes(false).Draw(t, "startprefix")
		sp.Codec = cid.DagProtobuf
		c.StartPrefix = &sp
	}
	nops := rapid.IntRange(1, kit.Scale(24, 40)).Draw(t, "nops")
	for i := 0; i < nops; i++ {
		var op Op
		if rapid.IntRange(0, 9).Draw(t, "isobs") < 4 {
			op.Kind = rapid.SampledFrom(obsKinds).Draw(t, "obs")
			if op.Kind == "getlink" {
				op.Name = rapid.SampledFrom(names).Draw(t, "name")
			}
		} else {
			op.Kind = rapid.SampledFrom(mutKinds).Draw(t, "mut")
			switch op.Kind {
			case "addraw":
				l := genLink(t)
				op.Name, op.Target, op.Size = l.Name, l.Target, l.Size
			case "addbig": // Tsize above 2^63-1: outside the stated domain; must be refused or round-trip
				l := genLink(t)
				op.Name, op.Target = l.Name, l.Target
				op.Size = rapid.SampledFrom([]uint64{1 << 63, math.MaxUint64, 1<<63 + 12345}).Draw(t, "big")
			case "addnode", "update":
				op.Name = rapid.SampledFrom(names).Draw(t, "name")
				op.Target = rapid.IntRange(0, len(childPool)-1).Draw(t, "child")
				if op.Kind == "update" {
					op.Stay = rapid.IntRange(0, 2).Draw(t, "stay") == 0
				}
			case "copy":
				op.Stay = rapid.IntRange(0, 2).Draw(t, "stay") == 0
			case "remove":
				op.Name = rapid.SampledFrom(names).Draw(t, "name")
			case "setdata":
				op.Data, op.NilData = genData(t)
			case "setlinks":
				n := rapid.IntRange(0, 5).Draw(t, "nlinks")
				for j := 0; j < n; j++ {
					op.Links = append(op.Links, genLink(t))
				}
			case "setlinksbig": // SetLinks with one Tsize above 2^63-1 somewhere in the list: as addbig
				n := rapid.IntRange(0, 4).Draw(t, "nlinks")
				for j := 0; j < n; j++ {
					op.Links = append(op.Links, genLink(t))
				}
				bad := genLink(t)
				bad.Size = rapid.SampledFrom([]uint64{1 << 63, math.MaxUint64, 1<<63 + 12345}).Draw(t, "big")
				at := rapid.IntRange(0, n).Draw(t, "badpos")
				op.Links = append(op.Links[:at:at], append([]LinkSpec{bad}, op.Links[at:]...)...)
			case "setbuilder":
				pf := kit.Prefixes(false).Draw(t, "prefix")
				if rapid.Bool().Draw(t, "deflen") {
					pf.MhLength = -1
				}
				op.Prefix = &pf
			case "badbuilder":
				pf := kit.PrefixSpec{Version: 1, Codec: cid.DagProtobuf, MhType: 0x9999, MhLength: -1}
				if rapid.Bool().Draw(t, "trunc254") {
					pf.MhType, pf.MhLength = mh.SHA2_256_TRUNC254_PADDED, 256 // as in merkledag's own TestBadBuilderEncode
				}
				op.Prefix = &pf
			}
		}
		c.Ops = append(c.Ops, op)
	}
	c.Perm = rapid.SliceOfN(rapid.IntRange(0, 1000), 12, 12).Draw(t, "perm")
	return c
}

// ---------------------------------------------------------------------------
// model

type mlink struct {
	name string
	c    cid.Cid
	size uint64
}

type model struct {
	data   []byte
	links  []mlink // current order: stable sort by name of the insertion order once sorted
	sorted bool
	prefix cid.Prefix
}

func (m *model) sortNow() {
	sort.SliceStable(m.links, func(i, j int) bool { return m.links[i].name < m.links[j].name })
	m.sorted = true
}

func (m *model) clone() *model {
	return &model{data: m.data, links: append([]mlink(nil), m.links...), sorted: m.sorted, prefix: m.prefix}
}

func toM(ls []LinkSpec) []mlink {
	var out []mlink
	for _, l := range ls {
		out = append(out, mlink{l.Name, targetPool[l.Target], l.Size})
	}
	return out
}

func fmtLinks(ls []mlink) string {
	var b bytes.Buffer
	b.WriteString("[")
	for i, l := range ls {
		if i > 0 {
			b.WriteString(" ")
		}
		fmt.Fprintf(&b, "%q→%s/%d", l.name, l.c.String()[:8], l.size)
	}
	b.WriteString("]")
	return b.String()
}

func sameLinks(a, b []mlink) bool {
	if len(a) != len(b) {
		return false
	}
	for i := range a {
		if a[i].name != b[i].name || !a[i].c.Equals(b[i].c) || a[i].size != b[i].size {
			return false
		}
	}
	return true
}

// agree compares an observed link list with the model. Once the node's links have been
// mutated (or the node was built through the API) the order must be exactly the model's
// (stable sort by name of the insertion order). A node decoded from a badly sorted encoding
// and not yet link-mutated is documented to keep "the as-serialized state" in memory while
// a re-encode sorts; there only the stable-sorted contents are compared.
func (m *model) agree(got []mlink) bool {
	if m.sorted {
		return sameLinks(got, m.links)
	}
	a := append([]mlink(nil), got...)
	b := append([]mlink(nil), m.links...)
	sort.SliceStable(a, func(i, j int) bool { return a[i].name < a[j].name })
	sort.SliceStable(b, func(i, j int) bool { return b[i].name < b[j].name })
	return sameLinks(a, b)
}

func fromFormat(ls []*format.Link) []mlink {
	var out []mlink
	for _, l := range ls {
		out = append(out, mlink{l.Name, l.Cid, l.Size})
	}
	return out
}

// ---------------------------------------------------------------------------
// independent dag-pb wire reader / writer (protobuf, fields: PBNode{Data=1, Links=2}, PBLink{Hash=1, Name=2, Tsize=3})

func readField(b []byte) (num int, wt int, val []byte, vi uint64, rest []byte, err error) {
	tag, n := binary.Uvarint(b)
	if n <= 0 {
		return 0, 0, nil, 0, nil, errors.New("bad tag")
	}
	b = b[n:]
	num, wt = int(tag>>3), int(tag&7)
	switch wt {
	case 0:
		v, n := binary.Uvarint(b)
		if n <= 0 {
			return 0, 0, nil, 0, nil, errors.New("bad varint")
		}
		return num, wt, nil, v, b[n:], nil
	case 2:
		l, n := binary.Uvarint(b)
		if n <= 0 || uint64(len(b)-n) < l {
			return 0, 0, nil, 0, nil, errors.New("bad length")
		}
		return num, wt, b[n : n+int(l)], 0, b[n+int(l):], nil
	}
	return 0, 0, nil, 0, nil, fmt.Errorf("unsupported wire type %d", wt)
}

func parsePB(b []byte) (data []byte, hasData bool, links []mlink, err error) {
	for len(b) > 0 {
		num, wt, val, _, rest, e := readField(b)
		if e != nil {
			return nil, false, nil, e
		}
		b = rest
		switch {
		case num == 1 && wt == 2:
			data, hasData = val, true
		case num == 2 && wt == 2:
			var l mlink
			lb := val
			for len(lb) > 0 {
				n2, w2, v2, vi2, r2, e := readField(lb)
				if e != nil {
					return nil, false, nil, e
				}
				lb = r2
				switch {
				case n2 == 1 && w2 == 2:
					_, c, e := cid.CidFromBytes(v2)
					if e != nil {
						return nil, false, nil, e
					}
					l.c = c
				case n2 == 2 && w2 == 2:
					l.name = string(v2)
				case n2 == 3 && w2 == 0:
					l.size = vi2
				default:
					return nil, false, nil, fmt.Errorf("unknown link field %d/%d", n2, w2)
				}
			}
			links = append(links, l)
		default:
			return nil, false, nil, fmt.Errorf("unknown node field %d/%d", num, wt)
		}
	}
	return data, hasData, links, nil
}

// encodePB writes links in the given order (used only to build inputs: decoded start nodes and fuzz seeds).
func encodePB(data []byte, hasData bool, links []mlink) []byte {
	var out []byte
	for _, l := range links {
		var lb []byte
		cb := l.c.Bytes()
		lb = append(lb, 0x0a)
		lb = binary.AppendUvarint(lb, uint64(len(cb)))
		lb = append(lb, cb...)
		lb = append(lb, 0x12)
		lb = binary.AppendUvarint(lb, uint64(len(l.name)))
		lb = append(lb, l.name...)
		lb = append(lb, 0x18)
		lb = binary.AppendUvarint(lb, l.size)
		out = append(out, 0x12)
		out = binary.AppendUvarint(out, uint64(len(lb)))
		out = append(out, lb...)
	}
	if hasData {
		out = append(out, 0x0a)
		out = binary.AppendUvarint(out, uint64(len(data)))
		out = append(out, data...)
	}
	return out
}

// ---------------------------------------------------------------------------
// oracle

func dagpbPrefix(p cid.Prefix) cid.Prefix {
	p.Codec = cid.DagProtobuf
	return p
}

// full applies the complete oracle. first selects which encoding accessor is called first.
func full(n *merkledag.ProtoNode, m *model, first string) error {
	var c cid.Cid
	var raw []byte
	switch first {
	case "raw":
		raw = n.RawData()
		c = n.Cid()
	case "size":
		if _, err := n.Size(); err != nil {
			return fmt.Errorf("Size: %v", err)
		}
		c = n.Cid()
		raw = n.RawData()
	case "stat":
		st, err := n.Stat()
		if err != nil {
			return fmt.Errorf("Stat: %v", err)
		}
		c = n.Cid()
		raw = n.RawData()
		if st.Hash != c.String() || st.NumLinks != len(m.links) || st.BlockSize != len(raw) || st.DataSize != len(m.data) {
			return fmt.Errorf("Stat %+v disagrees with cid %s, %d links, %d encoded bytes, %d data bytes", *st, c, len(m.links), len(raw), len(m.data))
		}
	case "force":
		b, err := n.EncodeProtobuf(true)
		if err != nil {
			return fmt.Errorf("EncodeProtobuf(true): %v", err)
		}
		c = n.Cid()
		raw = n.RawData()
		if !bytes.Equal(b, raw) {
			return fmt.Errorf("EncodeProtobuf(true) and RawData differ")
		}
	default: // "cid", "full"
		c = n.Cid()
		raw = n.RawData()
	}
	if _, err := n.EncodeProtobuf(false); err != nil {
		return fmt.Errorf("EncodeProtobuf: %v", err)
	}
	want, err := dagpbPrefix(m.prefix).Sum(raw)
	if err != nil {
		return fmt.Errorf("harness: prefix %+v cannot sum: %v", m.prefix, err)
	}
	if !c.Equals(want) {
		return fmt.Errorf("Cid() = %s but the builder's hash of the current RawData() is %s (stale or wrong CID)", c, want)
	}
	if !bytes.Equal(n.Multihash(), want.Hash()) {
		return fmt.Errorf("Multihash() differs from hash of RawData()")
	}
	// independent reading of the serialized form
	pdata, _, plinks, err := parsePB(raw)
	if err != nil {
		return fmt.Errorf("RawData is not parseable as dag-pb: %v", err)
	}
	if !bytes.Equal(pdata, m.data) {
		return fmt.Errorf("serialized data %x, model data %x", pdata, m.data)
	}
	if !m.agree(plinks) {
		return fmt.Errorf("serialized links %s, expected (stable sort by name of insertion order) %s", fmtLinks(plinks), fmtLinks(m.links))
	}
	if m.sorted {
		for i := 1; i < len(plinks); i++ {
			if plinks[i-1].name > plinks[i].name {
				return fmt.Errorf("serialized links not sorted by name: %s", fmtLinks(plinks))
			}
		}
	}
	// the library's decoder
	d, err := merkledag.DecodeProtobuf(raw)
	if err != nil {
		return fmt.Errorf("DecodeProtobuf(RawData()): %v", err)
	}
	if !bytes.Equal(d.Data(), m.data) {
		return fmt.Errorf("decoded data %x, model data %x", d.Data(), m.data)
	}
	if dl := fromFormat(d.Links()); !m.agree(dl) {
		return fmt.Errorf("decoded links %s, expected %s", fmtLinks(dl), fmtLinks(m.links))
	}
	// the node's own view
	if !bytes.Equal(n.Data(), m.data) {
		return fmt.Errorf("Data() = %x, model %x", n.Data(), m.data)
	}
	if nl := fromFormat(n.Links()); !m.agree(nl) {
		return fmt.Errorf("Links() = %s, expected %s", fmtLinks(nl), fmtLinks(m.links))
	}
	// reading again must not change anything
	if c2 := n.Cid(); !c2.Equals(c) {
		return fmt.Errorf("Cid() changed from %s to %s without a mutation", c, c2)
	}
	if !bytes.Equal(n.RawData(), raw) {
		return fmt.Errorf("RawData() changed without a mutation")
	}
	return nil
}

func light(n *merkledag.ProtoNode, m *model, op Op) error {
	switch op.Kind {
	case "links":
		if nl := fromFormat(n.Links()); !m.agree(nl) {
			return fmt.Errorf("Links() = %s, expected %s", fmtLinks(nl), fmtLinks(m.links))
		}
	case "tree":
		tr := n.Tree("", -1)
		if len(tr) != len(m.links) {
			return fmt.Errorf("Tree() = %q, expected names of %s", tr, fmtLinks(m.links))
		}
		for i := range tr {
			if m.sorted && tr[i] != m.links[i].name {
				return fmt.Errorf("Tree() = %q, expected names of %s", tr, fmtLinks(m.links))
			}
		}
	case "json":
		b, err := n.MarshalJSON()
		if err != nil {
			return fmt.Errorf("MarshalJSON: %v", err)
		}
		var v struct {
			Data  []byte
			Links []*format.Link
		}
		if err := json.Unmarshal(b, &v); err != nil {
			return fmt.Errorf("MarshalJSON output does not parse: %v", err)
		}
		if !bytes.Equal(v.Data, m.data) || !m.agree(fromFormat(v.Links)) {
			return fmt.Errorf("MarshalJSON %s disagrees with model %x %s", b, m.data, fmtLinks(m.links))
		}
	case "data":
		if !bytes.Equal(n.Data(), m.data) {
			return fmt.Errorf("Data() = %x, model %x", n.Data(), m.data)
		}
	case "getlink":
		l, err := n.GetNodeLink(op.Name)
		var want *mlink
		for i := range m.links {
			if m.links[i].name == op.Name {
				want = &m.links[i]
				break
			}
		}
		if want == nil {
			if err == nil {
				return fmt.Errorf("GetNodeLink(%q) found %v, model has no such link", op.Name, l)
			}
		} else if m.sorted {
			// (for a not-yet-sorted decoded node the first match in wire order is returned; same thing)
			if err != nil || l.Name != want.name || !l.Cid.Equals(want.c) || l.Size != want.size {
				return fmt.Errorf("GetNodeLink(%q) = %v, %v; expected first link with that name %v", op.Name, l, err, *want)
			}
		}
	}
	return nil
}

func isObs(k string) bool {
	switch k {
	case "full", "cid", "raw", "size", "stat", "force", "links", "tree", "json", "data", "getlink":
		return true
	}
	return false
}

func run(c Case) kit.Result {
	v0 := cid.Prefix{Version: 0, Codec: cid.DagProtobuf, MhType: mh.SHA2_256, MhLength: -1}
	m := &model{prefix: v0}
	var n *merkledag.ProtoNode
	sd := c.StartData
	if c.StartNil {
		sd = nil
	} else if sd == nil {
		sd = []byte{}
	}
	switch c.Start {
	case "new":
		n = new(merkledag.ProtoNode)
		m.sorted = true
	case "data":
		n = merkledag.NodeWithData(sd)
		m.data = sd
		m.sorted = true
	case "decoded", "block", "unsorted":
		m.data = sd
		m.links = toM(c.StartLinks)
		if c.Start != "unsorted" {
			m.sortNow()
		} else {
			m.sorted = sort.SliceIsSorted(m.links, func(i, j int) bool { return m.links[i].name < m.links[j].name })
		}
		enc := encodePB(sd, sd != nil, m.links)
		var err error
		if c.Start == "block" {
			m.prefix = c.StartPrefix.Prefix()
			var fn format.Node
			fn, err = merkledag.DecodeProtobufBlock(kit.Block(enc, *c.StartPrefix))
			if err == nil {
				n = fn.(*merkledag.ProtoNode)
			}
		} else {
			n, err = merkledag.DecodeProtobuf(enc)
		}
		if err != nil {
			return kit.Fail("decoding a well-formed dag-pb encoding failed: %v", err)
		}
		if !bytes.Equal(n.RawData(), enc) {
			return kit.Fail("freshly decoded node does not return the bytes it was decoded from")
		}
	default:
		return kit.Fail("harness: unknown start %q", c.Start)
	}

	muts, separated, dupNames := 0, false, false
	obsSinceMut := false
	// Nodes set aside by Copy/UpdateNodeLink: each is a dag-pb node in its own right whose
	// mutation sequence has ended, so its CID, encoding, data and links must stay what its model
	// says whatever happens afterwards to the node it was copied from / copied to.
	type aside struct {
		n    *merkledag.ProtoNode
		m    *model
		at   int
		what string
	}
	var asides []aside
	linkMutAfterAside := false
	refusedSetLinks := false
	checkAsides := func() error {
		for _, a := range asides {
			if err := full(a.n, a.m, "cid"); err != nil {
				return fmt.Errorf("%s set aside at op %d, not touched since: %v", a.what, a.at, err)
			}
		}
		return nil
	}
	for i, op := range c.Ops {
		fail := func(err error) kit.Result {
			return kit.Fail("op %d (%s): %v", i, op.Kind, err)
		}
		if isObs(op.Kind) {
			var err error
			switch op.Kind {
			case "links", "tree", "json", "data", "getlink":
				err = light(n, m, op)
			default:
				err = full(n, m, op.Kind)
				if err == nil && op.Kind == "full" {
					err = checkAsides()
				}
			}
			if err != nil {
				return fail(err)
			}
			if muts > 0 {
				obsSinceMut = true
			}
			continue
		}
		changed := false
		switch op.Kind {
		case "addraw", "addbig":
			err := n.AddRawLink(op.Name, &format.Link{Name: "ignored", Cid: targetPool[op.Target], Size: op.Size})
			if err != nil {
				if op.Size <= math.MaxInt64 {
					return fail(fmt.Errorf("AddRawLink refused an in-domain link: %v", err))
				}
			} else {
				m.links = append(m.links, mlink{op.Name, targetPool[op.Target], op.Size})
				m.sortNow()
				changed = true
			}
		case "addnode":
			ch := childPool[op.Target]
			sz, err := ch.Size()
			if err != nil {
				return fail(fmt.Errorf("harness: child size: %v", err))
			}
			if err := n.AddNodeLink(op.Name, ch); err != nil {
				return fail(fmt.Errorf("AddNodeLink: %v", err))
			}
			m.links = append(m.links, mlink{op.Name, ch.Cid(), sz})
			m.sortNow()
			changed = true
		case "update":
			ch := childPool[op.Target]
			sz, _ := ch.Size()
			nn, err := n.UpdateNodeLink(op.Name, ch)
			if err != nil {
				return fail(fmt.Errorf("UpdateNodeLink: %v", err))
			}
			nm := m.clone()
			keep := nm.links[:0]
			for _, l := range nm.links {
				if l.name != op.Name {
					keep = append(keep, l)
				}
			}
			nm.links = append(keep, mlink{op.Name, ch.Cid(), sz})
			nm.sortNow()
			if nm.data != nil && len(nm.data) == 0 {
				nm.data = nil // as for Copy below
			}
			if op.Stay {
				asides = append(asides, aside{nn, nm, i, "result of UpdateNodeLink"})
			} else {
				asides = append(asides, aside{n, m, i, "receiver of UpdateNodeLink"})
				n, m = nn, nm
				changed = true
			}
		case "remove":
			err := n.RemoveNodeLink(op.Name)
			found := false
			keep := make([]mlink, 0, len(m.links))
			for _, l := range m.links {
				if l.name != op.Name {
					keep = append(keep, l)
				} else {
					found = true
				}
			}
			if found != (err == nil) {
				return fail(fmt.Errorf("RemoveNodeLink(%q) returned %v, model has link: %v", op.Name, err, found))
			}
			if found {
				m.links = keep
				m.sortNow()
				changed = true
			}
		case "setdata":
			d := op.Data
			if op.NilData {
				d = nil
			} else if d == nil {
				d = []byte{}
			}
			n.SetData(d)
			m.data = d
			changed = true
		case "setlinks":
			ls := toM(op.Links)
			fl := make([]*format.Link, len(ls))
			for j, l := range ls {
				fl[j] = &format.Link{Name: l.name, Cid: l.c, Size: l.size}
			}
			if err := n.SetLinks(fl); err != nil {
				return fail(fmt.Errorf("SetLinks refused in-domain links: %v", err))
			}
			m.links = ls
			m.sortNow()
			changed = true
		case "setlinksbig":
			// a list containing an out-of-domain Tsize: must be refused (then the node is what it
			// was: a refused call is not one of the node's mutations) or taken whole and round-trip
			ls := toM(op.Links)
			fl := make([]*format.Link, len(ls))
			for j, l := range ls {
				fl[j] = &format.Link{Name: l.name, Cid: l.c, Size: l.size}
			}
			if err := n.SetLinks(fl); err == nil {
				m.links = ls
				m.sortNow()
				changed = true
			} else {
				refusedSetLinks = true
			}
		case "setbuilder":
			p := op.Prefix.Prefix()
			if err := n.SetCidBuilder(p); err != nil {
				return fail(fmt.Errorf("SetCidBuilder(%+v): %v", p, err))
			}
			m.prefix = p
			changed = true
		case "badbuilder":
			// documented: "An error will be returned if the builder is not usable"; either way the
			// CID must keep following the builder in effect.
			if err := n.SetCidBuilder(op.Prefix.Prefix()); err == nil {
				return fail(fmt.Errorf("SetCidBuilder accepted an unusable hash function %#x", op.Prefix.MhType))
			}
		case "copy":
			nn := n.Copy().(*merkledag.ProtoNode)
			nm := m.clone()
			nm.sortNow() // documented: the copy has a properly sorted Links list
			if nm.data != nil && len(nm.data) == 0 {
				nm.data = nil
			}
			if op.Stay {
				asides = append(asides, aside{nn, nm, i, "copy"})
			} else {
				asides = append(asides, aside{n, m, i, "original of Copy"})
				n, m = nn, nm
				changed = true
			}
		default:
			return kit.Fail("harness: unknown op %q", op.Kind)
		}
		if changed && len(asides) > 0 {
			switch op.Kind {
			case "remove", "addraw", "addbig", "addnode", "setlinks", "setlinksbig", "update":
				// (UpdateNodeLink itself removes and adds on the copy it just made)
				linkMutAfterAside = true
			}
		}
		if changed {
			muts++
			if obsSinceMut {
				separated = true
			}
			seen := map[string]bool{}
			for _, l := range m.links {
				if seen[l.name] {
					dupNames = true
				}
				seen[l.name] = true
			}
		}
	}
	if err := full(n, m, "cid"); err != nil {
		return kit.Fail("final: %v", err)
	}
	if err := checkAsides(); err != nil {
		return kit.Fail("final: %v", err)
	}

	// insertion-order independence (distinct names)
	classes := []string{"start:" + c.Start}
	distinct := m.sorted
	seen := map[string]bool{}
	for _, l := range m.links {
		if seen[l.name] {
			distinct = false
		}
		seen[l.name] = true
	}
	if distinct && len(m.links) >= 2 {
		idx := make([]int, len(m.links))
		for i := range idx {
			idx[i] = i
		}
		sort.SliceStable(idx, func(a, b int) bool { return c.Perm[idx[a]%len(c.Perm)] < c.Perm[idx[b]%len(c.Perm)] })
		// "same data": the node's own Data() value (a nil Data and an empty Data are different
		// dag-pb encodings; Copy() documents nothing about keeping that distinction)
		n2 := merkledag.NodeWithData(n.Data())
		if err := n2.SetCidBuilder(m.prefix); err != nil {
			return kit.Fail("order check: SetCidBuilder: %v", err)
		}
		for k, i := range idx {
			l := m.links[i]
			if err := n2.AddRawLink(l.name, &format.Link{Cid: l.c, Size: l.size}); err != nil {
				return kit.Fail("order check: AddRawLink: %v", err)
			}
			if k == len(idx)/2 {
				n2.Cid() // an observation in the middle of the rebuild
			}
		}
		if !bytes.Equal(n2.RawData(), n.RawData()) || !n2.Cid().Equals(n.Cid()) {
			return kit.Fail("same data and same distinct-named links added in order %v encode differently: %x vs %x", idx, n2.RawData(), n.RawData())
		}
		same := true
		for k, i := range idx {
			if k != i {
				same = false
			}
		}
		if !same {
			classes = append(classes, "order-check:permuted")
		} else {
			classes = append(classes, "order-check:identity")
		}
	}
	if dupNames {
		classes = append(classes, "dup-names")
	}
	if separated {
		classes = append(classes, "obs-between-mutations")
	}
	if refusedSetLinks {
		classes = append(classes, "setlinks-refused")
	}
	if len(asides) > 0 {
		classes = append(classes, "node-set-aside")
		if linkMutAfterAside {
			classes = append(classes, "links-mutated-after-set-aside")
		}
	}
	return kit.Result{NonTrivial: separated && dupNames, Classes: classes}
}

var spec = kit.Spec[Case]{
	Prop: "C11", Name: "main",
	Rule:  "history of <=24 (thorough <=40) mutations/observations on one ProtoNode started fresh, from data, or decoded from sorted/unsorted dag-pb bytes; names from a 9-name alphabet incl. empty; non-trivial = an observation lies between two mutations and at some point two links share a name",
	Quick: 15000, Thorough: 60000,
	Gen: gen, Run: run,
}

func TestProp(t *testing.T) { kit.All(t, spec) }
