// Package c21 checks property C21: the MFS republisher publishes the latest root and never
// regresses; WaitPub returns only after everything handed over before the call is published
// or superseded by a published later value; Close publishes pending work before returning.
//
// The real mfs.Republisher runs inside a testing/synctest bubble (virtual time). A generated
// script of Update / advance / settle / WaitPub (own goroutine) / Close drives it, the publish
// function follows a generated plan (succeed, fail, block for a while, honour or ignore its
// context). Every event is appended to one mutex-ordered log; the oracle is evaluated on
// that log only, so it does not depend on how the Go scheduler interleaves the goroutines.
package c21

import (
	"context"
	"encoding/json"
	"errors"
	"fmt"
	"os"
	"path/filepath"
	"sort"
	"sync"
	"testing"
	"testing/synctest"
	"time"

	"github.com/ipfs/boxo/mfs"
	cid "github.com/ipfs/go-cid"
	mh "github.com/multiformats/go-multihash"
	"pgregory.net/rapid"
	"verif/kit"
)

func TestMain(m *testing.M) { kit.Main(m) }

// hostT is the *testing.T that synctest.Test needs; set by TestProp before any case runs.
var hostT *testing.T

// ---------------------------------------------------------------------------
// case

type Op struct {
	Kind string `json:"kind"`          // update | advance | settle | waitpub | close | burst | waitloop
	Val  int    `json:"val,omitempty"` // update: value id (>= 1)
	Us   int64  `json:"us,omitempty"`  // advance: virtual microseconds
	// burst: N Updates with the fresh values Val..Val+N-1 from a goroutine of their own
	// (the script's later update/burst/close ops wait for it, so there is one updater at a
	// time); waitloop: N sequential WaitPub calls from a goroutine of their own
	N int `json:"n,omitempty"`
}

// Pub is the behaviour of the i-th call of the publish function.
type Pub struct {
	Fail      bool  `json:"fail,omitempty"`
	BlockUs   int64 `json:"block_us,omitempty"`   // stay in the publish function this long
	HonourCtx bool  `json:"honour_ctx,omitempty"` // return ctx.Err() early when the context is cancelled
}

type Case struct {
	ShortUs int64 `json:"short_us"`
	LongUs  int64 `json:"long_us"`
	Initial int   `json:"initial"` // value id passed as lastPublished; 0 = cid.Undef
	Ops     []Op  `json:"ops"`
	Plan    []Pub `json:"plan"` // calls beyond the plan succeed immediately
}

const closeTimeoutUs = 5_000_000 // mfs closeTimeout (5 s), used only to generate boundary values

// Value ids: id 0 is cid.Undef; otherwise id/forms selects the sha2-256 digest and id%forms
// the CID built around it. Ids with the same digest are *alias* CIDs: different values for the
// republisher (cid.Cid equality is version + codec + multihash; MFS itself hands over such
// pairs: NewEmptyRoot gives a CIDv0 root, SetCidBuilder(V1) + Flush the CIDv1 of the same
// node), but equal for anything that compares digests only. Distinct ids are always distinct
// CIDs, so the oracle keeps working on ids.
const forms = 4

func digestOf(id int) int { return id / forms }

// alias reports whether a and b are different values built around the same digest
func alias(a, b int) bool { return a != b && a > 0 && b > 0 && digestOf(a) == digestOf(b) }

func valueCid(id int) cid.Cid {
	if id == 0 {
		return cid.Undef
	}
	h, err := mh.Sum([]byte(fmt.Sprintf("c21-value-%d", digestOf(id))), mh.SHA2_256, -1)
	if err != nil {
		panic(err)
	}
	switch id % forms {
	case 1:
		return cid.NewCidV0(h)
	case 2:
		return cid.NewCidV1(cid.DagProtobuf, h)
	case 3:
		return cid.NewCidV1(cid.DagCBOR, h)
	}
	return cid.NewCidV1(cid.Raw, h)
}

// ---------------------------------------------------------------------------
// generator

func gen(t *rapid.T) Case {
	c := Case{}
	c.ShortUs = rapid.SampledFrom([]int64{1000, 2000, 10_000, 50_000}).Draw(t, "short")
	switch rapid.IntRange(0, 4).Draw(t, "longclass") {
	case 0:
		c.LongUs = c.ShortUs
	case 1:
		c.LongUs = c.ShortUs * 3
	case 2:
		c.LongUs = c.ShortUs*10 + 1000
	case 3:
		c.LongUs = 200_000
	default:
		c.LongUs = 6_000_000 // longer than the Close timeout
	}
	if c.LongUs < c.ShortUs {
		c.LongUs = c.ShortUs
	}
	// ids 1..3 are the three alias forms of digest 0 (id 0 is cid.Undef)
	c.Initial = rapid.SampledFrom([]int{0, 1, 1, 2, 3}).Draw(t, "initial")

	durations := []int64{
		1, c.ShortUs / 2, c.ShortUs - 1, c.ShortUs, c.ShortUs + 1, (c.ShortUs + c.LongUs) / 2,
		c.LongUs - 1, c.LongUs, c.LongUs + 1, 2*c.LongUs + 7, closeTimeoutUs - 1, closeTimeoutUs, closeTimeoutUs + 1,
	}
	nextDigest := 1 // fresh digests; digest 0 belongs to the initial value and its aliases
	// aliasOf returns a different value id with the digest of v
	aliasOf := func(v int) int {
		a := digestOf(v)*forms + (v%forms+rapid.IntRange(1, forms-1).Draw(t, "form"))%forms
		if a == 0 { // digest 0, form 0 is cid.Undef
			a = (v%forms)%(forms-1) + 1
		}
		return a
	}
	var used []int
	if c.Initial != 0 {
		used = append(used, c.Initial)
	}
	n := rapid.IntRange(1, 25).Draw(t, "nops")
	closed := false
	for i := 0; i < n; i++ {
		k := rapid.SampledFrom([]string{"update", "update", "update", "update", "advance", "advance", "advance", "settle", "waitpub", "waitpub", "close", "burst", "waitloop"}).Draw(t, "kind")
		if (k == "burst" || k == "waitloop") && (closed || rapid.Bool().Draw(t, "parallel")) {
			k = "update"
		}
		if k == "close" && (closed || rapid.IntRange(0, 2).Draw(t, "reallyclose") > 0) {
			k = "advance" // keep Close rare and mostly late
		}
		op := Op{Kind: k}
		switch k {
		case "update":
			switch rapid.IntRange(0, 10).Draw(t, "valclass") {
			case 0: // same value as the previous update / the initial value
				if len(used) > 0 {
					op.Val = used[len(used)-1]
				}
			case 1: // some earlier value (goes back and forth)
				if len(used) > 0 {
					op.Val = rapid.SampledFrom(used).Draw(t, "old")
				}
			case 2, 3: // alias of the previous update / the initial value: same digest, other CID
				if len(used) > 0 {
					op.Val = aliasOf(used[len(used)-1])
				}
			case 4: // alias of some earlier value
				if len(used) > 0 {
					op.Val = aliasOf(rapid.SampledFrom(used).Draw(t, "old"))
				}
			}
			if op.Val == 0 {
				op.Val = nextDigest*forms + rapid.IntRange(0, forms-1).Draw(t, "form")
				nextDigest++
			}
			used = append(used, op.Val)
		case "burst":
			// consecutive ids: every digest comes in all its alias forms, back to back
			op.N = rapid.IntRange(2, 60).Draw(t, "n")
			op.Val = nextDigest * forms
			nextDigest += (op.N + forms - 1) / forms
			used = append(used, op.Val+op.N-1)
		case "waitloop":
			op.N = rapid.IntRange(2, 30).Draw(t, "n")
		case "advance":
			op.Us = rapid.SampledFrom(durations).Draw(t, "us")
			if op.Us < 1 {
				op.Us = 1
			}
		case "close":
			closed = true
		}
		c.Ops = append(c.Ops, op)
	}
	np := rapid.IntRange(0, 6).Draw(t, "nplan")
	for i := 0; i < np; i++ {
		p := Pub{}
		switch rapid.IntRange(0, 5).Draw(t, "pubclass") {
		case 0, 1:
			p.Fail = true
		case 2:
			p.BlockUs = rapid.SampledFrom(durations).Draw(t, "block")
		case 3:
			p.BlockUs = rapid.SampledFrom(durations).Draw(t, "block")
			p.Fail = true
		}
		if p.BlockUs > 0 {
			p.HonourCtx = rapid.Bool().Draw(t, "honour")
		}
		c.Plan = append(c.Plan, p)
	}
	return c
}

// ---------------------------------------------------------------------------
// event log

type event struct {
	kind string // update | pubStart | pubEnd | waitCall | waitRet | closeCall | closeRet
	val  int    // update / pub*: value id
	id   int    // pub*: call index; wait*: waiter index
	ok   bool   // pubEnd: success; waitRet/closeRet: returned nil
	err  string
	at   time.Duration // virtual time since the start of the case (diagnostics only)
}

type recorder struct {
	mu     sync.Mutex
	events []event
	start  time.Time
}

func (r *recorder) add(e event) {
	r.mu.Lock()
	e.at = time.Since(r.start)
	r.events = append(r.events, e)
	r.mu.Unlock()
}

// ---------------------------------------------------------------------------
// execution inside the bubble

const hangLimit = time.Hour // virtual

func execute(c Case) (events []event, hang string) {
	ids := map[string]int{}
	idOf := func(v cid.Cid) int {
		if id, ok := ids[v.KeyString()]; ok {
			return id
		}
		return -1 // a value that was never handed to the republisher
	}
	for _, op := range c.Ops {
		switch op.Kind {
		case "update":
			ids[valueCid(op.Val).KeyString()] = op.Val
		case "burst":
			for i := 0; i < op.N; i++ {
				ids[valueCid(op.Val+i).KeyString()] = op.Val + i
			}
		}
	}
	if c.Initial != 0 {
		ids[valueCid(c.Initial).KeyString()] = c.Initial
	}

	synctest.Test(hostT, func(t *testing.T) {
		rec := &recorder{start: time.Now()}
		var callMu sync.Mutex
		calls := 0
		pf := func(ctx context.Context, v cid.Cid) error {
			callMu.Lock()
			i := calls
			calls++
			callMu.Unlock()
			p := Pub{}
			if i < len(c.Plan) {
				p = c.Plan[i]
			}
			id := idOf(v)
			rec.add(event{kind: "pubStart", val: id, id: i})
			if p.BlockUs > 0 {
				d := time.Duration(p.BlockUs) * time.Microsecond
				if p.HonourCtx {
					tm := time.NewTimer(d)
					select {
					case <-tm.C:
					case <-ctx.Done():
						tm.Stop()
						rec.add(event{kind: "pubEnd", val: id, id: i, ok: false, err: "context cancelled"})
						return ctx.Err()
					}
				} else {
					time.Sleep(d)
				}
			}
			rec.add(event{kind: "pubEnd", val: id, id: i, ok: !p.Fail})
			if p.Fail {
				return errors.New("planned publish failure")
			}
			return nil
		}

		rp := mfs.NewRepublisher(pf, time.Duration(c.ShortUs)*time.Microsecond, time.Duration(c.LongUs)*time.Microsecond, valueCid(c.Initial))
		waitCtx, cancelWaits := context.WithCancel(context.Background())
		var waiters sync.WaitGroup
		nwait := 0
		closed := false

		// doClose runs Close with a virtual-time watchdog: every publish call of the plan is
		// finite, so a Close that has not returned after an hour of virtual time never will.
		doClose := func() bool {
			rec.add(event{kind: "closeCall"})
			done := make(chan error, 1)
			go func() { done <- rp.Close() }()
			select {
			case err := <-done:
				e := event{kind: "closeRet", ok: err == nil}
				if err != nil {
					e.err = err.Error()
				}
				rec.add(e)
				return true
			case <-time.After(hangLimit):
				return false
			}
		}

		update := func(v int) {
			rec.add(event{kind: "update", val: v})
			rp.Update(valueCid(v))
			rec.add(event{kind: "updated", val: v})
		}
		waitpub := func() {
			rec.mu.Lock()
			id := nwait
			nwait++
			rec.mu.Unlock()
			rec.add(event{kind: "waitCall", id: id})
			err := rp.WaitPub(waitCtx)
			e := event{kind: "waitRet", id: id, ok: err == nil}
			if err != nil {
				e.err = err.Error()
			}
			rec.add(e)
		}
		var updater sync.WaitGroup // the burst goroutine, if one is running

		for _, op := range c.Ops {
			switch op.Kind {
			case "update":
				updater.Wait()
				update(op.Val)
			case "burst":
				updater.Wait()
				updater.Add(1)
				go func() {
					defer updater.Done()
					for i := 0; i < op.N; i++ {
						update(op.Val + i)
					}
				}()
			case "waitloop":
				waiters.Add(1)
				go func() {
					defer waiters.Done()
					for i := 0; i < op.N && waitCtx.Err() == nil; i++ {
						waitpub()
					}
				}()
			case "advance":
				time.Sleep(time.Duration(op.Us) * time.Microsecond)
			case "settle":
				synctest.Wait()
			case "waitpub":
				// the call is logged here, in script order, before the goroutine starts
				rec.mu.Lock()
				id := nwait
				nwait++
				rec.mu.Unlock()
				rec.add(event{kind: "waitCall", id: id})
				waiters.Add(1)
				go func() {
					defer waiters.Done()
					err := rp.WaitPub(waitCtx)
					e := event{kind: "waitRet", id: id, ok: err == nil}
					if err != nil {
						e.err = err.Error()
					}
					rec.add(e)
				}()
			case "close":
				updater.Wait()
				if !doClose() {
					hang = "Close did not return within one hour of virtual time although every publish call had returned"
				}
				closed = true
			}
			if hang != "" {
				break
			}
		}
		if hang == "" {
			// quiescence: all timers fire, all planned failures are retried
			updater.Wait()
			time.Sleep(hangLimit)
			synctest.Wait()
			rec.add(event{kind: "quiescent"})
			if !closed {
				// all goroutines must be gone before the bubble ends
				if !doClose() {
					hang = "Close did not return within one hour of virtual time although every publish call had returned"
				}
			} else {
				rp.Close() // second Close: returns at once
			}
		}
		if hang != "" {
			// the republisher goroutine cannot be stopped from outside: the bubble can never
			// end. Report from here (see reportHang).
			rec.mu.Lock()
			events = append([]event(nil), rec.events...)
			rec.mu.Unlock()
			reportHang(c, hang, events)
		}
		cancelWaits()
		waiters.Wait()
		rec.mu.Lock()
		events = append([]event(nil), rec.events...)
		rec.mu.Unlock()
	})
	return events, hang
}

// reportHang is the only way out when Close never returns: goroutines of the library stay
// blocked inside the synctest bubble, which then cannot finish (the runtime would panic with
// "deadlock: main bubble goroutine has exited but blocked goroutines remain" in a goroutine
// no recover can reach). Termination of Close is part of the property ("Close ... before
// returning"), so this is reported as a property failure in the driver's protocol.
func reportHang(c Case, msg string, events []event) {
	out := os.Getenv("VERIF_OUT")
	if out == "" {
		out = filepath.Join(kit.Root(), "out")
	}
	os.MkdirAll(out, 0o755)
	cj, _ := json.Marshal(c)
	doc, _ := json.MarshalIndent(map[string]any{"property": "C21", "check": "main", "error": msg + "\n" + dump(events), "case": json.RawMessage(cj)}, "", " ")
	p := filepath.Join(out, fmt.Sprintf("C21-main-hang-seed%s-s%s.json", os.Getenv("VERIF_SEED_EFF"), kit.Shard()))
	os.WriteFile(p, doc, 0o644)
	fmt.Printf("property C21 violated: %s\nVERIF-FAIL property=C21 check=main replay=%s\n", msg, p)
	os.Exit(1)
}

func dump(events []event) string {
	s := ""
	for i, e := range events {
		s += fmt.Sprintf("  %2d %-10s val=%d id=%d ok=%v t=%v %s\n", i, e.kind, e.val, e.id, e.ok, e.at, e.err)
		if i > 80 {
			s += "  ...\n"
			break
		}
	}
	return s
}

// ---------------------------------------------------------------------------
// oracle over the log

func run(c Case) kit.Result {
	events, _ := execute(c)

	// u[0] is the value the republisher was told is already published; u[1..] the updates
	u := []int{c.Initial}
	fail := func(format string, a ...any) kit.Result {
		return kit.Fail("%s\nlog:\n%s", fmt.Sprintf(format, a...), dump(events))
	}

	returned := 0                          // number of Update calls that have returned so far
	issueAt, retAt := []int{-1}, []int{-1} // event index of the begin / return of Update #k (k >= 1)
	issued := 0                            // number of Update calls begun so far
	last := c.Initial                      // value of the last successful publish (or the initial value)
	sIdx := 0                              // smallest index consistent with the successful publishes so far
	inFlight := -1                         // call index of a publish function call in progress
	lastEndFailed := false
	type waitInfo struct{ k, at int }
	waits := map[int]waitInfo{}
	closeK, closeCalled, closeReturned := 0, false, false
	closeExcuse := false
	quiescentSeen := false
	classes := map[string]bool{}
	failThenUpdate, waitOverlapsUpdate, aliasPublished := false, false, false
	sawFailure := false
	openWaits := 0

	// among reports whether value v equals some u[j] with lo <= j <= issued (lo >= 1)
	among := func(v, lo int) bool {
		for j := lo; j <= issued; j++ {
			if u[j] == v {
				return true
			}
		}
		return false
	}
	var pubStartAt time.Duration

	for idx, e := range events {
		switch e.kind {
		case "update":
			u = append(u, e.val)
			issued++
			issueAt, retAt = append(issueAt, idx), append(retAt, len(events))
			if sawFailure {
				failThenUpdate = true
			}
			if openWaits > 0 {
				waitOverlapsUpdate = true
			}
			if alias(e.val, last) {
				classes["update:alias-of-last-published"] = true
			}
			if issued >= 2 && alias(e.val, u[issued-1]) {
				classes["update:alias-of-previous-update"] = true
			}
		case "updated":
			returned++
			retAt[returned] = idx
		case "pubStart":
			if closeReturned {
				return fail("the publish function was called after Close had returned")
			}
			if inFlight >= 0 {
				return fail("two publish calls in progress at the same time")
			}
			inFlight = e.id
			if e.val < 0 {
				return fail("published a value that was never handed to the republisher")
			}
			// no regression: the value must be u[i] for some sIdx <= i <= issued
			found := -1
			for i := sIdx; i <= issued; i++ {
				if u[i] == e.val {
					found = i
					break
				}
			}
			if found < 0 {
				return fail("publish call %d publishes value %d, which is older than value %d that was already published (updates so far: %v)", e.id, e.val, last, u[1:])
			}
			pubStartAt = e.at
		case "pubEnd":
			if inFlight != e.id {
				return fail("harness: unmatched pubEnd")
			}
			inFlight = -1
			if e.ok {
				for i := sIdx; i <= issued; i++ {
					if u[i] == e.val {
						sIdx = i
						break
					}
				}
				if alias(e.val, last) {
					// the boundary of "unless it equals the last published one": same digest,
					// different CID, has to be published
					aliasPublished = true
					classes["publish:alias-of-last-published"] = true
				}
				last = e.val
				lastEndFailed = false
				classes["publish:ok"] = true
			} else {
				lastEndFailed = true
				sawFailure = true
				classes["publish:failed"] = true
			}
			if closeCalled && !closeReturned && (!e.ok || e.at > pubStartAt) {
				// a failing or blocking publish while Close waits can make it time out
				closeExcuse = true
			}
		case "waitCall":
			waits[e.id] = waitInfo{k: returned, at: idx}
			openWaits++
		case "waitRet":
			openWaits--
			if !e.ok {
				classes["waitpub:ctx-error"] = true
				continue
			}
			classes["waitpub:returned"] = true
			k := waits[e.id].k
			if k >= 1 && !among(last, k) {
				res := fail("WaitPub #%d returned nil, but update #%d (value %d), handed over before the call, is neither published nor superseded by a published later value: last published value is %d", e.id, k, u[k], last)
				// signature of known finding UPDATE-WINDOW: an Update call was in progress at
				// some moment between this WaitPub's call and its return
				for j := 1; j <= issued; j++ {
					if issueAt[j] < idx && retAt[j] > waits[e.id].at {
						res.Known = updateWindow
					}
				}
				return res
			}
		case "closeCall":
			if !closeCalled {
				closeCalled = true
				closeK = returned
				// a publish in progress or a failed publish awaiting its retry can make Close time out
				closeExcuse = inFlight >= 0 || lastEndFailed
			}
		case "closeRet":
			if closeReturned {
				continue
			}
			closeReturned = true
			if inFlight >= 0 {
				return fail("Close returned while a publish call was still in progress")
			}
			if e.ok {
				classes["close:nil"] = true
				if closeK >= 1 && !among(last, closeK) {
					return fail("Close returned nil, but the pending update #%d (value %d) was not published: last published value is %d", closeK, u[closeK], last)
				}
			} else {
				classes["close:error"] = true
				if !closeExcuse {
					return fail("Close returned %q although no publish call failed or was in progress while it waited", e.err)
				}
				if closeK == 0 || among(last, closeK) {
					classes["close:error-nothing-pending"] = true
				}
			}
		case "quiescent":
			quiescentSeen = true
			if !closeCalled && issued >= 1 && last != u[issued] {
				return fail("after all timers fired and every planned publish failure was retried, the last published value is %d but the most recent update is %d", last, u[issued])
			}
		}
	}
	if !quiescentSeen {
		return fail("harness: the case did not reach quiescence")
	}
	if !closeReturned {
		return fail("harness: Close did not return")
	}
	if openWaits > 0 {
		classes["waitpub:never-returned"] = true
	}
	if failThenUpdate {
		classes["failure-then-update"] = true
	}
	if waitOverlapsUpdate {
		classes["waitpub-overlaps-update"] = true
	}
	var cls []string
	for k := range classes {
		cls = append(cls, k)
	}
	sort.Strings(cls)
	return kit.Result{NonTrivial: failThenUpdate || waitOverlapsUpdate || aliasPublished, Classes: cls}
}

// Known finding UPDATE-WINDOW: Republisher.Update replaces the pending value by draining the
// one-slot channel and then sending the new value. Between the two steps the channel is
// empty; a WaitPub (or Close) request served in that window sees nothing pending and returns
// although the value handed over before it is unpublished and its successor is not published
// yet either. The signature is exactly that: WaitPub returned early while an Update call was
// in progress between its call and its return.
const updateWindow = "UPDATE-WINDOW"

var spec = kit.Spec[Case]{
	Prop: "C21", Name: "main",
	Rule:  "real mfs.Republisher in a synctest bubble; short 1-50 ms, long in {short, 3x, 10x, 200 ms, 6 s}; values are CIDs v0 / v1 dag-pb / v1 dag-cbor / v1 raw around sha2-256 digests, so that different values can share a digest (alias CIDs), also as the initial lastPublished; script <=25 of Update (fresh / repeated / earlier value / alias of the previous or an earlier value) / burst of 2-60 Updates from a goroutine / loop of 2-30 WaitPubs from a goroutine / advance (boundary durations around short, long and the 5 s close timeout) / settle / WaitPub in its own goroutine / Close; publish plan <=6 of ok / fail / block(+-fail, +-honouring ctx); oracle over the mutex-ordered event log; non-trivial = a publish failure followed by an Update, or an Update issued while a WaitPub is outstanding, or a successful publish of an alias of the last published value",
	Quick: 3000, Thorough: 7500,
	Gen: gen, Run: run,
}

func TestProp(t *testing.T) {
	hostT = t
	kit.All(t, spec)
}
