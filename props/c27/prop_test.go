package c27

import (
	"bytes"
	"fmt"
	"testing"
	"time"

	"github.com/ipfs/boxo/ipns"
	"pgregory.net/rapid"
	"verif/kit"
)

func TestMain(m *testing.M) { kit.Main(m) }

type EOL struct {
	Sec  int64 `json:"sec"`
	Nsec int64 `json:"nsec"`
}

// RecIn selects one record of the multiset: indices into the case's small value pools
// (so sequence numbers and expiries collide), whether signatureV2 is stripped, or a
// byte-identical duplicate of an earlier record.
type RecIn struct {
	SeqIdx  int   `json:"seq"`
	EolIdx  int   `json:"eol"`
	ValIdx  int   `json:"val"`
	TTL     int64 `json:"ttl"`
	V1      int   `json:"v1"`
	StripV2 bool  `json:"strip_v2"`
	DupOf   int   `json:"dup_of"` // -1: none
}

type Case struct {
	Key    kit.IpnsKeySpec `json:"key"`
	Seqs   []uint64        `json:"seqs"`
	Eols   []EOL           `json:"eols"`
	Values []string        `json:"values"`
	Recs   []RecIn         `json:"recs"`
	// Perms: the sampled orders used when len(Recs) > 5 (all orders are used otherwise).
	Perms [][]int `json:"perms,omitempty"`
}

func gen(t *rapid.T) Case {
	c := Case{}
	c.Key = kit.IpnsKeySpec{
		Type: rapid.SampledFrom([]string{"ed25519", "ed25519", "ed25519", "ed25519", "secp256k1", "ecdsa", "rsa"}).Draw(t, "keytype"),
		Seed: uint64(rapid.IntRange(0, 3).Draw(t, "keyseed")),
	}
	nseq := rapid.IntRange(1, 3).Draw(t, "nseq")
	for i := 0; i < nseq; i++ {
		c.Seqs = append(c.Seqs, rapid.OneOf(
			rapid.SampledFrom([]uint64{0, 1, 2, 9, 10, 1<<63 - 1, 1 << 63, 1<<64 - 1, 255, 256}),
			rapid.Uint64Range(0, 20),
			rapid.Uint64(),
		).Draw(t, "seq"))
	}
	// expiries: one base second and close neighbours, so that time order and string order disagree
	base := rapid.Int64Range(4102444800, kit.IpnsMaxEOL-86400-2).Draw(t, "eolbase")
	neol := rapid.IntRange(1, 3).Draw(t, "neol")
	for i := 0; i < neol; i++ {
		e := rapid.SampledFrom([]EOL{
			{base, 0}, {base, 1}, {base, 500000000}, {base, 999999999}, {base, 120000000}, {base + 1, 0}, {base + 1, 5000},
			{kit.IpnsMaxEOL, 0}, {kit.IpnsMaxEOL, 999999999}, {4102444800, 0}, {base + 86400, 0},
		}).Draw(t, "eol")
		c.Eols = append(c.Eols, e)
	}
	c.Values = []string{kit.IpnsValuePaths().Draw(t, "v0"), kit.IpnsValuePaths().Draw(t, "v1")}
	n := rapid.IntRange(1, 8).Draw(t, "n")
	for i := 0; i < n; i++ {
		r := RecIn{DupOf: -1}
		if i > 0 && rapid.IntRange(0, 5).Draw(t, "dup") == 0 {
			r.DupOf = rapid.IntRange(0, i-1).Draw(t, "dupof")
		}
		r.SeqIdx = rapid.IntRange(0, nseq-1).Draw(t, "si")
		r.EolIdx = rapid.IntRange(0, neol-1).Draw(t, "ei")
		r.ValIdx = rapid.IntRange(0, 1).Draw(t, "vi")
		r.TTL = rapid.SampledFrom([]int64{0, int64(time.Minute), int64(time.Hour)}).Draw(t, "ttl")
		r.V1 = rapid.SampledFrom([]int{0, 2}).Draw(t, "v1")
		r.StripV2 = rapid.IntRange(0, 3).Draw(t, "strip") == 0
		c.Recs = append(c.Recs, r)
	}
	if n > 5 {
		idx := make([]int, n)
		for i := range idx {
			idx[i] = i
		}
		for k := 0; k < 20; k++ {
			c.Perms = append(c.Perms, rapid.Permutation(idx).Draw(t, "perm"))
		}
	}
	return c
}

type built struct {
	bytes []byte
	hasV2 bool
	seq   uint64
	eol   time.Time
}

// better reports whether a is strictly greater than b in the stated order:
// (has v2 signature, sequence number, expiry), ties broken by record bytes.
func better(a, b built) bool {
	if a.hasV2 != b.hasV2 {
		return a.hasV2
	}
	if a.seq != b.seq {
		return a.seq > b.seq
	}
	if !a.eol.Equal(b.eol) {
		return a.eol.After(b.eol)
	}
	return bytes.Compare(a.bytes, b.bytes) > 0
}

func allPerms(n int) [][]int {
	var out [][]int
	p := make([]int, n)
	for i := range p {
		p[i] = i
	}
	var rec func(k int)
	rec = func(k int) {
		if k == n {
			out = append(out, append([]int(nil), p...))
			return
		}
		for i := k; i < n; i++ {
			p[k], p[i] = p[i], p[k]
			rec(k + 1)
			p[k], p[i] = p[i], p[k]
		}
	}
	rec(0)
	return out
}

func validPerm(p []int, n int) bool {
	if len(p) != n {
		return false
	}
	seen := make([]bool, n)
	for _, x := range p {
		if x < 0 || x >= n || seen[x] {
			return false
		}
		seen[x] = true
	}
	return true
}

func run(c Case) kit.Result {
	n := len(c.Recs)
	if n == 0 || len(c.Seqs) == 0 || len(c.Eols) == 0 || len(c.Values) == 0 {
		return kit.Fail("harness: empty case")
	}
	var recs []built
	var name ipns.Name
	for i, r := range c.Recs {
		if r.DupOf >= 0 && r.DupOf < i {
			recs = append(recs, recs[r.DupOf])
			continue
		}
		e := c.Eols[r.EolIdx%len(c.Eols)]
		spec := kit.IpnsRecSpec{Key: c.Key, Value: c.Values[r.ValIdx%len(c.Values)], Seq: c.Seqs[r.SeqIdx%len(c.Seqs)],
			EOLSec: e.Sec, EOLNsec: e.Nsec, TTL: r.TTL, V1: r.V1}
		b, err := spec.Build(time.Unix(0, 0))
		if err != nil {
			return kit.Fail("harness: cannot build record %d: %v", i, err)
		}
		name = b.Name
		x := built{bytes: b.Bytes, hasV2: true, seq: spec.Seq, eol: b.EOL}
		if r.StripV2 {
			fs, err := kit.PBParse(b.Bytes)
			if err != nil {
				return kit.Fail("harness: record bytes do not parse: %v", err)
			}
			var keep []kit.PBField
			for _, f := range fs {
				if f.Num != 8 {
					keep = append(keep, f)
				}
			}
			x.bytes = kit.PBEncode(keep)
			x.hasV2 = false
		}
		recs = append(recs, x)
	}
	// reference maximum
	best := recs[0]
	for _, r := range recs[1:] {
		if better(r, best) {
			best = r
		}
	}
	perms := c.Perms
	if n <= 5 {
		perms = allPerms(n)
	}
	rk := string(name.RoutingKey())
	used := 0
	for _, p := range perms {
		if !validPerm(p, n) {
			continue
		}
		used++
		vals := make([][]byte, n)
		for i, j := range p {
			vals[i] = recs[j].bytes
		}
		idx, err := (ipns.Validator{}).Select(rk, vals)
		if err != nil {
			return kit.Fail("Select failed on parseable records (order %v): %v", p, err)
		}
		if idx < 0 || idx >= n {
			return kit.Fail("Select returned index %d for %d records", idx, n)
		}
		if !bytes.Equal(vals[idx], best.bytes) {
			got := recs[p[idx]]
			return kit.Fail("order %v: Select picked record #%d (v2=%v seq=%d eol=%s), the maximal record is (v2=%v seq=%d eol=%s); bytes differ",
				p, p[idx], got.hasV2, got.seq, got.eol.Format(time.RFC3339Nano), best.hasV2, best.seq, best.eol.Format(time.RFC3339Nano))
		}
	}
	if used == 0 {
		return kit.Fail("harness: no valid permutation in the case")
	}
	// classification
	ties, tieAtMax := false, false
	for i := range recs {
		for j := i + 1; j < len(recs); j++ {
			a, b := recs[i], recs[j]
			if a.seq == b.seq && a.eol.Equal(b.eol) && !bytes.Equal(a.bytes, b.bytes) {
				ties = true
				if a.hasV2 == best.hasV2 && a.seq == best.seq && a.eol.Equal(best.eol) && a.hasV2 == b.hasV2 {
					tieAtMax = true
				}
			}
		}
	}
	cls := []string{"key:" + c.Key.Type, fmt.Sprintf("n:%d", n)}
	if ties {
		cls = append(cls, "tie")
	}
	if tieAtMax {
		cls = append(cls, "tie-at-max")
	}
	nov2 := 0
	for _, r := range recs {
		if !r.hasV2 {
			nov2++
		}
	}
	switch {
	case nov2 == 0:
		cls = append(cls, "v2:all")
	case nov2 == n:
		cls = append(cls, "v2:none")
	default:
		cls = append(cls, "v2:mixed")
	}
	return kit.Result{NonTrivial: ties, Classes: cls}
}

var spec = kit.Spec[Case]{
	Prop: "C27", Name: "main",
	Rule:  "1..8 records of one key with sequence numbers / expiries / values drawn from pools of 1-3 (forced ties; expiries differing by nanoseconds), some with signatureV2 stripped, some byte-identical duplicates; Validator.Select under all orders (n<=5) or 20 sampled orders must return bytes equal to the reference maximum of (hasV2, seq, expiry, bytes); non-trivial = at least two distinct records tie on (seq, expiry)",
	Quick: 2500, Thorough: 15000,
	Gen: gen, Run: run,
	Sample: func(c Case) any {
		return map[string]any{"key": c.Key, "seqs": c.Seqs, "eols": c.Eols, "recs": c.Recs}
	},
}

func TestProp(t *testing.T) { kit.All(t, spec) }
