package c14

// C14: DAG diff applied to the source reproduces the target.
//
// Two dag-pb directory trees a and b (b derived from a by a generated edit script: add, remove,
// replace file, replace subtree, nested edits, and - as a separately classed edit -
// type-changing replacements file <-> directory) are stored in one DAG service. Oracle:
//   ApplyChange(a, Diff(a, b)).Cid() == b.Cid();  Diff(a, a) and Diff(b, b) are empty.
//
// Domain (from the statement "dag-pb directory trees" and the way UnixFS builds them): every
// directory node carries the same Data (UnixFS type Directory) and the same CID prefix, entry
// names are distinct within a directory, non-empty and free of '/', files are dag-pb leaves,
// link sizes are the cumulative sizes AddNodeLink computes.

import (
	"bytes"
	"context"
	"errors"
	"fmt"
	"os"
	"sort"
	"strings"
	"testing"

	"github.com/ipfs/boxo/ipld/merkledag"
	"github.com/ipfs/boxo/ipld/merkledag/dagutils"
	cid "github.com/ipfs/go-cid"
	format "github.com/ipfs/go-ipld-format"
	mh "github.com/multiformats/go-multihash"
	"pgregory.net/rapid"
	"verif/kit"
)

func TestMain(m *testing.M) { kit.Main(m) }

// T is a directory entry: a file (Data) or a directory (Kids).
type T struct {
	Name string `json:"name"`
	Dir  bool   `json:"dir,omitempty"`
	Data []byte `json:"data,omitempty"`
	V1   bool   `json:"v1,omitempty"` // files only: CIDv1 instead of the tree's prefix version
	Kids []T    `json:"kids,omitempty"`
}

type Case struct {
	A     T        `json:"a"` // root directories (Name ignored)
	B     T        `json:"b"`
	DirV1 bool     `json:"dir_v1"` // CID version of all directory nodes
	Edits []string `json:"edits"`  // description of the edit script that produced B (informational)
}

var dirData = []byte{0x08, 0x01} // UnixFS Data{Type: Directory}

// ---------------------------------------------------------------------------
// generator

func genFile(t *rapid.T, name string) T {
	return T{Name: name, Data: kit.Bytes(40).Draw(t, "filedata"), V1: rapid.Bool().Draw(t, "filev1")}
}

func freshName(t *rapid.T, used map[string]bool) string {
	for i := 0; ; i++ {
		var n string
		if i < 4 {
			n = kit.Names().Draw(t, "name")
		} else {
			n = fmt.Sprintf("n%d", len(used)+i)
		}
		if !used[n] {
			used[n] = true
			return n
		}
	}
}

func genDir(t *rapid.T, name string, depth int, budget *int) T {
	d := T{Name: name, Dir: true}
	if depth <= 0 || *budget <= 0 {
		return d
	}
	n := max(rapid.IntRange(0, 6).Draw(t, "fanout"), rapid.IntRange(0, 3).Draw(t, "fanout2"))
	used := map[string]bool{}
	for i := 0; i < n && *budget > 0; i++ {
		*budget--
		nm := freshName(t, used)
		if rapid.Bool().Draw(t, "isdir") {
			d.Kids = append(d.Kids, genDir(t, nm, depth-1, budget))
		} else {
			d.Kids = append(d.Kids, genFile(t, nm))
		}
	}
	return d
}

func clone(x T) T {
	y := x
	y.Data = append([]byte(nil), x.Data...)
	y.Kids = nil
	for _, k := range x.Kids {
		y.Kids = append(y.Kids, clone(k))
	}
	return y
}

// pickDir walks down from d through directory entries and returns the chosen directory and its path.
func pickDir(t *rapid.T, d *T, path string, levels int) (*T, string, int) {
	depth := 0
	for ; levels > 0; levels-- {
		var dirs []int
		for i := range d.Kids {
			if d.Kids[i].Dir {
				dirs = append(dirs, i)
			}
		}
		if len(dirs) == 0 || rapid.IntRange(0, 3).Draw(t, "stop") == 3 {
			break
		}
		i := dirs[rapid.IntRange(0, len(dirs)-1).Draw(t, "descend")]
		d = &d.Kids[i]
		path += "/" + d.Name
		depth++
	}
	return d, path, depth
}

func gen(t *rapid.T) Case {
	c := Case{DirV1: rapid.Bool().Draw(t, "dirv1"), Edits: []string{}}
	budget := kit.Scale(30, 60)
	// (maximum of two draws: rapid favours small values, deep trees should be frequent)
	c.A = genDir(t, "", max(rapid.IntRange(1, 4).Draw(t, "depth"), rapid.IntRange(1, 4).Draw(t, "depth2")), &budget)
	c.B = clone(c.A)
	ne := max(rapid.IntRange(0, 6).Draw(t, "nedits"), rapid.IntRange(0, 6).Draw(t, "nedits2"))
	typeChanges := rapid.IntRange(0, 5).Draw(t, "typechanges") == 0
	for e := 0; e < ne; e++ {
		d, path, depth := pickDir(t, &c.B, "", 3)
		used := map[string]bool{}
		for _, k := range d.Kids {
			used[k.Name] = true
		}
		ops := []string{"add", "addfile", "remove", "replacefile", "replacesub", "emptyswap"}
		if typeChanges {
			ops = append(ops, "typechange", "typechange")
		}
		op := rapid.SampledFrom(ops).Draw(t, "edit")
		if len(d.Kids) == 0 || (len(d.Kids) >= 6 && strings.HasPrefix(op, "add")) {
			if len(d.Kids) >= 6 {
				op = "remove"
			} else {
				op = "add"
			}
		}
		sub := 8
		switch op {
		case "add":
			if depth < 3 {
				d.Kids = append(d.Kids, genDir(t, freshName(t, used), rapid.IntRange(0, 3-depth).Draw(t, "subdepth"), &sub))
			} else {
				d.Kids = append(d.Kids, genFile(t, freshName(t, used)))
			}
		case "addfile":
			d.Kids = append(d.Kids, genFile(t, freshName(t, used)))
		case "remove":
			i := rapid.IntRange(0, len(d.Kids)-1).Draw(t, "victim")
			path += "/" + d.Kids[i].Name
			d.Kids = append(d.Kids[:i:i], d.Kids[i+1:]...)
		default:
			i := rapid.IntRange(0, len(d.Kids)-1).Draw(t, "target")
			k := &d.Kids[i]
			path += "/" + k.Name
			switch op {
			case "replacefile": // file by a different file; a directory by a different subtree
				if !k.Dir {
					*k = genFile(t, k.Name)
				} else {
					*k = genDir(t, k.Name, min(2, 3-depth), &sub)
				}
			case "replacesub":
				if k.Dir {
					*k = genDir(t, k.Name, min(2, 3-depth), &sub)
				} else {
					*k = genFile(t, k.Name)
				}
			case "emptyswap": // file <-> empty directory, non-empty directory -> empty directory
				if k.Dir {
					if len(k.Kids) == 0 {
						*k = genFile(t, k.Name)
					} else {
						k.Kids = nil
					}
				} else {
					*k = T{Name: k.Name, Dir: true}
				}
			case "typechange": // file <-> non-empty directory
				if k.Dir {
					*k = genFile(t, k.Name)
				} else {
					nd := T{Name: k.Name, Dir: true}
					u := map[string]bool{}
					for j := rapid.IntRange(1, 3).Draw(t, "nkids"); j > 0; j-- {
						nd.Kids = append(nd.Kids, genFile(t, freshName(t, u)))
					}
					*k = nd
				}
			}
		}
		c.Edits = append(c.Edits, op+" "+path)
	}
	return c
}

// ---------------------------------------------------------------------------
// building

func prefix(v1 bool) cid.Prefix {
	if v1 {
		return cid.Prefix{Version: 1, Codec: cid.DagProtobuf, MhType: mh.SHA2_256, MhLength: -1}
	}
	return cid.Prefix{Version: 0, Codec: cid.DagProtobuf, MhType: mh.SHA2_256, MhLength: -1}
}

func build(ctx context.Context, ds format.DAGService, x T, dirV1 bool, all map[cid.Cid]bool) (*merkledag.ProtoNode, error) {
	var n *merkledag.ProtoNode
	if !x.Dir {
		d := x.Data
		if d == nil {
			d = []byte{}
		}
		n = merkledag.NodeWithData(d)
		if err := n.SetCidBuilder(prefix(dirV1 || x.V1)); err != nil {
			return nil, err
		}
	} else {
		n = merkledag.NodeWithData(dirData)
		if err := n.SetCidBuilder(prefix(dirV1)); err != nil {
			return nil, err
		}
		seen := map[string]bool{}
		for _, k := range x.Kids {
			if k.Name == "" || strings.Contains(k.Name, "/") || k.Name == "." || k.Name == ".." || seen[k.Name] {
				return nil, fmt.Errorf("harness: bad entry name %q", k.Name)
			}
			seen[k.Name] = true
			ch, err := build(ctx, ds, k, dirV1, all)
			if err != nil {
				return nil, err
			}
			if err := n.AddNodeLink(k.Name, ch); err != nil {
				return nil, err
			}
		}
	}
	if err := ds.Add(ctx, n); err != nil {
		return nil, err
	}
	all[n.Cid()] = true
	return n, nil
}

// ---------------------------------------------------------------------------
// model-level comparison (classification only)

type delta struct {
	paths      []string // differing paths
	depths     map[int]bool
	typeChange bool // file <-> non-empty directory at a path present in both trees
	kinds      map[string]bool
}

func equalT(a, b T) bool {
	if a.Dir != b.Dir || a.Name != b.Name {
		return false
	}
	if !a.Dir {
		return bytes.Equal(a.Data, b.Data) && a.V1 == b.V1
	}
	if len(a.Kids) != len(b.Kids) {
		return false
	}
	am := map[string]T{}
	for _, k := range a.Kids {
		am[k.Name] = k
	}
	for _, k := range b.Kids {
		o, ok := am[k.Name]
		if !ok || !equalT(o, k) {
			return false
		}
	}
	return true
}

func compare(a, b T, path string, depth int, d *delta) {
	am := map[string]T{}
	for _, k := range a.Kids {
		am[k.Name] = k
	}
	bm := map[string]bool{}
	for _, kb := range b.Kids {
		bm[kb.Name] = true
		ka, ok := am[kb.Name]
		p := path + "/" + kb.Name
		switch {
		case !ok:
			d.paths, d.depths[depth] = append(d.paths, p), true
			d.kinds["add"] = true
		case equalT(ka, kb):
		case ka.Dir && kb.Dir && len(ka.Kids) > 0 && len(kb.Kids) > 0:
			d.kinds["nested"] = true
			compare(ka, kb, p, depth+1, d)
		default:
			d.paths, d.depths[depth] = append(d.paths, p), true
			switch {
			case ka.Dir != kb.Dir && (len(ka.Kids) > 0 || len(kb.Kids) > 0):
				d.typeChange = true
				d.kinds["typechange"] = true
			case ka.Dir != kb.Dir:
				d.kinds["file<->emptydir"] = true
			case ka.Dir:
				d.kinds["dir<->emptydir"] = true
			default:
				d.kinds["replacefile"] = true
			}
		}
	}
	for _, ka := range a.Kids {
		if !bm[ka.Name] {
			d.paths, d.depths[depth] = append(d.paths, path+"/"+ka.Name), true
			d.kinds["remove"] = true
		}
	}
}

// normalise makes the model trees comparable: in a CIDv1 tree the per-file flag has no effect.
func normalise(x T, dirV1 bool) T {
	y := clone(x)
	if !y.Dir {
		y.V1 = y.V1 || dirV1
	}
	for i := range y.Kids {
		y.Kids[i] = normalise(y.Kids[i], dirV1)
	}
	return y
}

// ---------------------------------------------------------------------------
// run

func describe(cs []*dagutils.Change) string {
	var out []string
	for _, c := range cs {
		out = append(out, c.String())
	}
	return "[" + strings.Join(out, "; ") + "]"
}

func run(c Case) kit.Result {
	if !c.A.Dir || !c.B.Dir {
		return kit.Fail("harness: roots must be directories")
	}
	ctx := context.Background()
	ds := dagutils.NewMemoryDagService()
	treeCids := map[cid.Cid]bool{} // every block of a and of b
	an, err := build(ctx, ds, c.A, c.DirV1, treeCids)
	if err != nil {
		return kit.Fail("%v", err)
	}
	bn, err := build(ctx, ds, c.B, c.DirV1, treeCids)
	if err != nil {
		return kit.Fail("%v", err)
	}
	get := func(ci cid.Cid) (*merkledag.ProtoNode, error) {
		n, err := ds.Get(ctx, ci)
		if err != nil {
			return nil, err
		}
		return n.(*merkledag.ProtoNode), nil
	}
	a, err := get(an.Cid())
	if err != nil {
		return kit.Fail("harness: %v", err)
	}
	b, err := get(bn.Cid())
	if err != nil {
		return kit.Fail("harness: %v", err)
	}
	d := &delta{depths: map[int]bool{}, kinds: map[string]bool{}}
	compare(normalise(c.A, c.DirV1), normalise(c.B, c.DirV1), "", 0, d)

	known := ""
	check := func() error {
		for _, x := range []*merkledag.ProtoNode{a, b} {
			self, err := dagutils.Diff(ctx, ds, x, x)
			if err != nil || len(self) != 0 {
				return fmt.Errorf("Diff(x, x) = %s, %v; expected no changes", describe(self), err)
			}
		}
		changes, err := dagutils.Diff(ctx, ds, a, b)
		if err != nil {
			return fmt.Errorf("Diff(a, b): %v", err)
		}
		if a.Cid().Equals(b.Cid()) {
			if len(changes) != 0 {
				return fmt.Errorf("Diff of identical trees = %s", describe(changes))
			}
			if len(d.paths) != 0 {
				return fmt.Errorf("harness: model trees differ at %v but CIDs are equal", d.paths)
			}
		}
		src, err := get(an.Cid()) // ApplyChange edits the node it is given
		if err != nil {
			return fmt.Errorf("harness: %v", err)
		}
		res, err := dagutils.ApplyChange(ctx, ds, src, changes)
		if err != nil {
			var nf format.ErrNotFound
			if errors.As(err, &nf) && nf.Cid.Defined() && !treeCids[nf.Cid] {
				// The editor lost an intermediate node of its own: after each step it deletes the
				// old version of the modified node from its temporary store, although a block with
				// that CID can still be referenced elsewhere in the edited tree (self-similar trees).
				known = "EDITOR-DROPS-SHARED"
			}
			return fmt.Errorf("ApplyChange(a, Diff(a, b)) failed: %v; changes %s", err, describe(changes))
		}
		if !res.Cid().Equals(b.Cid()) {
			return fmt.Errorf("ApplyChange(a, Diff(a, b)) = %s, b = %s; model differences at %v; changes %s", res.Cid(), b.Cid(), d.paths, describe(changes))
		}
		// the source tree is still intact in the DAG service
		if again, err := get(an.Cid()); err != nil || !again.Cid().Equals(an.Cid()) {
			return fmt.Errorf("source root no longer retrievable after ApplyChange: %v", err)
		}
		return nil
	}
	if err := check(); err != nil {
		if os.Getenv("C14_NO_EXCLUSIONS") != "" { // development aid to validate proposed fixes
			return kit.Result{Err: err}
		}
		if known != "" {
			return kit.Result{Err: err, Known: known}
		}
		if d.typeChange {
			// §7-F7: Diff never compares Data, so a file <-> non-empty-directory replacement is
			// reported as link additions/removals below a node that keeps the old Data.
			return kit.Result{Err: err, Known: "F7"}
		}
		return kit.Result{Err: err}
	}
	cls := []string{fmt.Sprintf("changed-paths:%d", min(len(d.paths), 5))}
	var ks []string
	for k := range d.kinds {
		ks = append(ks, k)
	}
	sort.Strings(ks)
	for _, k := range ks {
		cls = append(cls, "edit:"+k)
	}
	if len(d.paths) == 0 {
		cls = append(cls, "identical")
	}
	return kit.Result{NonTrivial: len(d.paths) >= 2 && len(d.depths) >= 2, Classes: cls}
}

var spec = kit.Spec[Case]{
	Prop: "C14", Name: "main",
	Rule:  "random dag-pb directory tree a (depth <=4, fan-out <=6, <=30 entries; thorough <=60) and b derived by 0..6 random edits (add subtree/file, remove, replace file, replace subtree, empty-dir swaps; in 1/6 of the cases also file<->non-empty-directory); non-trivial = the trees differ at >=2 paths lying at >=2 different depths",
	Quick: 6000, Thorough: 30000,
	Gen: gen, Run: run,
}

func TestProp(t *testing.T) { kit.All(t, spec) }
