package c14

import (
	"context"
	"encoding/json"
	"fmt"
	"os"
	"testing"

	"github.com/ipfs/boxo/ipld/merkledag"
	"github.com/ipfs/boxo/ipld/merkledag/dagutils"
)

func TestZZDbg(t *testing.T) {
	b, _ := os.ReadFile("/verif/out/C14-main-seed20260921-s0.json")
	var d struct{ Case Case }
	json.Unmarshal(b, &d)
	c := d.Case
	ctx := context.Background()
	ds := dagutils.NewMemoryDagService()
	an, _ := build(ctx, ds, c.A, c.DirV1, true)
	bn, _ := build(ctx, ds, c.B, c.DirV1, true)
	changes, _ := dagutils.Diff(ctx, ds, an, bn)
	src, _ := ds.Get(ctx, an.Cid())
	e := dagutils.NewDagEditor(src.(*merkledag.ProtoNode), ds)
	for _, ch := range changes {
		fmt.Println("change", ch.Type, ch.Path)
		if ch.Type == dagutils.Mod || ch.Type == dagutils.Remove {
			err := e.RmLink(ctx, ch.Path)
			fmt.Println("  rmlink:", err, "root now", e.GetNode().Cid())
		}
		if ch.Type == dagutils.Mod || ch.Type == dagutils.Add {
			child, err := ds.Get(ctx, ch.After)
			fmt.Println("  get child:", err)
			err = e.InsertNodeAtPath(ctx, ch.Path, child, nil)
			fmt.Println("  insert:", err, "root now", e.GetNode().Cid())
			for _, l := range e.GetNode().Links() {
				fmt.Println("    root/", l.Name, l.Cid)
			}
		}
	}
	_, err := e.Finalize(ctx, ds)
	fmt.Println("finalize:", err)
}
