// Package c05 checks property C05: the block service returns exactly the requested blocks
// and caches fetched ones.
//
// The exchange is a scripted fake. Its honesty level is part of the case:
//
//	A  honest: delivers any subset of what it was asked for, in any order, with duplicates
//	B  additionally delivers valid (self-consistent) blocks nobody asked for
//	C  additionally delivers the requested CID with wrong bytes, or (GetBlock) another block
//
// Level A is what real exchanges do and must pass. Levels B and C are inside the property's
// quantifier ("malicious exchanges"); failures whose offending block is exactly a malicious
// delivery of the scripted exchange carry the known-finding signatures F20-foreign-cid /
// F20-wrong-bytes, everything else is an ordinary violation.
package c05

import (
	"context"
	"errors"
	"fmt"
	"sort"
	"sync"
	"sync/atomic"
	"testing"

	"github.com/ipfs/boxo/blockservice"
	"github.com/ipfs/boxo/blockstore"
	"github.com/ipfs/boxo/exchange"
	"github.com/ipfs/boxo/verifcid"
	blocks "github.com/ipfs/go-block-format"
	cid "github.com/ipfs/go-cid"
	ds "github.com/ipfs/go-datastore"
	dssync "github.com/ipfs/go-datastore/sync"
	ipld "github.com/ipfs/go-ipld-format"
	"pgregory.net/rapid"
	"verif/kit"
)

func TestMain(m *testing.M) { kit.Main(m) }

const (
	keyForeign = "F20-foreign-cid"
	keyBytes   = "F20-wrong-bytes"
)

type BlockSpec struct {
	Data []byte         `json:"data"`
	P    kit.PrefixSpec `json:"p"`
}

// Req names one requested CID: block Idx of the pool, through its own CID (Alias 0) or the
// Alias-th other CID form with the same multihash (CIDv0 <-> CIDv1 raw / dag-pb).
type Req struct {
	Idx   int `json:"idx"`
	Alias int `json:"alias,omitempty"`
}

// Deliver is one item of the exchange's script for one call.
//
//	ok         the honest block for asked[Sel mod len(asked)]
//	unreq      the pool block Alt under its own CID (honest bytes), whether asked for or not
//	wrongbytes asked[Sel mod len(asked)] with corrupted bytes
//	other      (GetBlock) the pool block Alt instead of the asked one
type Deliver struct {
	Mode string `json:"mode"`
	Sel  int    `json:"sel,omitempty"`
	Alt  int    `json:"alt,omitempty"`
}

type Op struct {
	Kind string `json:"kind"` // get | getmany
	Path string `json:"path"` // direct | session | ctxsession
	Req  []Req  `json:"req"`
	// exchange behaviour during this call
	ExErr   bool      `json:"ex_err,omitempty"` // the exchange call itself fails
	All     string    `json:"all,omitempty"`    // "", "fwd", "rev": first deliver everything asked, honestly, in that order
	Deliver []Deliver `json:"deliver,omitempty"`
	// two-service cases: the call goes to service Svc (0|1). Foreign says whether the context
	// of the call also carries a session of the OTHER service: "" no, "before"/"after" = put
	// there before/after the call's own context preparation (Path ctxsession). ForeignEmbed:
	// through EmbedSessionInContext(ctx, NewSession(ctx, other)) instead of ContextWithSession.
	Svc          int    `json:"svc,omitempty"`
	Foreign      string `json:"foreign,omitempty"`
	ForeignEmbed bool   `json:"foreign_embed,omitempty"`
	// fault injection: during this call Put/PutMany of the called service's blockstore fails
	// for the pool blocks listed here (matched by multihash)
	PutFail []int `json:"put_fail,omitempty"`
}

type Case struct {
	Level           string      `json:"level"` // A | B | C
	SessionExchange bool        `json:"session_exchange"`
	Blocks          []BlockSpec `json:"blocks"`
	Local           []int       `json:"local"` // in the blockstore before the first call
	// Second adds an independent block service 1 (own blockstore holding Local2, own exchange
	// of the same honesty level); every call is judged against the store and exchange of the
	// service it was made on.
	Second bool  `json:"second,omitempty"`
	Local2 []int `json:"local2,omitempty"`
	Ops    []Op  `json:"ops"`
}

// ---------------------------------------------------------------------------
// generator

func genPrefix(t *rapid.T) kit.PrefixSpec {
	switch rapid.IntRange(0, 9).Draw(t, "pclass") {
	case 0: // rejected by the default allowlist: truncated sha2-256, md5
		if rapid.Bool().Draw(t, "md5") {
			return kit.PrefixSpec{Version: 1, Codec: cid.Raw, MhType: 0xd5, MhLength: -1}
		}
		return kit.PrefixSpec{Version: 1, Codec: cid.Raw, MhType: 0x12, MhLength: 16}
	default:
		return kit.Prefixes(true).Draw(t, "prefix")
	}
}

func genCase(t *rapid.T) Case {
	var c Case
	c.Level = rapid.SampledFrom([]string{"A", "A", "B", "C"}).Draw(t, "level")
	c.SessionExchange = rapid.Bool().Draw(t, "sesex")
	n := rapid.IntRange(2, 10).Draw(t, "nblocks")
	for i := 0; i < n; i++ {
		p := genPrefix(t)
		var data []byte
		if p.MhType == 0 {
			data = kit.FillBytes(t, rapid.OneOf(rapid.IntRange(0, 40), rapid.IntRange(120, 135)).Draw(t, "idlen"))
		} else {
			data = kit.Bytes(48).Draw(t, "data")
		}
		c.Blocks = append(c.Blocks, BlockSpec{Data: data, P: p})
	}
	idx := rapid.IntRange(0, n-1)
	c.Local = rapid.SliceOfNDistinct(idx, 0, n, rapid.ID[int]).Draw(t, "local")
	c.Second = rapid.IntRange(0, 9).Draw(t, "second") < 4
	if c.Second {
		c.Local2 = rapid.SliceOfNDistinct(idx, 0, n, rapid.ID[int]).Draw(t, "local2")
	}
	modes := []string{"ok"}
	switch c.Level {
	case "B":
		modes = []string{"ok", "ok", "unreq"}
	case "C":
		modes = []string{"ok", "ok", "unreq", "wrongbytes", "other"}
	}
	genReq := func() Req {
		r := Req{Idx: idx.Draw(t, "i")}
		if rapid.IntRange(0, 5).Draw(t, "aliased") == 0 {
			r.Alias = rapid.IntRange(1, 3).Draw(t, "alias")
		}
		return r
	}
	nops := rapid.IntRange(1, kit.Scale(6, 12)).Draw(t, "nops")
	for i := 0; i < nops; i++ {
		var op Op
		op.Kind = rapid.SampledFrom([]string{"get", "getmany", "getmany"}).Draw(t, "kind")
		op.Path = rapid.SampledFrom([]string{"direct", "session", "ctxsession"}).Draw(t, "path")
		op.ExErr = rapid.IntRange(0, 11).Draw(t, "exerr") == 0
		if c.Second {
			op.Svc = rapid.IntRange(0, 1).Draw(t, "svc")
			op.Foreign = rapid.SampledFrom([]string{"", "before", "before", "after"}).Draw(t, "foreign")
			if op.Foreign != "" {
				op.ForeignEmbed = rapid.Bool().Draw(t, "foreignembed")
			}
		}
		if rapid.IntRange(0, 3).Draw(t, "putfault") == 0 {
			op.PutFail = rapid.SliceOfNDistinct(idx, 1, 3, rapid.ID[int]).Draw(t, "putfail")
		}
		if op.Kind == "get" {
			op.Req = []Req{genReq()}
			if rapid.IntRange(0, 4).Draw(t, "deliver") != 0 {
				op.Deliver = []Deliver{{Mode: rapid.SampledFrom(modes).Draw(t, "mode"), Alt: idx.Draw(t, "alt")}}
			}
		} else {
			k := rapid.IntRange(0, 10).Draw(t, "nreq")
			for j := 0; j < k; j++ {
				op.Req = append(op.Req, genReq())
			}
			op.All = rapid.SampledFrom([]string{"", "fwd", "rev"}).Draw(t, "all")
			nd := rapid.IntRange(0, 8).Draw(t, "ndeliver")
			for j := 0; j < nd; j++ {
				op.Deliver = append(op.Deliver, Deliver{
					Mode: rapid.SampledFrom(modes).Draw(t, "mode"),
					Sel:  rapid.IntRange(0, 9).Draw(t, "sel"),
					Alt:  idx.Draw(t, "alt"),
				})
			}
		}
		c.Ops = append(c.Ops, op)
	}
	return c
}

// ---------------------------------------------------------------------------
// fakes

// gateBS is the blockstore handed to the block service. While the gate is on, every write
// waits until the consumer of GetBlocks is back in its receive loop. This makes "is the
// block stored when it is handed over" deterministic: a block that is sent on the channel
// before it is written cannot be written until the consumer has looked at the store.
type gateBS struct {
	blockstore.Blockstore
	on   atomic.Bool
	gate chan struct{} // shared by all services of a case

	mu       sync.Mutex
	failMh   map[string]bool // multihashes whose Put fails (fault injection), set per call
	nFailed  int             // injected failures that actually happened during the current call
	nWritten int
}

var errInjected = errors.New("injected blockstore write failure")

func (g *gateBS) wait(ctx context.Context) error {
	if !g.on.Load() {
		return nil
	}
	select {
	case g.gate <- struct{}{}:
		return nil
	case <-ctx.Done():
		return ctx.Err()
	}
}

func (g *gateBS) setFaults(mhs map[string]bool) {
	g.mu.Lock()
	g.failMh, g.nFailed, g.nWritten = mhs, 0, 0
	g.mu.Unlock()
}

func (g *gateBS) failed() int {
	g.mu.Lock()
	defer g.mu.Unlock()
	return g.nFailed
}

func (g *gateBS) faulty(bs ...blocks.Block) bool {
	g.mu.Lock()
	defer g.mu.Unlock()
	for _, b := range bs {
		if g.failMh[string(b.Cid().Hash())] {
			g.nFailed++
			return true
		}
	}
	g.nWritten += len(bs)
	return false
}

func (g *gateBS) Put(ctx context.Context, b blocks.Block) error {
	if err := g.wait(ctx); err != nil {
		return err
	}
	if g.faulty(b) {
		return errInjected
	}
	return g.Blockstore.Put(ctx, b)
}

func (g *gateBS) PutMany(ctx context.Context, bs []blocks.Block) error {
	if err := g.wait(ctx); err != nil {
		return err
	}
	if g.faulty(bs...) {
		return errInjected
	}
	return g.Blockstore.PutMany(ctx, bs)
}

type delivered struct {
	cid   cid.Cid
	data  string
	evil  bool // CID not asked for in that call, or bytes do not hash to the CID
	clean bool // honest block for an asked CID
}

// scriptEx is the scripted exchange.
type scriptEx struct {
	mu        sync.Mutex
	level     string
	pool      []blocks.Block
	byMh      map[string]int
	op        *Op
	asked     []cid.Cid
	delivered []delivered // everything handed to the block service during the whole case
	calls     int
}

var errScripted = errors.New("scripted exchange failure")

func corrupt(d []byte) []byte {
	out := append([]byte(nil), d...)
	if len(out) == 0 {
		return []byte{0x5a}
	}
	out[len(out)/2] ^= 0x41
	return out
}

func (e *scriptEx) honest(k cid.Cid) blocks.Block {
	i, ok := e.byMh[string(k.Hash())]
	if !ok {
		panic("harness: exchange asked for a CID outside the pool: " + k.String())
	}
	b, _ := blocks.NewBlockWithCid(e.pool[i].RawData(), k)
	return b
}

// build resolves one script item against the CIDs the exchange was asked for.
func (e *scriptEx) build(d Deliver, asked []cid.Cid) blocks.Block {
	mode := d.Mode
	if e.level == "A" {
		mode = "ok"
	}
	if e.level == "B" && (mode == "wrongbytes" || mode == "other") {
		mode = "unreq"
	}
	var b blocks.Block
	switch mode {
	case "unreq", "other":
		b = e.pool[d.Alt%len(e.pool)]
	case "wrongbytes":
		k := asked[d.Sel%len(asked)]
		b, _ = blocks.NewBlockWithCid(corrupt(e.honest(k).RawData()), k)
	default:
		b = e.honest(asked[d.Sel%len(asked)])
	}
	inAsked := false
	for _, k := range asked {
		if k.Equals(b.Cid()) {
			inAsked = true
		}
	}
	good := kit.Verify(b.Cid(), b.RawData())
	e.delivered = append(e.delivered, delivered{cid: b.Cid(), data: string(b.RawData()), evil: !inAsked || !good, clean: inAsked && good})
	return b
}

func (e *scriptEx) getBlock(k cid.Cid) (blocks.Block, error) {
	e.mu.Lock()
	defer e.mu.Unlock()
	e.calls++
	e.asked = append(e.asked, k)
	op := e.op
	if op == nil || op.ExErr {
		return nil, errScripted
	}
	if op.All != "" {
		return e.build(Deliver{Mode: "ok"}, []cid.Cid{k}), nil
	}
	if len(op.Deliver) == 0 {
		return nil, ipld.ErrNotFound{Cid: k}
	}
	return e.build(op.Deliver[0], []cid.Cid{k}), nil
}

func (e *scriptEx) getBlocks(ks []cid.Cid) (<-chan blocks.Block, error) {
	e.mu.Lock()
	defer e.mu.Unlock()
	e.calls++
	e.asked = append(e.asked, ks...)
	op := e.op
	if op == nil || op.ExErr {
		return nil, errScripted
	}
	var items []blocks.Block
	if len(ks) > 0 {
		switch op.All {
		case "fwd":
			for i := range ks {
				items = append(items, e.build(Deliver{Mode: "ok", Sel: i}, ks))
			}
		case "rev":
			for i := len(ks) - 1; i >= 0; i-- {
				items = append(items, e.build(Deliver{Mode: "ok", Sel: i}, ks))
			}
		}
		for _, d := range op.Deliver {
			items = append(items, e.build(d, ks))
		}
	}
	ch := make(chan blocks.Block, len(items))
	for _, b := range items {
		ch <- b
	}
	close(ch)
	return ch, nil
}

type fetcher struct{ ex *scriptEx }

func (f fetcher) GetBlock(_ context.Context, k cid.Cid) (blocks.Block, error) {
	return f.ex.getBlock(k)
}
func (f fetcher) GetBlocks(_ context.Context, ks []cid.Cid) (<-chan blocks.Block, error) {
	return f.ex.getBlocks(ks)
}

type plainEx struct{ fetcher }

func (plainEx) NotifyNewBlocks(context.Context, ...blocks.Block) error { return nil }
func (plainEx) Close() error                                           { return nil }

type sessEx struct{ plainEx }

func (s sessEx) NewSession(context.Context) exchange.Fetcher { return fetcher{s.ex} }

var (
	_ exchange.Interface       = plainEx{}
	_ exchange.SessionExchange = sessEx{}
)

// ---------------------------------------------------------------------------
// oracle

// unit is one block service with the blockstore and the exchange it was built from.
type unit struct {
	inner  blockstore.Blockstore
	gbs    *gateBS
	ex     *scriptEx
	svc    blockservice.BlockService
	shared *blockservice.Session
}

func run(c Case) kit.Result {
	ctx, cancel := context.WithCancel(context.Background())
	defer cancel()

	n := len(c.Blocks)
	pool := make([]blocks.Block, n)
	byMh := map[string]int{}
	for i, b := range c.Blocks {
		pool[i] = kit.Block(b.Data, b.P)
		if _, dup := byMh[string(pool[i].Cid().Hash())]; !dup {
			byMh[string(pool[i].Cid().Hash())] = i
		}
	}
	gate := make(chan struct{})
	newUnit := func(local []int) (*unit, error) {
		u := &unit{inner: blockstore.NewBlockstore(dssync.MutexWrap(ds.NewMapDatastore()))}
		for _, i := range local {
			if err := u.inner.Put(ctx, pool[i%n]); err != nil {
				return nil, err
			}
		}
		u.gbs = &gateBS{Blockstore: u.inner, gate: gate}
		u.ex = &scriptEx{level: c.Level, pool: pool, byMh: byMh}
		var exi exchange.Interface = plainEx{fetcher{u.ex}}
		if c.SessionExchange {
			exi = sessEx{plainEx{fetcher{u.ex}}}
		}
		u.svc = blockservice.New(u.gbs, exi)
		return u, nil
	}
	var units []*unit
	locals := [][]int{c.Local}
	if c.Second {
		locals = append(locals, c.Local2)
	}
	for _, l := range locals {
		u, err := newUnit(l)
		if err != nil {
			return kit.Result{Err: fmt.Errorf("harness: %v", err)}
		}
		units = append(units, u)
	}

	valid := func(k cid.Cid) bool { return verifcid.ValidateCid(verifcid.DefaultAllowlist, k) == nil }
	reqCid := func(r Req) cid.Cid {
		k := pool[r.Idx%n].Cid()
		if r.Alias > 0 {
			if al := kit.AliasCids(k); len(al) > 0 {
				return al[(r.Alias-1)%len(al)]
			}
		}
		return k
	}
	// was exactly this block (CID + bytes) handed over by an exchange as a malicious item
	// at any point of this case? (the store may have been poisoned by an earlier call)
	evil := func(b blocks.Block) bool {
		for _, u := range units {
			u.ex.mu.Lock()
			for _, d := range u.ex.delivered {
				if d.evil && d.cid.Equals(b.Cid()) && d.data == string(b.RawData()) {
					u.ex.mu.Unlock()
					return true
				}
			}
			u.ex.mu.Unlock()
		}
		return false
	}
	known := func(key string, b blocks.Block, format string, a ...any) kit.Result {
		r := kit.Fail(format, a...)
		if c.Level != "A" && evil(b) {
			r.Known = key
		}
		return r
	}
	// getter prepares the BlockGetter and the context of one call on unit u. In two-service
	// cases the context may also carry a session that belongs to the other service; that
	// session must not influence calls made on u.svc.
	getter := func(op Op, u, other *unit) (blockservice.BlockGetter, context.Context) {
		cctx := ctx
		foreign := func() {
			if other == nil || op.Foreign == "" {
				return
			}
			if op.ForeignEmbed {
				cctx = blockservice.EmbedSessionInContext(cctx, blockservice.NewSession(cctx, other.svc))
			} else {
				cctx = blockservice.ContextWithSession(cctx, other.svc)
			}
		}
		if op.Foreign == "before" {
			foreign()
		}
		var g blockservice.BlockGetter = u.svc
		switch op.Path {
		case "session":
			if u.shared == nil {
				u.shared = blockservice.NewSession(cctx, u.svc)
			}
			g = u.shared
		case "ctxsession":
			cctx = blockservice.ContextWithSession(cctx, u.svc)
		}
		if op.Foreign == "after" {
			foreign()
		}
		return g, cctx
	}

	cls := map[string]bool{"level:" + c.Level: true}
	res := kit.Result{}

	for opi, op := range c.Ops {
		opc := op
		u := units[0]
		var other *unit
		if len(units) == 2 {
			u, other = units[op.Svc%2], units[1-op.Svc%2]
			cls["two-services"] = true
			if op.Foreign != "" {
				cls["foreign-session-in-ctx"] = true
			}
		}
		// every exchange of the case follows the script of the current call, so that a call
		// that is wrongly routed to the other service's exchange is answered there
		firstDelivery := make([]int, len(units))
		for i, x := range units {
			x.ex.mu.Lock()
			x.ex.op = &opc
			x.ex.asked = nil
			firstDelivery[i] = len(x.ex.delivered)
			x.ex.mu.Unlock()
		}
		var failMh map[string]bool
		if len(op.PutFail) > 0 {
			failMh = map[string]bool{}
			for _, i := range op.PutFail {
				failMh[string(pool[i%n].Cid().Hash())] = true
			}
			cls["put-fault-armed"] = true
		}
		u.gbs.setFaults(failMh)
		has := func(k cid.Cid) bool {
			h, err := u.inner.Has(ctx, k)
			return err == nil && h
		}
		g, gctx := getter(op, u, other)
		cls[op.Kind+"-"+op.Path] = true

		ks := make([]cid.Cid, len(op.Req))
		requested := map[string]bool{}
		localAtCall := map[string]bool{} // by multihash
		nLocalValid := 0
		for j, r := range op.Req {
			ks[j] = reqCid(r)
			requested[ks[j].KeyString()] = true
			if has(ks[j]) {
				if !localAtCall[string(ks[j].Hash())] && valid(ks[j]) {
					nLocalValid++
				}
				localAtCall[string(ks[j].Hash())] = true
			}
			if r.Alias > 0 {
				cls["alias-request"] = true
			}
			if !valid(ks[j]) {
				cls["invalid-cid-request"] = true
			}
		}
		where := fmt.Sprintf("op %d %s(%s)", opi, op.Kind, op.Path)
		if other != nil {
			where = fmt.Sprintf("op %d service %d %s(%s, foreign session %q)", opi, op.Svc%2, op.Kind, op.Path, op.Foreign)
		}
		// a block whose write to the service's blockstore was made to fail is not in that
		// blockstore (unless it was there before), so it must not be handed out
		notStored := func(b blocks.Block) string {
			if failMh[string(b.Cid().Hash())] && u.gbs.failed() > 0 {
				return " (its Put was made to fail)"
			}
			return ""
		}

		var emitted []blocks.Block
		switch op.Kind {
		case "get":
			k := ks[0]
			b, err := g.GetBlock(gctx, k)
			if err == nil {
				if b == nil {
					return kit.Fail("%s: GetBlock(%s) returned neither block nor error", where, k)
				}
				if !b.Cid().Equals(k) {
					return known(keyForeign, b, "%s: GetBlock(%s) returned a block with CID %s", where, k, b.Cid())
				}
				if !kit.Verify(b.Cid(), b.RawData()) {
					return known(keyBytes, b, "%s: GetBlock(%s) returned %d bytes that do not hash to the CID", where, k, len(b.RawData()))
				}
				if !has(b.Cid()) {
					return kit.Fail("%s: GetBlock(%s) handed out a block that is not in the service's blockstore%s", where, k, notStored(b))
				}
				emitted = append(emitted, b)
			} else if b != nil {
				return kit.Fail("%s: GetBlock(%s) returned a block together with error %v", where, k, err)
			}
		case "getmany":
			ksCopy := append([]cid.Cid(nil), ks...)
			for _, x := range units {
				x.gbs.on.Store(true)
			}
			out := g.GetBlocks(gctx, ks)
			var fail *kit.Result
		recv:
			for {
				select {
				case <-gate:
				case b, ok := <-out:
					if !ok {
						break recv
					}
					if fail != nil {
						continue // keep draining so that the service goroutine ends
					}
					if b == nil {
						r := kit.Fail("%s: GetBlocks emitted a nil block", where)
						fail = &r
						continue
					}
					switch {
					case !requested[b.Cid().KeyString()]:
						r := known(keyForeign, b, "%s: GetBlocks%v emitted CID %s which was not requested", where, ks, b.Cid())
						fail = &r
					case !kit.Verify(b.Cid(), b.RawData()):
						r := known(keyBytes, b, "%s: GetBlocks emitted %s with %d bytes that do not hash to it", where, b.Cid(), len(b.RawData()))
						fail = &r
					case !has(b.Cid()):
						r := kit.Fail("%s: GetBlocks handed out %s before it was in the service's blockstore%s", where, b.Cid(), notStored(b))
						fail = &r
					}
					emitted = append(emitted, b)
				}
			}
			for _, x := range units {
				x.gbs.on.Store(false)
			}
			if fail != nil {
				return *fail
			}
			for j := range ks {
				if !ks[j].Equals(ksCopy[j]) {
					return kit.Fail("%s: GetBlocks modified the caller's key slice at %d", where, j)
				}
			}
		}

		// the exchange is never asked for something that was local when the call started
		// (whichever exchange: what is local to the called service must not be fetched at all)
		var asked []cid.Cid
		var dl []delivered
		for i, x := range units {
			x.ex.mu.Lock()
			asked = append(asked, x.ex.asked...)
			dl = append(dl, x.ex.delivered[firstDelivery[i]:]...)
			x.ex.mu.Unlock()
		}
		for _, a := range asked {
			if localAtCall[string(a.Hash())] {
				return kit.Fail("%s: an exchange was asked for %s although it was in the service's blockstore when the call started", where, a)
			}
		}
		putFailed := u.gbs.failed() > 0
		if putFailed {
			cls["put-fault-hit"] = true
		}
		if len(asked) > 0 {
			cls["exchange-asked"] = true
		}
		if op.ExErr && len(asked) > 0 {
			cls["exchange-error"] = true
		}
		nClean := 0
		for _, d := range dl {
			if d.clean {
				nClean++
			}
			if d.evil {
				cls["malicious-delivery"] = true
			}
		}
		if nClean > 0 && nLocalValid > 0 {
			res.NonTrivial = true
			cls["mixed-local-and-exchange"] = true
		}
		seen := map[string]int{}
		for _, b := range emitted {
			seen[b.Cid().KeyString()]++
		}
		for _, cnt := range seen {
			if cnt > 1 {
				cls["duplicate-emission"] = true
			}
		}

		// an honest exchange (level A): every valid requested CID that was local or was delivered
		// by the exchange reaches the caller, with the original bytes. Once a write to the
		// blockstore failed, fetched blocks need not arrive any more (error / early close).
		if c.Level == "A" {
			for j, k := range ks {
				if !valid(k) {
					continue // what happens to rejected CIDs is property C04
				}
				avail := localAtCall[string(k.Hash())]
				for _, d := range dl {
					if d.clean && d.cid.Equals(k) && !putFailed {
						avail = true
					}
				}
				if avail && seen[k.KeyString()] == 0 {
					return kit.Fail("%s: requested CID %s (position %d) was local or delivered by the honest exchange but never reached the caller", where, k, j)
				}
			}
			for _, b := range emitted {
				i := byMh[string(b.Cid().Hash())]
				if string(b.RawData()) != string(pool[i].RawData()) {
					return kit.Fail("%s: block %s came back with bytes other than the original", where, b.Cid())
				}
			}
		}
	}
	for k := range cls {
		res.Classes = append(res.Classes, k)
	}
	sort.Strings(res.Classes)
	return res
}

var spec = kit.Spec[Case]{
	Prop:     "C05",
	Name:     "main",
	Rule:     "pool of 2..10 honest blocks (CIDv0/v1, 5 hash functions incl. identity, some rejected by the default allowlist), random subset local; 1..6 GetBlock/GetBlocks calls (request lists 0..10 with duplicates and alias CIDs) through the service, a shared Session or ContextWithSession, against a scripted exchange of honesty level A (subset/order/duplicates), B (+unrequested valid blocks) or C (+wrong bytes / other block); 40% of cases have a second independent service (own store, own exchange) and calls whose context also carries a session of the other service (ContextWithSession/EmbedSessionInContext, before or after the own one); 25% of calls make blockstore Put fail for 1..3 pool blocks; non-trivial = some call had a valid local CID and an honest block delivered by the exchange",
	Quick:    6000,
	Thorough: 100000,
	Gen:      genCase,
	Run:      run,
}

func TestProp(t *testing.T) { kit.All(t, spec) }
