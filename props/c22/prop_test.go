package c22

import (
	"context"
	"fmt"
	"runtime"
	"testing"

	ipfspin "github.com/ipfs/boxo/pinning/pinner"
	"github.com/ipfs/boxo/pinning/pinner/dspinner"
	"pgregory.net/rapid"
	"verif/kit"
	"verif/props/c22/pinkit"
)

// The histories are sequential; the pinner's internal helper goroutines (concurrent DAG walks,
// listing streams, one goroutine per datastore query) only hand results back to the caller.
// With one P those hand-offs are cheap; with many Ps on a busy machine they cost 4x the time.
func TestMain(m *testing.M) {
	runtime.GOMAXPROCS(1)
	kit.Main(m)
}

// Known-finding keys (see /verif/known_findings.d/C22-*.json).
const (
	// DESIGN §7-F11: a recursive re-pin removes the existing pin before the fetch; when the
	// call then fails the CID has lost its pin.
	keyRepin = "F11-failed-repin-unpins"
	// IsPinnedWithType(c, Indirect) reports a recursive root as indirectly pinned when it is
	// also below another recursive root (CheckIfPinnedWithType(Indirect) does not).
	keyNested = "indirect-nested-root"
	// Update(from, to) keeps an existing direct pin of `to` next to the new recursive pin.
	keyUpdateDirect = "update-keeps-direct"
)

type Case struct {
	Dag      pinkit.DagSpec `json:"dag"`
	Autosync bool           `json:"autosync"`
	// ProbeNested: ask IsPinnedWithType(c, Indirect) also for recursive roots nested below
	// another recursive root (generator constraint for finding indirect-nested-root).
	ProbeNested bool        `json:"probe_nested"`
	Ops         []pinkit.Op `json:"ops"`
}

var namePool = []string{"", "", "a", "b", "ab", "a/b", "name with spaces", "ü-日本", "uYWJj"}

var modePool = []int{
	int(ipfspin.Recursive), int(ipfspin.Recursive), int(ipfspin.Recursive),
	int(ipfspin.Direct), int(ipfspin.Direct), int(ipfspin.Direct),
	int(ipfspin.Indirect), int(ipfspin.Internal), int(ipfspin.NotPinned), int(ipfspin.Any), 6, -1, 99,
}

// genModel is the generator's own estimate of the pin state, used only to steer the choice
// of targets (never read from the SUT).
type genState struct {
	m        pinkit.Model
	maybeRec map[int]bool
	dag      *pinkit.Dag
}

func (g *genState) classes() map[string][]int {
	cl := map[string][]int{}
	for i := 0; i < g.dag.N(); i++ {
		_, r := g.m.Rec[i]
		_, d := g.m.Dir[i]
		ind := false
		for root := range g.m.Rec {
			if g.dag.Desc[root][i] {
				ind = true
			}
		}
		switch {
		case r:
			cl["rec"] = append(cl["rec"], i)
		case d:
			cl["dir"] = append(cl["dir"], i)
		case ind:
			cl["ind"] = append(cl["ind"], i)
		default:
			cl["free"] = append(cl["free"], i)
		}
	}
	return cl
}

// pick draws a node, first a pin class that has members, then a member.
func (g *genState) pick(t *rapid.T, label string, prefer ...string) int {
	cl := g.classes()
	var avail []string
	for _, k := range []string{"rec", "dir", "ind", "free"} {
		if len(cl[k]) > 0 {
			avail = append(avail, k)
		}
	}
	for _, k := range prefer {
		if len(cl[k]) > 0 {
			avail = append(avail, k, k)
		}
	}
	k := rapid.SampledFrom(avail).Draw(t, label+"_class")
	return rapid.SampledFrom(cl[k]).Draw(t, label)
}

func sortedKeys(m map[int]bool) []int {
	var ks []int
	for i := 0; i < 64; i++ {
		if m[i] {
			ks = append(ks, i)
		}
	}
	return ks
}

func gen(t *rapid.T) Case {
	c := Case{}
	c.Dag = pinkit.GenDag(t, 2, kit.Scale(8, 10))
	dag, err := pinkit.BuildDag(c.Dag)
	if err != nil {
		panic(err)
	}
	c.Autosync = rapid.IntRange(0, 3).Draw(t, "autosync") != 0
	c.ProbeNested = rapid.IntRange(0, 7).Draw(t, "probe_nested") == 0
	// recursive re-pins with a fault injected (F11 territory) only in a minority of cases
	allowRepinFault := rapid.IntRange(0, 5).Draw(t, "allow_repin_fault") == 0
	// Update onto a directly pinned CID (finding update-keeps-direct) likewise
	allowUpdateOntoDirect := rapid.IntRange(0, 9).Draw(t, "allow_update_onto_direct") == 0

	g := &genState{m: pinkit.NewModel(), maybeRec: map[int]bool{}, dag: dag}
	n := dag.N()
	nops := rapid.IntRange(1, 20).Draw(t, "nops")
	for len(c.Ops) < nops {
		op := pinkit.Op{Missing: -1}
		switch rapid.SampledFrom([]string{"pin", "pin", "pin", "pin", "pinmode", "pinmode", "unpin", "unpin", "update", "update", "flush"}).Draw(t, "kind") {
		case "pin":
			op.Kind = "pin"
			// a pin over an existing direct pin (re-pin with a new name, or recursive
			// superseding direct) gets extra weight
			op.Node = g.pick(t, "node", "dir")
			op.Flag = rapid.IntRange(0, 2).Draw(t, "recursive") != 0
			op.Name = rapid.SampledFrom(namePool).Draw(t, "name")
		case "pinmode":
			op.Kind = "pinmode"
			op.Mode = rapid.SampledFrom(modePool).Draw(t, "mode")
			if op.Mode != int(ipfspin.Recursive) && rapid.IntRange(0, 9).Draw(t, "foreign") == 0 {
				op.Node = n
			} else {
				op.Node = g.pick(t, "node")
			}
			op.Name = rapid.SampledFrom(namePool).Draw(t, "name")
		case "unpin":
			op.Kind = "unpin"
			if rapid.IntRange(0, 14).Draw(t, "foreign") == 0 {
				op.Node = n
			} else {
				op.Node = g.pick(t, "node", "rec", "dir")
			}
			op.Flag = rapid.IntRange(0, 2).Draw(t, "recursive") != 0
		case "update":
			op.Kind = "update"
			op.Node = g.pick(t, "from", "rec", "rec")
			op.To = g.pick(t, "to", "free", "ind")
			if _, isDir := g.m.Dir[op.To]; isDir && !allowUpdateOntoDirect {
				continue
			}
			op.Flag = rapid.Bool().Draw(t, "unpin")
		case "flush":
			op.Kind = "flush"
		}

		// faults
		if op.Kind != "flush" {
			f := rapid.IntRange(0, 11).Draw(t, "fault")
			if _, isDir := g.m.Dir[op.Node]; isDir && op.Kind == "pin" && op.Flag && f >= 6 && f <= 8 {
				// a fetching recursive pin over an existing direct pin: the fetch fails more
				// often (block missing / cancelled at a blockstore access), so that "the
				// failed call keeps the direct pin" is exercised
				f -= 3
			}
			switch f {
			case 0:
				op.Cancel = "pre"
			case 1, 2:
				op.Cancel = "ds"
				op.CancelAt = rapid.IntRange(1, 14).Draw(t, "cancel_at")
			case 3:
				op.Cancel = "bs"
				op.CancelAt = rapid.IntRange(1, 8).Draw(t, "cancel_at")
			case 4, 5:
				// a block of the sub-DAG is missing during the call
				var cands map[int]bool
				if op.Node < n {
					cands = dag.Desc[op.Node]
				}
				if op.Kind == "update" && rapid.Bool().Draw(t, "missing_in_to") {
					cands = dag.Desc[op.To]
				}
				if ks := sortedKeys(cands); len(ks) > 0 {
					op.Missing = rapid.SampledFrom(ks).Draw(t, "missing")
				}
			}
		}
		recPin := (op.Kind == "pin" && op.Flag) || (op.Kind == "pinmode" && op.Mode == int(ipfspin.Recursive))
		faulty := op.Missing >= 0 || op.Cancel == "ds" || op.Cancel == "bs"
		if recPin && faulty && !allowRepinFault {
			if _, isRec := g.m.Rec[op.Node]; isRec || g.maybeRec[op.Node] {
				// keep the op, drop the fault
				op.Missing, op.Cancel, op.CancelAt = -1, "", 0
				faulty = false
			}
		}
		if !op.Valid(dag) {
			panic(fmt.Sprintf("generator produced an invalid op %+v", op))
		}
		c.Ops = append(c.Ops, op)

		// advance the estimate
		fails := op.Cancel == "pre"
		if op.Missing >= 0 && (op.Kind == "update" || (op.Kind == "pin" && op.Flag)) {
			fails = true
		}
		if op.Cancel == "ds" || op.Cancel == "bs" {
			fails = true // mostly; remember what it may have pinned
			if recPin {
				g.maybeRec[op.Node] = true
			}
			if op.Kind == "update" {
				g.maybeRec[op.To] = true
			}
		}
		switch op.Kind {
		case "pin", "pinmode":
			if _, isRec := g.m.Rec[op.Node]; isRec && !recPin {
				fails = true
			}
		case "unpin":
			if _, isRec := g.m.Rec[op.Node]; isRec && !op.Flag {
				fails = true
			}
			if !g.m.Pinned(op.Node) {
				fails = true
			}
		case "update":
			_, fromRec := g.m.Rec[op.Node]
			_, toRec := g.m.Rec[op.To]
			if !fromRec || (toRec && op.Node != op.To) {
				fails = true
			}
		}
		if !fails {
			if m2, err := g.m.Apply(op); err == nil {
				g.m = m2
			}
		}
	}
	return c
}

func run(c Case) kit.Result {
	dag, err := pinkit.BuildDag(c.Dag)
	if err != nil {
		return kit.Result{Classes: []string{"invalid-case"}}
	}
	for _, op := range c.Ops {
		if !op.Valid(dag) {
			return kit.Result{Classes: []string{"invalid-case"}}
		}
	}
	w, err := pinkit.NewWorld(dag)
	if err != nil {
		panic(fmt.Sprintf("harness: %v", err))
	}
	ctx := context.Background()
	p, err := dspinner.New(ctx, w.PinDS, w.DServ)
	if err != nil {
		return kit.Fail("dspinner.New on an empty datastore: %v", err)
	}
	defer p.Close()
	if !c.Autosync {
		p.SetAutosync(false)
	}
	qo := pinkit.QueryOpts{ProbeNestedIndirect: c.ProbeNested}

	m := pinkit.NewModel()
	if x := pinkit.CheckQueries(p, dag, m, qo); x != nil {
		return kit.Fail("fresh pinner: %v", x)
	}
	classes := map[string]bool{}
	known := ""
	knownMsg := ""
	nt := false
	for i, op := range c.Ops {
		pre := m
		opErr := w.Exec(p, op)
		// was the context already cancelled before the pinner completed its first access to
		// its own datastore in this call?
		earlyCancel := op.Cancel == "pre"
		if fired, dsBefore := w.Hook.CancelPoint(); fired && dsBefore == 0 {
			earlyCancel = true
		}
		next := pre
		touchedPinned := false
		for _, tg := range op.Targets() {
			if pre.Pinned(tg) {
				touchedPinned = true
			}
		}
		outcome := "ok"
		if opErr != nil {
			outcome = "err"
			// "An operation that returns an error leaves all pin queries unchanged."
			if touchedPinned {
				nt = true
				classes["failed-op-on-pinned-cid"] = true
			}
			if isRecPin(op) && hasDir(pre, op.Node) && (op.Missing >= 0 || op.Cancel == "bs") {
				// the fetch of a recursive pin over an existing direct pin failed
				classes["err:recursive-over-direct+fetch-fault"] = true
			}
			if op.IsRepin(pre) && earlyCancel {
				// the re-pin failed on a context that was dead before anything was read
				if isRecPin(op) && hasRec(pre, op.Node) {
					classes["err:recursive-repin+cancelled-before-first-ds-access"] = true
				} else {
					classes["err:other-repin+cancelled-before-first-ds-access"] = true
				}
			}
		} else {
			var aerr error
			next, aerr = pre.Apply(op)
			if aerr != nil {
				return kit.Fail("op %d %v: %v", i, op, aerr)
			}
		}
		cl := outcome + ":" + op.Kind
		if op.Cancel != "" {
			cl += "+cancel-" + op.Cancel
		}
		if op.Missing >= 0 {
			cl += "+missing"
		}
		classes[cl] = true

		// check compares the pinner with a candidate model. The indirect-nested-root signature
		// (only IsPinnedWithType(c, Indirect) on a nested recursive root disagrees, everything
		// else agrees with the candidate) is absorbed here and the probe is switched off for
		// the rest of the history.
		check := func(mod pinkit.Model) *pinkit.Mismatch {
			x := pinkit.CheckQueries(p, dag, mod, qo)
			if x == nil || !x.NestedIndirect {
				return x
			}
			qo2 := qo
			qo2.ProbeNestedIndirect = false
			if y := pinkit.CheckQueries(p, dag, mod, qo2); y != nil {
				return y
			}
			if known == "" {
				known, knownMsg = keyNested, fmt.Sprintf("after op %d %v (returned %v): %v", i, op, opErr, x)
			}
			qo = qo2
			return nil
		}
		x := check(next)
		if x != nil {
			what := fmt.Sprintf("after op %d %v (returned %v): %v", i, op, opErr, x)
			switch {
			case opErr != nil && op.IsRepin(pre) && inRepinWindow(pre, op, earlyCancel):
				// F11 signature: the failing op is a re-pin of an already pinned CID, the fault
				// can strike between "old pin removed" and "new pin stored" (inRepinWindow), and
				// the only discrepancy is that this CID lost its pin.
				alt := pre.Clone()
				delete(alt.Rec, op.Node)
				delete(alt.Dir, op.Node)
				if y := check(alt); y != nil {
					return kit.Fail("%s; [not the F11 signature: %v]", what, y)
				}
				if known == "" {
					known, knownMsg = keyRepin, what
				}
				next = alt // follow the pinner so that the rest of the history is still checked
			case opErr == nil && op.Kind == "update" && op.Node != op.To && hasDir(pre, op.To):
				// update-keeps-direct signature: Update succeeded onto a directly pinned CID and
				// the only discrepancy is that the old direct pin of `to` is still reported.
				alt := next.Clone()
				alt.Dir[op.To] = pre.Dir[op.To] // CID in both listings; Any-mode answers stay "recursive"
				if y := check(alt); y != nil {
					return kit.Fail("%s; [not the update-keeps-direct signature: %v]", what, y)
				}
				if known == "" {
					known, knownMsg = keyUpdateDirect, what
				}
				// the pinner is now in a state the model does not have (CID pinned twice);
				// stop this history here
				return kit.Result{Err: fmt.Errorf("%s", knownMsg), Known: known}
			default:
				return kit.Fail("%s", what)
			}
		}
		m = next
	}
	if known != "" {
		return kit.Result{Err: fmt.Errorf("%s", knownMsg), Known: known}
	}
	var cls []string
	for k := range classes {
		cls = append(cls, k)
	}
	nested := false
	for r := range m.Rec {
		for r2 := range m.Rec {
			if dag.Desc[r2][r] {
				nested = true
			}
		}
	}
	if nested {
		cls = append(cls, "final:nested-recursive-roots")
	}
	for d := range m.Dir {
		for r := range m.Rec {
			if dag.Desc[r][d] {
				cls = append(cls, "final:direct-and-indirect")
			}
		}
	}
	return kit.Result{NonTrivial: nt, Classes: dedup(cls)}
}

func hasDir(m pinkit.Model, i int) bool { _, ok := m.Dir[i]; return ok }
func hasRec(m pinkit.Model, i int) bool { _, ok := m.Rec[i]; return ok }

func isRecPin(op pinkit.Op) bool {
	return (op.Kind == "pin" && op.Flag) || (op.Kind == "pinmode" && op.Mode == int(ipfspin.Recursive))
}

// inRepinWindow narrows the F11 exclusion to the failures that finding explains. The pinner
// replaces a pin by "remove the old record, then store the new one"; F11 is that an error in
// between leaves the CID unpinned. The window is open
//   - for a recursive pin of a CID that already is a recursive root: once the pinner has read
//     its datastore with a live context, i.e. also during the graph fetch (missing block,
//     cancellation at a blockstore access) – the documented F11 case;
//   - for every other re-pin (direct over direct, recursive over direct): only while the
//     pinner rewrites its own datastore, which in this harness can only be interrupted by a
//     cancellation at a pinner-datastore access (Cancel "ds").
//
// The window is never open when the context was cancelled before the pinner completed its
// first access to its own datastore in this call (earlyCancel: cancelled before the call, at a
// blockstore access of Pin's initial dserv.Add, or at the very first datastore access): the
// old record is removed only after a lookup of the existing pins, that lookup honours the
// context, so such a call fails before anything is removed. F11 explains a lost pin only if
// the failure struck after the point where the old pin is removed.
//
// A re-pin that loses the existing pin on any other failure (a recursive pin of a directly
// pinned CID whose fetch fails, a context that was already dead when the call started, ...)
// is not F11: it is reported as a violation of "an operation that returns an error leaves
// all pin queries unchanged".
func inRepinWindow(pre pinkit.Model, op pinkit.Op, earlyCancel bool) bool {
	if earlyCancel {
		return false
	}
	if isRecPin(op) && hasRec(pre, op.Node) {
		return true
	}
	return op.Cancel == "ds"
}

func dedup(in []string) []string {
	seen := map[string]bool{}
	var out []string
	for _, s := range in {
		if !seen[s] {
			seen[s] = true
			out = append(out, s)
		}
	}
	return out
}

var spec = kit.Spec[Case]{
	Prop: "C22", Name: "main",
	Rule:  "random DAG (2..10 nodes, shared subtrees, dag-pb v0/v1 + raw leaves) in a mem dagservice; history of 1..20 Pin/PinWithMode(valid+invalid modes)/Unpin/Update/Flush calls on dspinner with injected faults (context cancelled before the call or at the k-th datastore/blockstore access, a descendant block missing during the call); after every op all query APIs over all CIDs are compared with the pin model, an op that returned an error must leave them unchanged; non-trivial = some op returned an error while one of its target CIDs held a pin",
	Quick: 800, Thorough: 2000,
	Gen: gen, Run: run,
	Sample: func(c Case) any {
		var ops []string
		for _, o := range c.Ops {
			ops = append(ops, o.String())
		}
		return map[string]any{"dag_links": c.Dag.Links, "autosync": c.Autosync, "ops": ops}
	},
}

func TestProp(t *testing.T) { kit.All(t, spec) }
