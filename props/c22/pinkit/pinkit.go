// Package pinkit is the harness code shared by the pinner checks C22 (model + fault
// histories) and C23 (crash-point enumeration): DAG generator, world construction with
// hookable stores, the pin reference model, the query oracle and the raw-datastore audit.
package pinkit

import (
	"context"
	"errors"
	"fmt"
	"sort"
	"strings"
	"sync"

	"github.com/ipfs/boxo/blockservice"
	"github.com/ipfs/boxo/blockstore"
	offline "github.com/ipfs/boxo/exchange/offline"
	mdag "github.com/ipfs/boxo/ipld/merkledag"
	ipfspin "github.com/ipfs/boxo/pinning/pinner"
	blocks "github.com/ipfs/go-block-format"
	cid "github.com/ipfs/go-cid"
	ds "github.com/ipfs/go-datastore"
	"github.com/ipfs/go-datastore/query"
	dssync "github.com/ipfs/go-datastore/sync"
	ipld "github.com/ipfs/go-ipld-format"
	"pgregory.net/rapid"
)

// ---------------------------------------------------------------------------
// DAG

// DagSpec describes a rooted-DAG shape: node i links to Links[i], all indices < i, so the
// shape is acyclic by construction and sub-DAGs are shared whenever two nodes name the same
// child. Kind[i]: 0 = dag-pb CIDv0, 1 = dag-pb CIDv1, 2 = raw leaf (only for nodes without links).
type DagSpec struct {
	Links [][]int `json:"links"`
	Kind  []int   `json:"kind"`
}

func GenDag(t *rapid.T, minN, maxN int) DagSpec {
	n := rapid.IntRange(minN, maxN).Draw(t, "dag_n")
	s := DagSpec{Links: make([][]int, n), Kind: make([]int, n)}
	for i := 0; i < n; i++ {
		s.Links[i] = []int{}
		maxc := i
		if maxc > 3 {
			maxc = 3
		}
		nc := 0
		if maxc > 0 {
			// the lower third of the indices stays mostly leaves, the rest mostly inner nodes
			if i >= 2 || rapid.Bool().Draw(t, "inner") {
				nc = rapid.IntRange(0, maxc).Draw(t, "nchildren")
			}
		}
		seen := map[int]bool{}
		for k := 0; k < nc; k++ {
			j := rapid.IntRange(0, i-1).Draw(t, "child")
			if !seen[j] {
				seen[j] = true
				s.Links[i] = append(s.Links[i], j)
			}
		}
		if len(s.Links[i]) == 0 {
			s.Kind[i] = rapid.IntRange(0, 2).Draw(t, "leafkind")
		} else {
			s.Kind[i] = rapid.IntRange(0, 1).Draw(t, "kind")
		}
	}
	return s
}

type Dag struct {
	Nodes []ipld.Node
	Cids  []cid.Cid
	// Desc[i] = strict descendants of node i
	Desc []map[int]bool
	// Foreign is a CID whose block is not in the store and that no node links to.
	// It has index len(Cids) in operations.
	Foreign cid.Cid
}

func (d *Dag) N() int { return len(d.Cids) }

// Cid returns the CID for an operation index (N() = the foreign CID).
func (d *Dag) Cid(i int) cid.Cid {
	if i == len(d.Cids) {
		return d.Foreign
	}
	return d.Cids[i]
}

func (d *Dag) Index(c cid.Cid) int {
	for i, x := range d.Cids {
		if x.Equals(c) {
			return i
		}
	}
	if c.Equals(d.Foreign) {
		return len(d.Cids)
	}
	return -1
}

// BuildDag materialises the spec. It returns an error for a malformed spec (replayed
// hand-written cases); generated specs are always well-formed.
func BuildDag(s DagSpec) (*Dag, error) {
	n := len(s.Links)
	if n == 0 || len(s.Kind) != n {
		return nil, errors.New("malformed dag spec")
	}
	d := &Dag{Nodes: make([]ipld.Node, n), Cids: make([]cid.Cid, n), Desc: make([]map[int]bool, n)}
	for i := 0; i < n; i++ {
		d.Desc[i] = map[int]bool{}
		for _, j := range s.Links[i] {
			if j < 0 || j >= i {
				return nil, errors.New("malformed dag spec: link index")
			}
			d.Desc[i][j] = true
			for k := range d.Desc[j] {
				d.Desc[i][k] = true
			}
		}
		if len(s.Links[i]) == 0 && s.Kind[i] == 2 {
			d.Nodes[i] = mdag.NewRawNode([]byte(fmt.Sprintf("verif-pin-leaf-%d", i)))
		} else {
			nd := mdag.NodeWithData([]byte(fmt.Sprintf("verif-pin-node-%d", i)))
			if s.Kind[i] == 1 {
				if err := nd.SetCidBuilder(mdag.V1CidPrefix()); err != nil {
					return nil, err
				}
			}
			for k, j := range s.Links[i] {
				if err := nd.AddNodeLink(fmt.Sprintf("l%d", k), d.Nodes[j]); err != nil {
					return nil, err
				}
			}
			d.Nodes[i] = nd
		}
		d.Cids[i] = d.Nodes[i].Cid()
	}
	d.Foreign = mdag.NodeWithData([]byte("verif-pin-foreign")).Cid()
	return d, nil
}

// ---------------------------------------------------------------------------
// hookable stores

// Write is one mutation of the pinner's datastore.
type Write struct {
	Del   bool
	Key   ds.Key
	Value []byte
}

// Hook counts store accesses, cancels a context at a chosen access and records writes.
type Hook struct {
	mu        sync.Mutex
	dsCalls   int
	bsCalls   int
	cancelDS  int // cancel at the k-th datastore access (0 = never)
	cancelBS  int // cancel at the k-th blockstore access (0 = never)
	cancel    context.CancelFunc
	fired     bool // the armed cancellation has happened
	dsAtFire  int  // completed datastore accesses when it happened
	recording bool
	log       []Write
}

// Arm resets the counters and sets the cancellation point for the next operation.
func (h *Hook) Arm(cancelDS, cancelBS int, cancel context.CancelFunc) {
	h.mu.Lock()
	defer h.mu.Unlock()
	h.dsCalls, h.bsCalls = 0, 0
	h.cancelDS, h.cancelBS, h.cancel = cancelDS, cancelBS, cancel
	h.fired, h.dsAtFire = false, 0
}

func (h *Hook) Disarm() {
	h.mu.Lock()
	defer h.mu.Unlock()
	h.cancelDS, h.cancelBS, h.cancel = 0, 0, nil
}

// CancelPoint reports whether the cancellation armed by the last Arm has fired and, if so, how
// many pinner-datastore accesses had *completed* before the context was cancelled (the access
// at which a "ds" cancellation fires is not counted: the context is cancelled before the
// inner store is asked).
func (h *Hook) CancelPoint() (fired bool, dsBefore int) {
	h.mu.Lock()
	defer h.mu.Unlock()
	return h.fired, h.dsAtFire
}

// Calls returns the access counts since the last Arm.
func (h *Hook) Calls() (dsCalls, bsCalls int) {
	h.mu.Lock()
	defer h.mu.Unlock()
	return h.dsCalls, h.bsCalls
}

func (h *Hook) StartRecording() {
	h.mu.Lock()
	defer h.mu.Unlock()
	h.recording = true
	h.log = nil
}

func (h *Hook) StopRecording() []Write {
	h.mu.Lock()
	defer h.mu.Unlock()
	h.recording = false
	l := h.log
	h.log = nil
	return l
}

func (h *Hook) tickDS() {
	h.mu.Lock()
	h.dsCalls++
	fire := h.cancel != nil && h.cancelDS > 0 && h.dsCalls == h.cancelDS
	c := h.cancel
	if fire {
		h.fired, h.dsAtFire = true, h.dsCalls-1
	}
	h.mu.Unlock()
	if fire {
		c()
	}
}

func (h *Hook) tickBS() {
	h.mu.Lock()
	h.bsCalls++
	fire := h.cancel != nil && h.cancelBS > 0 && h.bsCalls == h.cancelBS
	c := h.cancel
	if fire {
		h.fired, h.dsAtFire = true, h.dsCalls
	}
	h.mu.Unlock()
	if fire {
		c()
	}
}

func (h *Hook) record(w Write) {
	h.mu.Lock()
	if h.recording {
		h.log = append(h.log, w)
	}
	h.mu.Unlock()
}

// hookDS is the datastore handed to the pinner.
type hookDS struct {
	inner ds.Datastore
	h     *Hook
}

var _ ds.Datastore = (*hookDS)(nil)

func (d *hookDS) Get(ctx context.Context, k ds.Key) ([]byte, error) {
	d.h.tickDS()
	return d.inner.Get(ctx, k)
}

func (d *hookDS) Has(ctx context.Context, k ds.Key) (bool, error) {
	d.h.tickDS()
	return d.inner.Has(ctx, k)
}

func (d *hookDS) GetSize(ctx context.Context, k ds.Key) (int, error) {
	d.h.tickDS()
	return d.inner.GetSize(ctx, k)
}

func (d *hookDS) Query(ctx context.Context, q query.Query) (query.Results, error) {
	d.h.tickDS()
	return d.inner.Query(ctx, q)
}

func (d *hookDS) Put(ctx context.Context, k ds.Key, v []byte) error {
	d.h.tickDS()
	err := d.inner.Put(ctx, k, v)
	if err == nil {
		d.h.record(Write{Key: k, Value: append([]byte(nil), v...)})
	}
	return err
}

func (d *hookDS) Delete(ctx context.Context, k ds.Key) error {
	d.h.tickDS()
	err := d.inner.Delete(ctx, k)
	if err == nil {
		d.h.record(Write{Del: true, Key: k})
	}
	return err
}

func (d *hookDS) Sync(ctx context.Context, k ds.Key) error {
	d.h.tickDS()
	return d.inner.Sync(ctx, k)
}

func (d *hookDS) Close() error { return nil }

type hookBS struct {
	blockstore.Blockstore
	h *Hook
}

func (b *hookBS) Has(ctx context.Context, c cid.Cid) (bool, error) {
	b.h.tickBS()
	return b.Blockstore.Has(ctx, c)
}

func (b *hookBS) Get(ctx context.Context, c cid.Cid) (blocks.Block, error) {
	b.h.tickBS()
	return b.Blockstore.Get(ctx, c)
}

func (b *hookBS) GetSize(ctx context.Context, c cid.Cid) (int, error) {
	b.h.tickBS()
	return b.Blockstore.GetSize(ctx, c)
}

func (b *hookBS) Put(ctx context.Context, blk blocks.Block) error {
	b.h.tickBS()
	return b.Blockstore.Put(ctx, blk)
}

func (b *hookBS) PutMany(ctx context.Context, blks []blocks.Block) error {
	b.h.tickBS()
	return b.Blockstore.PutMany(ctx, blks)
}

// World is one fresh SUT environment: an in-memory blockstore holding the DAG, a real
// merkledag DAGService over an offline exchange, and a separate in-memory datastore for the
// pinner (so that it can be snapshotted and its write log is exactly the pinner's).
type World struct {
	Dag    *Dag
	Hook   *Hook
	PinMap *ds.MapDatastore // raw map under PinDS
	PinDS  ds.Datastore     // hooked, mutex-wrapped; pass this to dspinner.New
	RawBS  blockstore.Blockstore
	DServ  ipld.DAGService
}

func NewWorld(d *Dag) (*World, error) {
	w := &World{Dag: d, Hook: &Hook{}}
	w.PinMap = ds.NewMapDatastore()
	w.PinDS = &hookDS{inner: dssync.MutexWrap(w.PinMap), h: w.Hook}
	w.RawBS = blockstore.NewBlockstore(dssync.MutexWrap(ds.NewMapDatastore()))
	hb := &hookBS{Blockstore: w.RawBS, h: w.Hook}
	w.DServ = mdag.NewDAGService(blockservice.New(hb, offline.Exchange(hb)))
	ctx := context.Background()
	for _, nd := range d.Nodes {
		if err := w.DServ.Add(ctx, nd); err != nil {
			return nil, err
		}
	}
	return w, nil
}

// HideBlock removes node i's block from the blockstore; the returned function restores it.
func (w *World) HideBlock(i int) (restore func(), err error) {
	nd := w.Dag.Nodes[i]
	ctx := context.Background()
	if err := w.RawBS.DeleteBlock(ctx, nd.Cid()); err != nil {
		return nil, err
	}
	return func() {
		blk, _ := blocks.NewBlockWithCid(nd.RawData(), nd.Cid())
		if err := w.RawBS.Put(ctx, blk); err != nil {
			panic(fmt.Sprintf("pinkit: cannot restore block: %v", err))
		}
	}, nil
}

// CopyMap returns a deep copy of a map datastore's content.
func CopyMap(ctx context.Context, src ds.Datastore) (map[ds.Key][]byte, error) {
	res, err := src.Query(ctx, query.Query{})
	if err != nil {
		return nil, err
	}
	ents, err := res.Rest()
	if err != nil {
		return nil, err
	}
	out := make(map[ds.Key][]byte, len(ents))
	for _, e := range ents {
		out[ds.NewKey(e.Key)] = append([]byte(nil), e.Value...)
	}
	return out, nil
}

// MapFrom builds a fresh mutex-wrapped map datastore holding snapshot + the given writes.
func MapFrom(snapshot map[ds.Key][]byte, writes []Write) ds.Datastore {
	ctx := context.Background()
	m := ds.NewMapDatastore()
	for k, v := range snapshot {
		m.Put(ctx, k, append([]byte(nil), v...))
	}
	for _, w := range writes {
		if w.Del {
			m.Delete(ctx, w.Key)
		} else {
			m.Put(ctx, w.Key, append([]byte(nil), w.Value...))
		}
	}
	return dssync.MutexWrap(m)
}

// ---------------------------------------------------------------------------
// operations

// Op is one pinner call. Node indices refer to DagSpec nodes; N (= number of nodes) is the
// foreign CID (allowed for pinmode-direct and unpin only).
type Op struct {
	Kind string `json:"kind"` // pin | pinmode | unpin | update | flush
	Node int    `json:"node"` // target (update: from)
	To   int    `json:"to,omitempty"`
	// pin: recursive; unpin: recursive flag; update: unpin flag
	Flag bool   `json:"flag,omitempty"`
	Mode int    `json:"mode,omitempty"` // pinmode: ipfspin.Mode value (may be invalid)
	Name string `json:"name,omitempty"`
	// faults
	Missing  int    `json:"missing"`             // -1, or index of a node whose block is absent during the call
	Cancel   string `json:"cancel,omitempty"`    // "" | "pre" | "ds" | "bs"
	CancelAt int    `json:"cancel_at,omitempty"` // k-th store access at which the context is cancelled
}

func (o Op) String() string {
	s := o.Kind
	switch o.Kind {
	case "pin":
		s += fmt.Sprintf("(%d,rec=%v,%q)", o.Node, o.Flag, o.Name)
	case "pinmode":
		s += fmt.Sprintf("(%d,mode=%d,%q)", o.Node, o.Mode, o.Name)
	case "unpin":
		s += fmt.Sprintf("(%d,rec=%v)", o.Node, o.Flag)
	case "update":
		s += fmt.Sprintf("(%d->%d,unpin=%v)", o.Node, o.To, o.Flag)
	}
	if o.Missing >= 0 {
		s += fmt.Sprintf("[missing %d]", o.Missing)
	}
	if o.Cancel != "" {
		s += fmt.Sprintf("[cancel %s@%d]", o.Cancel, o.CancelAt)
	}
	return s
}

// Valid reports whether the op is inside the generated domain for a DAG with n nodes.
func (o Op) Valid(d *Dag) bool {
	n := d.N()
	in := func(i int) bool { return i >= 0 && i < n }
	switch o.Kind {
	case "pin":
		if !in(o.Node) {
			return false
		}
	case "pinmode":
		if !(in(o.Node) || (o.Node == n && o.Mode != int(ipfspin.Recursive))) {
			return false
		}
	case "unpin":
		if !(in(o.Node) || o.Node == n) {
			return false
		}
	case "update":
		if !in(o.Node) || !in(o.To) {
			return false
		}
	case "flush":
	default:
		return false
	}
	if o.Missing != -1 {
		if !in(o.Missing) {
			return false
		}
		// only strict descendants of the target(s) may be hidden: the pinner itself
		// adds the root node, and queries must be able to walk existing pins afterwards
		// (the block is restored right after the call)
		ok := false
		if in(o.Node) && d.Desc[o.Node][o.Missing] {
			ok = true
		}
		if o.Kind == "update" && d.Desc[o.To][o.Missing] {
			ok = true
		}
		if !ok {
			return false
		}
	}
	switch o.Cancel {
	case "", "pre":
	case "ds", "bs":
		if o.CancelAt < 1 {
			return false
		}
	default:
		return false
	}
	return true
}

// Exec runs one op against p, applying its faults, and returns the op's error.
func (w *World) Exec(p ipfspin.Pinner, o Op) error {
	ctx, cancel := context.WithCancel(context.Background())
	defer cancel()
	if o.Missing >= 0 {
		restore, err := w.HideBlock(o.Missing)
		if err != nil {
			panic(fmt.Sprintf("pinkit: hide block: %v", err))
		}
		defer restore()
	}
	switch o.Cancel {
	case "pre":
		cancel()
		w.Hook.Arm(0, 0, nil)
	case "ds":
		w.Hook.Arm(o.CancelAt, 0, cancel)
	case "bs":
		w.Hook.Arm(0, o.CancelAt, cancel)
	default:
		w.Hook.Arm(0, 0, nil)
	}
	defer w.Hook.Disarm()
	d := w.Dag
	switch o.Kind {
	case "pin":
		return p.Pin(ctx, d.Nodes[o.Node], o.Flag, o.Name)
	case "pinmode":
		return p.PinWithMode(ctx, d.Cid(o.Node), ipfspin.Mode(o.Mode), o.Name)
	case "unpin":
		return p.Unpin(ctx, d.Cid(o.Node), o.Flag)
	case "update":
		return p.Update(ctx, d.Cid(o.Node), d.Cid(o.To), o.Flag)
	case "flush":
		return p.Flush(ctx)
	}
	panic("pinkit: unknown op kind " + o.Kind)
}

// ---------------------------------------------------------------------------
// model

// Model is the pin model of the property: recursive roots and direct pins, each with the
// name given by the last pin call. A CID is never in both (recursive supersedes direct).
type Model struct {
	Rec map[int]string
	Dir map[int]string
}

func NewModel() Model { return Model{Rec: map[int]string{}, Dir: map[int]string{}} }

func (m Model) Clone() Model {
	c := NewModel()
	for k, v := range m.Rec {
		c.Rec[k] = v
	}
	for k, v := range m.Dir {
		c.Dir[k] = v
	}
	return c
}

func (m Model) Pinned(i int) bool {
	_, r := m.Rec[i]
	_, d := m.Dir[i]
	return r || d
}

func (m Model) String() string {
	var parts []string
	var ks []int
	for k := range m.Rec {
		ks = append(ks, k)
	}
	sort.Ints(ks)
	for _, k := range ks {
		parts = append(parts, fmt.Sprintf("R%d=%q", k, m.Rec[k]))
	}
	ks = ks[:0]
	for k := range m.Dir {
		ks = append(ks, k)
	}
	sort.Ints(ks)
	for _, k := range ks {
		parts = append(parts, fmt.Sprintf("D%d=%q", k, m.Dir[k]))
	}
	return "{" + strings.Join(parts, " ") + "}"
}

// Apply returns the state after op *succeeded* (returned nil). An op that returns an error
// must leave the state unchanged, so callers keep the old model in that case. The error
// result reports a nil return that has no meaning in the pin model.
func (m Model) Apply(o Op) (Model, error) {
	n := m.Clone()
	pin := func(rec bool) {
		if rec {
			n.Rec[o.Node] = o.Name
			delete(n.Dir, o.Node)
		} else if _, isRec := n.Rec[o.Node]; !isRec {
			// (a direct pin of a recursively pinned CID is refused by the pinner; if it ever
			// reported success the CID would still count as recursive: recursive supersedes direct)
			n.Dir[o.Node] = o.Name
		}
	}
	switch o.Kind {
	case "pin":
		pin(o.Flag)
	case "pinmode":
		switch ipfspin.Mode(o.Mode) {
		case ipfspin.Recursive:
			pin(true)
		case ipfspin.Direct:
			pin(false)
		default:
			// not a pin mode: nothing can have been pinned
		}
	case "unpin":
		if _, ok := n.Rec[o.Node]; ok {
			if o.Flag {
				delete(n.Rec, o.Node)
			}
			// recursive=false "only removes a direct pin": nothing to remove
		} else {
			delete(n.Dir, o.Node)
		}
	case "update":
		name, ok := n.Rec[o.Node]
		if !ok {
			return n, errors.New("Update succeeded although 'from' is not recursively pinned")
		}
		if o.Node == o.To {
			return n, nil
		}
		// "equivalent to pinning the new one and unpinning the old one"; the name moves along
		n.Rec[o.To] = name
		delete(n.Dir, o.To)
		if o.Flag {
			delete(n.Rec, o.Node)
		}
	case "flush":
	}
	return n, nil
}

// Targets returns the node indices an op refers to.
func (o Op) Targets() []int {
	switch o.Kind {
	case "update":
		return []int{o.Node, o.To}
	case "flush":
		return nil
	}
	return []int{o.Node}
}

// IsRepin: a Pin / PinWithMode(valid mode) call on a CID that currently has a pin.
func (o Op) IsRepin(m Model) bool {
	switch o.Kind {
	case "pin":
		return m.Pinned(o.Node)
	case "pinmode":
		return (o.Mode == int(ipfspin.Recursive) || o.Mode == int(ipfspin.Direct)) && m.Pinned(o.Node)
	}
	return false
}

// roots returns the recursive roots that have node i as a strict descendant, sorted.
func (m Model) roots(d *Dag, i int) []int {
	var rs []int
	if i >= d.N() {
		return nil
	}
	for r := range m.Rec {
		if d.Desc[r][i] {
			rs = append(rs, r)
		}
	}
	sort.Ints(rs)
	return rs
}

// ---------------------------------------------------------------------------
// query oracle

type QueryOpts struct {
	// ProbeNestedIndirect: also ask IsPinnedWithType(c, Indirect) for CIDs that are recursive
	// roots *and* descendants of another recursive root (see known finding
	// C22/indirect-nested-root). CheckIfPinnedWithType(Indirect) is always asked.
	ProbeNestedIndirect bool
}

// Mismatch describes a disagreement between pinner and model.
type Mismatch struct {
	Query string
	Node  int
	Msg   string
	// NestedIndirect: the disagreement is exactly "IsPinnedWithType(c, Indirect) says pinned
	// via an ancestor root for a c that is itself a recursive root".
	NestedIndirect bool
}

func (m *Mismatch) Error() string {
	return fmt.Sprintf("%s node %d: %s", m.Query, m.Node, m.Msg)
}

func drain(ch <-chan ipfspin.StreamedPin) ([]ipfspin.Pinned, error) {
	var out []ipfspin.Pinned
	var first error
	for sp := range ch {
		if sp.Err != nil {
			if first == nil {
				first = sp.Err
			}
			continue
		}
		out = append(out, sp.Pin)
	}
	return out, first
}

const (
	sRecursive = "recursive"
	sDirect    = "direct"
)

// CheckQueries runs every query API over every DAG CID (and the foreign CID) and compares
// the answers with the model. It returns nil or the first *Mismatch.
func CheckQueries(p ipfspin.Pinner, d *Dag, m Model, opt QueryOpts) *Mismatch {
	ctx := context.Background()
	n := d.N()
	all := make([]cid.Cid, 0, n+1)
	for i := 0; i <= n; i++ {
		all = append(all, d.Cid(i))
	}
	viaOK := func(i int, via string) bool {
		for _, r := range m.roots(d, i) {
			if d.Cids[r].String() == via {
				return true
			}
		}
		return false
	}
	mm := func(q string, i int, f string, a ...any) *Mismatch {
		return &Mismatch{Query: q, Node: i, Msg: fmt.Sprintf(f, a...) + " (model " + m.String() + ")"}
	}

	// --- single-CID queries
	for i := 0; i <= n; i++ {
		c := all[i]
		_, isRec := m.Rec[i]
		_, isDir := m.Dir[i]
		roots := m.roots(d, i)

		checkAny := func(q string, reason string, pinned bool, err error) *Mismatch {
			if err != nil {
				return mm(q, i, "error %v", err)
			}
			switch {
			case isRec:
				if !pinned || reason != sRecursive {
					return mm(q, i, "got (%q,%v), want (\"recursive\",true)", reason, pinned)
				}
			case isDir:
				if !pinned || reason != sDirect {
					return mm(q, i, "got (%q,%v), want (\"direct\",true)", reason, pinned)
				}
			case len(roots) > 0:
				if !pinned || !viaOK(i, reason) {
					return mm(q, i, "got (%q,%v), want pinned via one of the recursive roots %v", reason, pinned, roots)
				}
			default:
				if pinned {
					return mm(q, i, "got (%q,true), want not pinned", reason)
				}
			}
			return nil
		}
		reason, pinned, err := p.IsPinned(ctx, c)
		if x := checkAny("IsPinned", reason, pinned, err); x != nil {
			return x
		}
		reason, pinned, err = p.IsPinnedWithType(ctx, c, ipfspin.Any)
		if x := checkAny("IsPinnedWithType(Any)", reason, pinned, err); x != nil {
			return x
		}

		reason, pinned, err = p.IsPinnedWithType(ctx, c, ipfspin.Recursive)
		if err != nil {
			return mm("IsPinnedWithType(Recursive)", i, "error %v", err)
		}
		if pinned != isRec || (pinned && reason != sRecursive) {
			return mm("IsPinnedWithType(Recursive)", i, "got (%q,%v), want pinned=%v", reason, pinned, isRec)
		}
		reason, pinned, err = p.IsPinnedWithType(ctx, c, ipfspin.Direct)
		if err != nil {
			return mm("IsPinnedWithType(Direct)", i, "error %v", err)
		}
		if pinned != isDir || (pinned && reason != sDirect) {
			return mm("IsPinnedWithType(Direct)", i, "got (%q,%v), want pinned=%v", reason, pinned, isDir)
		}
		reason, pinned, err = p.IsPinnedWithType(ctx, c, ipfspin.Internal)
		if err != nil {
			return mm("IsPinnedWithType(Internal)", i, "error %v", err)
		}
		if pinned {
			return mm("IsPinnedWithType(Internal)", i, "got (%q,true), want not pinned", reason)
		}
		// indirect = reachable from a recursive root and not itself a recursive root
		nested := isRec && len(roots) > 0
		if !nested || opt.ProbeNestedIndirect {
			wantInd := !isRec && len(roots) > 0
			reason, pinned, err = p.IsPinnedWithType(ctx, c, ipfspin.Indirect)
			if err != nil {
				return mm("IsPinnedWithType(Indirect)", i, "error %v", err)
			}
			if pinned != wantInd || (pinned && !viaOK(i, reason)) {
				x := mm("IsPinnedWithType(Indirect)", i, "got (%q,%v), want pinned=%v via roots %v", reason, pinned, wantInd, roots)
				x.NestedIndirect = nested && pinned && viaOK(i, reason)
				return x
			}
		}
	}

	// --- batch queries
	type batch struct {
		name  string
		mode  ipfspin.Mode
		names bool
		plain bool // use CheckIfPinned
	}
	batches := []batch{
		{"CheckIfPinned", ipfspin.Any, false, true},
		{"CheckIfPinnedWithType(Any,names)", ipfspin.Any, true, false},
		{"CheckIfPinnedWithType(Any)", ipfspin.Any, false, false},
		{"CheckIfPinnedWithType(Recursive,names)", ipfspin.Recursive, true, false},
		{"CheckIfPinnedWithType(Recursive)", ipfspin.Recursive, false, false},
		{"CheckIfPinnedWithType(Direct,names)", ipfspin.Direct, true, false},
		{"CheckIfPinnedWithType(Direct)", ipfspin.Direct, false, false},
		{"CheckIfPinnedWithType(Indirect)", ipfspin.Indirect, false, false},
		{"CheckIfPinnedWithType(Indirect,names)", ipfspin.Indirect, true, false},
		{"CheckIfPinnedWithType(Internal)", ipfspin.Internal, false, false},
	}
	for _, b := range batches {
		var res []ipfspin.Pinned
		var err error
		if b.plain {
			res, err = p.CheckIfPinned(ctx, all...)
		} else {
			res, err = p.CheckIfPinnedWithType(ctx, b.mode, b.names, all...)
		}
		if err != nil {
			return mm(b.name, -1, "error %v", err)
		}
		if len(res) != len(all) {
			return mm(b.name, -1, "%d results for %d distinct CIDs", len(res), len(all))
		}
		seen := map[int]bool{}
		for _, r := range res {
			i := d.Index(r.Key)
			if i < 0 {
				return mm(b.name, -1, "result for a CID that was not asked: %s", r.Key)
			}
			if seen[i] {
				return mm(b.name, i, "CID reported twice")
			}
			seen[i] = true
			rname, isRec := m.Rec[i]
			dname, isDir := m.Dir[i]
			roots := m.roots(d, i)
			want := ipfspin.NotPinned
			wantName := ""
			switch b.mode {
			case ipfspin.Any:
				switch {
				case isRec:
					want, wantName = ipfspin.Recursive, rname
				case isDir:
					want, wantName = ipfspin.Direct, dname
				case len(roots) > 0:
					want = ipfspin.Indirect
				}
			case ipfspin.Recursive:
				if isRec {
					want, wantName = ipfspin.Recursive, rname
				}
			case ipfspin.Direct:
				if isDir {
					want, wantName = ipfspin.Direct, dname
				}
			case ipfspin.Indirect:
				if !isRec && len(roots) > 0 {
					want = ipfspin.Indirect
				}
			}
			if !b.names {
				wantName = ""
			}
			if r.Mode != want {
				return mm(b.name, i, "mode %d, want %d", r.Mode, want)
			}
			if r.Pinned() != (want != ipfspin.NotPinned) {
				return mm(b.name, i, "Pinned() = %v", r.Pinned())
			}
			if r.Name != wantName {
				return mm(b.name, i, "name %q, want %q", r.Name, wantName)
			}
			if want == ipfspin.Indirect && !viaOK(i, r.Via.String()) {
				return mm(b.name, i, "via %s is not a recursive root above this CID (roots %v)", r.Via, roots)
			}
		}
	}

	// --- listings
	type listing struct {
		name     string
		detailed bool
		rec      bool
	}
	for _, l := range []listing{{"DirectKeys", false, false}, {"DirectKeys(detailed)", true, false}, {"RecursiveKeys", false, true}, {"RecursiveKeys(detailed)", true, true}} {
		var ch <-chan ipfspin.StreamedPin
		want := m.Dir
		wantMode := ipfspin.Direct
		if l.rec {
			ch = p.RecursiveKeys(ctx, l.detailed)
			want = m.Rec
			wantMode = ipfspin.Recursive
		} else {
			ch = p.DirectKeys(ctx, l.detailed)
		}
		pins, err := drain(ch)
		if err != nil {
			return mm(l.name, -1, "stream error %v", err)
		}
		seen := map[int]bool{}
		for _, pn := range pins {
			i := d.Index(pn.Key)
			if i < 0 {
				return mm(l.name, -1, "lists unknown CID %s", pn.Key)
			}
			if seen[i] {
				return mm(l.name, i, "listed twice")
			}
			seen[i] = true
			wn, ok := want[i]
			if !ok {
				return mm(l.name, i, "listed but the model has no such pin")
			}
			if l.detailed {
				if pn.Mode != wantMode {
					return mm(l.name, i, "mode %d, want %d", pn.Mode, wantMode)
				}
				if pn.Name != wn {
					return mm(l.name, i, "name %q, want %q", pn.Name, wn)
				}
			}
		}
		for i := range want {
			if !seen[i] {
				return mm(l.name, i, "pin missing from the listing")
			}
		}
	}
	return nil
}
