package pinkit

import (
	"context"
	"fmt"
	"sort"
	"strings"

	ipfspin "github.com/ipfs/boxo/pinning/pinner"
	cid "github.com/ipfs/go-cid"
	ds "github.com/ipfs/go-datastore"
	"github.com/ipfs/go-datastore/query"
	"github.com/multiformats/go-multibase"
	"github.com/polydawn/refmt/cbor"
	"github.com/polydawn/refmt/obj/atlas"
)

// Raw layout written by dspinner (observed at the datastore, the persistent format):
//   /pins/pin/<id>                                   -> cbor {cid, mode, name?, metadata?}
//   /pins/index/cidRindex/<b64url(cidkey)>/<b64url(id)>
//   /pins/index/cidDindex/<b64url(cidkey)>/<b64url(id)>
//   /pins/index/nameIndex/<b64url(name)>/<b64url(id)>
//   /pins/state/dirty

type Record struct {
	ID   string
	Cid  cid.Cid
	Mode ipfspin.Mode
	Name string
}

type rawPin struct {
	Cid      cid.Cid
	Metadata map[string]any
	Mode     ipfspin.Mode
	Name     string
}

var rawAtl = func() atlas.Atlas {
	a := atlas.MustBuild(
		atlas.BuildEntry(rawPin{}).StructMap().
			AddField("Cid", atlas.StructMapEntry{SerialName: "cid"}).
			AddField("Metadata", atlas.StructMapEntry{SerialName: "metadata", OmitEmpty: true}).
			AddField("Mode", atlas.StructMapEntry{SerialName: "mode"}).
			AddField("Name", atlas.StructMapEntry{SerialName: "name", OmitEmpty: true}).
			Complete(),
		atlas.BuildEntry(cid.Cid{}).Transform().
			TransformMarshal(atlas.MakeMarshalTransformFunc(func(live cid.Cid) ([]byte, error) { return live.MarshalBinary() })).
			TransformUnmarshal(atlas.MakeUnmarshalTransformFunc(func(b []byte) (cid.Cid, error) {
				c := cid.Cid{}
				if err := c.UnmarshalBinary(b); err != nil {
					return cid.Cid{}, err
				}
				return c, nil
			})).Complete(),
	)
	return a.WithMapMorphism(atlas.MapMorphism{KeySortMode: atlas.KeySortMode_Strings})
}()

// IndexEntry is one secondary-index pair.
type IndexEntry struct {
	Index string // "R" | "D" | "N"
	Key   string // cid key string (R, D) or name (N)
	ID    string
}

// RawState is the decoded content of the pinner's datastore.
type RawState struct {
	Records map[string]Record
	Index   []IndexEntry
	Dirty   []byte // nil if the flag key is absent
}

func b64dec(s string) (string, error) {
	_, b, err := multibase.Decode(s)
	return string(b), err
}

// ReadRaw decodes everything under /pins.
func ReadRaw(ctx context.Context, d ds.Datastore) (*RawState, error) {
	res, err := d.Query(ctx, query.Query{Prefix: "/pins"})
	if err != nil {
		return nil, err
	}
	ents, err := res.Rest()
	if err != nil {
		return nil, err
	}
	st := &RawState{Records: map[string]Record{}}
	for _, e := range ents {
		parts := strings.Split(strings.TrimPrefix(e.Key, "/"), "/")
		switch {
		case len(parts) == 3 && parts[1] == "pin":
			var rp rawPin
			if err := cbor.UnmarshalAtlased(cbor.DecodeOptions{}, e.Value, &rp, rawAtl); err != nil {
				return nil, fmt.Errorf("pin record %s does not decode: %v", e.Key, err)
			}
			st.Records[parts[2]] = Record{ID: parts[2], Cid: rp.Cid, Mode: rp.Mode, Name: rp.Name}
		case len(parts) == 5 && parts[1] == "index":
			var ix string
			switch parts[2] {
			case "cidRindex":
				ix = "R"
			case "cidDindex":
				ix = "D"
			case "nameIndex":
				ix = "N"
			default:
				return nil, fmt.Errorf("unknown index %s", e.Key)
			}
			k, err := b64dec(parts[3])
			if err != nil {
				return nil, fmt.Errorf("index key %s does not decode: %v", e.Key, err)
			}
			id, err := b64dec(parts[4])
			if err != nil {
				return nil, fmt.Errorf("index value %s does not decode: %v", e.Key, err)
			}
			st.Index = append(st.Index, IndexEntry{ix, k, id})
		case len(parts) == 3 && parts[1] == "state" && parts[2] == "dirty":
			st.Dirty = append([]byte{}, e.Value...)
		default:
			return nil, fmt.Errorf("unexpected key under /pins: %s", e.Key)
		}
	}
	sort.Slice(st.Index, func(i, j int) bool {
		a, b := st.Index[i], st.Index[j]
		if a.Index != b.Index {
			return a.Index < b.Index
		}
		if a.Key != b.Key {
			return a.Key < b.Key
		}
		return a.ID < b.ID
	})
	return st, nil
}

// Consistent checks invariant I1: every cid-index and name-index entry has a pin record with
// that id / cid / mode / name, and every record is indexed (cid index of its mode; name index
// when it has a name).
func (st *RawState) Consistent() error {
	have := map[IndexEntry]bool{}
	for _, e := range st.Index {
		have[e] = true
		r, ok := st.Records[e.ID]
		if !ok {
			return fmt.Errorf("index %s entry (%x -> %s) has no pin record", e.Index, e.Key, e.ID)
		}
		switch e.Index {
		case "R", "D":
			if r.Cid.KeyString() != e.Key {
				return fmt.Errorf("index %s entry for id %s names another CID than its record (%s)", e.Index, e.ID, r.Cid)
			}
			wantMode := ipfspin.Recursive
			if e.Index == "D" {
				wantMode = ipfspin.Direct
			}
			if r.Mode != wantMode {
				return fmt.Errorf("index %s holds id %s whose record has mode %d", e.Index, e.ID, r.Mode)
			}
		case "N":
			if r.Name != e.Key {
				return fmt.Errorf("name index entry (%q -> %s) but the record's name is %q", e.Key, e.ID, r.Name)
			}
		}
	}
	ids := make([]string, 0, len(st.Records))
	for id := range st.Records {
		ids = append(ids, id)
	}
	sort.Strings(ids)
	for _, id := range ids {
		r := st.Records[id]
		var ix string
		switch r.Mode {
		case ipfspin.Recursive:
			ix = "R"
		case ipfspin.Direct:
			ix = "D"
		default:
			return fmt.Errorf("pin record %s has mode %d", id, r.Mode)
		}
		if !have[IndexEntry{ix, r.Cid.KeyString(), id}] {
			return fmt.Errorf("pin record %s (%s, mode %d) is missing from cid index %s", id, r.Cid, r.Mode, ix)
		}
		if r.Name != "" && !have[IndexEntry{"N", r.Name, id}] {
			return fmt.Errorf("pin record %s (%s, name %q) is missing from the name index", id, r.Cid, r.Name)
		}
	}
	return nil
}

// PinnedCids returns cid -> set of modes that have a record.
func (st *RawState) PinnedCids() map[cid.Cid]map[ipfspin.Mode]bool {
	out := map[cid.Cid]map[ipfspin.Mode]bool{}
	for _, r := range st.Records {
		if out[r.Cid] == nil {
			out[r.Cid] = map[ipfspin.Mode]bool{}
		}
		out[r.Cid][r.Mode] = true
	}
	return out
}
