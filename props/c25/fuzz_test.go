package c25

import (
	"fmt"
	"sync"
	"testing"
	"time"

	"verif/kit"
)

// The fuzz world: a fixed set of honest records over one key of every type. Everything is
// deterministic (derived / pooled keys, RFC 6979 ECDSA), so every fuzz worker process
// reconstructs the same set of signed blobs.
var fz struct {
	once  sync.Once
	w     *world
	seeds [][]byte
	err   error
}

func fuzzSpecs() []kit.IpnsRecSpec {
	const future, past = 7258118400, 978307200 // 2200-01-01, 2001-01-01
	var out []kit.IpnsRecSpec
	for _, k := range []kit.IpnsKeySpec{{Type: "ed25519", Seed: 1}, {Type: "secp256k1", Seed: 1}, {Type: "ecdsa", Seed: 0}, {Type: "rsa", Seed: 0}} {
		out = append(out,
			kit.IpnsRecSpec{Key: k, Value: "/ipfs/bafkqaaa/a", Seq: 7, EOLSec: future, EOLNsec: 5, TTL: int64(time.Minute),
				Meta: []kit.IpnsMeta{{Key: "_m", Kind: "string", S: "x"}}},
			kit.IpnsRecSpec{Key: k, Value: "/ipns/example.com", Seq: 1 << 63, EOLSec: future, TTL: 0, V1: 2},
		)
	}
	out = append(out,
		kit.IpnsRecSpec{Key: kit.IpnsKeySpec{Type: "ed25519", Seed: 1}, Value: "/ipfs/bafkqaaa", Seq: 9, EOLSec: past, TTL: 1},
		kit.IpnsRecSpec{Key: kit.IpnsKeySpec{Type: "ed25519", Seed: 1}, Value: "/ipfs/bafkqaaa", Seq: 3, EOLSec: future, TTL: 1, Embed: 1},
		kit.IpnsRecSpec{Key: kit.IpnsKeySpec{Type: "rsa", Seed: 0}, Value: "/ipfs/bafkqaaa", Seq: 4, EOLSec: future, TTL: 1, Embed: 2},
	)
	return out
}

func fuzzWorld() (*world, [][]byte, error) {
	fz.once.Do(func() {
		now := time.Now()
		w := newWorld(now)
		mu := &mutator{w: w}
		for i, spec := range fuzzSpecs() {
			bt, err := spec.Build(now)
			if err != nil {
				fz.err = fmt.Errorf("record %d: %v", i, err)
				return
			}
			k, err := w.key(spec.Key)
			if err != nil {
				fz.err = err
				return
			}
			d, ok := mu.fieldOf(bt.Bytes, 9)
			if !ok {
				fz.err = fmt.Errorf("record %d has no data", i)
				return
			}
			if err := w.register(k, d.B, bt); err != nil {
				fz.err = err
				return
			}
			if _, err := w.honest(k, bt); err != nil {
				fz.err = fmt.Errorf("record %d: %v", i, err)
				return
			}
			mu.builts = append(mu.builts, bt)
			mu.keys = append(mu.keys, k)
			fz.seeds = append(fz.seeds, bt.Bytes)
		}
		// hostile variants of record 0 and 1 (no re-signing: the set of signed blobs stays fixed)
		for _, m := range []Mut{
			{Kind: "clear", Field: 2}, {Kind: "clear", Field: 1}, {Kind: "clear", Field: 8}, {Kind: "clear", Field: 9},
			{Kind: "dup", Field: 9, Src: "other", Other: 1}, {Kind: "prepend", Field: 9, Src: "other", Other: 1},
			{Kind: "set", Field: 8, Src: "other", Other: 1}, {Kind: "set", Field: 8, Src: "xfield", N: 1}, {Kind: "set", Field: 5, Src: "lit", V: 8},
			{Kind: "set", Field: 7, Src: "other", Other: 6}, {Kind: "unknown", N: 2, Lit: []byte("xyz")}, {Kind: "wrongtype", Field: 9, V: 1},
			{Kind: "reverse"}, {Kind: "truncate", Pos: 40}, {Kind: "flip", Field: 9, Pos: 30, Mask: 1}, {Kind: "flip", Field: 8, Pos: 3, Mask: 0x80},
			{Kind: "altdata", N: 0, Mask: 1}, {Kind: "altdata", N: 2},
			{Kind: "recbor", N: 0}, {Kind: "recbor", N: 1, Pos: 2}, {Kind: "recbor", N: 2, Pos: 1}, {Kind: "recbor", N: 3}, {Kind: "recbor", N: 4},
			{Kind: "recbor", N: 5, Pos: 3}, {Kind: "recbor", N: 5, Pos: 0, Mask: 1}, {Kind: "recbor", N: 6, Pos: 1}, {Kind: "recbor", N: 7}, {Kind: "recbor", N: 8}, {Kind: "recbor", N: 9},
		} {
			for _, base := range []int{0, 1} {
				mu.builts[0], mu.builts[base] = mu.builts[base], mu.builts[0]
				out, changed, err := mu.apply(m, mu.builts[0].Bytes)
				mu.builts[0], mu.builts[base] = mu.builts[base], mu.builts[0]
				if err != nil {
					fz.err = err
					return
				}
				if changed {
					fz.seeds = append(fz.seeds, out)
				}
			}
		}
		fz.seeds = append(fz.seeds, []byte{}, []byte{0x4a, 0x00}, []byte{0x4a, 0x01, 0xa0}, []byte{0x4a, 0x01, 0xa0, 0x42, 0x01, 0x00})
		fz.w = w
	})
	return fz.w, fz.seeds, fz.err
}

func FuzzRecord(f *testing.F) {
	w, seeds, err := fuzzWorld()
	if err != nil {
		f.Fatalf("C25 violated while building the fuzz world: %v", err)
	}
	for _, s := range seeds {
		f.Add(s)
	}
	f.Fuzz(func(t *testing.T, data []byte) {
		if _, err := w.judge(data); err != nil {
			t.Fatalf("C25 violated: %v", err)
		}
	})
}

// the fuzz seeds also run in the quick tier, as an enumerated sub-check
type SeedCase struct {
	Raw []byte `json:"raw"`
}

var seedSpec = kit.Spec[SeedCase]{
	Prop: "C25", Name: "seeds",
	Rule: "the fixed honest records and seed corpus of the fuzz target FuzzRecord (one key of every type), judged by the same oracle; non-trivial = parseable",
	Run: func(c SeedCase) kit.Result {
		w, _, err := fuzzWorld()
		if err != nil {
			return kit.Fail("fuzz world: %v", err)
		}
		v, err := w.judge(c.Raw)
		if err != nil {
			return kit.Fail("%v", err)
		}
		return kit.Result{NonTrivial: v.parsed, Classes: []string{fmt.Sprintf("parsed:%v", v.parsed), fmt.Sprintf("accepted:%v", v.accepted > 0)}}
	},
}

func TestPropSeeds(t *testing.T) {
	t.Run("replay", func(t *testing.T) { kit.Replay(t, seedSpec) })
	kit.Exhaustive(t, seedSpec, func(yield func(SeedCase) bool) {
		_, seeds, err := fuzzWorld()
		if err != nil {
			// report through the normal channel: an empty case carries the error
			yield(SeedCase{})
			return
		}
		for _, s := range seeds {
			if !yield(SeedCase{Raw: s}) {
				return
			}
		}
	})
}
