package c25

import (
	"bytes"
	"fmt"
	"testing"
	"time"

	"github.com/ipfs/boxo/ipns"
	"github.com/ipld/go-ipld-prime/codec/dagcbor"
	"github.com/ipld/go-ipld-prime/datamodel"
	basicnode "github.com/ipld/go-ipld-prime/node/basic"
	ic "github.com/libp2p/go-libp2p/core/crypto"
	"github.com/libp2p/go-libp2p/core/peer"
	"google.golang.org/protobuf/encoding/protowire"
	"pgregory.net/rapid"
	"verif/kit"
)

func TestMain(m *testing.M) { kit.Main(m) }

const sigPrefix = "ipns-signature:"

// ---------------------------------------------------------------------------
// the world: keys and everything the harness signed

type keyInfo struct {
	id   string // canonical key spec
	spec kit.IpnsKeySpec
	sk   ic.PrivKey
	pub  ic.PubKey
	name ipns.Name
	rk   string
}

// blob is one DAG-CBOR data blob the harness signed (prefix + data) with a key.
type blob struct {
	data  []byte
	built *kit.IpnsBuilt // the inputs the blob encodes
	// what the blob encodes, decoded independently of the record accessors
	value, validity []byte
	validityType    int64
	sequence, ttl   uint64
}

type world struct {
	now    time.Time
	keys   []*keyInfo
	signed map[string][]*blob // key id -> blobs signed with that key
	kb     *kit.IpnsKeyBook
}

func newWorld(now time.Time) *world {
	return &world{now: now, signed: map[string][]*blob{}, kb: &kit.IpnsKeyBook{Keys: map[peer.ID]ic.PubKey{}}}
}

func (w *world) key(ks kit.IpnsKeySpec) (*keyInfo, error) {
	id := ks.String()
	for _, k := range w.keys {
		if k.id == id {
			return k, nil
		}
	}
	sk, err := kit.IpnsKey(ks)
	if err != nil {
		return nil, err
	}
	name, err := kit.IpnsNameOf(sk)
	if err != nil {
		return nil, err
	}
	k := &keyInfo{id: id, spec: ks.Canon(), sk: sk, pub: sk.GetPublic(), name: name, rk: string(name.RoutingKey())}
	w.keys = append(w.keys, k)
	w.kb.Keys[name.Peer()] = k.pub
	return k, nil
}

// decodeBlob reads the five standard fields of a data blob with the dag-cbor codec.
func decodeBlob(data []byte, b *blob) error {
	nb := basicnode.Prototype__Map{}.NewBuilder()
	if err := dagcbor.Decode(nb, bytes.NewReader(data)); err != nil {
		return err
	}
	n := nb.Build()
	get := func(k string) (datamodel.Node, error) { return n.LookupByString(k) }
	v, err := get("Value")
	if err != nil {
		return err
	}
	if b.value, err = v.AsBytes(); err != nil {
		return err
	}
	if v, err = get("Validity"); err != nil {
		return err
	}
	if b.validity, err = v.AsBytes(); err != nil {
		return err
	}
	if v, err = get("ValidityType"); err != nil {
		return err
	}
	if b.validityType, err = v.AsInt(); err != nil {
		return err
	}
	if v, err = get("Sequence"); err != nil {
		return err
	}
	i, err := v.AsInt()
	if err != nil {
		return err
	}
	b.sequence = uint64(i)
	if v, err = get("TTL"); err != nil {
		return err
	}
	if i, err = v.AsInt(); err != nil {
		return err
	}
	b.ttl = uint64(i)
	return nil
}

// register records that data (of the honest record bt) is signed with key k. The blob must
// encode bt's inputs.
func (w *world) register(k *keyInfo, data []byte, bt *kit.IpnsBuilt) error {
	for _, b := range w.signed[k.id] {
		if bytes.Equal(b.data, data) {
			return nil
		}
	}
	b := &blob{data: data, built: bt}
	if err := decodeBlob(data, b); err != nil {
		return fmt.Errorf("data of a created record does not decode: %v", err)
	}
	vt, err := time.Parse(time.RFC3339Nano, string(b.validity))
	if string(b.value) != bt.Path.String() || err != nil || !vt.Equal(bt.EOL) || b.validityType != 0 ||
		b.sequence != bt.Spec.Seq || b.ttl != uint64(bt.Spec.TTL) {
		return fmt.Errorf("data of a created record does not encode its inputs (value %q validity %q seq %d ttl %d)", b.value, b.validity, b.sequence, b.ttl)
	}
	w.signed[k.id] = append(w.signed[k.id], b)
	return nil
}

// ---------------------------------------------------------------------------
// the oracle

type verdict struct {
	parsed   bool
	accepted int // number of (key, API) pairs that accepted
}

// judge runs the whole validation family on raw record bytes against every key of the
// world and checks the soundness oracle for every acceptance.
func (w *world) judge(raw []byte) (verdict, error) {
	var v verdict
	rec, err := ipns.UnmarshalRecord(raw)
	if err == nil {
		v.parsed = true
	}
	for _, k := range w.keys {
		var how []string
		byName := false
		if rec != nil && err == nil {
			if ipns.Validate(rec, k.pub) == nil {
				how = append(how, "Validate")
			}
			if ipns.ValidateWithName(rec, k.name) == nil {
				how = append(how, "ValidateWithName")
				byName = true
			}
		}
		if (ipns.Validator{}).Validate(k.rk, raw) == nil {
			how = append(how, "Validator{}.Validate")
			byName = true
		}
		if (ipns.Validator{KeyBook: w.kb}).Validate(k.rk, raw) == nil {
			how = append(how, "Validator{KeyBook}.Validate")
		}
		if len(how) == 0 {
			continue
		}
		v.accepted += len(how)
		if rec == nil || err != nil {
			return v, fmt.Errorf("%v accepted bytes that UnmarshalRecord rejects (%v)", how, err)
		}
		if oerr := w.oracle(k, rec, raw, byName); oerr != nil {
			return v, fmt.Errorf("%v accepted the record for key %s, but %v", how, k.id, oerr)
		}
	}
	return v, nil
}

func (w *world) oracle(k *keyInfo, rec *ipns.Record, raw []byte, byName bool) error {
	if len(raw) > ipns.MaxRecordSize {
		return fmt.Errorf("the record has %d bytes, over the %d byte limit", len(raw), ipns.MaxRecordSize)
	}
	fs, err := kit.PBParse(raw)
	if err != nil {
		return fmt.Errorf("the reference protobuf decoder rejects the bytes: %v", err)
	}
	eff := kit.IpnsEffective(fs)
	var bl *blob
	for _, b := range w.signed[k.id] {
		if bytes.Equal(b.data, eff.Data) {
			bl = b
			break
		}
	}
	if bl == nil {
		return fmt.Errorf("its effective data (%d bytes) was never signed with that key", len(eff.Data))
	}
	if ok, err := k.pub.Verify(append([]byte(sigPrefix), eff.Data...), eff.SigV2); err != nil || !ok {
		return fmt.Errorf("its effective signatureV2 is not a signature of the data by that key")
	}
	if !bl.built.EOL.After(w.now) {
		return fmt.Errorf("the signed data expired at %s", bl.built.EOL.Format(time.RFC3339Nano))
	}
	if err := kit.IpnsCheckAccessors(rec, bl.built); err != nil {
		return fmt.Errorf("an accessor disagrees with the signed data: %v", err)
	}
	// legacy fields: must agree with the signed data whenever value or signatureV1 is present
	if len(eff.Value) != 0 || len(eff.SigV1) != 0 {
		switch {
		case !bytes.Equal(eff.Value, bl.value):
			return fmt.Errorf("legacy value %q disagrees with signed %q", eff.Value, bl.value)
		case !bytes.Equal(eff.Validity, bl.validity):
			return fmt.Errorf("legacy validity %q disagrees with signed %q", eff.Validity, bl.validity)
		case int64(eff.ValidityType) != bl.validityType:
			return fmt.Errorf("legacy validityType %d disagrees with signed %d", eff.ValidityType, bl.validityType)
		case eff.Sequence != bl.sequence:
			return fmt.Errorf("legacy sequence %d disagrees with signed %d", eff.Sequence, bl.sequence)
		case eff.TTL != bl.ttl:
			return fmt.Errorf("legacy ttl %d disagrees with signed %d", eff.TTL, bl.ttl)
		}
	}
	// name-based validation: the key must come from the record or from the name
	if byName {
		if len(eff.PubKey) != 0 {
			pk, err := ic.UnmarshalPublicKey(eff.PubKey)
			if err != nil || !pk.Equals(k.pub) {
				return fmt.Errorf("its embedded public key is not the key of the name (err=%v)", err)
			}
		} else if !k.spec.Inlinable() {
			return fmt.Errorf("it has no embedded public key and the name does not contain the key")
		}
	}
	return nil
}

// honest checks the non-vacuity clause for a library-made record: it passes iff it is
// unexpired and within the size limit.
func (w *world) honest(k *keyInfo, bt *kit.IpnsBuilt) (valid bool, err error) {
	valid = bt.EOL.After(w.now) && len(bt.Bytes) <= ipns.MaxRecordSize
	derivable := bt.Spec.Embedded() || bt.Spec.Key.Inlinable()
	rec2, uerr := ipns.UnmarshalRecord(bt.Bytes)
	type res struct {
		api string
		err error
	}
	var rs []res
	rs = append(rs, res{"Validate(created)", ipns.Validate(bt.Rec, k.pub)})
	if uerr == nil {
		rs = append(rs, res{"Validate(decoded)", ipns.Validate(rec2, k.pub)})
	}
	rs = append(rs, res{"Validator{KeyBook}.Validate", (ipns.Validator{KeyBook: w.kb}).Validate(k.rk, bt.Bytes)})
	if derivable {
		rs = append(rs, res{"ValidateWithName(created)", ipns.ValidateWithName(bt.Rec, k.name)})
		rs = append(rs, res{"Validator{}.Validate", (ipns.Validator{}).Validate(k.rk, bt.Bytes)})
	}
	for _, r := range rs {
		if valid && r.err != nil {
			return valid, fmt.Errorf("honest record (unexpired, %d bytes) rejected by %s: %v", len(bt.Bytes), r.api, r.err)
		}
		if !valid && r.err == nil {
			return valid, fmt.Errorf("%s accepted an honest record that is expired (EOL %s) or oversize (%d bytes)", r.api, bt.EOL.Format(time.RFC3339), len(bt.Bytes))
		}
	}
	if valid && uerr != nil {
		return valid, fmt.Errorf("honest record does not unmarshal: %v", uerr)
	}
	return valid, nil
}

// ---------------------------------------------------------------------------
// case

// Mut is one mutation of the target record's bytes.
type Mut struct {
	// Kind: set | clear | flip | dup | prepend | unknown | wrongtype | truncate | rawflip |
	// resign | pad | reverse | altdata | recbor (N: mode, Pos: entry, Mask: head width)
	Kind  string `json:"kind"`
	Field int32  `json:"field,omitempty"` // 1..9
	// Src (set/dup/prepend): other (same field of record Other) | xfield (field N of the
	// target) | lit | empty | flip (own value, one bit flipped)
	Src   string `json:"src,omitempty"`
	Other int    `json:"other,omitempty"`
	Lit   []byte `json:"lit,omitempty"`
	V     uint64 `json:"v,omitempty"`
	Pos   int    `json:"pos,omitempty"`
	Mask  byte   `json:"mask,omitempty"`
	N     int    `json:"n,omitempty"`
}

type Case struct {
	Recs []kit.IpnsRecSpec `json:"recs"`
	// SizeDelta != nil: record 0 is padded with a metadata entry so that its marshalled size
	// is MaxRecordSize + *SizeDelta (as closely as the encoding allows).
	SizeDelta *int  `json:"size_delta,omitempty"`
	Muts      []Mut `json:"muts"` // applied in order to record 0
}

var bytesFields = []int32{1, 2, 4, 7, 8, 9}
var varintFields = []int32{3, 5, 6}

func genMut(t *rapid.T, nrec int) Mut {
	m := Mut{}
	m.Kind = rapid.SampledFrom([]string{
		"set", "set", "set", "set", "clear", "clear", "flip", "flip", "flip", "dup", "dup", "prepend", "unknown", "wrongtype",
		"truncate", "rawflip", "rawflip", "resign", "resign", "pad", "reverse", "altdata", "altdata", "recbor", "recbor", "recbor",
	}).Draw(t, "kind")
	m.Field = int32(rapid.SampledFrom([]int{1, 2, 3, 4, 5, 6, 7, 8, 8, 9, 9}).Draw(t, "field"))
	m.Other = rapid.IntRange(0, nrec-1).Draw(t, "other")
	m.Pos = rapid.IntRange(0, 1<<16).Draw(t, "pos")
	m.Mask = byte(rapid.SampledFrom([]int{1, 2, 0x80, 0xff, 0x20}).Draw(t, "mask"))
	m.N = rapid.IntRange(0, 15).Draw(t, "n")
	switch m.Kind {
	case "set", "dup", "prepend":
		m.Src = rapid.SampledFrom([]string{"other", "other", "other", "xfield", "lit", "empty", "flip"}).Draw(t, "src")
		if m.Src == "lit" {
			m.Lit = kit.Bytes(80).Draw(t, "lit")
			m.V = rapid.OneOf(rapid.Uint64Range(0, 3), rapid.Uint64()).Draw(t, "v")
		}
	case "unknown", "wrongtype":
		m.Lit = kit.Bytes(40).Draw(t, "lit")
		m.V = rapid.Uint64().Draw(t, "v")
	case "pad":
		m.N = rapid.IntRange(-3, 3).Draw(t, "delta")
	}
	return m
}

func gen(t *rapid.T) Case {
	c := Case{}
	n := rapid.SampledFrom([]int{1, 2, 2, 3}).Draw(t, "nrec")
	for i := 0; i < n; i++ {
		r := kit.IpnsRecSpecs().Draw(t, "rec")
		if i > 0 && rapid.Bool().Draw(t, "samekey") {
			r.Key = c.Recs[0].Key
		}
		if rapid.IntRange(0, 6).Draw(t, "expired") == 0 {
			r.EOLRel, r.EOLSec, r.EOLNsec = kit.IpnsPastEOL(t)
		}
		c.Recs = append(c.Recs, r)
	}
	if rapid.IntRange(0, 9).Draw(t, "big") == 0 {
		d := rapid.IntRange(-20, 20).Draw(t, "sizedelta")
		c.SizeDelta = &d
	}
	nm := rapid.SampledFrom([]int{0, 1, 1, 1, 1, 1, 2, 2, 2, 3}).Draw(t, "nmut")
	for i := 0; i < nm; i++ {
		c.Muts = append(c.Muts, genMut(t, n))
	}
	return c
}

// ---------------------------------------------------------------------------
// mutation engine

func lastIndex(fs []kit.PBField, num int32) int {
	for i := len(fs) - 1; i >= 0; i-- {
		if fs[i].Num == num {
			return i
		}
	}
	return -1
}

func removeField(fs []kit.PBField, num int32) []kit.PBField {
	var out []kit.PBField
	for _, f := range fs {
		if f.Num != num {
			out = append(out, f)
		}
	}
	return out
}

func setField(fs []kit.PBField, nf kit.PBField) []kit.PBField {
	i := lastIndex(fs, nf.Num)
	if i < 0 {
		return append(fs, nf)
	}
	var out []kit.PBField
	for j, f := range fs {
		if j == i {
			out = append(out, nf)
		} else if f.Num != nf.Num {
			out = append(out, f)
		}
	}
	return out
}

func mkField(num int32, b []byte, v uint64) kit.PBField {
	if kit.IpnsFieldIsBytes(num) {
		return kit.PBField{Num: num, Typ: int8(protowire.BytesType), B: append([]byte{}, b...)}
	}
	return kit.PBField{Num: num, Typ: int8(protowire.VarintType), V: v}
}

func flipBytes(b []byte, pos int, mask byte) []byte {
	if mask == 0 {
		mask = 1
	}
	out := append([]byte{}, b...)
	if len(out) == 0 {
		return []byte{mask}
	}
	out[pos%len(out)] ^= mask
	return out
}

// throwaway key used to produce unsigned-by-the-case data blobs
var altKey = kit.IpnsKeySpec{Type: "ed25519", Seed: 0xA17DA7A}

type mutator struct {
	w      *world
	builts []*kit.IpnsBuilt // honest records of the case
	keys   []*keyInfo       // their keys
	labels []string
}

// value of field num in honest record i (effective), ok=false if absent
func (mu *mutator) fieldOf(raw []byte, num int32) (kit.PBField, bool) {
	fs, err := kit.PBParse(raw)
	if err != nil {
		return kit.PBField{}, false
	}
	i := lastIndex(fs, num)
	if i < 0 {
		return kit.PBField{}, false
	}
	return fs[i], true
}

func (mu *mutator) source(m Mut, cur []byte) (kit.PBField, bool) {
	switch m.Src {
	case "other":
		f, ok := mu.fieldOf(mu.builts[m.Other%len(mu.builts)].Bytes, m.Field)
		return f, ok
	case "xfield":
		// a different field of the same wire type from the current record
		pool := bytesFields
		if !kit.IpnsFieldIsBytes(m.Field) {
			pool = varintFields
		}
		src := pool[m.N%len(pool)]
		f, ok := mu.fieldOf(cur, src)
		if !ok {
			return f, false
		}
		f.Num = m.Field
		return f, true
	case "lit":
		return mkField(m.Field, m.Lit, m.V), true
	case "empty":
		return mkField(m.Field, nil, 0), true
	case "flip":
		f, ok := mu.fieldOf(cur, m.Field)
		if !ok {
			return mkField(m.Field, []byte{m.Mask}, uint64(m.Mask)), true
		}
		if protowire.Type(f.Typ) == protowire.BytesType {
			f.B = flipBytes(f.B, m.Pos, m.Mask)
		} else {
			f.V ^= 1 << (uint(m.Pos) % 64)
		}
		return f, true
	}
	return kit.PBField{}, false
}

// apply returns the mutated bytes; changed=false if the mutation was not applicable.
func (mu *mutator) apply(m Mut, cur []byte) (out []byte, changed bool, err error) {
	label := m.Kind
	defer func() {
		if changed {
			mu.labels = append(mu.labels, "mut:"+label)
		}
	}()
	switch m.Kind {
	case "truncate":
		if len(cur) == 0 {
			return cur, false, nil
		}
		return append([]byte{}, cur[:m.Pos%len(cur)]...), true, nil
	case "rawflip":
		if len(cur) == 0 {
			return cur, false, nil
		}
		return flipBytes(cur, m.Pos, m.Mask), true, nil
	}
	fs, perr := kit.PBParse(cur)
	if perr != nil {
		return cur, false, nil
	}
	switch m.Kind {
	case "clear", "flip", "wrongtype":
		// these need an existing field: fall back to one that is present
		if lastIndex(fs, m.Field) < 0 && len(fs) > 0 {
			m.Field = fs[m.Pos%len(fs)].Num
		}
	}
	switch m.Kind {
	case "set", "dup", "prepend":
		nf, ok := mu.source(m, cur)
		label = m.Kind + ":" + m.Src
		if !ok {
			if m.Kind != "set" {
				return cur, false, nil
			}
			label = "set:absent"
			fs = removeField(fs, m.Field)
			break
		}
		switch m.Kind {
		case "set":
			fs = setField(fs, nf)
		case "dup":
			fs = append(fs, nf)
		case "prepend":
			fs = append([]kit.PBField{nf}, fs...)
		}
	case "clear":
		if lastIndex(fs, m.Field) < 0 {
			return cur, false, nil
		}
		fs = removeField(fs, m.Field)
	case "flip":
		i := lastIndex(fs, m.Field)
		if i < 0 {
			return cur, false, nil
		}
		if protowire.Type(fs[i].Typ) == protowire.BytesType {
			fs[i].B = flipBytes(fs[i].B, m.Pos, m.Mask)
		} else {
			fs[i].V ^= 1 << (uint(m.Pos) % 64)
		}
	case "unknown":
		num := int32(10 + m.Pos%30)
		if m.N%5 == 4 {
			num = 1<<29 - 1
		}
		typ := []protowire.Type{protowire.VarintType, protowire.Fixed64Type, protowire.BytesType, protowire.Fixed32Type}[m.N%4]
		nf := kit.PBField{Num: num, Typ: int8(typ), V: m.V, B: m.Lit}
		if m.Mask&1 == 1 {
			fs = append([]kit.PBField{nf}, fs...)
		} else {
			fs = append(fs, nf)
		}
	case "wrongtype":
		i := lastIndex(fs, m.Field)
		if i < 0 {
			return cur, false, nil
		}
		if protowire.Type(fs[i].Typ) == protowire.BytesType {
			fs[i] = kit.PBField{Num: m.Field, Typ: int8(protowire.VarintType), V: m.V}
		} else {
			fs[i] = kit.PBField{Num: m.Field, Typ: int8(protowire.BytesType), B: m.Lit}
		}
	case "reverse":
		for i, j := 0, len(fs)-1; i < j; i, j = i+1, j-1 {
			fs[i], fs[j] = fs[j], fs[i]
		}
	case "pad":
		// unknown bytes field sized so that the record has MaxRecordSize + N bytes
		base := len(kit.PBEncode(fs))
		want := ipns.MaxRecordSize + m.N
		room := want - base - 1 - 2 // tag (field 15) + two-byte length for payloads >= 128
		if room < 128 || room > 16383 {
			return cur, false, nil
		}
		fs = append(fs, kit.PBField{Num: 15, Typ: int8(protowire.BytesType), B: make([]byte, room)})
	case "resign":
		// sign the (unmodified) data of the target with the key of record Other
		eff := kit.IpnsEffective(fs)
		t0 := mu.builts[0]
		d0, _ := mu.fieldOf(t0.Bytes, 9)
		if !bytes.Equal(eff.Data, d0.B) {
			return cur, false, nil
		}
		k := mu.keys[m.Other%len(mu.keys)]
		msg := append([]byte(sigPrefix), eff.Data...)
		label = "resign"
		if m.N&4 != 0 {
			msg = eff.Data // signature over the data without the domain-separation prefix
			label = "resign:noprefix"
		}
		sig, serr := k.sk.Sign(msg)
		if serr != nil {
			return cur, false, fmt.Errorf("harness: sign: %v", serr)
		}
		if m.N&4 == 0 {
			if rerr := mu.w.register(k, eff.Data, t0); rerr != nil {
				return cur, false, rerr
			}
		}
		fs = setField(fs, mkField(8, sig, 0))
		switch m.N & 3 {
		case 1:
			pkb, merr := ic.MarshalPublicKey(k.pub)
			if merr != nil {
				return cur, false, fmt.Errorf("harness: %v", merr)
			}
			fs = setField(fs, mkField(7, pkb, 0))
			label += "+key"
		case 2:
			fs = removeField(fs, 7)
			label += "-key"
		}
	case "altdata":
		// data (N odd: and the legacy fields) of a record that encodes different inputs and
		// was signed only with a throw-away key that is not part of the case
		alt := mu.builts[0].Spec
		alt.Key = altKey
		switch m.N % 4 {
		case 0:
			alt.Seq++
		case 1:
			alt.TTL ^= 1
		case 2:
			alt.Value = "/ipfs/bafkqaaa"
			if mu.builts[0].Spec.Value == alt.Value {
				alt.Value = "/ipns/example.com"
			}
		default:
			alt.EOLNsec = (alt.EOLNsec + 1) % 1000000000
		}
		ab, berr := alt.Build(mu.w.now)
		if berr != nil {
			return cur, false, fmt.Errorf("harness: alt record: %v", berr)
		}
		label = "altdata"
		fields := []int32{9}
		if m.Mask&1 == 1 {
			fields = []int32{9, 1, 3, 4, 5, 6}
			label = "altdata+legacy"
		}
		for _, num := range fields {
			f, ok := mu.fieldOf(ab.Bytes, num)
			if ok {
				fs = setField(fs, f)
			} else {
				fs = removeField(fs, num)
			}
		}
	case "recbor":
		// the current data blob re-encoded as different CBOR bytes of (at most) the same logical
		// document; signatures and legacy fields are kept
		i := lastIndex(fs, 9)
		if i < 0 || protowire.Type(fs[i].Typ) != protowire.BytesType {
			return cur, false, nil
		}
		nd, l, ok := recbor(fs[i].B, m.N, m.Pos, int(m.Mask))
		if !ok {
			return cur, false, nil
		}
		label = l
		fs[i].B = nd
	default:
		return cur, false, fmt.Errorf("harness: unknown mutation %q", m.Kind)
	}
	out = kit.PBEncode(fs)
	return out, !bytes.Equal(out, cur), nil
}

// ---------------------------------------------------------------------------
// run

func padTo(spec kit.IpnsRecSpec, now time.Time, want int) (kit.IpnsRecSpec, error) {
	// drop any drawn metadata named _pad, measure, then pad
	var meta []kit.IpnsMeta
	for _, m := range spec.Meta {
		if m.Key != "_pad" {
			meta = append(meta, m)
		}
	}
	spec.Meta = append(meta, kit.IpnsMeta{Key: "_pad", Kind: "bytes", B: make([]byte, 300)})
	b, err := spec.Build(now)
	if err != nil {
		return spec, err
	}
	n := 300 + want - len(b.Bytes)
	if n < 300 {
		n = 300
	}
	spec.Meta[len(spec.Meta)-1].B = make([]byte, n)
	return spec, nil
}

func run(c Case) kit.Result {
	if len(c.Recs) == 0 {
		return kit.Fail("harness: no records")
	}
	now := time.Now()
	w := newWorld(now)
	mu := &mutator{w: w}
	var cls []string
	for i, spec := range c.Recs {
		if i == 0 && c.SizeDelta != nil {
			var err error
			if spec, err = padTo(spec, now, ipns.MaxRecordSize+*c.SizeDelta); err != nil {
				return kit.Fail("harness: padding: %v", err)
			}
		}
		bt, err := spec.Build(now)
		if err != nil {
			return kit.Fail("NewRecord failed on valid inputs: %v", err)
		}
		k, err := w.key(spec.Key)
		if err != nil {
			return kit.Fail("harness: key: %v", err)
		}
		d, ok := mu.fieldOf(bt.Bytes, 9)
		if !ok {
			return kit.Fail("created record has no data field")
		}
		if err := w.register(k, d.B, bt); err != nil {
			return kit.Fail("%v", err)
		}
		mu.builts = append(mu.builts, bt)
		mu.keys = append(mu.keys, k)
	}
	// non-vacuity: honest records pass iff unexpired and within the size limit
	for i, bt := range mu.builts {
		valid, err := w.honest(mu.keys[i], bt)
		if err != nil {
			return kit.Fail("record %d: %v", i, err)
		}
		if i == 0 {
			switch {
			case !bt.EOL.After(now):
				cls = append(cls, "target:expired")
			case !valid:
				cls = append(cls, "target:oversize")
			case c.SizeDelta != nil:
				cls = append(cls, "target:near-limit")
			default:
				cls = append(cls, "target:valid")
			}
		}
		// every honest record is also judged against every key of the case
		if _, err := w.judge(bt.Bytes); err != nil {
			return kit.Fail("honest record %d: %v", i, err)
		}
	}
	cls = append(cls, "key:"+c.Recs[0].Key.Type)
	// mutate record 0
	cur := mu.builts[0].Bytes
	nchanged := 0
	for _, m := range c.Muts {
		out, changed, err := mu.apply(m, cur)
		if err != nil {
			return kit.Fail("%v", err)
		}
		if changed {
			nchanged++
		}
		cur = out
	}
	cls = append(cls, mu.labels...)
	if nchanged == 0 {
		return kit.Result{NonTrivial: false, Classes: append(cls, "unmutated")}
	}
	v, err := w.judge(cur)
	if err != nil {
		return kit.Fail("after mutations %v: %v", mu.labels, err)
	}
	switch {
	case !v.parsed:
		cls = append(cls, "out:unparseable")
	case v.accepted > 0:
		cls = append(cls, "out:accepted")
		for _, l := range mu.labels {
			cls = append(cls, "accepted:"+l)
		}
	default:
		cls = append(cls, "out:rejected")
	}
	return kit.Result{NonTrivial: v.parsed, Classes: cls}
}

var spec = kit.Spec[Case]{
	Prop: "C25", Name: "main",
	Rule:  "1-3 library-made records (all key types, shared or different keys, some expired, some padded to the size limit); record 0 undergoes 0-3 mutations (set/clear/flip/duplicate/prepend each protobuf field from another record, another field, a literal or a flipped copy; unknown fields; wrong wire type; field order reversal; padding to the size limit; truncation; raw byte flips; re-signing with another key with/without the domain prefix and with/without the embedded key; data of a differently-valued record; the data blob re-encoded as different CBOR bytes of the same document: map entries reordered, non-minimal heads, indefinite lengths, repeated entry, trailing item); the bytes are validated against every key of the case with Validate / ValidateWithName / Validator.Validate (with and without key book); every acceptance must satisfy: effective data was signed with that key, signatureV2 verifies, unexpired, <= 10 KiB, accessors equal the signed inputs, legacy fields agree when value or signatureV1 is present, embedded key matches the name; honest records must pass iff unexpired and within the limit; non-trivial = mutated and still parseable",
	Quick: 2000, Thorough: 15000,
	Gen: gen, Run: run,
	Sample: func(c Case) any {
		type brief struct {
			Key   kit.IpnsKeySpec `json:"key"`
			Value string          `json:"value"`
			Seq   uint64          `json:"seq"`
			V1    int             `json:"v1"`
			Embed int             `json:"embed"`
		}
		var rs []brief
		for _, r := range c.Recs {
			rs = append(rs, brief{r.Key, r.Value, r.Seq, r.V1, r.Embed})
		}
		return map[string]any{"recs": rs, "muts": c.Muts, "size_delta": c.SizeDelta}
	},
}

func TestProp(t *testing.T) { kit.All(t, spec) }
