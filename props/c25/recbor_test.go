package c25

import "encoding/binary"

// Re-encodings of a signed DAG-CBOR data blob: different byte strings that a lenient CBOR
// decoder may read as the same logical document (map entries in another order, non-minimal
// heads, indefinite length, a repeated entry, trailing bytes). The signature is over the
// bytes, so none of them was signed; the oracle needs no knowledge of what they decode to.

// cborHead reads the head of the item at b[0]: major type, argument, head length. ok=false for
// truncated input and for indefinite-length / reserved additional information.
func cborHead(b []byte) (major byte, arg uint64, hl int, ok bool) {
	if len(b) == 0 {
		return 0, 0, 0, false
	}
	major, ai := b[0]>>5, b[0]&31
	switch {
	case ai < 24:
		return major, uint64(ai), 1, true
	case ai == 24 && len(b) >= 2:
		return major, uint64(b[1]), 2, true
	case ai == 25 && len(b) >= 3:
		return major, uint64(binary.BigEndian.Uint16(b[1:])), 3, true
	case ai == 26 && len(b) >= 5:
		return major, uint64(binary.BigEndian.Uint32(b[1:])), 5, true
	case ai == 27 && len(b) >= 9:
		return major, binary.BigEndian.Uint64(b[1:]), 9, true
	}
	return 0, 0, 0, false
}

// cborItemLen is the encoded length of the complete item at b[0] (definite lengths only).
func cborItemLen(b []byte, depth int) (int, bool) {
	major, arg, hl, ok := cborHead(b)
	if !ok || depth > 64 {
		return 0, false
	}
	switch major {
	case 0, 1, 7:
		return hl, true
	case 2, 3:
		if arg > uint64(len(b)-hl) {
			return 0, false
		}
		return hl + int(arg), true
	}
	n := arg // array
	if major == 5 {
		if arg > uint64(len(b)) {
			return 0, false
		}
		n = 2 * arg
	} else if major == 6 {
		n = 1
	}
	off := hl
	for i := uint64(0); i < n; i++ {
		if off >= len(b) {
			return 0, false
		}
		l, ok := cborItemLen(b[off:], depth+1)
		if !ok {
			return 0, false
		}
		off += l
	}
	return off, true
}

// cborPutHead writes a head with an argument of exactly width bytes (0 = inside the initial byte).
func cborPutHead(major byte, arg uint64, width int) []byte {
	switch width {
	case 0:
		return []byte{major<<5 | byte(arg)}
	case 1:
		return []byte{major<<5 | 24, byte(arg)}
	case 2:
		return binary.BigEndian.AppendUint16([]byte{major<<5 | 25}, uint16(arg))
	case 4:
		return binary.BigEndian.AppendUint32([]byte{major<<5 | 26}, uint32(arg))
	}
	return binary.BigEndian.AppendUint64([]byte{major<<5 | 27}, arg)
}

// cborWiden re-encodes the head of the item with the next wider (sel odd: the widest)
// argument; ok=false when the item has no integer argument or is already 8 bytes wide.
func cborWiden(item []byte, sel int) ([]byte, bool) {
	major, arg, hl, ok := cborHead(item)
	if !ok || major == 7 || hl == 9 {
		return nil, false
	}
	width := map[int]int{1: 1, 2: 2, 3: 4, 5: 8}[hl]
	if sel&1 == 1 {
		width = 8
	}
	return append(cborPutHead(major, arg, width), item[hl:]...), true
}

type cborEntry struct{ k, v []byte }

// cborSplitMap splits a definite-length top-level map into its entries (raw key and value items).
func cborSplitMap(data []byte) ([]cborEntry, bool) {
	major, n, hl, ok := cborHead(data)
	if !ok || major != 5 || n > uint64(len(data)) {
		return nil, false
	}
	off := hl
	var es []cborEntry
	for i := uint64(0); i < n; i++ {
		var e cborEntry
		for _, p := range []*[]byte{&e.k, &e.v} {
			if off >= len(data) {
				return nil, false
			}
			l, ok := cborItemLen(data[off:], 0)
			if !ok {
				return nil, false
			}
			*p = data[off : off+l]
			off += l
		}
		es = append(es, e)
	}
	return es, off == len(data)
}

func cborJoinMap(head []byte, es []cborEntry, tail []byte) []byte {
	out := append([]byte{}, head...)
	for _, e := range es {
		out = append(out, e.k...)
		out = append(out, e.v...)
	}
	return append(out, tail...)
}

func minimalWidth(n uint64) int {
	switch {
	case n < 24:
		return 0
	case n < 1<<8:
		return 1
	case n < 1<<16:
		return 2
	case n < 1<<32:
		return 4
	}
	return 8
}

// recbor returns a re-encoding of the data blob and its label; ok=false if not applicable.
func recbor(data []byte, mode, pos, sel int) (out []byte, label string, ok bool) {
	es, ok := cborSplitMap(data)
	if !ok || len(es) == 0 {
		return nil, "", false
	}
	n := uint64(len(es))
	head := cborPutHead(5, n, minimalWidth(n))
	i := pos % len(es)
	switch mode % 10 {
	case 0: // entries in reverse order
		for a, b := 0, len(es)-1; a < b; a, b = a+1, b-1 {
			es[a], es[b] = es[b], es[a]
		}
		return cborJoinMap(head, es, nil), "recbor:order", true
	case 1: // entries rotated
		r := (1 + pos%max(1, len(es)-1)) % len(es)
		es = append(append([]cborEntry{}, es[r:]...), es[:r]...)
		return cborJoinMap(head, es, nil), "recbor:order", true
	case 2: // two neighbouring entries swapped
		j := (i + 1) % len(es)
		es[i], es[j] = es[j], es[i]
		return cborJoinMap(head, es, nil), "recbor:order", true
	case 3: // non-minimal map head
		h, ok := cborWiden(head, sel)
		return cborJoinMap(h, es, nil), "recbor:maphead", ok
	case 4: // indefinite-length map
		return cborJoinMap([]byte{0xbf}, es, []byte{0xff}), "recbor:indefinite", true
	case 5: // non-minimal head of one value (integer, or length of bytes/string/array/map)
		for d := 0; d < len(es); d++ {
			e := &es[(i+d)%len(es)]
			if v, ok := cborWiden(e.v, sel); ok {
				e.v = v
				return cborJoinMap(head, es, nil), "recbor:valhead", true
			}
		}
		return nil, "", false
	case 6: // non-minimal length of one key
		k, ok := cborWiden(es[i].k, sel)
		es[i].k = k
		return cborJoinMap(head, es, nil), "recbor:keyhead", ok
	case 7: // one entry repeated (same key, same value)
		es = append(es, es[i])
		n++
		return cborJoinMap(cborPutHead(5, n, minimalWidth(n)), es, nil), "recbor:repeat", true
	case 8: // one bytes/string value as a single-chunk indefinite-length string
		for d := 0; d < len(es); d++ {
			e := &es[(i+d)%len(es)]
			if major, _, _, ok := cborHead(e.v); ok && (major == 2 || major == 3) {
				e.v = append(append([]byte{major<<5 | 31}, e.v...), 0xff)
				return cborJoinMap(head, es, nil), "recbor:chunked", true
			}
		}
		return nil, "", false
	default: // a complete second item after the document
		return cborJoinMap(head, es, []byte{0xa0}), "recbor:trailing", true
	}
}
