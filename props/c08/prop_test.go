// Package c08 checks property C08: appending to a trickle DAG preserves content, size
// bookkeeping and the trickle layout rules.
package c08

import (
	"bytes"
	"fmt"
	"runtime/debug"
	"strconv"
	"strings"
	"testing"

	"pgregory.net/rapid"
	"verif/kit"
)

func TestMain(m *testing.M) {
	debug.SetGCPercent(800)
	kit.Main(m)
}

// Case: a base file built with trickle.Layout and one to three successive appends with the
// same width, leaf kind, CID builder and chunker.
type Case struct {
	P       kit.ImportParams `json:"params"` // layout is always "trickle"; no mode/mtime
	Base    kit.DataSpec     `json:"base"`
	Appends []kit.DataSpec   `json:"appends"`
}

// ---------------------------------------------------------------------------
// generator

func genChunker(t *rapid.T) (string, int, bool) {
	switch rapid.IntRange(0, 9).Draw(t, "chunkerclass") {
	case 0, 1, 2, 3, 4, 5:
		n := rapid.IntRange(1, 6).Draw(t, "tinychunk")
		return fmt.Sprintf("size-%d", n), n, true
	case 6:
		n := rapid.IntRange(7, 512).Draw(t, "chunk")
		return fmt.Sprintf("size-%d", n), n, true
	default: // content-defined
		mn := rapid.IntRange(16, 20).Draw(t, "rmin")
		av := mn + rapid.IntRange(1, 8).Draw(t, "ravg")
		mx := av + rapid.IntRange(1, 16).Draw(t, "rmax")
		return fmt.Sprintf("rabin-%d-%d-%d", mn, av, mx), (mn + mx) / 2, false
	}
}

// boundaryChunks: number of chunks of a trickle file whose root has width direct leaves and
// k full sub-trees (k = 0 gives exactly the direct leaves).
func boundaryChunks(w, k, cap int) int {
	n := w
	for j := 0; j < k && n <= cap; j++ {
		n += kit.TrickleCapacity(w, j/kit.TrickleRepeat+1)
	}
	return n
}

func genBaseChunks(t *rapid.T, w, maxChunks int) int {
	var n int
	switch rapid.IntRange(0, 9).Draw(t, "baseclass") {
	case 0:
		n = rapid.IntRange(0, w).Draw(t, "direct")
	case 1, 2, 3:
		// k full sub-trees, +-1 chunk
		k := rapid.IntRange(0, 14).Draw(t, "subtrees")
		n = boundaryChunks(w, k, maxChunks) + rapid.IntRange(-1, 1).Draw(t, "pm")
	case 4, 5, 6:
		// k full sub-trees and a partly filled next one
		k := rapid.IntRange(0, 14).Draw(t, "subtrees")
		n = boundaryChunks(w, k, maxChunks)
		next := kit.TrickleCapacity(w, k/kit.TrickleRepeat+1)
		n += rapid.IntRange(1, max(1, next-1)).Draw(t, "partial")
	default:
		n = rapid.IntRange(0, maxChunks).Draw(t, "any")
	}
	if n < 0 {
		n = 0
	}
	if n > maxChunks {
		n = rapid.IntRange(0, maxChunks).Draw(t, "capped")
	}
	return n
}

func genAppendChunks(t *rapid.T, w, maxChunks int) int {
	return rapid.OneOf(
		rapid.IntRange(0, 1),
		rapid.IntRange(1, w+1),
		rapid.IntRange(1, 5*w+2),
		rapid.IntRange(1, 60),
		rapid.IntRange(1, maxChunks),
		rapid.IntRange(maxChunks/2, maxChunks),
	).Draw(t, "appendchunks")
}

func genData(t *rapid.T, chunks, typ int, exact bool, label string) kit.DataSpec {
	n := chunks * typ
	if chunks > 0 && typ > 1 && exact && rapid.IntRange(0, 2).Draw(t, label+".partial") == 0 {
		n -= rapid.IntRange(1, typ-1).Draw(t, label+".short") // short last chunk
	}
	return kit.DataOfLen(t, n, label)
}

func gen(t *rapid.T) Case {
	var c Case
	c.P.Layout = "trickle"
	c.P.Width = rapid.OneOf(rapid.IntRange(2, 4), rapid.IntRange(2, 4), rapid.IntRange(2, 4), rapid.IntRange(5, 8), rapid.IntRange(9, 16)).Draw(t, "width")
	var typ int
	var exact bool
	c.P.Chunker, typ, exact = genChunker(t)
	c.P.RawLeaves = rapid.Bool().Draw(t, "rawleaves")
	if rapid.IntRange(0, 2).Draw(t, "withprefix") == 0 {
		p := kit.Prefixes(false).Draw(t, "prefix")
		p.Codec = 0x70
		c.P.Prefix = &p
	}
	maxChunks := kit.Scale(300, 2500)
	if kit.Tier() == "thorough" && rapid.IntRange(0, 3).Draw(t, "modest") != 0 {
		maxChunks = 300
	}
	c.Base = genData(t, genBaseChunks(t, c.P.Width, maxChunks), typ, exact, "base")
	na := rapid.SampledFrom([]int{1, 1, 1, 2, 2, 3}).Draw(t, "nappends")
	for i := 0; i < na; i++ {
		c.Appends = append(c.Appends, genData(t, genAppendChunks(t, c.P.Width, maxChunks), typ, exact, fmt.Sprintf("app%d", i)))
	}
	return c
}

// ---------------------------------------------------------------------------
// oracle

const knownF4 = "append-layer-boundary-too-deep"

// matchesF4 decides whether a "too-deep" violation reported at path (e.g. "root/4/2") has
// the signature of finding F4. F4: trickle.Append descends along the last children of the
// pre-append tree; at a node X whose link count k is <= width or width + a multiple of
// TrickleRepeat (trickleDepthInfo reports repeatNumber 0) it increments the depth once too
// often, so the sub-trees it then ADDS to X (link index >= max(k, width)) are built one level
// deeper than their position allows. The violation must therefore lie inside such a new
// sub-tree of such a node X; a too-deep sub-tree anywhere else is not excluded.
func matchesF4(pre *kit.FileNode, w int, path string) bool {
	parts := strings.Split(path, "/")
	if len(parts) < 3 || parts[0] != "root" {
		return false
	}
	var idx []int
	for _, s := range parts[1:] {
		i, err := strconv.Atoi(s)
		if err != nil {
			return false
		}
		idx = append(idx, i)
	}
	x := pre
	for t := 0; t < len(idx)-1; t++ { // the last index names the offending sub-tree inside the new child
		if x == nil || x.Raw {
			return false
		}
		k := len(x.Children)
		layerStart := k <= w || (k-w)%kit.TrickleRepeat == 0
		if idx[t] >= max(k, w) {
			return layerStart // a sub-tree added to X by this append
		}
		if k > w && idx[t] == k-1 {
			x = x.Children[k-1] // Append descends into the last child
			continue
		}
		return false
	}
	return false
}

func run(c Case) kit.Result {
	p := c.P
	if p.Layout != "trickle" || p.Mode != 0 || p.Mtime != nil {
		return kit.Fail("harness: C08 cases are trickle files without attributes")
	}
	dserv := kit.NewDAG()
	content := c.Base.Bytes()
	root, err := kit.BuildFile(dserv, bytes.NewReader(content), p)
	if err != nil {
		return kit.Fail("building the base file: %v", err)
	}
	baseTree, err := kit.WalkFile(dserv, root)
	if err != nil {
		return kit.Fail("base: %v", err)
	}
	if err := baseTree.CheckTrickleShape(p.Width); err != nil {
		return kit.Fail("base file built by trickle.Layout is not a valid trickle DAG (see C07): %v", err)
	}
	prev := baseTree
	nt := false
	var cls []string
	sameAsFresh := true
	for i, a := range c.Appends {
		add := a.Bytes()
		entersLast := len(prev.Root.Children) > p.Width
		boundary := len(prev.Root.Children) >= p.Width && (len(prev.Root.Children)-p.Width)%kit.TrickleRepeat == 0

		root, err = kit.AppendFile(dserv, root, bytes.NewReader(add), p)
		if err != nil {
			return kit.Fail("append #%d (%d bytes onto %d): %v", i, len(add), len(content), err)
		}
		content = append(content, add...)
		where := fmt.Sprintf("after append #%d (%d bytes appended, %d total)", i, len(add), len(content))

		// content: old bytes followed by the new bytes
		got, st, err := kit.ReadFile(dserv, root)
		if err != nil {
			return kit.Fail("%s: reading: %v", where, err)
		}
		if !bytes.Equal(got, content) {
			return kit.Fail("%s: file reads back as %d bytes that are not old content + appended bytes", where, len(got))
		}
		if st.Size != uint64(len(content)) {
			return kit.Fail("%s: reader reports size %d", where, st.Size)
		}
		tree, err := kit.WalkFile(dserv, root)
		if err != nil {
			return kit.Fail("%s: %v", where, err)
		}
		if !bytes.Equal(tree.Content, content) {
			return kit.Fail("%s: leaves in link order hold %d bytes that are not old content + appended bytes", where, len(tree.Content))
		}
		// sizes
		if err := tree.CheckSizes(); err != nil {
			return kit.Fail("%s: %v", where, err)
		}
		if err := tree.CheckPrefix(p.Prefix); err != nil {
			return kit.Fail("%s: %v", where, err)
		}
		if err := tree.CheckLeaves(p.RawLeaves, "Raw", true); err != nil {
			return kit.Fail("%s: %v", where, err)
		}
		// shape: own rule and the library's checker
		own := tree.CheckTrickleShape(p.Width)
		lib := kit.LibVerifyTrickle(dserv, root, p)
		if own != nil || lib != nil {
			res := kit.Fail("%s, width %d: trickle shape violated: own checker: %v; VerifyTrickleDagStructure: %v", where, p.Width, own, lib)
			se, isShape := own.(*kit.ShapeError)
			if isShape && se.Kind == "too-deep" && lib != nil && lib.Error() == "child dag was too deep" && matchesF4(prev.Root, p.Width, se.Path) {
				res.Known = knownF4
			}
			return res
		}

		if entersLast || boundary {
			nt = true
		}
		if entersLast {
			cls = append(cls, "enters-last-child")
		}
		if boundary {
			cls = append(cls, "root-layer-boundary")
		}
		if i > 0 {
			cls = append(cls, "chained-append")
		}
		if len(add) == 0 {
			cls = append(cls, "empty-append")
		}
		cls = append(cls, fmt.Sprintf("height-after:%d", min(tree.Root.Height(), 6)))
		prev = tree
	}
	// statistic only: does the appended DAG equal a fresh Layout of the concatenation?
	fresh, err := kit.BuildFile(kit.NewDAG(), bytes.NewReader(content), p)
	if err == nil {
		// compare through a stored copy of the appended root's CID
		if !fresh.Cid().Equals(root.Cid()) {
			sameAsFresh = false
		}
	}
	if sameAsFresh {
		cls = append(cls, "canonical:yes")
	} else {
		cls = append(cls, "canonical:no")
	}
	cls = append(cls, "chunker:"+strings.SplitN(p.Chunker, "-", 2)[0], fmt.Sprintf("appends:%d", len(c.Appends)))
	if p.Width <= 4 {
		cls = append(cls, "width:2-4")
	} else {
		cls = append(cls, "width:5-16")
	}
	return kit.Result{NonTrivial: nt, Classes: cls}
}

var spec = kit.Spec[Case]{
	Prop: "C08", Name: "main",
	Rule:  "trickle file of width 2..16 (weighted 2-4), raw|dag-pb leaves, optional CID builder, chunker size-1..512 (weighted 1-6 bytes) or small rabin-min-avg-max; base length weighted to full trickle layers +-1 chunk and partly filled sub-trees (0..300 chunks quick, up to 2500 thorough); 1-3 successive appends of 0..300 chunks; non-trivial = some append finds the root with more than width links (descends into the last child) or exactly on a layer boundary",
	Quick: 1500, Thorough: 5000,
	Gen: gen, Run: run,
}

func TestProp(t *testing.T) { kit.All(t, spec) }
