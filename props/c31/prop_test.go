package c31

import (
	"bytes"
	"context"
	"errors"
	"fmt"
	"io"
	"net/http"
	"net/http/httptest"
	"net/url"
	"sort"
	"strconv"
	"strings"
	"testing"

	bsfetcher "github.com/ipfs/boxo/fetcher/impl/blockservice"
	"github.com/ipfs/boxo/gateway"
	"github.com/ipfs/boxo/ipld/merkledag"
	"github.com/ipfs/boxo/ipld/unixfs"
	uio "github.com/ipfs/boxo/ipld/unixfs/io"
	"github.com/ipfs/boxo/path"
	"github.com/ipfs/boxo/path/resolver"
	blocks "github.com/ipfs/go-block-format"
	cid "github.com/ipfs/go-cid"
	format "github.com/ipfs/go-ipld-format"
	"github.com/ipfs/go-unixfsnode"
	ufile "github.com/ipfs/go-unixfsnode/file"
	car "github.com/ipld/go-car/v2"
	dagpb "github.com/ipld/go-codec-dagpb"
	"github.com/ipld/go-ipld-prime"
	cidlink "github.com/ipld/go-ipld-prime/linking/cid"
	"github.com/ipld/go-ipld-prime/node/basicnode"
	"github.com/prometheus/client_golang/prometheus"
	"pgregory.net/rapid"
	"verif/kit"
)

func TestMain(m *testing.M) { kit.Main(m) }

// ---------------------------------------------------------------------------
// case

type Node struct {
	Name string          `json:"name"`
	File *kit.GwFileSpec `json:"file,omitempty"`
	Dir  *Dir            `json:"dir,omitempty"`
}

type Dir struct {
	HAMT    bool   `json:"hamt"`
	CidV1   bool   `json:"cid_v1"`
	Entries []Node `json:"entries"`
}

type Case struct {
	Root  Node  `json:"root"`
	Path  []int `json:"path"`  // entry index at each directory level
	Deser bool  `json:"deser"` // gateway also allows deserialized responses

	Format    string `json:"format"`     // raw | car
	ViaAccept bool   `json:"via_accept"` // format through the Accept header instead of ?format=
	Scope     string `json:"scope"`      // "" (= all) | block | entity | all
	HasEB     bool   `json:"has_eb"`     // entity-bytes present
	From      int64  `json:"from"`
	ToStar    bool   `json:"to_star"`
	To        int64  `json:"to"`
	Dups      string `json:"dups"`       // "" | y | n
	DupsQuery bool   `json:"dups_query"` // car-dups= in the URL instead of the Accept parameter
	Order     string `json:"order"`      // "" | dfs | unk

	// Backend selects the gateway under test: "" = NewBlocksBackend over the block store;
	// "car" = NewCarBackend whose CarFetcher (NewRemoteCarFetcher) reaches, through an in-process
	// http.RoundTripper, a trustless NewBlocksBackend gateway over the same block store.
	Backend string `json:"backend,omitempty"`
	Retry   bool   `json:"retry,omitempty"` // Backend=car: fetcher wrapped in NewRetryCarFetcher(..., 3) as in boxo's tests
}

const hamtFanout = 8

// ---------------------------------------------------------------------------
// generator

var nameGen = rapid.OneOf(
	rapid.StringMatching(`[a-z]{1,4}[0-9]{0,2}`),
	rapid.SampledFrom([]string{"a", "b", "A", "a b", "ü", "日本", "file.txt", ".hidden", "a-b", "a_b", "x.y.z", "index.html", "with space.bin", "UPPER"}),
)

func genFile(t *rapid.T) *kit.GwFileSpec {
	f := kit.GenGwFile(t, 1500)
	if f.Chunk > 256 && rapid.IntRange(0, 3).Draw(t, "small_chunk") != 0 {
		f.Chunk = rapid.IntRange(8, 128).Draw(t, "chunk2")
	}
	if f.NumChunks() > 48 {
		f.Chunk = (f.Size + 47) / 48
	}
	if rapid.IntRange(0, 5).Draw(t, "constant") == 0 {
		f.Pattern = 2
	}
	return &f
}

func genNode(t *rapid.T, depth int, budget *int) Node {
	n := Node{}
	isDir := depth < 3 && *budget > 2 && rapid.IntRange(0, 9).Draw(t, "isdir") < 4
	if depth == 0 {
		isDir = rapid.IntRange(0, 9).Draw(t, "rootdir") < 8
	}
	if !isDir {
		n.File = genFile(t)
		return n
	}
	d := &Dir{}
	d.HAMT = rapid.IntRange(0, 9).Draw(t, "hamt") < 4
	d.CidV1 = rapid.Bool().Draw(t, "dir_v1")
	max := 5
	if d.HAMT {
		max = 14
	}
	k := rapid.IntRange(0, max).Draw(t, "nentries")
	seen := map[string]bool{}
	for i := 0; i < k && *budget > 0; i++ {
		name := nameGen.Draw(t, "name")
		if seen[name] {
			continue
		}
		seen[name] = true
		*budget--
		ch := genNode(t, depth+1, budget)
		ch.Name = name
		d.Entries = append(d.Entries, ch)
	}
	n.Dir = d
	return n
}

func gen(t *rapid.T) Case {
	c := Case{}
	budget := 24
	c.Root = genNode(t, 0, &budget)
	// pick a request path
	cur := &c.Root
	for cur.Dir != nil && len(cur.Dir.Entries) > 0 {
		if rapid.IntRange(0, 9).Draw(t, "stop") < 1 {
			break
		}
		i := rapid.IntRange(0, len(cur.Dir.Entries)-1).Draw(t, "idx")
		c.Path = append(c.Path, i)
		cur = &cur.Dir.Entries[i]
	}
	// most requests that end on a file should end on one with several blocks (ranges, scopes and dups only
	// differ there): a single-block terminal file is regrown in place two times out of three
	if cur.File != nil && cur.File.NumChunks() <= 1 && rapid.IntRange(0, 2).Draw(t, "regrow") != 0 {
		cur.File.Chunk = rapid.IntRange(3, 64).Draw(t, "regrow_chunk")
		k := rapid.IntRange(1, 20).Draw(t, "regrow_k")
		cur.File.Size = k*cur.File.Chunk + rapid.IntRange(1, cur.File.Chunk).Draw(t, "regrow_tail")
	}
	c.Format = rapid.SampledFrom([]string{"car", "car", "car", "car", "raw"}).Draw(t, "format")
	c.ViaAccept = rapid.Bool().Draw(t, "via_accept")
	c.Deser = rapid.Bool().Draw(t, "deser")
	if c.Format == "raw" && len(c.Path) > 0 {
		c.Deser = true // a trustless-only gateway refuses raw requests with a sub-path
	}
	if c.Format == "car" {
		c.Scope = rapid.SampledFrom([]string{"", "block", "entity", "entity", "entity", "all"}).Draw(t, "scope")
		if cur.File != nil && c.Scope != "entity" && rapid.Bool().Draw(t, "file_entity") {
			c.Scope = "entity"
		}
		c.Dups = rapid.SampledFrom([]string{"", "y", "y", "n"}).Draw(t, "dups")
		c.DupsQuery = rapid.Bool().Draw(t, "dups_query")
		c.Order = rapid.SampledFrom([]string{"", "", "dfs", "unk"}).Draw(t, "order")
		if rapid.IntRange(0, 9).Draw(t, "has_eb") < 7 {
			c.HasEB = true
			size, chunk := int64(40), int64(8)
			if cur.File != nil {
				size, chunk = int64(cur.File.Size), int64(cur.File.Chunk)
			}
			off := func(label string) int64 {
				switch rapid.IntRange(0, 6).Draw(t, label+"_class") {
				case 0:
					return 0
				case 1:
					return size - 1 + int64(rapid.IntRange(-1, 2).Draw(t, label+"_d"))
				case 2:
					k := int64(rapid.IntRange(0, 50).Draw(t, label+"_k"))
					return k*chunk + int64(rapid.IntRange(-1, 1).Draw(t, label+"_d"))
				case 3:
					return size + int64(rapid.IntRange(0, 100).Draw(t, label+"_beyond"))
				default:
					return rapid.Int64Range(0, size+2).Draw(t, label+"_any")
				}
			}
			abs := func(v int64) int64 {
				if v < 0 {
					return 0
				}
				return v
			}
			c.From = abs(off("from"))
			if size > 1 && rapid.Bool().Draw(t, "from_inside") {
				c.From = rapid.Int64Range(0, size-1).Draw(t, "from_in")
			}
			if rapid.IntRange(0, 3).Draw(t, "from_neg") == 0 {
				c.From = -abs(off("fromn"))
			}
			switch rapid.IntRange(0, 4).Draw(t, "to_kind") {
			case 0:
				c.ToStar = true
			case 1:
				c.To = -abs(off("ton"))
			case 2:
				c.To = abs(c.From) + int64(rapid.IntRange(0, int(3*chunk)).Draw(t, "len"))
			default:
				c.To = abs(off("to"))
			}
			// boundary shapes: both ends taken from the edges of the file and of its chunks, counted from the
			// start or from the end (suffix shorter than, equal to and longer than the file), open or bounded.
			// The traversal derives the range from the file length and a seekable reader; its corner cases sit
			// exactly where a suffix meets or exceeds the length and where an end is left open.
			if cur.File != nil && rapid.IntRange(0, 9).Draw(t, "eb_boundary") < 5 {
				pick := func(label string, vs ...int64) int64 {
					v := rapid.SampledFrom(vs).Draw(t, label)
					if v < 0 {
						v = 0
					}
					return v
				}
				c.To, c.ToStar = 0, false
				switch rapid.SampledFrom([]string{"start", "suffix<size", "suffix=size", "suffix>size"}).Draw(t, "from_shape") {
				case "start":
					c.From = pick("from_edge", 0, 1, chunk-1, chunk, chunk+1, size-chunk, size-2, size-1, size, size+1, size+chunk, 1<<40)
				case "suffix<size":
					c.From = -pick("from_edge", 1, chunk-1, chunk, chunk+1, size-chunk, size-2, size-1)
				case "suffix=size":
					c.From = -size
				default:
					c.From = -pick("from_edge", size+1, size+chunk, 2*size+7, 1<<40)
				}
				// the suffix form is normally written with an open end ("-N:*")
				open := 2 // of 6
				if c.From < 0 {
					open = 3
				}
				if rapid.IntRange(0, 5).Draw(t, "to_edge_open") < open {
					c.ToStar = true
				} else {
					c.To = pick("to_edge", 0, 1, chunk-1, chunk, chunk+1, size-chunk, size-2, size-1, size, size+1, size+chunk, 2*size+7, 1<<40)
					if rapid.IntRange(0, 2).Draw(t, "to_edge_neg") == 0 {
						c.To = -c.To
					}
				}
				if cur.File.NumChunks() > 1 && c.Scope != "entity" && rapid.IntRange(0, 3).Draw(t, "edge_entity") != 0 {
					c.Scope = "entity" // entity-bytes only acts within dag-scope=entity
				}
			}
			// keep inside the documented grammar: same-sign pairs need from <= to
			if !c.ToStar && ((c.From >= 0 && c.To >= 0) || (c.From < 0 && c.To < 0)) && c.From > c.To {
				c.From, c.To = c.To, c.From
			}
		}
	}
	return c
}

// ---------------------------------------------------------------------------
// building the tree (model keeps the CID of every entity)

type built struct {
	spec     *Node
	cid      cid.Cid
	node     format.Node
	children []*built
}

func dirBuilder(v1 bool) cid.Builder {
	if v1 {
		return merkledag.V1CidPrefix()
	}
	return merkledag.V0CidPrefix()
}

func build(ctx context.Context, st *kit.GwStore, n *Node) (*built, error) {
	b := &built{spec: n}
	if n.File != nil {
		nd, err := n.File.Build(ctx, st.DAG)
		if err != nil {
			return nil, err
		}
		b.node, b.cid = nd, nd.Cid()
		return b, nil
	}
	var dir uio.Directory
	var err error
	if n.Dir.HAMT {
		dir, err = uio.NewHAMTDirectory(st.DAG, 0, uio.WithMaxHAMTFanout(hamtFanout), uio.WithCidBuilder(dirBuilder(n.Dir.CidV1)))
	} else {
		dir, err = uio.NewBasicDirectory(st.DAG, uio.WithCidBuilder(dirBuilder(n.Dir.CidV1)))
	}
	if err != nil {
		return nil, err
	}
	for i := range n.Dir.Entries {
		ch, err := build(ctx, st, &n.Dir.Entries[i])
		if err != nil {
			return nil, err
		}
		if err := dir.AddChild(ctx, n.Dir.Entries[i].Name, ch.node); err != nil {
			return nil, err
		}
		b.children = append(b.children, ch)
	}
	nd, err := dir.GetNode()
	if err != nil {
		return nil, err
	}
	if err := st.DAG.Add(ctx, nd); err != nil {
		return nil, err
	}
	b.node, b.cid = nd, nd.Cid()
	return b, nil
}

// ---------------------------------------------------------------------------
// offline readers

// readRange reads bytes [from,to] (inclusive) of the UnixFS file rooted at c touching only the
// blocks that overlap the range (plain recursive descent over blocksizes).
func readRange(ctx context.Context, bs *kit.GwStore, c cid.Cid, from, to int64, out *bytes.Buffer) error {
	blk, err := bs.BS.Get(ctx, c)
	if err != nil {
		return fmt.Errorf("block %s: %w", c, err)
	}
	emit := func(data []byte, base int64) {
		// data covers [base, base+len)
		lo, hi := from-base, to-base+1
		if lo < 0 {
			lo = 0
		}
		if hi > int64(len(data)) {
			hi = int64(len(data))
		}
		if lo < hi {
			out.Write(data[lo:hi])
		}
	}
	if c.Prefix().Codec == cid.Raw {
		emit(blk.RawData(), 0)
		return nil
	}
	pn, err := merkledag.DecodeProtobuf(blk.RawData())
	if err != nil {
		return err
	}
	fsn, err := unixfs.FSNodeFromBytes(pn.Data())
	if err != nil {
		return err
	}
	emit(fsn.Data(), 0)
	off := int64(len(fsn.Data()))
	for i, l := range pn.Links() {
		sz := int64(fsn.BlockSize(i))
		if off+sz > from && off <= to && sz > 0 {
			if err := readRange(ctx, bs, l.Cid, from-off, to-off, out); err != nil {
				return err
			}
		}
		off += sz
	}
	return nil
}

// readRangeUnixfsnode reads the same range with go-unixfsnode's lazy file reader (the reader
// trustless clients, including boxo's own CAR backend, use).
func readRangeUnixfsnode(ctx context.Context, bs *kit.GwStore, c cid.Cid, from, to int64) ([]byte, error) {
	lsys := cidlink.DefaultLinkSystem()
	lsys.TrustedStorage = true
	lsys.StorageReadOpener = func(_ ipld.LinkContext, l ipld.Link) (io.Reader, error) {
		cl, ok := l.(cidlink.Link)
		if !ok {
			return nil, errors.New("not a cid link")
		}
		b, err := bs.BS.Get(ctx, cl.Cid)
		if err != nil {
			return nil, err
		}
		return bytes.NewReader(b.RawData()), nil
	}
	var proto ipld.NodePrototype = dagpb.Type.PBNode
	if c.Prefix().Codec == cid.Raw {
		proto = basicnode.Prototype.Bytes
	}
	nd, err := lsys.Load(ipld.LinkContext{Ctx: ctx}, cidlink.Link{Cid: c}, proto)
	if err != nil {
		return nil, err
	}
	f, err := ufile.NewUnixFSFile(ctx, nd, &lsys)
	if err != nil {
		return nil, err
	}
	rs, err := f.AsLargeBytes()
	if err != nil {
		return nil, err
	}
	if _, err := rs.Seek(from, io.SeekStart); err != nil {
		return nil, err
	}
	buf := make([]byte, to-from+1)
	if _, err := io.ReadFull(rs, buf); err != nil {
		return nil, err
	}
	return buf, nil
}

func walkAll(ctx context.Context, dag format.DAGService, root cid.Cid) (map[string]bool, error) {
	seen := map[string]bool{}
	var rec func(c cid.Cid) error
	rec = func(c cid.Cid) error {
		if seen[c.KeyString()] {
			return nil
		}
		nd, err := dag.Get(ctx, c)
		if err != nil {
			return fmt.Errorf("block %s: %w", c, err)
		}
		seen[c.KeyString()] = true
		for _, l := range nd.Links() {
			if err := rec(l.Cid); err != nil {
				return err
			}
		}
		return nil
	}
	return seen, rec(root)
}

// ---------------------------------------------------------------------------

func run(c Case) kit.Result {
	ctx, cancel := context.WithCancel(context.Background())
	defer cancel()
	st := kit.NewGwStore()
	root, err := build(ctx, st, &c.Root)
	if err != nil {
		return kit.Fail("harness: build: %v", err)
	}
	// model resolution
	term := root
	segs := []string{}
	crossesHAMT := false
	for _, i := range c.Path {
		if term.spec.Dir == nil || i >= len(term.children) {
			return kit.Fail("harness: path does not fit the tree")
		}
		if term.spec.Dir.HAMT {
			crossesHAMT = true
		}
		segs = append(segs, term.spec.Dir.Entries[i].Name)
		term = term.children[i]
	}
	urlPath := "/ipfs/" + root.cid.String()
	for _, s := range segs {
		urlPath += "/" + s
	}

	var backend gateway.IPFSBackend
	backend, err = gateway.NewBlocksBackend(st.BSvc)
	if err != nil {
		return kit.Fail("harness: backend: %v", err)
	}
	var origin *originTransport
	if c.Backend == "car" {
		// the block-store gateway becomes the (trustless-only) origin; the gateway under test proxies it by CAR
		origin = &originTransport{h: gateway.NewHandler(gateway.Config{MetricsRegistry: prometheus.NewRegistry()}, backend)}
		fetcher, err := gateway.NewRemoteCarFetcher([]string{"http://origin.invalid"}, &http.Client{Transport: origin})
		if err != nil {
			return kit.Fail("harness: car fetcher: %v", err)
		}
		if c.Retry {
			if fetcher, err = gateway.NewRetryCarFetcher(fetcher, 3); err != nil {
				return kit.Fail("harness: retry fetcher: %v", err)
			}
		}
		backend, err = gateway.NewCarBackend(fetcher, gateway.WithPrometheusRegistry(prometheus.NewRegistry()))
		if err != nil {
			return kit.Fail("harness: car backend: %v", err)
		}
	} else if c.Backend != "" {
		return kit.Fail("harness: unknown backend %q", c.Backend)
	}
	h := gateway.NewHandler(gateway.Config{DeserializedResponses: c.Deser, MetricsRegistry: prometheus.NewRegistry()}, backend)

	req := httptest.NewRequest("GET", "http://127.0.0.1:8080/", nil)
	req.URL.Path = urlPath
	q := url.Values{}
	accept := ""
	if c.Format == "raw" {
		if c.ViaAccept {
			accept = "application/vnd.ipld.raw"
		} else {
			q.Set("format", "raw")
		}
	} else {
		accParams := ""
		if c.Dups != "" {
			if c.DupsQuery || !c.ViaAccept {
				q.Set("car-dups", c.Dups)
			} else {
				accParams += "; dups=" + c.Dups
			}
		}
		if c.Order != "" {
			if c.ViaAccept {
				accParams += "; order=" + c.Order
			} else {
				q.Set("car-order", c.Order)
			}
		}
		if c.ViaAccept {
			accept = "application/vnd.ipld.car" + accParams
		} else {
			q.Set("format", "car")
		}
		if c.Scope != "" {
			q.Set("dag-scope", c.Scope)
		}
		if c.HasEB {
			to := "*"
			if !c.ToStar {
				to = strconv.FormatInt(c.To, 10)
			}
			q.Set("entity-bytes", strconv.FormatInt(c.From, 10)+":"+to)
		}
	}
	req.URL.RawQuery = q.Encode()
	if accept != "" {
		req.Header.Set("Accept", accept)
	}
	rec := httptest.NewRecorder()
	h.ServeHTTP(rec, req)
	status := rec.Code
	body := rec.Body.Bytes()

	desc := fmt.Sprintf("GET %s?%s Accept=%q (terminal %s)", urlPath, req.URL.RawQuery, accept, term.cid)
	if origin != nil {
		desc = "CarBackend gateway (origin requests: " + strings.Join(origin.log, " | ") + "): " + desc
	}
	fail := func(format string, a ...any) kit.Result {
		return kit.Fail("%s -> status %d, %d body bytes, X-Stream-Error=%q: %s", desc, status, len(body), rec.Header().Get("X-Stream-Error"), fmt.Sprintf(format, a...))
	}
	classes := []string{"fmt:" + c.Format, fmt.Sprintf("depth:%d", len(c.Path))}
	if se := rec.Header().Get("X-Stream-Error"); se != "" {
		// The handler reports a failed stream in a header it documents as unreliable ("we suggest client always
		// verify that the received CAR stream response is matching requested DAG selector"): the statement is about
		// the content of the response, so the body is judged like any other; the case is only labelled.
		classes = append(classes, "stream_error", "stream_error:"+strings.TrimSpace(se[strings.LastIndex(se, ": ")+1:]))
	}
	if origin != nil {
		classes = append(classes, fmt.Sprintf("origin_requests:%d", len(origin.log)))
		for _, l := range origin.log {
			if !strings.HasPrefix(l, "200 ") {
				classes = append(classes, "origin:non200")
				break
			}
		}
	}
	if term.spec.File != nil {
		classes = append(classes, "term:file")
		if term.spec.File.NumChunks() > 1 {
			classes = append(classes, "term:file,multiblock")
		}
	} else if term.spec.Dir.HAMT {
		classes = append(classes, "term:hamt")
	} else {
		classes = append(classes, "term:dir")
	}
	if crossesHAMT {
		classes = append(classes, "path:hamt")
	}

	if status != 200 {
		return fail("existing content was not served")
	}

	if c.Format == "raw" {
		if !kit.Verify(term.cid, body) {
			return fail("raw body does not hash to the terminal CID")
		}
		return kit.Result{NonTrivial: crossesHAMT, Classes: classes}
	}

	// ---- CAR: parse into an offline store
	br, err := car.NewBlockReader(bytes.NewReader(body), car.WithTrustedCAR(true))
	if err != nil {
		return fail("CAR header does not parse: %v", err)
	}
	if br.Version != 1 {
		return fail("CAR version %d", br.Version)
	}
	if len(br.Roots) != 1 || !br.Roots[0].Equals(term.cid) {
		return fail("CAR roots %v, want the resolved content root [%s]", br.Roots, term.cid)
	}
	off := kit.NewGwStore()
	count := map[string]int{}
	nblocks := 0
	for {
		blk, err := br.Next()
		if err == io.EOF {
			break
		}
		if err != nil {
			return fail("CAR section %d does not parse: %v", nblocks, err)
		}
		nblocks++
		if !kit.Verify(blk.Cid(), blk.RawData()) {
			return fail("CAR block %s does not hash to its CID", blk.Cid())
		}
		count[blk.Cid().KeyString()]++
		nb, err := blocks.NewBlockWithCid(blk.RawData(), blk.Cid())
		if err != nil {
			return kit.Fail("harness: %v", err)
		}
		if err := off.BS.Put(ctx, nb); err != nil {
			return kit.Fail("harness: %v", err)
		}
	}
	hasDup := false
	for _, n := range count {
		if n > 1 {
			hasDup = true
		}
	}
	if hasDup && c.Dups != "y" {
		return fail("CAR contains a block twice although duplicates were not requested (dups=%q)", c.Dups)
	}

	// ---- path traversal verifiable from the CAR alone
	fc := bsfetcher.NewFetcherConfig(off.BSvc)
	fc.PrototypeChooser = dagpb.AddSupportToChooser(bsfetcher.DefaultPrototypeChooser)
	res := resolver.NewBasicResolver(fc.WithReifier(unixfsnode.Reify))
	p, err := path.NewPath(urlPath)
	if err != nil {
		return kit.Fail("harness: %v", err)
	}
	ip, err := path.NewImmutablePath(p)
	if err != nil {
		return kit.Fail("harness: %v", err)
	}
	got, rem, err := res.ResolveToLastNode(ctx, ip)
	if err != nil {
		return fail("path cannot be re-resolved from the CAR blocks alone: %v", err)
	}
	if !got.Equals(term.cid) || len(rem) != 0 {
		return fail("offline resolution gives %s remainder %v", got, rem)
	}

	// ---- scope sufficiency
	scope := c.Scope
	if scope == "" {
		scope = "all"
	}
	classes = append(classes, "scope:"+scope)
	if c.Dups == "y" {
		classes = append(classes, "dups:y")
		if hasDup {
			classes = append(classes, "dups:present")
		}
	}
	nt := crossesHAMT
	if has, _ := off.BS.Has(ctx, term.cid); !has {
		return fail("terminal block missing from the CAR")
	}
	switch scope {
	case "block":
	case "all":
		want, err := walkAll(ctx, st.DAG, term.cid)
		if err != nil {
			return kit.Fail("harness: %v", err)
		}
		gotSet, err := walkAll(ctx, off.DAG, term.cid)
		if err != nil {
			return fail("dag-scope=all: full DAG walk over the CAR blocks fails: %v", err)
		}
		if len(gotSet) != len(want) {
			return fail("dag-scope=all: walk sees %d blocks, DAG has %d", len(gotSet), len(want))
		}
		if term.spec.File != nil {
			if m := readWhole(ctx, off, term, "dag-scope=all"); m != "" {
				return fail("%s", m)
			}
		}
	case "entity":
		if term.spec.File != nil {
			data := term.spec.File.Data()
			size := int64(len(data))
			from, to := int64(0), size-1
			if c.HasEB {
				classes = append(classes, "eb")
				if c.ToStar {
					classes = append(classes, "eb:open")
				}
				if c.From < 0 {
					classes = append(classes, "eb:suffix")
					if -c.From >= size && size > 0 {
						classes = append(classes, "eb:suffix>=size")
						if c.ToStar && term.spec.File.NumChunks() > 1 {
							classes = append(classes, "eb:suffix>=size,open,multiblock")
						}
					}
				}
				from = c.From
				if from < 0 {
					from = size + from
					if from < 0 {
						from = 0
					}
				}
				switch {
				case c.ToStar:
				case c.To >= 0:
					if c.To < to {
						to = c.To
					}
				default:
					// negative 'to' counts from the end; taken in its narrowest reading (size+to-1) so that
					// nothing is demanded that an implementation reading size+to would not also provide
					to = size + c.To - 1
				}
			}
			if from <= to && from < size {
				if from == 0 && to == size-1 {
					if m := readWhole(ctx, off, term, "dag-scope=entity"); m != "" {
						return fail("%s", m)
					}
					if c.HasEB && term.spec.File.NumChunks() > 1 {
						classes = append(classes, "eb:whole")
						nt = true
					}
				} else {
					classes = append(classes, "eb:subrange")
					var buf bytes.Buffer
					if err := readRange(ctx, off, term.cid, from, to, &buf); err != nil {
						return fail("entity-bytes: bytes %d..%d of the file (size %d) cannot be read from the CAR blocks: %v", from, to, size, err)
					}
					if !bytes.Equal(buf.Bytes(), data[from:to+1]) {
						return fail("entity-bytes: bytes %d..%d read from the CAR differ from the file", from, to)
					}
					b2, err := readRangeUnixfsnode(ctx, off, term.cid, from, to)
					if err != nil {
						return fail("entity-bytes: go-unixfsnode reader cannot read bytes %d..%d (size %d) from the CAR blocks: %v", from, to, size, err)
					}
					if !bytes.Equal(b2, data[from:to+1]) {
						return fail("entity-bytes: bytes %d..%d read by go-unixfsnode from the CAR differ from the file", from, to)
					}
					if term.spec.File.NumChunks() > 1 {
						nt = true
					}
				}
			} else {
				classes = append(classes, "eb:empty")
			}
		} else {
			// directory: the listing must be enumerable (all HAMT shards present)
			d, err := uio.NewDirectoryFromNode(off.DAG, term.node)
			if err != nil {
				return kit.Fail("harness: %v", err)
			}
			links, err := d.Links(ctx)
			if err != nil {
				return fail("dag-scope=entity: directory listing cannot be enumerated from the CAR blocks: %v", err)
			}
			var gotNames, wantNames []string
			for _, l := range links {
				gotNames = append(gotNames, l.Name+"="+l.Cid.String())
			}
			for i, e := range term.spec.Dir.Entries {
				wantNames = append(wantNames, e.Name+"="+term.children[i].cid.String())
			}
			sort.Strings(gotNames)
			sort.Strings(wantNames)
			if strings.Join(gotNames, "\n") != strings.Join(wantNames, "\n") {
				return fail("dag-scope=entity: listing from the CAR %q differs from the directory %q", gotNames, wantNames)
			}
			if term.spec.Dir.HAMT && len(term.spec.Dir.Entries) > 1 {
				nt = true
			}
		}
	}
	return kit.Result{NonTrivial: nt, Classes: classes}
}

// originTransport is the in-process wire between the CarBackend's remote fetcher and the origin
// gateway: every outgoing request is served by the origin handler into a ResponseRecorder.
type originTransport struct {
	h   http.Handler
	log []string
}

func (o *originTransport) RoundTrip(r *http.Request) (*http.Response, error) {
	sr := httptest.NewRequest(r.Method, r.URL.String(), nil).WithContext(r.Context())
	sr.Header = r.Header.Clone()
	rec := httptest.NewRecorder()
	o.h.ServeHTTP(rec, sr)
	o.log = append(o.log, fmt.Sprintf("%d %s", rec.Code, r.URL.RequestURI()))
	resp := rec.Result()
	resp.Request = r
	return resp, nil
}

// readWhole reads the complete terminal file from the offline store with the real DagReader.
func readWhole(ctx context.Context, off *kit.GwStore, term *built, what string) string {
	nd, err := off.DAG.Get(ctx, term.cid)
	if err != nil {
		return fmt.Sprintf("%s: terminal node: %v", what, err)
	}
	dr, err := uio.NewDagReader(ctx, nd, off.DAG)
	if err != nil {
		return fmt.Sprintf("%s: DagReader over the CAR blocks: %v", what, err)
	}
	b, err := io.ReadAll(dr)
	if err != nil {
		return fmt.Sprintf("%s: the file cannot be read from the CAR blocks: %v", what, err)
	}
	if !bytes.Equal(b, term.spec.File.Data()) {
		return fmt.Sprintf("%s: file read from the CAR blocks differs from the original", what)
	}
	return ""
}

var spec = kit.Spec[Case]{
	Prop: "C31", Name: "main",
	Rule:  "UnixFS tree (<=24 entities, depth<=3; basic and HAMT(fanout 8) directories; files 0..1500 B via the real importers with small chunks/widths, some with identical chunks) served by gateway.NewHandler over NewBlocksBackend in-process; GET of a generated existing path with format=raw or format=car (query or Accept) x dag-scope {default,block,entity,all} x entity-bytes grammar (from/to positive, negative, *, beyond end; half of the file requests draw a shape first - from counted from the start, or a suffix shorter than / equal to / longer than the file - and take both ends from the edges 0, 1, chunk±1, size-chunk, size-2..size+1, size+chunk, 2*size+7, 2^40, the end open, positive or negative; a single-block terminal file is regrown to 2..21 chunks two times out of three) x dups {-,y,n} x order; CAR parsed with go-car into an offline store and re-read with the real resolver/readers; non-trivial = the path crosses a HAMT directory, the terminal is a HAMT directory listed offline, or entity-bytes selects a strict sub-range, or by an explicit range the whole, of a multi-block file",
	Quick: 600, Thorough: 5000,
	Gen: gen, Run: run,
}

func TestProp(t *testing.T) { kit.All(t, spec) }

// genProxy: the same trees and requests, served by a gateway that itself proxies a trustless gateway by CAR.
func genProxy(t *rapid.T) Case {
	retry := rapid.Bool().Draw(t, "retry") // drawn first: the two sub-checks then explore different trees
	c := gen(t)
	c.Backend, c.Retry = "car", retry
	return c
}

var specProxy = kit.Spec[Case]{
	Prop: "C31", Name: "proxy",
	Rule:  "same trees, paths and request grammar as 'main', but the gateway under test is gateway.NewHandler over NewCarBackend(NewRemoteCarFetcher[, NewRetryCarFetcher 3]) whose http.Client transport serves every fetch in-process (httptest recorder, no sockets) from a trustless-only NewHandler/NewBlocksBackend gateway over the block store; the identical raw/CAR oracle (root, hashes, dups, offline path re-resolution, scope sufficiency) is applied to the proxy's response; non-trivial as in 'main'",
	Quick: 600, Thorough: 4000,
	Gen: genProxy, Run: run,
}

func TestPropProxy(t *testing.T) { kit.All(t, specProxy) }
