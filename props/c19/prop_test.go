// Package c19 checks property C19: MFS behaves as a hierarchical filesystem and persists
// what it shows. Generated operation histories are executed against a real mfs.Root and
// against an in-memory tree model; results (success/failure), listings and contents must
// agree, and after a flush the root DAG read only through the UnixFS readers
// (uio.Directory, uio.DagReader, unixfs.FSNode) must describe exactly the model tree.
package c19

import (
	"bytes"
	"context"
	"errors"
	"fmt"
	"io"
	"os"
	gopath "path"
	"sort"
	"strings"
	"testing"
	"time"

	bserv "github.com/ipfs/boxo/blockservice"
	bstore "github.com/ipfs/boxo/blockstore"
	chunker "github.com/ipfs/boxo/chunker"
	offline "github.com/ipfs/boxo/exchange/offline"
	dag "github.com/ipfs/boxo/ipld/merkledag"
	ft "github.com/ipfs/boxo/ipld/unixfs"
	importer "github.com/ipfs/boxo/ipld/unixfs/importer"
	uio "github.com/ipfs/boxo/ipld/unixfs/io"
	"github.com/ipfs/boxo/mfs"
	cid "github.com/ipfs/go-cid"
	ds "github.com/ipfs/go-datastore"
	dssync "github.com/ipfs/go-datastore/sync"
	ipld "github.com/ipfs/go-ipld-format"
	"pgregory.net/rapid"
	"verif/kit"
)

func TestMain(m *testing.M) { kit.Main(m) }

// ---------------------------------------------------------------------------
// case

type Op struct {
	Kind    string `json:"kind"`
	Path    string `json:"path,omitempty"`
	Dst     string `json:"dst,omitempty"`
	Parents bool   `json:"parents,omitempty"`
	Flush   bool   `json:"flush,omitempty"` // mkdir Flush option, descriptor Sync flag, flush parent after rm
	Create  bool   `json:"create,omitempty"`
	Trunc   bool   `json:"trunc,omitempty"` // write: Truncate(0) before writing
	Seek    bool   `json:"seek,omitempty"`  // write: Seek+Write instead of WriteAt
	Off     int    `json:"off,omitempty"`
	Size    int    `json:"size,omitempty"`
	Data    []byte `json:"data,omitempty"`
	Mode    uint32 `json:"mode,omitempty"`
	Sec     int64  `json:"sec,omitempty"`
	Nsec    int64  `json:"nsec,omitempty"`
	Node    string `json:"node,omitempty"`  // put: file | raw | filemeta | dir
	Steps   []Step `json:"steps,omitempty"` // fd: what happens on the one write descriptor before Close
}

// Step is one call on the write descriptor that an "fd" op keeps open: WriteAt / Seek+Write,
// Truncate, or FileDescriptor.Flush. Check asks for a comparison of the root DAG right after
// a Flush step (the descriptor has nothing pending then, so the model is unambiguous).
type Step struct {
	K     string `json:"k"` // write | trunc | flush
	Off   int    `json:"off,omitempty"`
	Size  int    `json:"size,omitempty"`
	Seek  bool   `json:"seek,omitempty"`
	Data  []byte `json:"data,omitempty"`
	Check bool   `json:"check,omitempty"`
}

type Case struct {
	MaxLinks  int    `json:"max_links"`
	ShardSize int    `json:"shard_size"`
	Fanout    int    `json:"fanout"`
	SizeMode  int    `json:"size_mode"` // -1 unset, 0 links, 1 block, 2 disabled
	Chunk     int    `json:"chunk"`     // 0 default chunker, else size-N
	CidV1     bool   `json:"cid_v1"`
	FromNode  bool   `json:"from_node"` // NewRoot(empty dir node) instead of NewEmptyRoot
	Check     string `json:"check"`     // "end" | "fail" | "all": when the full MFS-API comparison runs
	Ops       []Op   `json:"ops"`
	// NoExclude disables the exclusions of open known findings (used by finding repro cases).
	NoExclude bool `json:"no_exclude,omitempty"`
}

// ---------------------------------------------------------------------------
// generator (draws paths from a copy of the tree model so that most ops hit existing
// entries; everything is a rapid draw, nothing comes from the SUT)

var dirNames = []string{"a", "b", "x"}
var leafNames = []string{"a", "b", "x", "f", "g"}
var fileNames = []string{"f", "g", "f", "g", "a", "x"}

func join(dir, name string) string {
	if dir == "/" {
		return "/" + name
	}
	return dir + "/" + name
}

func genPath(t *rapid.T, label string) string {
	depth := rapid.SampledFrom([]int{1, 2, 2, 3, 3, 3}).Draw(t, label+"_depth")
	var parts []string
	for i := 0; i < depth-1; i++ {
		parts = append(parts, rapid.SampledFrom(dirNames).Draw(t, label+"_d"))
	}
	parts = append(parts, rapid.SampledFrom(leafNames).Draw(t, label+"_l"))
	return "/" + strings.Join(parts, "/")
}

type genState struct {
	t     *rapid.T
	model *mnode
	dirs  []string // existing directory paths, "/" first
	files []string
}

func (g *genState) refresh() {
	g.dirs, g.files = []string{"/"}, nil
	var walk func(m *mnode, p string)
	walk = func(m *mnode, p string) {
		for _, k := range sortedKeys(m.kids) {
			c := m.kids[k]
			cp := join(p, k)
			if c.dir {
				g.dirs = append(g.dirs, cp)
				walk(c, cp)
			} else {
				g.files = append(g.files, cp)
			}
		}
	}
	walk(g.model, "/")
}

func (g *genState) hit(label string) bool { return rapid.IntRange(0, 9).Draw(g.t, label+"_hit") < 8 }

func (g *genState) dir(label string) string {
	if g.hit(label) {
		return rapid.SampledFrom(g.dirs).Draw(g.t, label+"_dir")
	}
	return gopath.Dir(genPath(g.t, label))
}

func (g *genState) subdir(label string) string { // an existing directory other than the root, if any
	if len(g.dirs) > 1 && g.hit(label) {
		return rapid.SampledFrom(g.dirs[1:]).Draw(g.t, label+"_sub")
	}
	return genPath(g.t, label)
}

func (g *genState) file(label string) string {
	if len(g.files) > 0 && g.hit(label) {
		return rapid.SampledFrom(g.files).Draw(g.t, label+"_file")
	}
	return join(g.dir(label), rapid.SampledFrom(fileNames).Draw(g.t, label+"_fname"))
}

func (g *genState) any(label string) string {
	switch rapid.IntRange(0, 4).Draw(g.t, label+"_any") {
	case 0:
		return g.dir(label)
	case 1:
		return g.subdir(label)
	default:
		return g.file(label)
	}
}

func genMode(t *rapid.T) uint32 {
	return rapid.SampledFrom([]uint32{0, 0o644, 0o755, 0o600, 0o777, 0o1, 0o444}).Draw(t, "mode")
}

func genTime(t *rapid.T) (int64, int64) {
	switch rapid.IntRange(0, 5).Draw(t, "timeclass") {
	case 0:
		return 0, 0 // zero time.Time: unset
	case 1:
		return rapid.Int64Range(1, 2_000_000_000).Draw(t, "sec"), 0
	default:
		return rapid.Int64Range(1, 2_000_000_000).Draw(t, "sec"), rapid.Int64Range(1, 999_999_999).Draw(t, "nsec")
	}
}

func (g *genState) op(maxData int) Op {
	t := g.t
	kind := rapid.SampledFrom([]string{
		"mkdir", "mkdir", "mkdir", "put", "put", "write", "write", "write", "trunc", "fd", "fd",
		"mv", "mv", "mv", "mv", "mv", "rm", "rm", "chmod", "touch", "flush", "flushpath",
		"lookup", "list", "read", "check", "reopen",
	}).Draw(t, "kind")
	op := Op{Kind: kind}
	switch kind {
	case "mkdir":
		op.Path = join(g.dir("p"), rapid.SampledFrom(leafNames).Draw(t, "name"))
		if rapid.IntRange(0, 3).Draw(t, "deeper") == 0 {
			op.Path = join(op.Path, rapid.SampledFrom(dirNames).Draw(t, "name2"))
		}
		if rapid.IntRange(0, 7).Draw(t, "slash") == 0 {
			op.Path += "/"
		}
		op.Parents = rapid.IntRange(0, 2).Draw(t, "parents") > 0
		op.Flush = rapid.Bool().Draw(t, "flush")
		if rapid.IntRange(0, 3).Draw(t, "withstat") == 0 {
			op.Mode = genMode(t)
			op.Sec, op.Nsec = genTime(t)
		}
	case "put":
		op.Path = join(g.dir("p"), rapid.SampledFrom(fileNames).Draw(t, "name"))
		op.Node = rapid.SampledFrom([]string{"file", "raw", "filemeta", "dir"}).Draw(t, "node")
		op.Data = kit.Bytes(maxData).Draw(t, "data")
		if op.Node == "filemeta" {
			op.Mode = genMode(t)
			op.Sec, op.Nsec = genTime(t)
		}
	case "write":
		op.Path = g.file("p")
		op.Create = rapid.IntRange(0, 3).Draw(t, "create") > 0
		op.Trunc = rapid.IntRange(0, 3).Draw(t, "trunc") == 0
		op.Seek = rapid.Bool().Draw(t, "seek")
		op.Flush = rapid.Bool().Draw(t, "sync")
		op.Off = rapid.IntRange(0, maxData).Draw(t, "off")
		op.Data = kit.Bytes(maxData).Draw(t, "data")
	case "trunc":
		op.Path = g.file("p")
		op.Size = rapid.IntRange(0, maxData+maxData/2).Draw(t, "size")
		op.Flush = rapid.Bool().Draw(t, "sync")
	case "fd":
		// several calls on ONE write descriptor, with descriptor flushes in between: sizes and
		// offsets are drawn around the length the model file has at that step
		op.Path = g.file("p")
		op.Create = rapid.IntRange(0, 3).Draw(t, "create") > 0
		op.Flush = rapid.Bool().Draw(t, "sync")
		var cur []byte
		inline := false
		if m := g.model.resolve(splitPath(op.Path)); m != nil && !m.dir {
			cur, inline = m.data, m.inline
		}
		n := rapid.IntRange(1, 6).Draw(t, "nsteps")
		for i := 0; i < n; i++ {
			l := len(cur)
			kinds := []string{"write", "write", "trunc", "trunc", "flush", "flush"}
			if l == 0 { // nothing to cut yet: mostly put bytes in first
				kinds = []string{"write", "write", "write", "write", "trunc", "flush"}
			}
			st := Step{K: rapid.SampledFrom(kinds).Draw(t, "step")}
			switch st.K {
			case "write":
				st.Off = rapid.SampledFrom([]int{0, l, l / 2, rapid.IntRange(0, l).Draw(t, "woff"), rapid.IntRange(0, maxData).Draw(t, "woff2")}).Draw(t, "woffc")
				st.Seek = rapid.Bool().Draw(t, "seek")
				st.Data = kit.Bytes(maxData).Draw(t, "data")
			case "trunc":
				st.Size = rapid.SampledFrom([]int{0, l / 2, max(l-1, 0), l, l + 1, rapid.IntRange(0, l).Draw(t, "tsz")}).Draw(t, "tszc")
			case "flush":
				st.Check = rapid.Bool().Draw(t, "check")
			}
			cur, inline, _, _ = stepEffect(cur, inline, st)
			op.Steps = append(op.Steps, st)
		}
	case "mv":
		if rapid.Bool().Draw(t, "srcfile") {
			op.Path = g.file("s")
		} else {
			op.Path = g.subdir("s")
		}
		switch rapid.IntRange(0, 7).Draw(t, "dstclass") {
		case 0: // new or existing name inside an existing directory
			op.Dst = join(g.dir("d"), rapid.SampledFrom(leafNames).Draw(t, "dname"))
		case 1: // into a directory, trailing slash
			op.Dst = g.dir("d")
			if !strings.HasSuffix(op.Dst, "/") {
				op.Dst += "/"
			}
		case 2: // onto an existing directory
			op.Dst = g.dir("d")
		case 3, 4, 5:
			// same entry name (and, if deep enough, same parent directory name) under another
			// top-level directory: /a/x/f -> /b/x/f
			parts := strings.Split(strings.TrimPrefix(op.Path, "/"), "/")
			if len(parts) >= 2 {
				parts[0] = rapid.SampledFrom(dirNames).Draw(t, "swap")
			} else {
				parts = append([]string{rapid.SampledFrom(dirNames).Draw(t, "swap")}, parts...)
			}
			op.Dst = "/" + strings.Join(parts, "/")
			if rapid.IntRange(0, 3).Draw(t, "dstdir") == 0 {
				op.Dst = gopath.Dir(op.Dst)
				if rapid.Bool().Draw(t, "slash") && op.Dst != "/" {
					op.Dst += "/"
				}
			}
		case 6: // onto an existing file (overwrite)
			op.Dst = g.file("d")
		default:
			op.Dst = genPath(t, "d")
		}
	case "rm":
		op.Path = g.any("p")
		if op.Path == "/" {
			op.Path = genPath(t, "p")
		}
		op.Flush = rapid.Bool().Draw(t, "flush")
	case "chmod":
		op.Path = g.any("p")
		op.Mode = genMode(t)
	case "touch":
		op.Path = g.any("p")
		op.Sec, op.Nsec = genTime(t)
	case "flushpath", "lookup":
		op.Path = g.any("p")
	case "list":
		op.Path = g.dir("p")
	case "read":
		op.Path = g.file("p")
	}
	return op
}

func gen(t *rapid.T) Case {
	c := Case{}
	c.MaxLinks = rapid.SampledFrom([]int{0, 0, 0, 2, 2, 2, 3, 4}).Draw(t, "maxlinks")
	c.ShardSize = rapid.SampledFrom([]int{0, 100, 100, 180, 300}).Draw(t, "shardsize")
	c.Fanout = rapid.SampledFrom([]int{0, 8, 8, 16}).Draw(t, "fanout")
	c.SizeMode = rapid.SampledFrom([]int{-1, 0, 1, 2}).Draw(t, "sizemode")
	c.Chunk = rapid.SampledFrom([]int{0, 0, 16, 64}).Draw(t, "chunk")
	c.CidV1 = rapid.Bool().Draw(t, "cidv1")
	c.FromNode = rapid.Bool().Draw(t, "fromnode")
	c.Check = rapid.SampledFrom([]string{"end", "end", "fail", "all"}).Draw(t, "check")
	maxData := 96
	if c.Chunk == 0 {
		maxData = 200
	}
	g := &genState{t: t, model: newDir()}
	add := func(op Op) {
		c.Ops = append(c.Ops, op)
		before := g.model.clone()
		if o := g.model.apply(op, c.Chunk, c.CidV1); o.skip || !o.want {
			g.model = before
		}
		g.refresh()
	}
	g.refresh()
	// a prologue of mkdir -p makes deep same-named directories common
	npro := rapid.IntRange(0, 4).Draw(t, "npro")
	for i := 0; i < npro; i++ {
		p := "/" + rapid.SampledFrom(dirNames).Draw(t, "pro1") + "/" + rapid.SampledFrom(dirNames).Draw(t, "pro2")
		add(Op{Kind: "mkdir", Path: p, Parents: true})
	}
	n := rapid.IntRange(1, kit.Scale(26, 30)).Draw(t, "nops")
	for i := 0; i < n; i++ {
		add(g.op(maxData))
	}
	return c
}

// ---------------------------------------------------------------------------
// model

type mnode struct {
	dir  bool
	kids map[string]*mnode
	data []byte
	// inline: the file's root is a single UnixFS leaf holding its bytes inline (as the
	// importer builds for small files). Growing such a file is DagModifier/DagReader
	// territory (C09/C10) and is kept out of this check: writes to it are clipped to its length.
	inline bool
	// mayRaw: the file may currently be a bare RawNode (PutNode of a raw block, or a file
	// created under a CIDv1 builder, whose single-block content collapses to a raw leaf).
	// Chmod/Touch wrap such a node into an inline-data leaf.
	mayRaw bool
	mode   uint32
	// mtime: 0 = unset, 1 = exactly (sec,nsec), 2 = some non-zero time (bumped by a content write)
	mt        int
	sec, nsec int64
}

func newDir() *mnode { return &mnode{dir: true, kids: map[string]*mnode{}} }

func (m *mnode) clone() *mnode {
	c := *m
	if m.dir {
		c.kids = map[string]*mnode{}
		for k, v := range m.kids {
			c.kids[k] = v.clone()
		}
	} else {
		c.data = append([]byte(nil), m.data...)
	}
	return &c
}

func (m *mnode) setTime(sec, nsec int64) {
	if sec == 0 && nsec == 0 {
		m.mt, m.sec, m.nsec = 0, 0, 0
		return
	}
	m.mt, m.sec, m.nsec = 1, sec, nsec
}

func (m *mnode) contentWritten() {
	if m.mt != 0 {
		m.mt = 2
	}
}

func opTime(sec, nsec int64) time.Time {
	if sec == 0 && nsec == 0 {
		return time.Time{}
	}
	return time.Unix(sec, nsec)
}

func splitPath(p string) []string {
	p = strings.Trim(p, "/")
	if p == "" {
		return nil
	}
	return strings.Split(p, "/")
}

// resolve returns the node at parts, or nil.
func (m *mnode) resolve(parts []string) *mnode {
	cur := m
	for _, p := range parts {
		if cur == nil || !cur.dir {
			return nil
		}
		cur = cur.kids[p]
	}
	return cur
}

func (m *mnode) resolveDir(parts []string) *mnode {
	n := m.resolve(parts)
	if n == nil || !n.dir {
		return nil
	}
	return n
}

func isPrefix(pre, full []string) bool {
	if len(pre) > len(full) {
		return false
	}
	for i := range pre {
		if pre[i] != full[i] {
			return false
		}
	}
	return true
}

func overlay(old []byte, off int, data []byte) []byte {
	out := append([]byte(nil), old...)
	for len(out) < off+len(data) {
		out = append(out, 0)
	}
	copy(out[off:], data)
	return out
}

// stepEffect is the model of one call on an open write descriptor: the file bytes after
// the step, plus the effective offset (truncate size) and data the harness passes to the SUT.
// The domain restrictions are those of the single-call "write" and "trunc" ops: offsets are
// clamped to the current length, Truncate only shrinks, inline-leaf files are never grown.
func stepEffect(data []byte, inline bool, st Step) (after []byte, afterInline bool, off int, eff []byte) {
	switch st.K {
	case "write":
		if len(data) == 0 {
			inline = false
		}
		off = min(st.Off, len(data))
		eff = st.Data
		if inline && off+len(eff) > len(data) {
			eff = eff[:len(data)-off]
		}
		return overlay(data, off, eff), inline, off, eff
	case "trunc":
		off = min(st.Size, len(data))
		if off == 0 {
			inline = false
		}
		return append([]byte(nil), data[:off]...), inline, off, nil
	}
	return data, inline, 0, nil
}

// ---------------------------------------------------------------------------
// SUT plumbing

type sut struct {
	ctx   context.Context
	dserv ipld.DAGService
	root  *mfs.Root
	opts  []mfs.Option
	c     Case
}

func newDagserv() ipld.DAGService {
	db := dssync.MutexWrap(ds.NewMapDatastore())
	bs := bstore.NewBlockstore(db)
	return dag.NewDAGService(bserv.New(bs, offline.Exchange(bs)))
}

func pubNop(context.Context, cid.Cid) error { return nil }

func (s *sut) cidBuilder() cid.Builder {
	if s.c.CidV1 {
		return dag.V1CidPrefix()
	}
	return dag.V0CidPrefix()
}

func (s *sut) splitter(r io.Reader) chunker.Splitter {
	if s.c.Chunk > 0 {
		return chunker.NewSizeSplitter(r, int64(s.c.Chunk))
	}
	return chunker.DefaultSplitter(r)
}

func (s *sut) open(node *dag.ProtoNode) error {
	var err error
	if node == nil && !s.c.FromNode {
		s.root, err = mfs.NewEmptyRoot(s.ctx, s.dserv, pubNop, nil, s.opts...)
		return err
	}
	if node == nil {
		node = dag.NodeWithData(ft.FolderPBData())
		if s.c.CidV1 {
			node.SetCidBuilder(dag.V1CidPrefix())
		}
		if err := s.dserv.Add(s.ctx, node); err != nil {
			return err
		}
	}
	s.root, err = mfs.NewRoot(s.ctx, s.dserv, node, pubNop, nil, s.opts...)
	return err
}

// fileHandle mirrors kubo's getFileHandle (core/commands/files).
func (s *sut) fileHandle(path string, create bool) (*mfs.File, error) {
	target, err := mfs.Lookup(s.root, path)
	switch err {
	case nil:
		fi, ok := target.(*mfs.File)
		if !ok {
			return nil, fmt.Errorf("%s was not a file", path)
		}
		return fi, nil
	case os.ErrNotExist:
		if !create {
			return nil, err
		}
		dirname, fname := gopath.Split(path)
		parent, err := mfs.Lookup(s.root, dirname)
		if err != nil {
			return nil, err
		}
		pdir, ok := parent.(*mfs.Directory)
		if !ok {
			return nil, errors.New("parent is not a directory")
		}
		nd := dag.NodeWithData(ft.FilePBData(nil, 0))
		nd.SetCidBuilder(pdir.GetCidBuilder())
		if err := pdir.AddChild(fname, nd); err != nil {
			return nil, err
		}
		fsn, err := pdir.Child(fname)
		if err != nil {
			return nil, err
		}
		fi, ok := fsn.(*mfs.File)
		if !ok {
			return nil, errors.New("created file is not a file")
		}
		return fi, nil
	default:
		return nil, err
	}
}

// ---------------------------------------------------------------------------
// comparison through the MFS API

func timeOK(m *mnode, got time.Time) bool {
	switch m.mt {
	case 0:
		return got.IsZero()
	case 1:
		return got.Equal(time.Unix(m.sec, m.nsec))
	default:
		return !got.IsZero()
	}
}

func (m *mnode) timeString() string {
	switch m.mt {
	case 0:
		return "unset"
	case 1:
		return time.Unix(m.sec, m.nsec).UTC().String()
	default:
		return "any non-zero"
	}
}

func sortedKeys(m map[string]*mnode) []string {
	out := make([]string, 0, len(m))
	for k := range m {
		out = append(out, k)
	}
	sort.Strings(out)
	return out
}

func (s *sut) checkFileMFS(f *mfs.File, m *mnode, path string) error {
	fd, err := f.Open(s.ctx, mfs.Flags{Read: true})
	if err != nil {
		return fmt.Errorf("%s: open for reading: %v", path, err)
	}
	got, err := io.ReadAll(fd)
	cerr := fd.Close()
	if err != nil {
		return fmt.Errorf("%s: read: %v", path, err)
	}
	if cerr != nil {
		return fmt.Errorf("%s: close of read descriptor: %v", path, cerr)
	}
	if !bytes.Equal(got, m.data) {
		return fmt.Errorf("%s: MFS content %q, model %q", path, trunc(got), trunc(m.data))
	}
	sz, err := f.Size()
	if err != nil {
		return fmt.Errorf("%s: Size: %v", path, err)
	}
	if sz != int64(len(m.data)) {
		return fmt.Errorf("%s: Size %d, model %d", path, sz, len(m.data))
	}
	mode, err := f.Mode()
	if err != nil {
		if !errors.Is(err, ft.ErrNotProtoNode) {
			return fmt.Errorf("%s: Mode: %v", path, err)
		}
		mode = 0 // a raw leaf cannot carry metadata
	}
	if uint32(mode) != m.mode {
		return fmt.Errorf("%s: Mode %o, model %o", path, mode, m.mode)
	}
	mt, err := f.ModTime()
	if err != nil {
		if !errors.Is(err, ft.ErrNotProtoNode) {
			return fmt.Errorf("%s: ModTime: %v", path, err)
		}
		mt = time.Time{}
	}
	if !timeOK(m, mt) {
		return fmt.Errorf("%s: ModTime %v, model %s", path, mt.UTC(), m.timeString())
	}
	return nil
}

func (s *sut) checkDirMFS(d *mfs.Directory, m *mnode, path string) error {
	names, err := d.ListNames(s.ctx)
	if err != nil {
		return fmt.Errorf("%s: ListNames: %v", path, err)
	}
	sort.Strings(names)
	want := sortedKeys(m.kids)
	if strings.Join(names, "\x00") != strings.Join(want, "\x00") {
		return fmt.Errorf("%s: ListNames %q, model %q", path, names, want)
	}
	listing, err := d.List(s.ctx)
	if err != nil {
		return fmt.Errorf("%s: List: %v", path, err)
	}
	if len(listing) != len(want) {
		return fmt.Errorf("%s: List has %d entries, model %d", path, len(listing), len(want))
	}
	for _, l := range listing {
		k, ok := m.kids[l.Name]
		if !ok {
			return fmt.Errorf("%s: List shows %q which the model does not have", path, l.Name)
		}
		if (l.Type == int(mfs.TDir)) != k.dir {
			return fmt.Errorf("%s/%s: List type %d, model dir=%v", path, l.Name, l.Type, k.dir)
		}
		if !k.dir && l.Size != int64(len(k.data)) {
			return fmt.Errorf("%s/%s: List size %d, model %d", path, l.Name, l.Size, len(k.data))
		}
	}
	mode, err := d.Mode()
	if err != nil {
		return fmt.Errorf("%s: Mode: %v", path, err)
	}
	if uint32(mode) != m.mode {
		return fmt.Errorf("%s: directory Mode %o, model %o", path, mode, m.mode)
	}
	mt, err := d.ModTime()
	if err != nil {
		return fmt.Errorf("%s: ModTime: %v", path, err)
	}
	if !timeOK(m, mt) {
		return fmt.Errorf("%s: directory ModTime %v, model %s", path, mt.UTC(), m.timeString())
	}
	for _, name := range want {
		k := m.kids[name]
		child, err := d.Child(name)
		if err != nil {
			return fmt.Errorf("%s/%s: Child: %v", path, name, err)
		}
		switch ch := child.(type) {
		case *mfs.Directory:
			if !k.dir {
				return fmt.Errorf("%s/%s: MFS has a directory, model a file", path, name)
			}
			if err := s.checkDirMFS(ch, k, path+"/"+name); err != nil {
				return err
			}
		case *mfs.File:
			if k.dir {
				return fmt.Errorf("%s/%s: MFS has a file, model a directory", path, name)
			}
			if err := s.checkFileMFS(ch, k, path+"/"+name); err != nil {
				return err
			}
		default:
			return fmt.Errorf("%s/%s: unexpected FSNode %T", path, name, child)
		}
	}
	return nil
}

func trunc(b []byte) []byte {
	if len(b) > 48 {
		return append(append([]byte(nil), b[:48]...), "..."...)
	}
	return b
}

// ---------------------------------------------------------------------------
// comparison of a flushed DAG, read only through the UnixFS readers

type dagStats struct{ hamt, dirs, files int }

func (s *sut) checkDAG(nd ipld.Node, m *mnode, path string, st *dagStats) error {
	isDir := false
	var fsn *ft.FSNode
	if pn, ok := nd.(*dag.ProtoNode); ok {
		var err error
		fsn, err = ft.FSNodeFromBytes(pn.Data())
		if err != nil {
			return fmt.Errorf("%s: flushed node is not UnixFS: %v", path, err)
		}
		isDir = fsn.IsDir()
	}
	if isDir != m.dir {
		return fmt.Errorf("%s: flushed DAG has dir=%v, model dir=%v", path, isDir, m.dir)
	}
	if !isDir {
		st.files++
		dr, err := uio.NewDagReader(s.ctx, nd, s.dserv)
		if err != nil {
			return fmt.Errorf("%s: NewDagReader on flushed node: %v", path, err)
		}
		got, err := io.ReadAll(dr)
		dr.Close()
		if err != nil {
			return fmt.Errorf("%s: reading flushed file: %v", path, err)
		}
		if !bytes.Equal(got, m.data) {
			return fmt.Errorf("%s: flushed content %q, model %q", path, trunc(got), trunc(m.data))
		}
		if uint32(dr.Mode().Perm()) != m.mode {
			return fmt.Errorf("%s: flushed file mode %o, model %o", path, dr.Mode().Perm(), m.mode)
		}
		if !timeOK(m, dr.ModTime()) {
			return fmt.Errorf("%s: flushed file mtime %v, model %s", path, dr.ModTime().UTC(), m.timeString())
		}
		return nil
	}
	st.dirs++
	if fsn.Type() == ft.THAMTShard {
		st.hamt++
	}
	if uint32(fsn.Mode().Perm()) != m.mode {
		return fmt.Errorf("%s: flushed directory mode %o, model %o", path, fsn.Mode().Perm(), m.mode)
	}
	if !timeOK(m, fsn.ModTime()) {
		return fmt.Errorf("%s: flushed directory mtime %v, model %s", path, fsn.ModTime().UTC(), m.timeString())
	}
	d, err := uio.NewDirectoryFromNode(s.dserv, nd)
	if err != nil {
		return fmt.Errorf("%s: NewDirectoryFromNode on flushed node: %v", path, err)
	}
	links, err := d.Links(s.ctx)
	if err != nil {
		return fmt.Errorf("%s: Links of flushed directory: %v", path, err)
	}
	var names []string
	byName := map[string]*ipld.Link{}
	for _, l := range links {
		if _, dup := byName[l.Name]; dup {
			return fmt.Errorf("%s: flushed directory lists %q twice", path, l.Name)
		}
		byName[l.Name] = l
		names = append(names, l.Name)
	}
	sort.Strings(names)
	want := sortedKeys(m.kids)
	if strings.Join(names, "\x00") != strings.Join(want, "\x00") {
		return fmt.Errorf("%s: flushed directory has entries %q, model %q", path, names, want)
	}
	for _, name := range want {
		// resolve through the directory reader as well as through the listing
		child, err := d.Find(s.ctx, name)
		if err != nil {
			return fmt.Errorf("%s/%s: Find in flushed directory: %v", path, name, err)
		}
		if !child.Cid().Equals(byName[name].Cid) {
			return fmt.Errorf("%s/%s: flushed directory Find and Links disagree", path, name)
		}
		if err := s.checkDAG(child, m.kids[name], path+"/"+name, st); err != nil {
			return err
		}
	}
	return nil
}

// ---------------------------------------------------------------------------
// model transition

// outcome is what the model expects of one operation.
type outcome struct {
	want    bool // the operation must succeed
	skip    bool // outside the domain (precondition), not executed
	checked bool // pure comparison op without success/failure expectation
	f9      bool // matches the signature of known finding F9
	target  *mnode
	mvOver  []string  // mv: path of the existing file the move must replace (nil if none)
	off     int       // effective write offset / truncate size
	data    []byte    // effective write data
	steps   []stepEff // fd: effective arguments and expected file bytes per step
	classes []string
}

type stepEff struct {
	off   int
	data  []byte
	after []byte // model file content once the step has been done
}

// apply performs op on the model. The caller restores a clone when !want or skip.
func (model *mnode) apply(op Op, chunk int, cidV1 bool) (o outcome) {
	cls := func(s string) { o.classes = append(o.classes, s) }
	switch op.Kind {
	case "mkdir":
		parts := splitPath(op.Path)
		o.want = true
		if len(parts) == 0 {
			o.want = op.Parents
			return
		}
		cur := model
		for _, p := range parts[:len(parts)-1] {
			k, ok := cur.kids[p]
			if !ok {
				if !op.Parents {
					o.want = false
					return
				}
				k = newDir()
				cur.kids[p] = k
			}
			if !k.dir {
				o.want = false
				return
			}
			cur = k
		}
		last := parts[len(parts)-1]
		if k, ok := cur.kids[last]; ok {
			o.want = k.dir && op.Parents
			return
		}
		nd := newDir()
		nd.mode = op.Mode
		nd.setTime(op.Sec, op.Nsec)
		cur.kids[last] = nd
		cls("mkdir")

	case "put":
		parts := splitPath(op.Path)
		if len(parts) == 0 {
			o.skip = true
			return
		}
		parent := model.resolveDir(parts[:len(parts)-1])
		name := parts[len(parts)-1]
		o.want = parent != nil && parent.kids[name] == nil
		if !o.want {
			return
		}
		mn := &mnode{data: append([]byte(nil), op.Data...), mayRaw: cidV1}
		switch op.Node {
		case "raw":
			mn.mayRaw = true
		case "file":
			mn.inline = len(op.Data) > 0 && (chunk == 0 || len(op.Data) <= chunk)
		case "filemeta":
			mn.inline = len(op.Data) > 0
			mn.mode = op.Mode
			mn.setTime(op.Sec, op.Nsec)
		case "dir":
			mn = newDir()
			mn.kids["g"] = &mnode{data: append([]byte(nil), op.Data...), inline: len(op.Data) > 0, mayRaw: cidV1}
		}
		parent.kids[name] = mn
		cls("put:" + op.Node)

	case "write":
		parts := splitPath(op.Path)
		if len(parts) == 0 {
			o.skip = true
			return
		}
		parent := model.resolveDir(parts[:len(parts)-1])
		name := parts[len(parts)-1]
		if parent == nil {
			return
		}
		target := parent.kids[name]
		if target == nil {
			if !op.Create {
				return
			}
			target = &mnode{mayRaw: cidV1}
			parent.kids[name] = target
			cls("write:create")
		} else if target.dir {
			return
		}
		o.want = true
		old := target.data
		if op.Trunc {
			old = nil
		}
		if len(old) == 0 {
			target.inline = false
		}
		o.off = op.Off
		if o.off > len(old) {
			o.off = len(old)
		}
		o.data = op.Data
		if target.inline && o.off+len(o.data) > len(old) {
			o.data = o.data[:len(old)-o.off]
			cls("write:clipped-inline")
		}
		target.data = overlay(old, o.off, o.data)
		target.contentWritten()
		o.target = target
		cls("write")

	case "fd":
		parts := splitPath(op.Path)
		if len(parts) == 0 || len(op.Steps) == 0 {
			o.skip = true
			return
		}
		parent := model.resolveDir(parts[:len(parts)-1])
		name := parts[len(parts)-1]
		if parent == nil {
			return
		}
		target := parent.kids[name]
		if target == nil {
			if !op.Create {
				return
			}
			target = &mnode{mayRaw: cidV1}
			parent.kids[name] = target
			cls("fd:create")
		} else if target.dir {
			return
		}
		o.want = true
		// flushed: the descriptor has been flushed and not been written to since;
		// pendingTrunc: the latest change is a shrinking Truncate made in that state
		flushed, pendingTrunc := false, false
		for _, st := range op.Steps {
			before := len(target.data)
			var e stepEff
			target.data, target.inline, e.off, e.data = stepEffect(target.data, target.inline, st)
			e.after = target.data
			o.steps = append(o.steps, e)
			switch st.K {
			case "write":
				if flushed {
					cls("fd:write-after-flush")
				}
				if inlineClipped := len(e.data) < len(st.Data); inlineClipped {
					cls("write:clipped-inline")
				}
				flushed, pendingTrunc = false, false
			case "trunc":
				if e.off < before {
					if flushed {
						pendingTrunc = true
					}
					cls("fd:trunc-shrinks")
				}
			case "flush":
				if pendingTrunc {
					cls("fd:trunc-after-flush,flushed")
					pendingTrunc = false
				}
				flushed = true
			}
		}
		if pendingTrunc {
			cls("fd:trunc-after-flush,closed")
		}
		target.contentWritten()
		o.target = target
		cls("fd")

	case "trunc":
		target := model.resolve(splitPath(op.Path))
		o.want = target != nil && !target.dir
		if !o.want {
			return
		}
		// only shrinking: growing a file through Truncate is DagModifier territory (C10)
		o.off = op.Size
		if o.off > len(target.data) {
			o.off = len(target.data)
		}
		target.data = target.data[:o.off]
		if o.off == 0 {
			target.inline = false
		}
		target.contentWritten()
		cls("trunc")

	case "mv":
		sp := splitPath(op.Path)
		if len(sp) == 0 || op.Dst == "" {
			o.skip = true
			return
		}
		srcParentPath, srcName := sp[:len(sp)-1], sp[len(sp)-1]
		var dstParentPath []string
		var dstName string
		dp := splitPath(op.Dst)
		if strings.HasSuffix(op.Dst, "/") {
			dstParentPath, dstName = dp, srcName
		} else {
			dstParentPath, dstName = dp[:len(dp)-1], dp[len(dp)-1]
		}
		dstParent := model.resolveDir(dstParentPath)
		srcParent := model.resolveDir(srcParentPath)
		var src *mnode
		if srcParent != nil {
			src = srcParent.kids[srcName]
		}
		if dstParent == nil || srcParent == nil || src == nil {
			return
		}
		overwrite := false
		if ex := dstParent.kids[dstName]; ex != nil {
			if ex.dir {
				// an existing directory at the destination: move into it under the source name
				dstParentPath = append(append([]string(nil), dstParentPath...), dstName)
				dstParent, dstName = ex, srcName
			} else {
				overwrite = true
			}
		}
		effDst := append(append([]string(nil), dstParentPath...), dstName)
		if src.dir && isPrefix(sp, effDst) {
			// precondition: moving a directory into itself / its own subtree is undefined
			o.skip = true
			cls("skip:mv-into-self")
			return
		}
		samePath := len(effDst) == len(sp) && isPrefix(sp, effDst)
		if !samePath && dstName == srcName && baseName(srcParentPath) == baseName(dstParentPath) {
			o.f9 = true // distinct parent directories with equal names, equal entry name
		}
		switch {
		case samePath && overwrite:
			o.want = true // a file moved onto its own path: nothing changes
			o.mvOver = effDst
			cls("mv:onto-itself")
		case !overwrite && dstParent.kids[dstName] != nil:
			// target name taken inside the destination directory
		default:
			o.want = true
			delete(srcParent.kids, srcName)
			dstParent.kids[dstName] = src
			if overwrite {
				cls("mv:overwrite")
				o.mvOver = effDst
			}
			if src.dir {
				cls("mv:dir")
			} else {
				cls("mv:file")
			}
			if len(srcParentPath) != len(dstParentPath) || !isPrefix(srcParentPath, dstParentPath) {
				cls("mv:other-parent")
			}
		}

	case "rm":
		parts := splitPath(op.Path)
		if len(parts) == 0 {
			o.skip = true
			return
		}
		parent := model.resolveDir(parts[:len(parts)-1])
		name := parts[len(parts)-1]
		o.want = parent != nil && parent.kids[name] != nil
		if o.want {
			if parent.kids[name].dir && len(parent.kids[name].kids) > 0 {
				cls("rm:subtree")
			}
			delete(parent.kids, name)
			cls("rm")
		}

	case "chmod":
		target := model.resolve(splitPath(op.Path))
		o.want = target != nil
		if o.want {
			target.mode = op.Mode
			if target.mayRaw && len(target.data) > 0 {
				target.inline = true
			}
			if target.dir {
				cls("chmod:dir")
			} else {
				cls("chmod:file")
			}
		}

	case "touch":
		target := model.resolve(splitPath(op.Path))
		o.want = target != nil
		if o.want {
			target.setTime(op.Sec, op.Nsec)
			if target.mayRaw && len(target.data) > 0 {
				target.inline = true
			}
			if target.dir {
				cls("touch:dir")
			} else {
				cls("touch:file")
			}
		}

	case "flushpath", "lookup":
		o.target = model.resolve(splitPath(op.Path))
		o.want = o.target != nil

	case "list":
		o.target = model.resolve(splitPath(op.Path))
		o.want = o.target != nil && o.target.dir

	case "read":
		o.target = model.resolve(splitPath(op.Path))
		o.want = o.target != nil && !o.target.dir

	case "flush", "check", "reopen":
		o.checked = true

	default:
		o.skip = true
	}
	return
}

func baseName(parts []string) string {
	if len(parts) == 0 {
		return ""
	}
	return parts[len(parts)-1]
}

// ---------------------------------------------------------------------------
// run

const f9 = "F9"

// hamtReload is the key of the known finding "a HAMT directory re-loaded from its node
// undercounts its entries and fails an overwriting AddChild with 'maxLinks reached'".
const hamtReload = "HAMT-RELOAD"

// hamtReloadMv marks the second face of the same defect: Mv swallows the failing Unlink.
const hamtReloadMv = "[Mv swallowed the failure of removing the replaced file]"

func run(c Case) kit.Result {
	res := runCase(c)
	if res.Err != nil && c.MaxLinks > 0 && (strings.Contains(res.Err.Error(), "BasicDirectory: cannot add child: maxLinks reached") ||
		strings.Contains(res.Err.Error(), hamtReloadMv)) {
		res.Known = hamtReload
	}
	return res
}

func runCase(c Case) kit.Result {
	ctx, cancel := context.WithCancel(context.Background())
	defer cancel()
	s := &sut{ctx: ctx, dserv: newDagserv(), c: c}
	if c.MaxLinks > 0 {
		s.opts = append(s.opts, mfs.WithMaxLinks(c.MaxLinks))
	}
	if c.ShardSize > 0 {
		s.opts = append(s.opts, mfs.WithHAMTShardingSize(c.ShardSize))
	}
	if c.Fanout > 0 {
		s.opts = append(s.opts, mfs.WithMaxHAMTFanout(c.Fanout))
	}
	if c.SizeMode >= 0 {
		s.opts = append(s.opts, mfs.WithSizeEstimationMode(uio.SizeEstimationMode(c.SizeMode)))
	}
	if c.Chunk > 0 {
		s.opts = append(s.opts, mfs.WithChunker(chunker.SizeSplitterGen(int64(c.Chunk))))
	}
	if c.CidV1 {
		s.opts = append(s.opts, mfs.WithCidBuilder(dag.V1CidPrefix()))
	}
	if err := s.open(nil); err != nil {
		return kit.Fail("creating the MFS root: %v", err)
	}
	defer func() { s.root.Close() }()

	model := newDir()
	excludeF9 := !c.NoExclude && kit.OpenFinding("C19", f9)
	classes := map[string]bool{}
	st := &dagStats{}
	crossMv := false

	fullCheck := func(when string) error {
		if err := s.checkDirMFS(s.root.GetDirectory(), model, ""); err != nil {
			return fmt.Errorf("%s: %v", when, err)
		}
		return nil
	}
	flushCheck := func(when string) error {
		if err := s.root.Flush(); err != nil {
			return fmt.Errorf("%s: Root.Flush: %v", when, err)
		}
		nd, err := s.root.GetDirectory().GetNode()
		if err != nil {
			return fmt.Errorf("%s: root GetNode: %v", when, err)
		}
		// the flushed root must be readable from the DAG service alone
		stored, err := s.dserv.Get(s.ctx, nd.Cid())
		if err != nil {
			return fmt.Errorf("%s: flushed root %s not in the DAG service: %v", when, nd.Cid(), err)
		}
		if err := s.checkDAG(stored, model, "", st); err != nil {
			return fmt.Errorf("%s: %v", when, err)
		}
		return nil
	}

	for i, op := range c.Ops {
		when := fmt.Sprintf("op %d %s", i, describe(op))
		before := model.clone()
		o := model.apply(op, c.Chunk, c.CidV1)
		if o.f9 && excludeF9 {
			o.skip = true
			o.classes = []string{"excluded:F9"}
		}
		if o.skip {
			model = before
			for _, k := range o.classes {
				classes[k] = true
			}
			continue
		}
		if !o.want {
			model = before // failed operations leave the tree unchanged
			o.target = nil
		}
		var err error
		switch op.Kind {
		case "mkdir":
			var dopts []mfs.Option
			if op.Mode != 0 {
				dopts = append(dopts, mfs.WithMode(os.FileMode(op.Mode)))
			}
			if op.Sec != 0 || op.Nsec != 0 {
				dopts = append(dopts, mfs.WithModTime(opTime(op.Sec, op.Nsec)))
			}
			err = mfs.Mkdir(s.root, op.Path, mfs.MkdirOpts{Mkparents: op.Parents, Flush: op.Flush}, dopts...)

		case "put":
			nd, berr := s.buildNode(op)
			if berr != nil {
				return kit.Result{Err: fmt.Errorf("harness: building the node for %s: %v", when, berr)}
			}
			err = mfs.PutNode(s.root, op.Path, nd)

		case "write":
			var fi *mfs.File
			fi, err = s.fileHandle(op.Path, op.Create)
			if err == nil {
				if !o.want {
					return kit.Fail("%s: obtained a file handle although the model has no file there", when)
				}
				if werr := s.writeFile(fi, op, o.off, o.data); werr != nil {
					return kit.Fail("%s: writing to an open file failed: %v", when, werr)
				}
			}

		case "fd":
			var fi *mfs.File
			fi, err = s.fileHandle(op.Path, op.Create)
			if err == nil {
				if !o.want {
					return kit.Fail("%s: obtained a file handle although the model has no file there", when)
				}
				final := o.target.data
				res := s.fdSession(fi, op, o, when, flushCheck)
				o.target.data = final
				if res != nil {
					return kit.Result{Err: res}
				}
			}

		case "trunc":
			var fi *mfs.File
			fi, err = s.fileHandle(op.Path, false)
			if err == nil {
				if !o.want {
					return kit.Fail("%s: obtained a file handle although the model has no file there", when)
				}
				fd, oerr := fi.Open(ctx, mfs.Flags{Write: true, Sync: op.Flush})
				if oerr != nil {
					return kit.Fail("%s: Open for writing: %v", when, oerr)
				}
				if terr := fd.Truncate(int64(o.off)); terr != nil {
					fd.Close()
					return kit.Fail("%s: Truncate(%d): %v", when, o.off, terr)
				}
				if cerr := fd.Close(); cerr != nil {
					return kit.Fail("%s: Close after Truncate: %v", when, cerr)
				}
			}

		case "mv":
			if o.f9 {
				crossMv = true
				classes["mv:equal-named-parents"] = true
			}
			err = mfs.Mv(s.root, op.Path, op.Dst)
			if err != nil && o.want && o.mvOver != nil && c.MaxLinks > 0 && errors.Is(err, mfs.ErrDirExists) {
				// Mv ignores the error of the Unlink that removes the file it replaces and then
				// fails with ErrDirExists. With MaxLinks set and a HAMT-sharded destination
				// directory that swallowed error is the known HAMT-RELOAD defect ("maxLinks
				// reached" while converting back to a basic directory); the failed attempt
				// changes the directory's bookkeeping, so it cannot be re-observed afterwards.
				if pn, lerr := mfs.Lookup(s.root, "/"+strings.Join(o.mvOver[:len(o.mvOver)-1], "/")); lerr == nil {
					if pd, ok := pn.(*mfs.Directory); ok {
						if dn, gerr := pd.GetNode(); gerr == nil {
							if fsn, xerr := ft.ExtractFSNode(dn); xerr == nil && fsn.Type() == ft.THAMTShard {
								return kit.Fail("%s: failed with %q; the destination directory is a HAMT shard under MaxLinks=%d %s", when, err, c.MaxLinks, hamtReloadMv)
							}
						}
					}
				}
			}

		case "rm":
			var pn mfs.FSNode
			pn, err = mfs.Lookup(s.root, gopath.Dir(strings.TrimSuffix(op.Path, "/")))
			if err == nil {
				pdir, ok := pn.(*mfs.Directory)
				if !ok {
					err = errors.New("parent is not a directory")
				} else {
					err = pdir.Unlink(gopath.Base(op.Path))
					if err == nil && op.Flush {
						if ferr := pdir.Flush(); ferr != nil {
							return kit.Fail("%s: flushing the parent after Unlink: %v", when, ferr)
						}
					}
				}
			}

		case "chmod":
			err = mfs.Chmod(s.root, op.Path, os.FileMode(op.Mode))

		case "touch":
			err = mfs.Touch(s.root, op.Path, opTime(op.Sec, op.Nsec))

		case "flush":
			if ferr := flushCheck(when); ferr != nil {
				return kit.Result{Err: ferr}
			}

		case "flushpath":
			var nd ipld.Node
			nd, err = mfs.FlushPath(ctx, s.root, op.Path)
			if err == nil && o.want {
				stored, gerr := s.dserv.Get(ctx, nd.Cid())
				if gerr != nil {
					return kit.Fail("%s: flushed node %s not in the DAG service: %v", when, nd.Cid(), gerr)
				}
				p := strings.TrimSuffix(op.Path, "/")
				if cerr := s.checkDAG(stored, o.target, p, st); cerr != nil {
					return kit.Fail("%s: %v", when, cerr)
				}
				classes["flushpath"] = true
			}

		case "lookup":
			var n mfs.FSNode
			n, err = mfs.Lookup(s.root, op.Path)
			if err == nil && o.want && mfs.IsDir(n) != o.target.dir {
				return kit.Fail("%s: Lookup type dir=%v, model dir=%v", when, mfs.IsDir(n), o.target.dir)
			}

		case "list":
			var n mfs.FSNode
			n, err = mfs.Lookup(s.root, op.Path)
			if err == nil {
				d, ok := n.(*mfs.Directory)
				if !ok {
					err = errors.New("not a directory")
				} else {
					names, lerr := d.ListNames(ctx)
					if lerr != nil {
						return kit.Fail("%s: ListNames: %v", when, lerr)
					}
					if o.want {
						sort.Strings(names)
						if w := sortedKeys(o.target.kids); strings.Join(names, "\x00") != strings.Join(w, "\x00") {
							return kit.Fail("%s: ListNames %q, model %q", when, names, w)
						}
					}
				}
			}

		case "read":
			var fi *mfs.File
			fi, err = s.fileHandle(op.Path, false)
			if err == nil && o.want {
				if cerr := s.checkFileMFS(fi, o.target, op.Path); cerr != nil {
					return kit.Fail("%s: %v", when, cerr)
				}
			}

		case "check":
			if cerr := fullCheck(when); cerr != nil {
				return kit.Result{Err: cerr}
			}

		case "reopen":
			nd, gerr := s.root.GetDirectory().GetNode()
			if gerr != nil {
				return kit.Fail("%s: root GetNode: %v", when, gerr)
			}
			if cerr := s.root.Close(); cerr != nil {
				return kit.Fail("%s: Root.Close: %v", when, cerr)
			}
			pn, ok := nd.(*dag.ProtoNode)
			if !ok {
				return kit.Fail("%s: root node is %T", when, nd)
			}
			if oerr := s.open(pn); oerr != nil {
				return kit.Fail("%s: NewRoot from the flushed root node: %v", when, oerr)
			}
			classes["reopen"] = true
		}
		if o.checked {
			continue
		}
		if (err == nil) != o.want {
			if o.want {
				return kit.Fail("%s: failed with %q, the model expects success", when, err)
			}
			return kit.Fail("%s: succeeded, the model expects failure", when)
		}
		if o.want {
			for _, k := range o.classes {
				classes[k] = true
			}
		} else {
			classes["failed:"+op.Kind] = true
		}
		if c.Check == "all" || (c.Check == "fail" && !o.want) {
			if cerr := fullCheck("after " + when); cerr != nil {
				return kit.Result{Err: cerr}
			}
		}
	}

	// after flushing, the root DAG read through the UnixFS readers equals the model ...
	if err := flushCheck("final flush"); err != nil {
		return kit.Result{Err: err}
	}
	// ... and so does what MFS itself shows
	if err := fullCheck("final listing"); err != nil {
		return kit.Result{Err: err}
	}
	if st.hamt > 0 {
		classes["hamt"] = true
	}
	var cls []string
	for k := range classes {
		cls = append(cls, k)
	}
	sort.Strings(cls)
	return kit.Result{NonTrivial: crossMv || st.hamt > 0, Classes: cls}
}

// buildNode makes the node a "put" adds (as "ipfs files cp /ipfs/<cid>" would).
func (s *sut) buildNode(op Op) (ipld.Node, error) {
	switch op.Node {
	case "raw":
		return dag.NewRawNode(op.Data), nil
	case "filemeta":
		pn := dag.NodeWithData(ft.FilePBDataWithStat(op.Data, uint64(len(op.Data)), os.FileMode(op.Mode), opTime(op.Sec, op.Nsec)))
		pn.SetCidBuilder(s.cidBuilder())
		return pn, nil
	case "dir":
		d, err := uio.NewDirectory(s.dserv, uio.WithCidBuilder(s.cidBuilder()))
		if err != nil {
			return nil, err
		}
		leaf := dag.NodeWithData(ft.FilePBData(op.Data, uint64(len(op.Data))))
		leaf.SetCidBuilder(s.cidBuilder())
		if err := s.dserv.Add(s.ctx, leaf); err != nil {
			return nil, err
		}
		if err := d.AddChild(s.ctx, "g", leaf); err != nil {
			return nil, err
		}
		return d.GetNode()
	default:
		return importer.BuildDagFromReader(s.dserv, s.splitter(bytes.NewReader(op.Data)))
	}
}

// fdSession runs the steps of an "fd" op on one write descriptor and closes it. After a
// descriptor Flush nothing is pending, so what MFS shows for the file (File.Size) and, when
// the step asks for it, the flushed root DAG must equal the model as of that step.
func (s *sut) fdSession(fi *mfs.File, op Op, o outcome, when string, flushCheck func(string) error) error {
	fd, err := fi.Open(s.ctx, mfs.Flags{Write: true, Sync: op.Flush})
	if err != nil {
		return fmt.Errorf("%s: Open for writing: %v", when, err)
	}
	closed := false
	defer func() {
		if !closed {
			fd.Close()
		}
	}()
	for i, st := range op.Steps {
		e := o.steps[i]
		at := fmt.Sprintf("%s: step %d", when, i)
		switch st.K {
		case "write":
			var n int
			if st.Seek {
				if _, err := fd.Seek(int64(e.off), io.SeekStart); err != nil {
					return fmt.Errorf("%s: Seek(%d): %v", at, e.off, err)
				}
				n, err = fd.Write(e.data)
			} else {
				n, err = fd.WriteAt(e.data, int64(e.off))
			}
			if err != nil {
				return fmt.Errorf("%s: write(off=%d len=%d) on an open descriptor failed: %v", at, e.off, len(e.data), err)
			}
			if n != len(e.data) {
				return fmt.Errorf("%s: short write %d of %d", at, n, len(e.data))
			}
		case "trunc":
			if err := fd.Truncate(int64(e.off)); err != nil {
				return fmt.Errorf("%s: Truncate(%d): %v", at, e.off, err)
			}
		case "flush":
			if err := fd.Flush(); err != nil {
				return fmt.Errorf("%s: descriptor Flush: %v", at, err)
			}
			sz, err := fi.Size()
			if err != nil {
				return fmt.Errorf("%s: File.Size after descriptor Flush: %v", at, err)
			}
			if sz != int64(len(e.after)) {
				return fmt.Errorf("%s: File.Size %d after descriptor Flush, model %d", at, sz, len(e.after))
			}
			if st.Check {
				o.target.data = e.after
				if err := flushCheck(at + ": after descriptor Flush"); err != nil {
					return err
				}
			}
		}
		if dsz, err := fd.Size(); err != nil {
			return fmt.Errorf("%s (%s): descriptor Size: %v", at, st.K, err)
		} else if dsz != int64(len(e.after)) {
			return fmt.Errorf("%s (%s): descriptor Size %d, model %d", at, st.K, dsz, len(e.after))
		}
	}
	closed = true
	if err := fd.Close(); err != nil {
		return fmt.Errorf("%s: Close of the write descriptor: %v", when, err)
	}
	return nil
}

func (s *sut) writeFile(fi *mfs.File, op Op, off int, data []byte) error {
	fd, err := fi.Open(s.ctx, mfs.Flags{Write: true, Sync: op.Flush})
	if err != nil {
		return fmt.Errorf("Open for writing: %v", err)
	}
	if op.Trunc {
		if err := fd.Truncate(0); err != nil {
			fd.Close()
			return fmt.Errorf("Truncate(0): %v", err)
		}
	}
	var n int
	if op.Seek {
		if _, err := fd.Seek(int64(off), io.SeekStart); err != nil {
			fd.Close()
			return fmt.Errorf("Seek(%d): %v", off, err)
		}
		n, err = fd.Write(data)
	} else {
		n, err = fd.WriteAt(data, int64(off))
	}
	if err != nil {
		fd.Close()
		return fmt.Errorf("write: %v", err)
	}
	if n != len(data) {
		fd.Close()
		return fmt.Errorf("short write %d of %d", n, len(data))
	}
	return fd.Close()
}

func describe(op Op) string {
	switch op.Kind {
	case "mv":
		return fmt.Sprintf("mv %s %s", op.Path, op.Dst)
	case "mkdir":
		return fmt.Sprintf("mkdir(parents=%v) %s", op.Parents, op.Path)
	case "write":
		return fmt.Sprintf("write(create=%v trunc=%v off=%d len=%d) %s", op.Create, op.Trunc, op.Off, len(op.Data), op.Path)
	case "trunc":
		return fmt.Sprintf("truncate(%d) %s", op.Size, op.Path)
	case "fd":
		var st []string
		for _, x := range op.Steps {
			switch x.K {
			case "write":
				st = append(st, fmt.Sprintf("write(off=%d len=%d)", x.Off, len(x.Data)))
			case "trunc":
				st = append(st, fmt.Sprintf("truncate(%d)", x.Size))
			default:
				st = append(st, "flush")
			}
		}
		return fmt.Sprintf("fd(create=%v sync=%v)[%s] %s", op.Create, op.Flush, strings.Join(st, " "), op.Path)
	case "put":
		return fmt.Sprintf("put(%s,len=%d) %s", op.Node, len(op.Data), op.Path)
	default:
		return op.Kind + " " + op.Path
	}
}

var spec = kit.Spec[Case]{
	Prop: "C19", Name: "main",
	Rule:  "op list (<=30 + mkdir -p prologue) over paths {a,b,x}/{a,b,x}/{a,b,x,f,g}: mkdir(+-parents), PutNode, create/write/truncate through descriptors (one call per descriptor, or 1-6 WriteAt/Truncate/descriptor-Flush calls on one write descriptor with File.Size and the root DAG compared after a descriptor Flush), Mv, Unlink, Chmod, Touch, Flush/FlushPath, Lookup/List/read, reopen from the flushed root; root options maxLinks 2-4 / HAMT size 100-300 / fanout 8-16 / chunker size-16..64 / CIDv0|v1; compared op by op with a tree model and, after Flush, through uio.Directory/DagReader; non-trivial = a successful-precondition Mv between distinct parents with equal names and equal entry name, or a HAMT-sharded directory in a flushed DAG",
	Quick: 600, Thorough: 4000,
	Gen: gen, Run: run,
	Sample: func(c Case) any {
		var ops []string
		for _, o := range c.Ops {
			ops = append(ops, describe(o))
		}
		return map[string]any{"max_links": c.MaxLinks, "shard_size": c.ShardSize, "chunk": c.Chunk, "cid_v1": c.CidV1, "check": c.Check, "ops": ops}
	},
}

func TestProp(t *testing.T) { kit.All(t, spec) }
