//go:build c37dev

package c37

import (
	"os"
	"encoding/json"
	"time"
	"fmt"
	"testing"

	"pgregory.net/rapid"
)

func TestDevDist(t *testing.T) {
	g := rapid.Custom(gen)
	hist := map[string]int{}
	for i := 0; i < 400; i++ {
		c := g.Example(i)
		for _, k := range dedup(groupClasses(c)) {
			hist[k]++
		}
	}
	for k, v := range hist {
		fmt.Println(v, k)
	}
}

func burstCase(n, groupMs, delay int, kind string) Case {
	c := Case{Nodes: 3, DelayMs: delay, GroupMs: []int{groupMs}}
	for i := 0; i < n; i++ {
		c.Sizes = append(c.Sizes, 40)
		c.Place = append(c.Place, nil)
		c.LateMs = append(c.LateMs, 0)
		c.Reqs = append(c.Reqs, Req{Node: 0, Kind: kind, Keys: []int{i}, Cancel: -1, Group: 1})
	}
	return c
}

func TestDevHit(t *testing.T) {
	firstAllowance = 2 * time.Second
	cleanupFirst = 300 * time.Millisecond
	for _, rounds := range []int{1, 3, 6} {
		for _, n := range []int{4, 8, 12} {
			hit := 0
			for i := 0; i < 20; i++ {
				c := burstCase(n, 3, 1, "session")
				for r := 1; r < rounds; r++ {
					c.GroupMs = append(c.GroupMs, 3)
					for _, q := range c.Reqs[:n] {
						q.Phase = r
						q.Group = r + 1
						c.Reqs = append(c.Reqs, q)
					}
				}
				if !valid(c) {
					t.Fatal("invalid")
				}
				o := attempt(c, firstAllowance)
				if o.violation != "" {
					t.Fatal(o.violation)
				}
				if o.suspect != "" {
					hit++
				}
			}
			fmt.Printf("rounds=%d n=%d hit %d/20\n", rounds, n, hit)
		}
	}
}

func TestDevReplayRate(t *testing.T) {
	firstAllowance = 2 * time.Second
	cleanupFirst = 300 * time.Millisecond
	b, err := os.ReadFile(os.Getenv("C37_CASE"))
	if err != nil {
		t.Fatal(err)
	}
	var f struct{ Case Case `json:"case"` }
	if err := json.Unmarshal(b, &f); err != nil {
		t.Fatal(err)
	}
	hit := 0
	for i := 0; i < 100; i++ {
		o := attempt(f.Case, firstAllowance)
		if o.violation != "" {
			t.Fatal(o.violation)
		}
		if o.suspect != "" {
			hit++
			if hit <= 3 {
				fmt.Println(o.suspect)
			}
		}
	}
	fmt.Printf("hit %d/100\n", hit)
}

func TestDevStress(t *testing.T) {
	firstAllowance = 2 * time.Second
	cleanupFirst = 300 * time.Millisecond
	hit := 0
	for i := 0; i < 40; i++ {
		n := 6
		c := burstCase(n, 1+i%3, 0, "session")
		c.Nodes = 4
		c.SearchMs, c.RebroadcastMs, c.HoldMs = 30, 25, 70
		for r := 1; r < 6; r++ {
			c.GroupMs = append(c.GroupMs, 1+(i+r)%3)
			for _, q := range c.Reqs[:n] {
				q.Phase = r
				q.Group = r + 1
				c.Reqs = append(c.Reqs, q)
			}
		}
		o := attempt(c, firstAllowance)
		if o.violation != "" {
			t.Fatal(o.violation)
		}
		if o.suspect != "" {
			hit++
			fmt.Println(o.suspect)
		}
	}
	fmt.Printf("hit %d/40\n", hit)
}

func TestDevR3m2(t *testing.T) {
	firstAllowance = 2 * time.Second
	cleanupFirst = 300 * time.Millisecond
	for _, delay := range []int{0, 1, 3} {
		for us := 2*delay*1000; us <= 2*delay*1000+2500; us += 250 {
			hit := 0
			for i := 0; i < 15; i++ {
				c := Case{Nodes: 5, DelayMs: delay}
				nb := 10
				var keys []int
				for k := 0; k < nb; k++ {
					c.Sizes = append(c.Sizes, 2000)
					c.Place = append(c.Place, []int{1, 2, 3, 4})
					c.LateMs = append(c.LateMs, 0)
					keys = append(keys, k)
				}
				for r := 0; r < 6; r++ {
					c.Reqs = append(c.Reqs, Req{Node: 0, Kind: "getblocks", Keys: keys, Cancel: 0, CancelMs: us / 1000, CancelUs: us % 1000, Phase: r})
				}
				if !valid(c) {
					t.Fatal("invalid")
				}
				o := attempt(c, firstAllowance)
				if o.violation != "" {
					t.Fatal(o.violation)
				}
				if o.suspect != "" {
					hit++
				}
			}
			fmt.Printf("delay=%d cancelus=%d hit %d/15\n", delay, us, hit)
		}
	}
}
