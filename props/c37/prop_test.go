// Package c37 checks property C37: in a network of in-memory bitswap nodes a GetBlock /
// GetBlocks / session fetch delivers every requested block held by some connected node,
// each distinct requested block at most once and nothing else, and after completion or
// cancellation the requester's want-list no longer contains those CIDs.
//
// Real bitswap instances (testinstance) on a testnet.VirtualNetwork with generated latency;
// real goroutines, so schedules are sampled. Safety clauses (wrong / duplicate / unrequested
// block, wrong bytes) are verdicts at once. The two timing-dependent clauses (a delivery that
// does not arrive, a want that lingers) are only *suspicions* after the first allowance: the
// case is then run again on its own with a long allowance and reported only if the suspicion
// is confirmed there (a case with rounds gets up to three such confirmation runs, because the
// interleaving has to be met again); otherwise the case counts as inconclusive, never as a violation.
//
// A case may have a second phase: requests that start only after every earlier request ended
// and the want-list was seen clean, mostly for CIDs the same node asked for before (requesters
// never keep a block, so the exchange has to fetch it again). State that a completed or
// cancelled request leaves behind then shows up as a missing delivery. The want-list is read
// through all three accessors (GetWantlist = "both want-blocks and want-haves", GetWantBlocks,
// GetWantHaves); block sizes straddle the 1 KiB limit up to which a server answers a want-have
// with the block instead of HAVE.
//
// Configuration: in half of the cases every node runs with short session timers
// (bitswap.ProviderSearchDelay 5-30 ms, bitswap.RebroadcastDelay 10-25 ms instead of 1 s /
// 1 min), so that the sessions' idle ticks and periodic searches fire while the case runs. If
// such a case has a long-lived session (NewSession), the sessions are kept open after the
// want-list was first seen clean for more than two timer periods and the list is polled again:
// a cancelled or completed CID that a session timer puts back on the want-list for good is a
// lingering want like any other (suspicion, then confirmation run).
//
// Cancellation shapes. Besides per-request cancel points (after k received blocks, or after a
// delay) requests can share a parent context (cancel group) that the harness cancels after a
// generated delay, which ends all of them together, as a caller does that issues several
// requests under one request context. Generated cases use cancel groups in bursts only, where
// the requests have disjoint key sets (with overlapping key sets on several sessions a shared
// cancellation that meets arriving blocks mostly re-finds want-relisted-after-delivery: the
// sessions have handled the blocks, the requests are cancelled before they read them). A quarter of the cases are "bursts": 2-8 requests for
// disjoint key sets on one long-lived session under one shared context, cancelled together while
// wants are outstanding, repeated for up to 12 rounds. A sixth of the remaining cases are
// "sweeps": a request for blocks > 1 KiB that most nodes hold is cancelled about one network
// round trip (latency 1-3 ms) after it started and issued again 16-32 times, cancelled a little
// later (50-150 us) each time, so that cancellations fall before, into and after the arrival of
// the peers' HAVEs. Rounds reuse the phase machinery: a round starts only when the want-list was
// seen clean after the round before.
//
// Open findings and what is excluded as them (see the comment on keyLateWant / keySameSession
// for the derivation from the boxo code). Every node carries a message tap (bitswap.WithTracer),
// so the harness knows which blocks arrived at a node and which wants reached a holder. A
// lingering want is excluded (counted as excluded_known, not reported) only if every lingering
// CID (1) is reported by GetWantlist() itself and (2) is explained by an open finding: (a) a
// block with that CID arrived at the node in this step or the one before
// (want-relisted-after-delivery: a want registered or handed to the peer manager after the
// arriving block was dealt with), or (b) the CID was asked for by two calls on one NewSession
// session, in one phase or in this step and the one before, and a request ended without it
// (same-session-overlap-cancel-starves: the first call's cancel withdrew the session's interest,
// so nothing retracts the other call's wants). A CID explained by (b) only must moreover be a
// stale entry nobody owns: the harness asks for the CIDs once more through a throw-away request
// and cancels it (the exchange then retracts what no session is interested in any more) and
// lets the session timers fire again; a CID that stays (a session that lost the cancel is still
// interested) or comes back (a session keeps re-broadcasting it) in each of up to three such
// probes is not excluded. A missing delivery is excluded only in the shapes described at
// missingShape.
//
// Not in the domain: connecting / disconnecting nodes while requests run. The property
// quantifies over request sets, placement, duplicates, overlapping requests and sessions,
// cancellation and latency on a network of connected nodes; testnet.VirtualNetwork does not even
// model a lost connection (DisconnectFrom only raises the notification, messages still flow).
package c37

import (
	"context"
	"encoding/json"
	"errors"
	"flag"
	"fmt"
	"os"
	"sort"
	"strconv"
	"sync"
	"testing"
	"time"

	"github.com/ipfs/boxo/bitswap"
	bsmsg "github.com/ipfs/boxo/bitswap/message"
	testinstance "github.com/ipfs/boxo/bitswap/testinstance"
	tn "github.com/ipfs/boxo/bitswap/testnet"
	"github.com/ipfs/boxo/exchange"
	mockrouting "github.com/ipfs/boxo/routing/mock"
	blocks "github.com/ipfs/go-block-format"
	cid "github.com/ipfs/go-cid"
	delay "github.com/ipfs/go-ipfs-delay"
	p2ptestutil "github.com/libp2p/go-libp2p-testing/netutil"
	peer "github.com/libp2p/go-libp2p/core/peer"
	"pgregory.net/rapid"
	"verif/kit"
)

func TestMain(m *testing.M) { kit.Main(m) }

// ---------------------------------------------------------------------------
// case

type Req struct {
	Node  int    `json:"node"`            // requesting node
	Kind  string `json:"kind"`            // getblock | getblocks | session
	Keys  []int  `json:"keys"`            // block indices, duplicates allowed (getblock uses Keys[0])
	Sess  int    `json:"sess,omitempty"`  // session slot on that node (requests with equal slot share a session)
	Start int    `json:"start,omitempty"` // start delay in ms (relative to the start of its phase)
	// Phase: requests of phase p+1 start only after every request of phase p has ended and the
	// want-list of the requesters was seen clean (0 = first phase). A later phase is how a case
	// asks again for a CID whose earlier request completed or was cancelled.
	Phase int `json:"phase,omitempty"`
	// Cancel: -1 never (the harness cancels only once everything available has arrived);
	// k >= 0: cancel the request context after k blocks were received (0: after CancelMs).
	Cancel   int `json:"cancel"`
	CancelMs int `json:"cancel_ms,omitempty"`
	CancelUs int `json:"cancel_us,omitempty"` // added to CancelMs (microseconds, 0..999)
	// Group g > 0: the request context is derived from a parent context that the request shares
	// with the other requests of group g of its phase (a caller that issues several requests
	// under one cancellable context); the parent is cancelled Case.GroupMs[g-1] ms after the
	// phase started, which cancels all of them together. A member with an unavailable key does not
	// give up on its own but ends with the group.
	Group int `json:"group,omitempty"`
}

type Case struct {
	Nodes   int     `json:"nodes"`    // 2..6
	DelayMs int     `json:"delay_ms"` // network latency 0..3
	Sizes   []int   `json:"sizes"`    // block sizes; block i = deterministic bytes
	Place   [][]int `json:"place"`    // holders of block i (never a node that requests it); empty = nobody has it
	LateMs  []int   `json:"late_ms"`  // block i is stored on its holders this many ms after the start (0 = before)
	Reqs    []Req   `json:"reqs"`
	// Configuration of every node (0 = library default): bitswap.ProviderSearchDelay (the idle
	// tick after which a session re-broadcasts its live wants, default 1 s) and
	// bitswap.RebroadcastDelay (period of a session's provider search / re-broadcast of one
	// live want, default 1 min). Short values make these timers fire within a case.
	SearchMs      int `json:"search_ms,omitempty"`
	RebroadcastMs int `json:"rebroadcast_ms,omitempty"`
	// HoldMs > 0: when the requests of a phase have ended and the want-list was seen clean, the
	// sessions of the case stay open for this long (their timers fire) and the want-list has to
	// be clean after that, too: "no longer contains those CIDs" is not over when the first look
	// finds the list empty.
	HoldMs int `json:"hold_ms,omitempty"`
	// GroupMs[g-1]: when the shared parent context of cancel group g is cancelled (ms after the
	// start of the phase)
	GroupMs []int `json:"group_ms,omitempty"`
	// Rounds > 1: the caller does it all again: the phases are run Rounds times in a row (a round
	// starts when the last phase of the round before has ended and the want-list was seen clean;
	// late blocks are stored once, sessions live on, HoldMs applies to the last round). SweepUs:
	// in round r every timed cancellation (CancelMs+CancelUs of a request with Cancel == 0, GroupMs)
	// happens r*SweepUs microseconds later than stated: a sweep of the cancellation point over the
	// time at which the answers of the peers arrive.
	Rounds  int `json:"rounds,omitempty"`
	SweepUs int `json:"sweep_us,omitempty"`
}

func blockOf(i, size int) blocks.Block {
	data := make([]byte, size)
	for j := range data {
		data[j] = byte(31*i + 7*j + 1)
	}
	copy(data, []byte("c37-"+strconv.Itoa(i)+"-"))
	return kit.Block(data, kit.PrefixSpec{Version: 1, Codec: cid.Raw, MhType: 0x12, MhLength: 32})
}

// ---------------------------------------------------------------------------
// generator

func gen(t *rapid.T) Case {
	var c Case
	c.Nodes = rapid.IntRange(2, 6).Draw(t, "nodes")
	c.DelayMs = rapid.SampledFrom([]int{0, 0, 1, 2, 3}).Draw(t, "delay")
	// shape "burst" (a quarter of the cases): one caller issues 2-8 (thorough: 2-12) requests for
	// disjoint key sets on one long-lived session under one shared cancellable context and
	// cancels them together while most wants are still outstanding (blocks held by nobody or
	// stored late), and does so again in up to 11 further rounds; see genBurst
	burst := rapid.IntRange(0, 3).Draw(t, "burst") == 0
	// shape "sweep" (a sixth of the remaining cases): see genSweep
	if !burst && rapid.IntRange(0, 5).Draw(t, "sweep") == 0 {
		genSweep(t, &c)
		genTimers(t, &c)
		return c
	}
	nb := rapid.IntRange(1, kit.Scale(10, 16)).Draw(t, "nblocks")
	nreq := rapid.SampledFrom([]int{1, 2, 2, 3, 3}).Draw(t, "nreq")
	if burst {
		nreq = rapid.SampledFrom([]int{kit.Scale(8, 12), 8, 6, 5, 4, 3, 2}).Draw(t, "nburst")
		nb = rapid.IntRange(nreq, max(nreq, kit.Scale(10, 16))).Draw(t, "nblocksburst")
	}
	// requesters: at most two distinct nodes, so that overlapping requests on one node are common
	reqNodes := []int{rapid.IntRange(0, c.Nodes-1).Draw(t, "rn0")}
	if !burst && c.Nodes >= 3 && rapid.IntRange(0, 2).Draw(t, "tworeq") == 0 {
		reqNodes = append(reqNodes, rapid.IntRange(0, c.Nodes-1).Draw(t, "rn1"))
	}
	isReq := map[int]bool{}
	for _, n := range reqNodes {
		isReq[n] = true
	}
	var holders []int
	for n := 0; n < c.Nodes; n++ {
		if !isReq[n] {
			holders = append(holders, n)
		}
	}
	for i := 0; i < nb; i++ {
		c.Sizes = append(c.Sizes, rapid.SampledFrom(sizePool).Draw(t, "size"))
		var pl []int
		unavailable := rapid.IntRange(0, 7).Draw(t, "unavailable") == 0
		if burst {
			unavailable = rapid.IntRange(0, 1).Draw(t, "unavailableburst") == 0
		}
		if len(holders) > 0 && !unavailable {
			k := rapid.IntRange(1, len(holders)).Draw(t, "nhold")
			if rapid.IntRange(0, 1).Draw(t, "single") == 0 {
				k = 1
			}
			perm := rapid.Permutation(holders).Draw(t, "holders")
			pl = append(pl, perm[:k]...)
			sort.Ints(pl)
		}
		c.Place = append(c.Place, pl)
		late := 0
		if rapid.IntRange(0, 5).Draw(t, "late") == 0 {
			late = rapid.IntRange(1, 25).Draw(t, "latems")
		} else if burst && rapid.IntRange(0, 2).Draw(t, "lateburst") == 0 {
			late = rapid.IntRange(1, 40).Draw(t, "latemsburst")
		}
		c.LateMs = append(c.LateMs, late)
	}
	if burst {
		genBurst(t, &c, reqNodes[0], nb, nreq)
		nreq = 0
	}
	for r := 0; r < nreq; r++ {
		q := Req{Node: reqNodes[rapid.IntRange(0, len(reqNodes)-1).Draw(t, "rnode")]}
		q.Kind = rapid.SampledFrom([]string{"getblock", "getblocks", "getblocks", "session", "session"}).Draw(t, "kind")
		nk := rapid.IntRange(1, nb+2).Draw(t, "nkeys")
		if q.Kind == "getblock" {
			nk = 1
		}
		for k := 0; k < nk; k++ {
			q.Keys = append(q.Keys, rapid.IntRange(0, nb-1).Draw(t, "key"))
		}
		q.Sess = rapid.IntRange(0, 1).Draw(t, "sess")
		q.Start = rapid.SampledFrom([]int{0, 0, 0, 1, 3, 10}).Draw(t, "start")
		q.Cancel = -1
		if rapid.IntRange(0, 2).Draw(t, "docancel") == 0 {
			q.Cancel = rapid.IntRange(0, len(q.Keys)).Draw(t, "cancelafter")
			if q.Cancel == 0 {
				q.CancelMs = rapid.SampledFrom([]int{0, 0, 1, 2, 5, 20}).Draw(t, "cancelms")
			}
		}
		c.Reqs = append(c.Reqs, q)
	}
	// second phase (half of the cases): one or two requests that start after all of the above
	// ended, on a node that already requested something, mostly for keys that node asked for
	// before (it never keeps a block, so the exchange has to fetch it again)
	if rapid.IntRange(0, 1).Draw(t, "twophase") == 0 {
		first := len(c.Reqs)
		n2 := rapid.SampledFrom([]int{1, 1, 2}).Draw(t, "nreq2")
		for r := 0; r < n2; r++ {
			q := Req{Phase: 1, Node: c.Reqs[rapid.IntRange(0, first-1).Draw(t, "rnode2")].Node}
			var before []int
			for _, p := range c.Reqs[:first] {
				if p.Node == q.Node {
					before = append(before, p.Keys...)
				}
			}
			q.Kind = rapid.SampledFrom([]string{"getblock", "getblocks", "getblocks", "session", "session"}).Draw(t, "kind2")
			nk := rapid.IntRange(1, 4).Draw(t, "nkeys2")
			if q.Kind == "getblock" {
				nk = 1
			}
			for k := 0; k < nk; k++ {
				if rapid.IntRange(0, 3).Draw(t, "fresh") == 0 {
					q.Keys = append(q.Keys, rapid.IntRange(0, nb-1).Draw(t, "key2"))
				} else {
					q.Keys = append(q.Keys, rapid.SampledFrom(before).Draw(t, "again"))
				}
			}
			q.Sess = rapid.IntRange(0, 1).Draw(t, "sess2")
			q.Start = rapid.SampledFrom([]int{0, 0, 0, 1, 3}).Draw(t, "start2")
			q.Cancel = -1
			if rapid.IntRange(0, 3).Draw(t, "docancel2") == 0 {
				q.Cancel = rapid.IntRange(0, len(q.Keys)).Draw(t, "cancelafter2")
				if q.Cancel == 0 {
					q.CancelMs = rapid.SampledFrom([]int{0, 1, 5, 20}).Draw(t, "cancelms2")
				}
			}
			c.Reqs = append(c.Reqs, q)
		}
	}
	// configuration: in half of the cases short session timers, so that idle ticks and periodic
	// searches happen while requests run; if the case has a long-lived session (NewSession) the
	// sessions are then held open across at least two periods after every phase
	genTimers(t, &c)
	return c
}

func genTimers(t *rapid.T, c *Case) {
	if rapid.IntRange(0, 1).Draw(t, "timers") == 0 {
		c.SearchMs = rapid.SampledFrom([]int{5, 10, 20, 30}).Draw(t, "searchms")
		c.RebroadcastMs = rapid.SampledFrom([]int{10, 15, 25}).Draw(t, "rebroadcastms")
		for _, q := range c.Reqs {
			if q.Kind == "session" {
				c.HoldMs = 2*max(c.SearchMs, c.RebroadcastMs) + 10
			}
		}
	}
}

var groupMsPool = []int{0, 1, 2, 3, 5, 10, 20, 40}

// genBurst: n requests of one caller on node `node`, mostly session requests on one shared
// long-lived session (the throw-away session of Exchange.GetBlocks is mixed in), with pairwise
// disjoint key sets (every block index goes to at most one request; a request may repeat one
// of its own keys), started (almost) together under one shared parent context (cancel group 1)
// which is cancelled after a generated delay. The same requests are issued again in 0-11 further
// rounds (Case.Rounds) under a fresh shared context each, cancelled a little later each time
// (Case.SweepUs).
func genBurst(t *rapid.T, c *Case, node, nb, n int) {
	perm := rapid.Permutation(seq(nb)).Draw(t, "burstkeys")
	keys := make([][]int, n)
	for r := 0; r < n; r++ {
		keys[r] = []int{perm[r]}
	}
	for _, k := range perm[n:] {
		if r := rapid.IntRange(0, n).Draw(t, "owner"); r < n {
			keys[r] = append(keys[r], k)
		}
	}
	for r := 0; r < n; r++ {
		q := Req{Node: node, Keys: keys[r], Cancel: -1, Group: 1}
		q.Kind = rapid.SampledFrom([]string{"session", "session", "session", "session", "getblocks"}).Draw(t, "kindburst")
		if rapid.IntRange(0, 3).Draw(t, "dupkey") == 0 {
			q.Keys = append(q.Keys, rapid.SampledFrom(q.Keys).Draw(t, "dup"))
		}
		q.Start = rapid.SampledFrom([]int{0, 0, 0, 0, 1, 3}).Draw(t, "startburst")
		// own cancel point: timed only. A cancel after k received blocks coincides with the arrival
		// of further blocks, where the open finding want-relisted-after-delivery lives; repeated over
		// the rounds of a burst it would mostly re-find that.
		if rapid.IntRange(0, 5).Draw(t, "docancelburst") == 0 {
			q.Cancel = 0
			q.CancelMs = rapid.SampledFrom([]int{0, 1, 2, 5, 20}).Draw(t, "cancelmsburst")
		}
		if rapid.IntRange(0, 7).Draw(t, "alone") == 0 {
			q.Group = 0 // this one has its own context
		}
		c.Reqs = append(c.Reqs, q)
	}
	c.GroupMs = []int{rapid.SampledFrom(groupMsPool).Draw(t, "groupmsburst")}
	c.Rounds = rapid.SampledFrom([]int{12, 8, 6, 4, 2, 1}).Draw(t, "rounds")
	c.SweepUs = rapid.SampledFrom([]int{0, 100, 250}).Draw(t, "sweepus")
}

// genSweep: one caller asks 1-2 times for blocks that (nearly) all other nodes hold, all bigger
// than 1 KiB (the peers answer HAVE, the session then sends want-block), mostly through the
// throw-away session of Exchange.GetBlocks / GetBlock, and cancels each request about one round
// trip after it started: at 2*latency + 0..0.75 ms in the first round and SweepUs later in each of
// the 16-32 rounds that follow (2.4 ms at most), so that cancellations fall before, into and after
// the arrival and processing of the peers' HAVEs. The latency is 1-3 ms, so the blocks themselves
// (one more round trip away) do not arrive before the cancellation: a cancellation that meets an
// arriving block is where the open finding want-relisted-after-delivery lives, and 16-32 rounds
// of that would mostly re-find it.
func genSweep(t *rapid.T, c *Case) {
	c.Nodes = rapid.SampledFrom([]int{6, 5, 4, 3}).Draw(t, "nodessweep")
	c.DelayMs = rapid.SampledFrom([]int{1, 2, 3}).Draw(t, "delaysweep")
	node := rapid.IntRange(0, c.Nodes-1).Draw(t, "rnsweep")
	var holders []int
	for n := 0; n < c.Nodes; n++ {
		if n != node {
			holders = append(holders, n)
		}
	}
	hi := kit.Scale(10, 16)
	nb := hi - rapid.IntRange(0, hi-4).Draw(t, "nblockssweep")
	for i := 0; i < nb; i++ {
		c.Sizes = append(c.Sizes, rapid.SampledFrom([]int{2000, 5000, 1025, 2000}).Draw(t, "sizesweep"))
		pl := append([]int(nil), holders...)
		if rapid.IntRange(0, 2).Draw(t, "somesweep") == 0 {
			k := rapid.IntRange(1, len(holders)).Draw(t, "nholdsweep")
			pl = append([]int(nil), rapid.Permutation(holders).Draw(t, "holderssweep")[:k]...)
			sort.Ints(pl)
		}
		c.Place = append(c.Place, pl)
		c.LateMs = append(c.LateMs, 0)
	}
	nreq := rapid.SampledFrom([]int{1, 1, 2}).Draw(t, "nreqsweep")
	for r := 0; r < nreq; r++ {
		q := Req{Node: node, Cancel: 0}
		q.Kind = rapid.SampledFrom([]string{"getblocks", "getblocks", "getblock", "session"}).Draw(t, "kindsweep")
		if q.Kind == "getblock" {
			q.Keys = []int{rapid.IntRange(0, nb-1).Draw(t, "keysweep")}
		} else {
			q.Keys = rapid.Permutation(seq(nb)).Draw(t, "keyssweep")
			q.Keys = q.Keys[:len(q.Keys)-rapid.IntRange(0, len(q.Keys)/2).Draw(t, "dropsweep")]
		}
		q.CancelMs = 2 * c.DelayMs
		q.CancelUs = rapid.SampledFrom([]int{0, 250, 500, 750}).Draw(t, "cancelussweep")
		c.Reqs = append(c.Reqs, q)
	}
	rs := rapid.SampledFrom([][2]int{{32, 75}, {24, 100}, {32, 50}, {16, 150}}).Draw(t, "roundssweep")
	c.Rounds, c.SweepUs = rs[0], rs[1]
}

func seq(n int) []int {
	s := make([]int, n)
	for i := range s {
		s[i] = i
	}
	return s
}

// block sizes: the server answers a want-have for a block of at most 1024 bytes with the block
// itself and for a bigger one with HAVE (the client then sends a want-block), so both sides
// of that boundary are drawn
var sizePool = []int{8, 16, 40, 300, 1024, 1025, 2000, 2000, 5000}

const maxPhase = 7

// ---------------------------------------------------------------------------
// one attempt

type outcome struct {
	violation string // safety violation: verdict at once
	suspect   string // timing-dependent finding: needs confirmation
	// the suspicion is a lingering want and it has the observable shape of an open finding
	// (see the comment on the keys below): lingerKnown names that finding, else ""
	lingerKnown string
	missingReq  int // index of the request with a missing delivery, else -1
	// the suspicion is a missing delivery and it has the observable shape of an open finding
	missingKnown string
	// requests that ended without all their blocks because the shared context of their cancel
	// group was cancelled
	groupCancelled map[int]bool
	nt             bool
	classes        []string
}

// nodeTracer records, for one node, the blocks that arrived in bitswap messages (bitswap.WithTracer,
// the public tap on all messages of a node): for every CID the step (round * phases + phase) and
// the time of the latest arrival. A tap, not a hook: the messages are not touched.
var (
	devEventsMu sync.Mutex
	devEvents   []string
)

type nodeTracer struct {
	node int
	mu   sync.Mutex
	step int
	last map[cid.Cid]arrival
	// first[k]: the first arrival of a block with CID k in the step first[k].step
	first map[cid.Cid]arrival
	// wants[p][k]: when the latest want (want-have or want-block, not a cancel) for k arrived from peer p
	wants map[peer.ID]map[cid.Cid]time.Time
}

type arrival struct {
	step int
	at   time.Time
}

func (t *nodeTracer) MessageReceived(from peer.ID, m bsmsg.BitSwapMessage) {
	bs, ws := m.Blocks(), m.Wantlist()
	if len(bs) == 0 && len(ws) == 0 && !devVerbose {
		return
	}
	now := time.Now()
	if devVerbose {
		ev := fmt.Sprintf("%s node %d <- %s:", now.Format("05.000000"), t.node, from.String()[len(from.String())-4:])
		for _, b := range bs {
			ev += " BLOCK " + b.Cid().String()[len(b.Cid().String())-5:]
		}
		for _, e := range ws {
			ev += fmt.Sprintf(" want(%s type=%v cancel=%v)", e.Cid.String()[len(e.Cid.String())-5:], e.WantType, e.Cancel)
		}
		for _, k := range m.Haves() {
			ev += " HAVE " + k.String()[len(k.String())-5:]
		}
		for _, k := range m.DontHaves() {
			ev += " DONT_HAVE " + k.String()[len(k.String())-5:]
		}
		devEventsMu.Lock()
		devEvents = append(devEvents, ev)
		devEventsMu.Unlock()
	}
	t.mu.Lock()
	for _, b := range bs {
		t.last[b.Cid()] = arrival{t.step, now}
		if f, ok := t.first[b.Cid()]; !ok || f.step != t.step {
			t.first[b.Cid()] = arrival{t.step, now}
		}
	}
	for _, e := range ws {
		if !e.Cancel {
			if t.wants[from] == nil {
				t.wants[from] = map[cid.Cid]time.Time{}
			}
			t.wants[from][e.Cid] = now
		}
	}
	t.mu.Unlock()
}

// wantedAfter: a want for k from peer p arrived after t0
func (t *nodeTracer) wantedAfter(p peer.ID, k cid.Cid, t0 time.Time) bool {
	t.mu.Lock()
	defer t.mu.Unlock()
	at, ok := t.wants[p][k]
	return ok && at.After(t0)
}

func (t *nodeTracer) MessageSent(peer.ID, bsmsg.BitSwapMessage) {}

func (t *nodeTracer) setStep(step int) {
	t.mu.Lock()
	t.step = step
	t.mu.Unlock()
}

func (t *nodeTracer) latest(k cid.Cid) (arrival, bool) {
	t.mu.Lock()
	defer t.mu.Unlock()
	a, ok := t.last[k]
	return a, ok
}

// firstIn: the first arrival of a block with CID k in the given step
func (t *nodeTracer) firstIn(k cid.Cid, step int) (time.Time, bool) {
	t.mu.Lock()
	defer t.mu.Unlock()
	a, ok := t.first[k]
	return a.at, ok && a.step == step
}

func valid(c Case) bool {
	if c.SearchMs < 0 || c.RebroadcastMs < 0 || c.HoldMs < 0 || c.HoldMs > 2000 {
		return false
	}
	if c.Rounds < 0 || c.Rounds > 64 || c.SweepUs < 0 || c.SweepUs > 1000 {
		return false
	}
	for _, ms := range c.GroupMs {
		if ms < 0 || ms > 1000 {
			return false
		}
	}
	if c.Nodes < 2 || c.Nodes > 6 || len(c.Sizes) == 0 || len(c.Place) != len(c.Sizes) || len(c.LateMs) != len(c.Sizes) || len(c.Reqs) == 0 {
		return false
	}
	for _, q := range c.Reqs {
		if q.Node < 0 || q.Node >= c.Nodes || len(q.Keys) == 0 || q.Phase < 0 || q.Phase > maxPhase {
			return false
		}
		if q.Group < 0 || q.Group > len(c.GroupMs) || q.CancelUs < 0 || q.CancelUs > 999 || q.CancelMs < 0 {
			return false
		}
		for _, k := range q.Keys {
			if k < 0 || k >= len(c.Sizes) {
				return false
			}
			for _, h := range c.Place[k] {
				if h == q.Node || h < 0 || h >= c.Nodes {
					return false // a node does not ask the exchange for a block it holds
				}
			}
		}
	}
	return true
}

func attempt(c Case, allowance time.Duration) outcome {
	var o outcome
	o.missingReq = -1
	o.groupCancelled = map[int]bool{}
	var mu sync.Mutex
	setViolation := func(f string, a ...any) {
		mu.Lock()
		if o.violation == "" {
			o.violation = fmt.Sprintf(f, a...)
		}
		mu.Unlock()
	}
	setSuspect := func(f string, a ...any) {
		mu.Lock()
		if o.suspect == "" {
			o.suspect = fmt.Sprintf(f, a...)
		}
		mu.Unlock()
	}

	if devVerbose {
		devEventsMu.Lock()
		devEvents = nil
		devEventsMu.Unlock()
	}
	net := tn.VirtualNetwork(delay.Fixed(time.Duration(c.DelayMs) * time.Millisecond))
	router := mockrouting.NewServer()
	var opts []bitswap.Option
	if c.SearchMs > 0 {
		opts = append(opts, bitswap.ProviderSearchDelay(time.Duration(c.SearchMs)*time.Millisecond))
	}
	if c.RebroadcastMs > 0 {
		opts = append(opts, bitswap.RebroadcastDelay(time.Duration(c.RebroadcastMs)*time.Millisecond))
	}
	// the instances are built as testinstance.InstanceGenerator.Instances builds them, but each
	// node gets its own message tap (bitswap.WithTracer) that records which blocks arrived
	instCtx, instCancel := context.WithCancel(context.Background())
	insts := make([]testinstance.Instance, 0, c.Nodes)
	tracers := make([]*nodeTracer, c.Nodes)
	for n := 0; n < c.Nodes; n++ {
		id, err := p2ptestutil.RandTestBogusIdentity()
		if err != nil {
			panic(err)
		}
		tracers[n] = &nodeTracer{node: n, last: map[cid.Cid]arrival{}, first: map[cid.Cid]arrival{}, wants: map[peer.ID]map[cid.Cid]time.Time{}}
		nopts := append(append([]bitswap.Option(nil), opts...), bitswap.WithTracer(tracers[n]))
		insts = append(insts, testinstance.NewInstance(instCtx, net, router.Client(id), id, nil, nopts))
	}
	testinstance.ConnectInstances(insts)
	defer func() {
		for _, in := range insts {
			in.Exchange.Close()
		}
		instCancel()
	}()
	root, cancelRoot := context.WithCancel(context.Background())
	defer cancelRoot()

	blks := make([]blocks.Block, len(c.Sizes))
	index := map[cid.Cid]int{}
	for i, n := range c.Sizes {
		blks[i] = blockOf(i, n)
		index[blks[i].Cid()] = i
	}
	store := func(i int) {
		for _, h := range c.Place[i] {
			if err := insts[h].Blockstore.Put(root, blks[i]); err != nil {
				panic(err)
			}
			if err := insts[h].Exchange.NotifyNewBlocks(root, blks[i]); err != nil {
				panic(err)
			}
		}
	}
	var bg sync.WaitGroup
	for i := range blks {
		if c.LateMs[i] == 0 {
			store(i)
		}
	}
	for i := range blks {
		if c.LateMs[i] > 0 {
			bg.Add(1)
			go func(i int) {
				defer bg.Done()
				select {
				case <-time.After(time.Duration(c.LateMs[i]) * time.Millisecond):
					store(i)
				case <-root.Done():
				}
			}(i)
		}
	}

	// sessions
	type sessKey struct{ node, slot int }
	sessions := map[sessKey]exchange.Fetcher{}
	sessCancel := []context.CancelFunc{}
	for _, q := range c.Reqs {
		if q.Kind != "session" {
			continue
		}
		k := sessKey{q.Node, q.Sess}
		if sessions[k] == nil {
			sctx, cancel := context.WithCancel(root)
			sessions[k] = insts[q.Node].Exchange.NewSession(sctx)
			sessCancel = append(sessCancel, cancel)
		}
	}

	// outstanding[node][block]: some request of that node asked for the block and ended
	// (cancelled) without having received it
	outstanding := map[int]map[int]bool{}
	// per NewSession session and block: the steps (round * phases + phase) in which a call on that
	// session asked for the block (sessAsked) / ended without it (sessWithout)
	sessAsked := map[sessKey]map[int]map[int]bool{}
	sessWithout := map[sessKey]map[int]map[int]bool{}
	mark := func(m map[sessKey]map[int]map[int]bool, sk sessKey, k, step int) {
		if m[sk] == nil {
			m[sk] = map[int]map[int]bool{}
		}
		if m[sk][k] == nil {
			m[sk][k] = map[int]bool{}
		}
		m[sk][k][step] = true
	}
	curStep := 0
	noteEnd := func(q Req, want, got map[int]bool) {
		mu.Lock()
		defer mu.Unlock()
		if outstanding[q.Node] == nil {
			outstanding[q.Node] = map[int]bool{}
		}
		for k := range want {
			if !got[k] {
				outstanding[q.Node][k] = true
				if q.Kind == "session" {
					mark(sessWithout, sessKey{q.Node, q.Sess}, k, curStep)
				}
			}
		}
	}
	// successiveOnSession: block k was asked for in step `step` by a call on a NewSession session
	// of the node on which a call of the step before ended without it
	successiveOnSession := func(node, k, step int) bool {
		for sk, m := range sessAsked {
			if sk.node == node && m[k][step] && sessWithout[sk][k][step-1] {
				return true
			}
		}
		return false
	}
	start := time.Now()
	issued := map[int]time.Time{} // per request: when it was handed to the exchange (latest round)
	// per request: when the exchange had accepted it (GetBlocks returned: the subscription for its
	// blocks exists from then on; GetBlock: as issued)
	accepted := map[int]time.Time{}
	lastDelivered := map[int]map[int]time.Time{} // per node and block: latest delivery on a request channel
	var missingKeys []int                        // the blocks request o.missingReq did not receive
	lastPhase := 0
	for _, q := range c.Reqs {
		if q.Phase > lastPhase {
			lastPhase = q.Phase
		}
	}
	asked := map[int]map[cid.Cid]int{} // per node: CIDs asked for in the phases run so far
	runReq := func(ri int, q Req, parent context.Context, shift time.Duration) {
		// grouped: the request context is a child of the shared parent context of its cancel group
		grouped := q.Group > 0
		if q.Start > 0 {
			time.Sleep(time.Duration(q.Start) * time.Millisecond)
		}
		want := map[int]bool{}  // distinct requested
		avail := map[int]bool{} // of these, held by some node
		got := map[int]bool{}
		var keys []cid.Cid
		for _, k := range q.Keys {
			want[k] = true
			if len(c.Place[k]) > 0 {
				avail[k] = true
			}
			keys = append(keys, blks[k].Cid())
		}
		ctx, cancel := context.WithCancel(parent)
		defer cancel()
		defer noteEnd(q, want, got)
		mu.Lock()
		issued[ri] = time.Now() // just before the request is handed to the exchange
		accepted[ri] = issued[ri]
		mu.Unlock()
		defer func() {
			if grouped && parent.Err() != nil && len(got) < len(want) {
				mu.Lock()
				o.groupCancelled[ri] = true
				mu.Unlock()
			}
		}()
		check := func(b blocks.Block) bool {
			i, ok := index[b.Cid()]
			if !ok || !want[i] {
				setViolation("request %d (%s on node %d) received block %s which it did not request", ri, q.Kind, q.Node, b.Cid())
				return false
			}
			if got[i] {
				setViolation("request %d (%s on node %d) received block %d twice", ri, q.Kind, q.Node, i)
				return false
			}
			got[i] = true
			mu.Lock()
			if lastDelivered[q.Node] == nil {
				lastDelivered[q.Node] = map[int]time.Time{}
			}
			lastDelivered[q.Node][i] = time.Now()
			mu.Unlock()
			if !kit.Verify(b.Cid(), b.RawData()) || string(b.RawData()) != string(blks[i].RawData()) {
				setViolation("request %d (%s on node %d) received wrong bytes for block %d", ri, q.Kind, q.Node, i)
				return false
			}
			return true
		}

		if q.Kind == "getblock" {
			if q.Cancel >= 0 {
				go func() {
					select {
					case <-time.After(time.Duration(q.CancelMs)*time.Millisecond + time.Duration(q.CancelUs)*time.Microsecond + shift):
						cancel()
					case <-ctx.Done():
					}
				}()
			} else if !avail[q.Keys[0]] && !grouped {
				// nobody has it: give up after a while (this is the "cancel with the want outstanding" path)
				go func() {
					select {
					case <-time.After(30 * time.Millisecond):
						cancel()
					case <-ctx.Done():
					}
				}()
			}
			done := make(chan struct{})
			var b blocks.Block
			var err error
			go func() {
				defer close(done)
				b, err = insts[q.Node].Exchange.GetBlock(ctx, keys[0])
			}()
			select {
			case <-done:
			case <-time.After(allowance):
				if q.Cancel < 0 && avail[q.Keys[0]] && ctx.Err() == nil {
					setSuspect("request %d: GetBlock(%d) on node %d did not return within %v although node(s) %v hold the block", ri, q.Keys[0], q.Node, allowance, c.Place[q.Keys[0]])
					mu.Lock()
					if o.missingReq < 0 {
						o.missingReq = ri
						missingKeys = []int{q.Keys[0]}
					}
					mu.Unlock()
				} else {
					setSuspect("request %d: GetBlock(%d) on node %d did not return within %v after its context was cancelled", ri, q.Keys[0], q.Node, allowance)
				}
				cancel()
				<-done
				return
			}
			if err == nil {
				if b == nil {
					setViolation("request %d: GetBlock returned neither block nor error", ri)
					return
				}
				check(b)
			} else if q.Cancel < 0 && avail[q.Keys[0]] && ctx.Err() == nil {
				setViolation("request %d: GetBlock(%d) on node %d failed with %v although its context is live and node(s) %v hold the block", ri, q.Keys[0], q.Node, err, c.Place[q.Keys[0]])
			} else if !errors.Is(err, context.Canceled) {
				setViolation("request %d: GetBlock(%d) after cancellation returned %v, want context.Canceled", ri, q.Keys[0], err)
			}
			return
		}

		var ch <-chan blocks.Block
		var err error
		if q.Kind == "session" {
			ch, err = sessions[sessKey{q.Node, q.Sess}].GetBlocks(ctx, keys)
		} else {
			ch, err = insts[q.Node].Exchange.GetBlocks(ctx, keys)
		}
		mu.Lock()
		accepted[ri] = time.Now()
		mu.Unlock()
		if err != nil {
			setViolation("request %d: GetBlocks failed: %v", ri, err)
			return
		}
		cancelled := false
		doCancel := func() {
			if !cancelled {
				cancelled = true
				cancel()
			}
		}
		var cancelTimer <-chan time.Time
		if q.Cancel == 0 {
			cancelTimer = time.After(time.Duration(q.CancelMs)*time.Millisecond + time.Duration(q.CancelUs)*time.Microsecond + shift)
		}
		deadline := time.After(allowance)
		n := 0
		for {
			// everything that can arrive has arrived but some keys are held by nobody:
			// the request can only end by cancellation
			// (a member of a cancel group waits for the cancellation of the shared context instead)
			if !cancelled && !grouped && len(got) == len(avail) && len(avail) < len(want) {
				if cancelTimer == nil {
					cancelTimer = time.After(5 * time.Millisecond)
				}
			}
			select {
			case b, ok := <-ch:
				if !ok {
					if !cancelled && ctx.Err() == nil && len(got) < len(want) {
						setViolation("request %d (%s on node %d): channel closed after %d of %d distinct blocks although the context is live", ri, q.Kind, q.Node, len(got), len(want))
					}
					return
				}
				if !check(b) {
					doCancel()
					return
				}
				n++
				if q.Cancel > 0 && n >= q.Cancel {
					doCancel()
				}
			case <-cancelTimer:
				cancelTimer = nil
				doCancel()
			case <-deadline:
				if cancelled || ctx.Err() != nil {
					setSuspect("request %d (%s on node %d): channel not closed %v after the context was cancelled", ri, q.Kind, q.Node, allowance)
				} else {
					var missing []int
					for k := range avail {
						if !got[k] {
							missing = append(missing, k)
						}
					}
					sort.Ints(missing)
					setSuspect("request %d (%s on node %d): blocks %v not delivered within %v although connected nodes hold them", ri, q.Kind, q.Node, missing, allowance)
					mu.Lock()
					if o.missingReq < 0 {
						o.missingReq = ri
						missingKeys = missing
					}
					mu.Unlock()
				}
				doCancel()
				return
			}
		}
	}
	rounds := max(c.Rounds, 1)
	for rp := 0; rp < rounds*(lastPhase+1); rp++ {
		round, phase := rp/(lastPhase+1), rp%(lastPhase+1)
		final := rp == rounds*(lastPhase+1)-1 // nothing starts after this phase
		shift := time.Duration(round*c.SweepUs) * time.Microsecond
		var wg sync.WaitGroup
		for _, tr := range tracers {
			tr.setStep(rp)
		}
		phaseStart := time.Now()
		mu.Lock()
		curStep = rp
		for _, q := range c.Reqs {
			if q.Phase != phase {
				continue
			}
			if asked[q.Node] == nil {
				asked[q.Node] = map[cid.Cid]int{}
			}
			for _, k := range q.Keys {
				if q.Kind == "session" {
					mark(sessAsked, sessKey{q.Node, q.Sess}, k, rp)
				}
				asked[q.Node][blks[k].Cid()] = k
				// "outstanding" describes the latest phase in which the node asked for the block
				delete(outstanding[q.Node], k)
			}
		}
		mu.Unlock()
		// cancel groups of this phase: one shared parent context each, cancelled by the harness
		// GroupMs after the phase started
		groupCtx := map[int]context.Context{0: root}
		var groupStop []func()
		for _, q := range c.Reqs {
			if q.Phase != phase || q.Group == 0 || groupCtx[q.Group] != nil {
				continue
			}
			gctx, gcancel := context.WithCancel(root)
			groupCtx[q.Group] = gctx
			tm := time.AfterFunc(time.Duration(c.GroupMs[q.Group-1])*time.Millisecond+shift, gcancel)
			groupStop = append(groupStop, func() { tm.Stop(); gcancel() })
		}
		for ri, q := range c.Reqs {
			if q.Phase != phase {
				continue
			}
			wg.Add(1)
			go func(ri int, q Req) {
				defer wg.Done()
				runReq(ri, q, groupCtx[q.Group], shift)
			}(ri, q)
		}
		wg.Wait()
		for _, stop := range groupStop {
			stop()
		}
		mu.Lock()
		bad := o.violation != "" || o.suspect != ""
		if o.missingReq >= 0 {
			// a delivery is missing: does it have the shape of an open finding? (see missingShape)
			ri := o.missingReq
			node := c.Reqs[ri].Node
			var note string
			successive := func(k int) bool {
				q := c.Reqs[ri]
				return q.Kind == "session" && sessWithout[sessKey{q.Node, q.Sess}][k][rp-1]
			}
			o.missingKnown, note = missingShape(c, ri, missingKeys, o.groupCancelled, successive, func(k int) (bool, string) {
				a, ok := tracers[node].latest(blks[k].Cid())
				arrived := ok && a.step == rp
				asked := false
				for _, h := range c.Place[k] {
					asked = asked || tracers[h].wantedAfter(insts[node].Identity.ID(), blks[k].Cid(), issued[ri])
				}
				// published to another request while ri was subscribed for certain: another request
				// of the node received the block in this step and no block with this CID had arrived
				// in this step before the exchange accepted ri
				f, ok := tracers[node].firstIn(blks[k].Cid(), rp)
				other := ok && f.After(accepted[ri]) && lastDelivered[node][k].After(phaseStart)
				return arrived && !asked && !other, fmt.Sprintf("block %d: arrived at node %d in this step: %v; a holder received a want for it from node %d after the request was issued: %v; delivered to another request of the node although it first arrived after the exchange had accepted the request: %v", k, node, arrived, node, asked, other)
			})
			o.suspect += " (" + note + ")"
			if devVerbose {
				devEventsMu.Lock()
				fmt.Fprintf(os.Stderr, "c37: missing delivery: %s\n", o.suspect)
				for n, in := range insts {
					fmt.Fprintf(os.Stderr, "  node %d = %s\n", n, in.Identity.ID().String()[len(in.Identity.ID().String())-4:])
				}
				for i, b := range blks {
					fmt.Fprintf(os.Stderr, "  block %d = %s\n", i, b.Cid().String()[len(b.Cid().String())-5:])
				}
				for r, at := range issued {
					fmt.Fprintf(os.Stderr, "  request %d issued %s accepted %s\n", r, at.Format("05.000000"), accepted[r].Format("05.000000"))
				}
				for _, ev := range devEvents {
					fmt.Fprintln(os.Stderr, "  "+ev)
				}
				devEventsMu.Unlock()
			}
		}
		mu.Unlock()
		if bad {
			break
		}

		// want-list cleanup: all requests so far are over, so none of their CIDs may stay on the
		// requester's want-list. "GetWantlist returns the current local wantlist (both want-blocks
		// and want-haves)", GetWantBlocks / GetWantHaves return the two parts: a CID reported by any
		// of the three is still on the want-list. GetWantlist is sampled last, so a want seen only
		// by one of the other two either was retracted in between or the views disagree.
		var inBlocks map[int]bool // of the node lingering() reports: CIDs GetWantBlocks() listed
		lingering := func() (int, []int, []int) {
			nodes := make([]int, 0, len(asked))
			for node := range asked {
				nodes = append(nodes, node)
			}
			sort.Ints(nodes)
			for _, node := range nodes {
				m := asked[node]
				part := map[int]bool{}
				inBlocks = map[int]bool{}
				if !devWantlistOnly {
					for _, k := range insts[node].Exchange.GetWantBlocks() {
						if i, ok := m[k]; ok {
							part[i] = true
							inBlocks[i] = true
						}
					}
					for _, k := range insts[node].Exchange.GetWantHaves() {
						if i, ok := m[k]; ok {
							part[i] = true
						}
					}
				}
				whole := map[int]bool{}
				for _, k := range insts[node].Exchange.GetWantlist() {
					if i, ok := m[k]; ok {
						whole[i] = true
					}
				}
				var l, notInWhole []int
				for i := range part {
					if !whole[i] {
						notInWhole = append(notInWhole, i)
						l = append(l, i)
					}
				}
				for i := range whole {
					l = append(l, i)
				}
				if len(l) > 0 {
					sort.Ints(l)
					sort.Ints(notInWhole)
					return node, l, notInWhole
				}
			}
			return -1, nil, nil
		}
		cleanup := allowance
		if cleanup > cleanupFirst && allowance == firstAllowance {
			cleanup = cleanupFirst // local bookkeeping only; the confirmation run uses the long allowance
		}
		until := time.Now().Add(cleanup)
		clean := 0
		hold := time.Duration(c.HoldMs) * time.Millisecond
		if round < rounds-1 {
			hold = 0
		}
		if allowance != firstAllowance {
			hold *= 5 // confirmation run: timers may fire late on a busy machine
		}
		held := time.Duration(0)
		for {
			node, l, notInWhole := lingering()
			if node < 0 {
				if hold > 0 && held == 0 {
					// seen clean once: every request is over, the sessions stay open. Let the session
					// timers (idle tick, periodic search) fire, then the list has to be clean again
					// (a want that comes back and goes away again during the hold is not judged).
					time.Sleep(hold)
					held = hold
					until = time.Now().Add(cleanup)
					clean = 0
					continue
				}
				// before a further phase starts the list has to be seen clean three times in a row
				// (work left over from the ended requests should not run into the next phase)
				clean++
				if final || clean >= 3 {
					break
				}
				time.Sleep(2 * time.Millisecond)
				continue
			}
			clean = 0
			if time.Now().After(until) {
				var deliv, outst []int
				for _, k := range l {
					if outstanding[node][k] {
						outst = append(outst, k)
					} else {
						deliv = append(deliv, k)
					}
				}
				where := "reported by GetWantlist()"
				if len(notInWhole) > 0 {
					where = fmt.Sprintf("blocks %v reported by GetWantBlocks()/GetWantHaves() only, not by GetWantlist()", notInWhole)
				}
				if held > 0 {
					where += fmt.Sprintf("; the list had been seen clean, then the sessions were kept open for %v (ProviderSearchDelay %d ms, RebroadcastDelay %d ms; 0 = default) and the CIDs were on the list again", held, c.SearchMs, c.RebroadcastMs)
				}
				// Does every lingering CID have the observable shape of an open finding (see the
				// comment on the keys)?  (a) keyLateWant: a block with this CID arrived at the node in
				// this step or the one before, i.e. a session can have handled the block (which
				// retracts the want) while its want sender was still about to send a want for it;
				// (b) keySameSession: the CID was asked for by two calls on one NewSession session, in
				// one phase or in this step and the one before, and a request ended without it, i.e.
				// the first call's cancel withdrew the session's interest while the other call's want
				// stayed live (the want sender handles a cancel some time after the call ended: a
				// clean want-list does not tell that it has).
				lateOpen, overlapOpen := kit.OpenFinding("C37", keyLateWant), kit.OpenFinding("C37", keySameSession)
				explained, allLate := len(notInWhole) == 0, true
				var arrived, shared, onlyB []int // onlyB: explained by (b) alone
				for _, k := range l {
					a, ok := tracers[node].latest(blks[k].Cid())
					late := ok && a.step >= rp-1
					overlap := outstanding[node][k] && (sharedOnSession(c, node, k) || successiveOnSession(node, k, rp))
					if late {
						arrived = append(arrived, k)
					}
					if overlap {
						shared = append(shared, k)
					}
					late, overlap = late && lateOpen, overlap && overlapOpen
					explained = explained && (late || overlap)
					allLate = allLate && late
					if !late && overlap {
						onlyB = append(onlyB, k)
					}
				}
				// (a) leaves either an entry nobody owns (a want handed over after the cancel) or one
				// a session still owns (the session recorded the call's want after the block had
				// reached the call through another session's fetch): a probe cannot be asked for.
				// (b) always leaves an entry nobody owns: that is probed.
				needProbe := explained && !allLate
				var asBlock []int
				for _, k := range l {
					if inBlocks[k] {
						asBlock = append(asBlock, k)
					}
				}
				where += fmt.Sprintf("; listed by GetWantBlocks(): %v", asBlock)
				where += fmt.Sprintf("; a block arrived at the node in this step or the one before: %v; asked for by two calls on one session (in one phase, or in this step and the one before) and outstanding: %v", arrived, shared)
				// Both findings leave an entry that no session owns. Probe that with the public API:
				// ask for the lingering CIDs once more through a throw-away request
				// (Exchange.GetBlocks) and cancel it. When that request's session shuts down, the
				// exchange retracts every CID no session is interested in any more. A CID that is
				// still listed then belongs to a session that is still interested in it (e.g. one
				// that lost the cancel); a CID that leaves the list but is back after the sessions'
				// timers have fired again is a live want of a session that keeps re-broadcasting it.
				// Only an entry that the probe clears for good is a stale entry nobody owns. The
				// probe is itself a request that can meet the finding keyLateWant (its blocks may
				// arrive), so it is tried up to three times: a session that is still interested or
				// keeps re-listing survives all of them.
				ownerless := false
				if needProbe {
					after := min(cleanup, afterProbeConfirm)
					if allowance == firstAllowance {
						after = min(cleanup, afterProbeFirst)
					}
					inL := map[int]bool{}
					var pk []cid.Cid
					for _, k := range onlyB {
						inL[k] = true
						pk = append(pk, blks[k].Cid())
					}
					listed := func() bool {
						lists := [][]cid.Cid{insts[node].Exchange.GetWantlist()}
						if !devWantlistOnly {
							lists = append(lists, insts[node].Exchange.GetWantBlocks(), insts[node].Exchange.GetWantHaves())
						}
						for _, ks := range lists {
							for _, k := range ks {
								if i, ok := asked[node][k]; ok && inL[i] {
									return true
								}
							}
						}
						return false
					}
					for try := 1; try <= probeAttempts && !ownerless; try++ {
						pctx, pcancel := context.WithCancel(root)
						pch, perr := insts[node].Exchange.GetBlocks(pctx, pk)
						if perr != nil {
							pcancel()
							where += fmt.Sprintf("; probe request failed: %v", perr)
							break
						}
						pdone := make(chan struct{})
						go func() {
							defer close(pdone)
							for range pch {
							}
						}()
						select {
						case <-pdone: // all of them arrived meanwhile
						case <-time.After(5 * time.Millisecond):
						}
						pcancel()
						<-pdone
						end := time.Now().Add(after)
						cleared := false
						for {
							if !listed() {
								cleared = true
								break
							}
							if time.Now().After(end) {
								break
							}
							time.Sleep(2 * time.Millisecond)
						}
						switch {
						case !cleared:
							where += fmt.Sprintf("; probe %d: blocks %v still listed %v after a throw-away request for these CIDs was cancelled: a session is still interested in them", try, onlyB, after)
						case c.SearchMs > 0 || c.RebroadcastMs > 0:
							// let the session timers fire again (at least two periods)
							rehold := time.Duration(2*max(c.SearchMs, c.RebroadcastMs)+10) * time.Millisecond
							if allowance != firstAllowance {
								rehold *= 5
							}
							time.Sleep(rehold)
							if listed() {
								where += fmt.Sprintf("; probe %d: a throw-away request for these CIDs, cancelled again, cleared them, but %v later (session timers: ProviderSearchDelay %d ms, RebroadcastDelay %d ms) they were listed again: a session keeps re-broadcasting them", try, rehold, c.SearchMs, c.RebroadcastMs)
							} else {
								ownerless = true
								where += fmt.Sprintf("; probe %d: a throw-away request for these CIDs, cancelled again, cleared them and they stayed off the list for %v (session timers: ProviderSearchDelay %d ms, RebroadcastDelay %d ms): a stale entry", try, rehold, c.SearchMs, c.RebroadcastMs)
							}
						default:
							ownerless = true
							where += fmt.Sprintf("; probe %d: a throw-away request for these CIDs, cancelled again, cleared them: a stale entry", try)
						}
					}
				}
				if devVerbose {
					devEventsMu.Lock()
					fmt.Fprintf(os.Stderr, "c37: lingering want on node %d, blocks %v: %s\n", node, l, where)
					for n, in := range insts {
						fmt.Fprintf(os.Stderr, "  node %d = %s\n", n, in.Identity.ID().String()[len(in.Identity.ID().String())-4:])
					}
					for i, b := range blks {
						fmt.Fprintf(os.Stderr, "  block %d = %s\n", i, b.Cid().String()[len(b.Cid().String())-5:])
					}
					for r, at := range issued {
						fmt.Fprintf(os.Stderr, "  request %d issued %s accepted %s\n", r, at.Format("05.000000"), accepted[r].Format("05.000000"))
					}
					for _, ev := range devEvents {
						fmt.Fprintln(os.Stderr, "  "+ev)
					}
					devEventsMu.Unlock()
				}
				setSuspect("want-list of node %d still holds blocks %v %v after all its requests (round %d, phases 0..%d) completed or were cancelled (%s; delivered to every asker: %v; outstanding at a cancellation: %v)", node, l, cleanup, round, phase, where, deliv, outst)
				mu.Lock()
				switch {
				case explained && allLate:
					o.lingerKnown = keyLateWant
				case explained && ownerless:
					o.lingerKnown = keySameSession
				}
				mu.Unlock()
				break
			}
			time.Sleep(2 * time.Millisecond)
		}
		mu.Lock()
		bad = o.suspect != ""
		mu.Unlock()
		if bad {
			break
		}
	}
	for _, cancel := range sessCancel {
		cancel()
	}
	cancelRoot()
	bg.Wait()

	// classes / non-trivial rule
	overlap, repeat, repeatBig := false, false, false
	for i := range c.Reqs {
		for j := i + 1; j < len(c.Reqs); j++ {
			if c.Reqs[i].Node != c.Reqs[j].Node {
				continue
			}
			if c.Reqs[i].Phase != c.Reqs[j].Phase {
				// the same node asks again for a CID after its earlier request ended
				a := map[int]bool{}
				for _, k := range c.Reqs[i].Keys {
					a[k] = true
				}
				for _, k := range c.Reqs[j].Keys {
					if a[k] {
						repeat = true
						if c.Sizes[k] > 1024 && len(c.Place[k]) > 0 {
							repeatBig = true
						}
					}
				}
				continue
			}
			a := map[int]bool{}
			for _, k := range c.Reqs[i].Keys {
				a[k] = true
			}
			for _, k := range c.Reqs[j].Keys {
				if a[k] {
					overlap = true
				}
			}
		}
	}
	cancelOutstanding := false
	for _, q := range c.Reqs {
		d := map[int]bool{}
		un := false
		for _, k := range q.Keys {
			d[k] = true
			if len(c.Place[k]) == 0 {
				un = true
			}
		}
		if q.Group > 0 {
			// cancelled with the group before a late block is stored
			for _, k := range q.Keys {
				if q.Phase == 0 && c.LateMs[k] > c.GroupMs[q.Group-1]+q.Start {
					un = true
				}
			}
		}
		if (q.Cancel >= 0 && q.Cancel < len(d)) || un {
			cancelOutstanding = true
		}
		o.classes = append(o.classes, "kind:"+q.Kind)
	}
	o.classes = append(o.classes, groupClasses(c)...)
	if overlap {
		o.classes = append(o.classes, "overlapping-requests")
	}
	if repeat {
		o.classes = append(o.classes, "same-cid-requested-again-after-completion")
	}
	if repeatBig {
		o.classes = append(o.classes, "same-cid-requested-again-after-completion:>1KiB")
	}
	if lastPhase > 0 {
		o.classes = append(o.classes, "two-phases")
	}
	if c.Rounds > 1 {
		o.classes = append(o.classes, "repeated-rounds")
		if c.Rounds >= 16 && c.SweepUs > 0 {
			for _, q := range c.Reqs {
				big := false
				for _, k := range q.Keys {
					big = big || (c.Sizes[k] > 1024 && len(c.Place[k]) > 0)
				}
				if q.Cancel == 0 && big && q.CancelMs >= 2*c.DelayMs && q.CancelMs <= 2*c.DelayMs+3 {
					o.classes = append(o.classes, "cancel-point-swept-over-the-round-trip(>1KiB-blocks)", "cancel-point-swept-over-the-round-trip(>1KiB-blocks):"+q.Kind)
				}
			}
		}
	}
	if c.SearchMs > 0 || c.RebroadcastMs > 0 {
		o.classes = append(o.classes, "short-session-timers")
	}
	if c.HoldMs > 0 {
		o.classes = append(o.classes, "sessions-held-open-after-cleanup")
		for _, q := range c.Reqs {
			d := map[int]bool{}
			un := false
			for _, k := range q.Keys {
				d[k] = true
				un = un || len(c.Place[k]) == 0
			}
			if q.Kind == "session" && ((q.Cancel >= 0 && q.Cancel < len(d)) || un) {
				o.classes = append(o.classes, "sessions-held-open-after-cleanup:session-request-cancelled-with-wants-outstanding")
				break
			}
		}
	}
	for _, q := range c.Reqs {
		big := false
		for _, k := range q.Keys {
			if c.Sizes[k] > 1024 && len(c.Place[k]) > 0 {
				big = true
			}
		}
		if big {
			o.classes = append(o.classes, "requested-block>1KiB(HAVE-then-want-block)")
			break
		}
	}
	if cancelOutstanding {
		o.classes = append(o.classes, "cancel-with-wants-outstanding")
	}
	o.classes = append(o.classes, fmt.Sprintf("nodes:%d", c.Nodes), fmt.Sprintf("delay:%dms", c.DelayMs))
	if time.Since(start) > 2*time.Second {
		o.classes = append(o.classes, "slow(>2s)")
	}
	o.nt = overlap || cancelOutstanding || repeat
	return o
}

// groupClasses labels the cancel groups of a case: requests of one phase under one shared
// parent context.
func groupClasses(c Case) []string {
	var o struct{ classes []string }
	type gk struct{ phase, group int }
	members := map[gk][]Req{}
	for _, q := range c.Reqs {
		if q.Group > 0 {
			members[gk{q.Phase, q.Group}] = append(members[gk{q.Phase, q.Group}], q)
		}
	}
	for _, ms := range members {
		if len(ms) < 2 {
			continue
		}
		o.classes = append(o.classes, "shared-parent-context-cancelled")
		// members on one long-lived session with pairwise disjoint key sets that are cancelled
		// with wants outstanding (a key nobody holds, or stored after the cancellation)
		per := map[[2]int]int{}
		seen := map[int]int{}
		disjoint := true
		for i, q := range ms {
			pending := false
			for _, k := range q.Keys {
				if j, ok := seen[k]; ok && j != i {
					disjoint = false
				}
				seen[k] = i
				if len(c.Place[k]) == 0 || (q.Phase == 0 && c.LateMs[k] > c.GroupMs[q.Group-1]+q.Start) {
					pending = true
				}
			}
			if q.Kind == "session" && pending && q.Cancel < 0 {
				per[[2]int{q.Node, q.Sess}]++
			}
		}
		for _, n := range per {
			if n >= 2 && disjoint {
				o.classes = append(o.classes, "shared-parent-context-cancelled:>=2-pending-requests-one-session-disjoint-keys")
			}
			if n >= 3 && disjoint {
				o.classes = append(o.classes, "shared-parent-context-cancelled:>=3-pending-requests-one-session-disjoint-keys")
			}
		}
	}
	return o.classes
}

var (
	firstAllowance   = 12 * time.Second
	cleanupFirst     = 4 * time.Second
	confirmAllowance = 60 * time.Second
	// how long a lingering want is polled after the probe request for it was cancelled
	afterProbeFirst   = 2 * time.Second
	afterProbeConfirm = 10 * time.Second
	confirmAttempts   = 3
	probeAttempts     = 3
)

// development aid (bite tests of the second phase only): poll GetWantlist() alone
var devWantlistOnly = os.Getenv("VERIF_C37_DEV_WANTLIST_ONLY") == "1"

// development aid: print every suspicion that is excluded as a known finding
var devVerbose = os.Getenv("VERIF_C37_VERBOSE") == "1"

func init() {
	// development aid: shorter / longer allowances
	if d, err := time.ParseDuration(os.Getenv("VERIF_C37_FIRST")); err == nil && d > 0 {
		firstAllowance = d
	}
	if d, err := time.ParseDuration(os.Getenv("VERIF_C37_CONFIRM")); err == nil && d > 0 {
		confirmAllowance = d
	}
}

func run(c Case) kit.Result {
	if !valid(c) {
		return kit.Result{}
	}
	if d := os.Getenv("VERIF_C37_DUMPALL"); d != "" { // development aid: list the generated cases
		b, _ := json.Marshal(map[string]any{"property": "C37", "check": "main", "error": "", "case": c})
		os.WriteFile(fmt.Sprintf("%s/case-%d.json", d, time.Now().UnixNano()), b, 0o644)
		return kit.Result{}
	}
	o := attempt(c, firstAllowance)
	if o.violation != "" {
		return kit.Fail("%s", o.violation)
	}
	cls := dedup(o.classes)
	if o.suspect == "" {
		return kit.Result{NonTrivial: o.nt, Classes: cls}
	}
	if d := os.Getenv("VERIF_DEBUG_DIR"); d != "" && devVerbose {
		b, _ := json.Marshal(map[string]any{"property": "C37", "check": "main", "error": o.suspect, "case": c})
		os.WriteFile(fmt.Sprintf("%s/c37-any-%d.json", d, time.Now().UnixNano()), b, 0o644)
	}
	// open known findings with a signature that is visible in the first run: no confirmation
	// run (it would cost up to the long allowance for every such case)
	if k := o.known(); k != "" && kit.OpenFinding("C37", k) {
		return excluded(c, o.suspect, k, cls)
	}
	// timing-dependent suspicion: run the case again on its own with a long allowance
	fmt.Fprintf(os.Stderr, "c37: suspicion (%s); re-running the case alone with %v allowance\n", o.suspect, confirmAllowance)
	if d := os.Getenv("VERIF_DEBUG_DIR"); d != "" {
		b, _ := json.Marshal(map[string]any{"property": "C37", "check": "main", "error": o.suspect, "case": c})
		os.WriteFile(fmt.Sprintf("%s/c37-%d.json", d, time.Now().UnixNano()), b, 0o644)
	}
	// The failures in question depend on the schedule, so a confirmation run may simply not meet
	// the interleaving again. A case with rounds (burst, sweep) exists to reach interleavings a
	// few microseconds wide: it gets up to confirmAttempts confirmation runs, each alone and with
	// the long allowance, and the suspicion is reported only if one of them confirms it. Any other
	// case gets one confirmation run.
	var o2 outcome
	attempts := 1
	if c.Rounds > 1 {
		attempts = confirmAttempts
	}
	for i := 0; i < attempts; i++ {
		o2 = attempt(c, confirmAllowance)
		if o2.violation != "" || o2.suspect != "" {
			break
		}
	}
	if o2.violation != "" {
		return kit.Fail("%s", o2.violation)
	}
	if o2.suspect != "" {
		msg := fmt.Sprintf("%s (confirmed: first run: %s)", o2.suspect, o.suspect)
		if k := o2.known(); k != "" && kit.OpenFinding("C37", k) {
			return excluded(c, msg, k, cls)
		}
		return kit.Fail("%s", msg)
	}
	return kit.Result{Classes: append(cls, "inconclusive:suspicion-not-confirmed")}
}

// The two open findings and the observable states their root causes can produce on the
// unchanged tree (derived from bitswap/client/internal/session/session.go, sessionwantsender.go,
// sessionmanager.go, sessioninterestmanager.go, peermanager/peerwantmanager.go):
//
// keyLateWant. A session runs two goroutines: Session.run and its sessionWantSender. When a
// block arrives, Session.ReceiveFrom queues the update for the want sender and then opReceive
// for the session; Session.handleReceive withdraws the session's interest and - if no other
// session is interested - calls PeerManager.SendCancels at once, on the session goroutine. The
// want sender may at that moment be inside onChange for an earlier change (a HAVE, a new want,
// another block) with the CID still in its want map, and hands a want-block / want-have for it
// to PeerManager.SendWants after the cancel. Nothing retracts that want: the session's interest
// is gone, so neither a later cancel of the request (CancelSessionWants finds no interest and
// sends nothing) nor closing the session (RemoveSession likewise) touches it; only the end of
// some later request for the same CID does. Every other retraction is ordered with the sends
// (a cancelled request is handled by the want sender itself: untrack, then CancelSessionWants,
// then the sends; a session shuts down its want sender before RemoveSession), so the root cause
// needs a block of that CID to have ARRIVED at the node while a session was interested.
// Observable states: the CID is in some peer's want set (as want-block or want-have) and in
// the CID -> peers index, so GetWantlist() reports it together with GetWantBlocks() or
// GetWantHaves(); the request(s) that asked for it may have received it ("delivered") or may
// have been cancelled between the arrival and the hand-over to their channel (the getter
// strikes the CID off its list before it offers the block, so the request's own cancel does
// not name it) or earlier ("outstanding at a cancellation" in the words of this harness); it
// happens on NewSession sessions and on the throw-away sessions of Exchange.GetBlock(s) alike;
// it survives the session; a later request for the CID that ends (the probe) clears it for good.
// While it is there, the peer manager believes the peer was asked and neither broadcasts nor
// sends the CID to that peer again, so a request for the CID issued after the arrival (in the
// same phase) can starve.
// A second way to the same state (a want registered after the block was dealt with): a call
// subscribes to its CIDs before the session loop records its want (getter.AsyncGetBlocks:
// Subscribe, then opWant is queued). If the block arrives through another session's fetch in
// between, the call gets it from the pubsub and ends without naming the CID in its cancel; the
// session, which was not interested when the block arrived, then records the want, lists or
// sends it, and keeps it for as long as it lives (a broadcast want-have is not even sent again,
// the peer manager holds it for already broadcast): here a session still owns the entry, so a
// probe does not clear it. Seen on a busy machine. Both ways need the block to have arrived at
// the node in the step in question.
//
// keySameSession. Interest is recorded per session, not per call: when one of two calls on a
// session that share a key ends without the block, CancelSessionWants withdraws the session's
// interest in the key and cancels it, although the other call's want is still (or again)
// tracked by the session and its want sender. The other call can be concurrent or a later one:
// the cancel is executed by the want sender's goroutine (Session.run only queues it), some time
// after the call's channel was closed, and a want-list that is clean does not tell that it has
// been (the wants of the call may never have been sent); a call on the same session for the
// same key issued in between records its interest at once (Session.run) and loses it to the
// earlier call's cancel. Seen on a busy machine with bursts repeated in rounds. (1) The other call never gets the block (an
// arriving block nobody is interested in is dropped): missing delivery. (2) Wants for the key
// that the session sends or re-broadcasts afterwards (want sender, idle tick, periodic search)
// are never retracted, because the other call's cancel finds no interest: the key stays listed
// as a broadcast want-have or in a peer's want set, reported by GetWantlist(); both calls ended
// without the block; only a NewSession session (two calls on one session); the entry survives
// the session; the probe clears it for good.
const (
	keySameSession = "same-session-overlap-cancel-starves"
	keyLateWant    = "want-relisted-after-delivery"
	// fixed in boxo 91a250c (Session.run filters opBroadcast by FilterWanted): a long-lived
	// session broadcast want-haves for cancelled CIDs its want sender had reported as exhausted.
	// No exclusion any more; the repro case of the finding still runs with every check.
	keyRebroadcast = "cancelled-want-rebroadcast"
)

// known: the open finding whose observable shape the suspicion has, or "".
func (o outcome) known() string {
	if o.missingReq >= 0 {
		return o.missingKnown
	}
	return o.lingerKnown
}

// excluded builds the result for a suspicion that has the shape of the open finding key. The
// repro case of a finding that is fixed must fail only if that finding returns (kit.RunFindings
// reports any failure of such a case), not when it happens to meet another, open finding: such
// a run of it counts as passed.
func excluded(c Case, msg, key string, cls []string) kit.Result {
	cj, _ := json.Marshal(c)
	if devVerbose {
		fmt.Fprintf(os.Stderr, "c37: excluded as %s: %s\n", key, msg)
	}
	for _, f := range kit.Findings() {
		if f.Property != "C37" || f.Status == "open" || len(f.Case) == 0 {
			continue
		}
		var fc Case
		if json.Unmarshal(f.Case, &fc) == nil {
			if fj, _ := json.Marshal(fc); string(fj) == string(cj) {
				fmt.Fprintf(os.Stderr, "c37: the repro case of the fixed finding %s met the open finding %s: %s\n", f.Key, key, msg)
				return kit.Result{Classes: append(cls, "repro-of-fixed-finding-met-open-finding:"+key)}
			}
		}
	}
	return kit.Result{Err: errors.New(msg), Known: key}
}

// sharedOnSession: block k is asked for by two calls of one phase on one NewSession session of
// the node (the domain of the finding keySameSession).
func sharedOnSession(c Case, node, k int) bool {
	has := func(q Req) bool {
		for _, x := range q.Keys {
			if x == k {
				return true
			}
		}
		return false
	}
	for i, q := range c.Reqs {
		if q.Kind != "session" || q.Node != node || !has(q) {
			continue
		}
		for _, r := range c.Reqs[i+1:] {
			if r.Kind == "session" && r.Node == node && r.Sess == q.Sess && r.Phase == q.Phase && has(r) {
				return true
			}
		}
	}
	return false
}

// missingShape: request ri did not receive the blocks `missing` that connected nodes hold. The
// open finding whose shape that has, or "". Every missing block must be explained:
//   - keySameSession: two calls of ri's phase on one NewSession session of ri's node ask for
//     the block and one of them ends by cancellation (own cancel point, keys nobody holds, or -
//     as observed in the run - cut short by the cancellation of its cancel group): the session
//     dropped its interest in the block, which starves the other call, and every other request
//     of that node for the block as well (the stale want makes the peer manager skip the holder).
//     Or (successive): ri is a call on a NewSession session on which a call of the step before
//     ended without the block: that call's cancel, handled late by the session's want sender,
//     withdrew the interest ri had recorded.
//   - keyLateWant (stale): a block with that CID arrived at the node in this step, so an earlier
//     request (or nobody) took it and a want handed to the peer manager after that can still be
//     recorded for the holder; then ri's wants for the block are not sent to that peer: no
//     holder of the block received a want for it from ri's node after ri was issued (message tap
//     of the holders). And no other request of the node received the block after the exchange
//     had accepted ri (from then on ri's subscription exists: a block published to another
//     request then has to reach ri too - that would be a different defect).
func missingShape(c Case, ri int, missing []int, groupCancelled map[int]bool, successive func(k int) bool, stale func(k int) (bool, string)) (string, string) {
	if len(missing) == 0 {
		return "", ""
	}
	key, note := keyLateWant, ""
	for _, k := range missing {
		st, n := stale(k)
		if note != "" {
			note += "; "
		}
		note += n
		switch {
		case key == "":
		case st:
		case sameSessionOverlapCancelled(c, ri, k, groupCancelled) || successive(k):
			key = keySameSession
		default:
			key = ""
		}
	}
	return key, note
}

// sameSessionOverlapCancelled: two session calls on request ri's node, in ri's phase and on one
// session both ask for block k, and one of them ends by cancellation (own cancel point, keys
// nobody holds, or - as observed in the run - cut short by the cancellation of the shared
// context of its cancel group). ri itself may be one of the two or a third request.
func sameSessionOverlapCancelled(c Case, ri, k int, groupCancelled map[int]bool) bool {
	q := c.Reqs[ri]
	has := func(r Req) bool {
		for _, x := range r.Keys {
			if x == k {
				return true
			}
		}
		return false
	}
	cancels := func(j int) bool {
		r := c.Reqs[j]
		if r.Cancel >= 0 || groupCancelled[j] {
			return true
		}
		for _, x := range r.Keys {
			if len(c.Place[x]) == 0 {
				return true
			}
		}
		return false
	}
	for i, a := range c.Reqs {
		if a.Kind != "session" || a.Node != q.Node || a.Phase != q.Phase || !has(a) {
			continue
		}
		for j := i + 1; j < len(c.Reqs); j++ {
			b := c.Reqs[j]
			if b.Kind == "session" && b.Node == q.Node && b.Phase == q.Phase && b.Sess == a.Sess && has(b) && (cancels(i) || cancels(j)) {
				return true
			}
		}
	}
	return false
}

func dedup(in []string) []string {
	m := map[string]bool{}
	var out []string
	for _, s := range in {
		if !m[s] {
			m[s] = true
			out = append(out, s)
		}
	}
	sort.Strings(out)
	return out
}

var spec = kit.Spec[Case]{
	Prop: "C37", Name: "main",
	Rule:  "2-6 in-memory bitswap nodes on a VirtualNetwork (latency 0-3 ms), random block placement (some blocks held by nobody, some stored late), 1-3 concurrent requests (GetBlock, GetBlocks with duplicate keys, session GetBlocks, shared sessions, overlapping key sets, start delays), cancellation after a generated number of received blocks / delay; block sizes on both sides of the 1 KiB HAVE/block boundary; in half of the cases a second phase of 1-2 requests that starts after all earlier requests ended, mostly for CIDs the node asked for before; in half of the cases short session timers on every node (ProviderSearchDelay 5-30 ms, RebroadcastDelay 10-25 ms) and, if the case uses a NewSession session, the sessions held open for > 2 timer periods after the want-list was first seen clean, then polled again; a quarter of all cases are bursts (2-8 requests, thorough 2-12, with disjoint key sets on one long-lived session under one shared context, half of the blocks held by nobody, cancelled together after 0-40 ms, repeated for 1-12 rounds); a sixth of the remaining cases are sweeps (latency 1-3 ms; 1-2 requests, mostly through the throw-away session of GetBlocks/GetBlock, for 4-10 blocks > 1 KiB that most nodes hold, cancelled 2*latency + 0..0.75 ms after the start and again in 16-32 rounds, 50-150 us later each round, 2.4 ms at most); per-channel oracle and want-list cleanup polled after every phase through GetWantlist, GetWantBlocks and GetWantHaves; non-trivial = overlapping concurrent requests on one node, a cancellation with wants still outstanding, or a CID requested again after its earlier request ended",
	Quick: 90, Thorough: 400,
	Gen: gen, Run: run, Journal: true,
}

func TestProp(t *testing.T) {
	// a confirmed liveness / cleanup failure costs up to the long allowance per execution, so
	// keep the minimisation of a failing case short
	flag.Set("rapid.shrinktime", "10s")
	kit.All(t, spec)
}
