// Package c36 checks property C36: the bitswap server's decision engine sends only wanted,
// present, permitted data and bounds its per-peer queues.
//
// The real engine (reached through the verif-tagged bridge bitswap/server/verifbridge) runs
// inside a testing/synctest bubble with one task worker. A generated script of incoming
// want-list messages from 1-3 peers, blockstore additions (+NotifyNewBlocks) / removals,
// take-next-envelope, acknowledgements (MessageSent, then Sent - what server.taskWorker does
// with an envelope; at once with the take, or as separate later steps with incoming messages
// in between, since the server handles those on other goroutines), clock ticks and
// PeerDisconnected is executed step by step; after every step the bubble is brought to
// quiescence (synctest.Wait), so every envelope is built in a known model state.
package c36

import (
	"bytes"
	"context"
	"encoding/json"
	"fmt"
	"os"
	"sort"
	"strings"
	"testing"
	"testing/synctest"
	"time"

	wl "github.com/ipfs/boxo/bitswap/client/wantlist"
	bsmsg "github.com/ipfs/boxo/bitswap/message"
	pb "github.com/ipfs/boxo/bitswap/message/pb"
	vb "github.com/ipfs/boxo/bitswap/server/verifbridge"
	"github.com/ipfs/boxo/blockstore"
	blocks "github.com/ipfs/go-block-format"
	cid "github.com/ipfs/go-cid"
	ds "github.com/ipfs/go-datastore"
	dssync "github.com/ipfs/go-datastore/sync"
	"github.com/libp2p/go-libp2p/core/peer"
	mh "github.com/multiformats/go-multihash"
	"pgregory.net/rapid"
	"verif/kit"
)

func TestMain(m *testing.M) { kit.Main(m) }

// curT is the *testing.T of the running (sub)test; synctest.Test needs one.
var curT *testing.T

// ---------------------------------------------------------------------------
// case

type Cfg struct {
	Limit       int  `json:"limit"`           // maxQueuedWantlistEntriesPerPeer 1..32
	ReplaceSize int  `json:"replace_size"`    // wantHaveReplaceSize (0 = disabled)
	SendDH      bool `json:"send_dont_haves"` // engine option
	Filter      int  `json:"filter"`          // 0 none; k>0: request (peer i, cid j) denied iff (i+j)%k==0
	MaxCidSize  int  `json:"max_cid_size"`    // 0 = no limit
	TargetSize  int  `json:"target_msg_size"` // targetMessageSize
}

type Ent struct {
	Cid    int   `json:"cid"`
	Prio   int32 `json:"prio"`
	Have   bool  `json:"have,omitempty"`
	SendDH bool  `json:"send_dh,omitempty"`
	Cancel bool  `json:"cancel,omitempty"`
}

type Op struct {
	Kind string `json:"kind"` // msg | add | remove | take | ack | disconnect | tick
	Peer int    `json:"peer,omitempty"`
	Full bool   `json:"full,omitempty"`
	Ents []Ent  `json:"ents,omitempty"`
	Cids []int  `json:"cids,omitempty"`
	// take: what the network side does with the envelope this take yields. 0: MessageSent and
	// Sent at once; 1: both later (the envelope has been built by the engine's task worker but
	// the server worker has not yet recorded it - incoming messages are handled on other
	// goroutines and can come in between); 2: MessageSent at once, Sent later (what
	// server.taskWorker does while network.SendMessage is in progress)
	Hold int `json:"hold,omitempty"`
	// ack: advance held envelope number Idx (mod the number held) by one phase (MessageSent,
	// then Sent), or by both when Both
	Idx  int  `json:"idx,omitempty"`
	Both bool `json:"both,omitempty"`
}

type Case struct {
	Cfg    Cfg   `json:"cfg"`
	NPeers int   `json:"npeers"`
	Sizes  []int `json:"sizes"` // block size per pool index (pool size = len)
	Init   []int `json:"init"`  // pool indices present in the blockstore at start
	Ops    []Op  `json:"ops"`
}

// ---------------------------------------------------------------------------
// CID pool: index -> honest block. i%7==5: sha2-512 (68-byte CID, "oversize" when
// MaxCidSize is 50), i%7==6: identity CID, i%5==0: CIDv0, else CIDv1 raw sha2-256.

type poolEnt struct {
	c        cid.Cid
	blk      blocks.Block
	identity bool
}

func poolKind(i int) string {
	switch {
	case i%7 == 5:
		return "sha512"
	case i%7 == 6:
		return "identity"
	case i%5 == 0:
		return "v0"
	}
	return "v1"
}

func buildPool(sizes []int) []poolEnt {
	out := make([]poolEnt, len(sizes))
	for i, n := range sizes {
		data := make([]byte, n)
		for j := range data {
			data[j] = 0xA5
		}
		if n > 0 {
			data[0] = byte(i)
		}
		if n > 1 {
			data[1] = byte(i >> 8)
		}
		var p cid.Prefix
		switch poolKind(i) {
		case "sha512":
			p = cid.Prefix{Version: 1, Codec: cid.Raw, MhType: mh.SHA2_512, MhLength: 64}
		case "identity":
			p = cid.Prefix{Version: 1, Codec: cid.Raw, MhType: mh.IDENTITY, MhLength: -1}
		case "v0":
			p = cid.Prefix{Version: 0, Codec: cid.DagProtobuf, MhType: mh.SHA2_256, MhLength: 32}
		default:
			p = cid.Prefix{Version: 1, Codec: cid.Raw, MhType: mh.SHA2_256, MhLength: 32}
		}
		c, err := p.Sum(data)
		if err != nil {
			panic(err)
		}
		b, err := blocks.NewBlockWithCid(data, c)
		if err != nil {
			panic(err)
		}
		out[i] = poolEnt{c: c, blk: b, identity: poolKind(i) == "identity"}
	}
	return out
}

// ---------------------------------------------------------------------------
// generator

var prios = []int32{1, 1, 3, 5, 5, 7, 9, 0, 2, 1 << 30}

func gen(t *rapid.T) Case {
	var c Case
	c.Cfg.Limit = rapid.SampledFrom([]int{1, 2, 2, 3, 3, 3, 4, 4, 4, 5, 5, 6, 8, 12, 16, 32}).Draw(t, "limit")
	c.Cfg.ReplaceSize = rapid.SampledFrom([]int{0, 8, 8, 1024}).Draw(t, "replace")
	c.Cfg.SendDH = rapid.IntRange(0, 4).Draw(t, "senddh") != 0
	c.Cfg.Filter = rapid.SampledFrom([]int{0, 0, 0, 2, 3, 5}).Draw(t, "filter")
	c.Cfg.MaxCidSize = rapid.SampledFrom([]int{0, 100, 50, 50}).Draw(t, "maxcid")
	c.Cfg.TargetSize = rapid.SampledFrom([]int{1, 1, 30, 16384}).Draw(t, "target")
	c.NPeers = rapid.SampledFrom([]int{1, 1, 2, 2, 3}).Draw(t, "npeers")

	np := 14
	if c.Cfg.Limit > 8 {
		np = c.Cfg.Limit + 7
	}
	c.Sizes = make([]int, np)
	for i := range c.Sizes {
		c.Sizes[i] = rapid.SampledFrom([]int{1, 3, 8, 9, 20, 60}).Draw(t, "size")
	}
	var normal []int
	for i := 0; i < np; i++ {
		if k := poolKind(i); k == "v0" || k == "v1" {
			normal = append(normal, i)
		}
	}
	if rapid.IntRange(0, 9).Draw(t, "emptyblock") == 0 {
		c.Sizes[normal[rapid.IntRange(0, len(normal)-1).Draw(t, "emptyidx")]] = 0
	}
	// initially present blocks: mostly "most of them" so that overflow meets wants with blocks
	pPresent := rapid.SampledFrom([]int{2, 5, 8, 9, 10}).Draw(t, "ppresent")
	for i := 0; i < np; i++ {
		if rapid.IntRange(0, 9).Draw(t, "present") < pPresent {
			c.Init = append(c.Init, i)
		}
	}
	anyCid := func(label string) int {
		// 1 in 8 draws may hit the special (sha512 / identity) indices; the rest are normal
		if rapid.IntRange(0, 7).Draw(t, label+"sp") == 0 {
			return rapid.IntRange(0, np-1).Draw(t, label)
		}
		return normal[rapid.IntRange(0, len(normal)-1).Draw(t, label)]
	}
	nops := rapid.IntRange(1, kit.Scale(30, 45)).Draw(t, "nops")
	fresh := []bool{true, true, true}
	var hot []int // CIDs some peer asked for so far: block churn on these is what matters
	churnCid := func(label string) int {
		if len(hot) > 0 && rapid.IntRange(0, 3).Draw(t, label+"hot") != 0 {
			return hot[rapid.IntRange(0, len(hot)-1).Draw(t, label+"h")]
		}
		return anyCid(label)
	}
	// generator-side copy of the blockstore content (a pure function of Init and the add /
	// remove ops drawn so far), used to aim the directed overflow pattern below
	gstore := map[int]bool{}
	for _, ci := range c.Init {
		gstore[ci] = true
	}
	track := func(op Op) {
		for _, ci := range op.Cids {
			if op.Kind == "add" {
				gstore[ci] = true
			} else if op.Kind == "remove" {
				delete(gstore, ci)
			}
		}
	}
	// burst: the shape the overflow clause of the statement is about, which independent
	// random messages reach only rarely: a message that fills the peer's list to the limit
	// with a chosen number of wants without a local block (made block-less before or after
	// the intake), directly followed by one incremental message of 1..limit newcomers, most
	// of them with a local block and usually more important than the listed wants.
	burst := func() bool {
		L := c.Cfg.Limit
		pi := rapid.IntRange(0, c.NPeers-1).Draw(t, "bpeer")
		var cand []int
		for _, ci := range normal {
			if c.Cfg.Filter > 0 && (pi+ci)%c.Cfg.Filter == 0 {
				continue // denied requests never reach the list
			}
			cand = append(cand, ci)
		}
		if len(cand) < L+1 {
			return false
		}
		perm := rapid.Permutation(cand).Draw(t, "bperm")
		fillC, rest := perm[:L], perm[L:]
		nBl := rapid.SampledFrom([]int{0, 1, 2, 2, 2, 3, 3, L}).Draw(t, "bnbl")
		if nBl > L {
			nBl = L
		}
		kmax := len(rest)
		if kmax > L {
			kmax = L
		}
		k := rapid.IntRange(1, kmax).Draw(t, "bk")
		if rapid.Bool().Draw(t, "bdeep") {
			// more newcomers than block-less listed wants
			if k = nBl + 1 + rapid.IntRange(0, 2).Draw(t, "bextra"); k > kmax {
				k = kmax
			}
		}
		burstC := rest[:k]
		fp := make([]int32, L)
		for j := range fp {
			fp[j] = rapid.SampledFrom(prios).Draw(t, "bfprio")
		}
		if rapid.Bool().Draw(t, "blowfirst") {
			// the block-less wants (first nBl of the fill) are the least important ones
			sort.Slice(fp, func(a, b int) bool { return fp[a] < fp[b] })
		}
		var toAdd, toRemove []int
		for j, ci := range fillC {
			if j < nBl && gstore[ci] {
				toRemove = append(toRemove, ci)
			} else if j >= nBl && !gstore[ci] {
				toAdd = append(toAdd, ci)
			}
		}
		for _, ci := range burstC {
			if !gstore[ci] && rapid.IntRange(0, 3).Draw(t, "bnewblk") != 0 {
				toAdd = append(toAdd, ci)
			}
		}
		ent := func(ci int, prio int32) Ent {
			return Ent{Cid: ci, Prio: prio, Have: rapid.IntRange(0, 2).Draw(t, "bhave") == 0, SendDH: rapid.Bool().Draw(t, "bdh")}
		}
		fill := Op{Kind: "msg", Peer: pi, Full: rapid.Bool().Draw(t, "bfull")}
		for j, ci := range fillC {
			fill.Ents = append(fill.Ents, ent(ci, fp[j]))
			hot = append(hot, ci)
		}
		// message order is independent of importance
		fo := rapid.Permutation(fill.Ents).Draw(t, "bforder")
		fill.Ents = fo
		nm := Op{Kind: "msg", Peer: pi}
		mode := rapid.IntRange(0, 2).Draw(t, "bmode")
		for _, ci := range burstC {
			pr := rapid.SampledFrom(prios).Draw(t, "bnprio")
			if mode != 0 && pr < 1<<20 {
				pr += 10 // above every ordinary listed priority, ties and order among newcomers kept
			}
			nm.Ents = append(nm.Ents, ent(ci, pr))
			hot = append(hot, ci)
		}
		var seq []Op
		if len(toAdd) > 0 {
			seq = append(seq, Op{Kind: "add", Cids: toAdd})
		}
		rmFirst := rapid.Bool().Draw(t, "brmfirst")
		if len(toRemove) > 0 && rmFirst {
			seq = append(seq, Op{Kind: "remove", Cids: toRemove})
		}
		seq = append(seq, fill)
		if len(toRemove) > 0 && !rmFirst {
			seq = append(seq, Op{Kind: "remove", Cids: toRemove})
		}
		seq = append(seq, nm)
		for _, op := range seq {
			track(op)
			c.Ops = append(c.Ops, op)
		}
		fresh[pi] = false
		return true
	}
	holdMode := func(label string) int {
		return rapid.SampledFrom([]int{0, 0, 1, 2}).Draw(t, label)
	}
	// race: the shape in which taking an envelope and acknowledging it are not one atomic
	// step, which independent random ops reach only rarely for one and the same CID: a request
	// for one CID, the answer taken but held back (MessageSent and/or Sent outstanding), then
	// follow-up traffic about that same CID (re-request with the other / the same want type,
	// cancel, block churn, another take) before and after the acknowledgements.
	race := func() bool {
		pi := rapid.IntRange(0, c.NPeers-1).Draw(t, "rpeer")
		var cand []int
		for _, ci := range normal {
			if c.Cfg.Filter > 0 && (pi+ci)%c.Cfg.Filter == 0 {
				continue
			}
			cand = append(cand, ci)
		}
		if len(cand) == 0 {
			return false
		}
		ci := cand[rapid.IntRange(0, len(cand)-1).Draw(t, "rcid")]
		prio := rapid.SampledFrom(prios).Draw(t, "rprio")
		// churn: the block leaves the store while the answer is in flight and comes back
		// (announced) after an acknowledgement, with a re-request in between - the want then
		// has no task of its own and lives on the peer's list alone until the re-announcement
		churn := rapid.IntRange(0, 2).Draw(t, "rchurn") == 0
		var seq []Op
		if !gstore[ci] && (churn || rapid.IntRange(0, 3).Draw(t, "rpresent") != 0) {
			seq = append(seq, Op{Kind: "add", Cids: []int{ci}})
		}
		have := rapid.IntRange(0, 2).Draw(t, "rhave") != 0
		want := func(h bool) Op {
			return Op{Kind: "msg", Peer: pi, Ents: []Ent{{Cid: ci, Prio: prio, Have: h, SendDH: rapid.Bool().Draw(t, "rdh")}}}
		}
		first := want(have)
		first.Full = fresh[pi] && rapid.Bool().Draw(t, "rfull")
		fresh[pi] = false
		hot = append(hot, ci)
		takeFirst := rapid.IntRange(0, 3).Draw(t, "rtakefirst") == 0
		hold := Op{Kind: "take", Hold: rapid.SampledFrom([]int{1, 1, 2}).Draw(t, "rhold")}
		if takeFirst {
			// the worker is already waiting for work when the request arrives
			seq = append(seq, hold, first)
		} else {
			seq = append(seq, first, hold)
		}
		follow := func(label string, wCancel int) {
			n := rapid.IntRange(0, 2).Draw(t, label+"n")
			for j := 0; j < n; j++ {
				switch k := rapid.IntRange(0, 7+wCancel).Draw(t, label); {
				case k < 3:
					seq = append(seq, want(!have)) // the other want type (upgrade / downgrade)
				case k < 4:
					seq = append(seq, want(have))
				case k < 5:
					seq = append(seq, Op{Kind: "remove", Cids: []int{ci}})
				case k < 6:
					seq = append(seq, Op{Kind: "add", Cids: []int{ci}})
				case k < 7:
					seq = append(seq, Op{Kind: "take", Hold: holdMode(label + "hold")})
				case k < 8:
					seq = append(seq, Op{Kind: "tick"})
				default:
					seq = append(seq, Op{Kind: "msg", Peer: pi, Ents: []Ent{{Cid: ci, Cancel: true}}})
				}
			}
		}
		if churn {
			rm := Op{Kind: "remove", Cids: []int{ci}}
			again := want(have)
			if rapid.IntRange(0, 3).Draw(t, "rcother") != 0 {
				again = want(!have)
			}
			switch rapid.IntRange(0, 3).Draw(t, "rcorder") {
			case 0:
				seq = append(seq, again, rm)
			case 1:
				seq = append(seq, rm) // no re-request: the first want itself waits for the block
			default:
				seq = append(seq, rm, again)
			}
			if rapid.IntRange(0, 3).Draw(t, "rcmid") == 0 {
				follow("rmid", 2)
			}
			seq = append(seq, Op{Kind: "ack", Both: rapid.Bool().Draw(t, "rboth")})
			back := Op{Kind: "add", Cids: []int{ci}}
			switch rapid.IntRange(0, 3).Draw(t, "rcback") {
			case 0:
				// back only after every acknowledgement
				seq = append(seq, Op{Kind: "ack", Idx: rapid.IntRange(0, 1).Draw(t, "ridx")}, back)
			case 1:
				seq = append(seq, back, Op{Kind: "take", Hold: holdMode("rchold")},
					Op{Kind: "ack", Idx: rapid.IntRange(0, 1).Draw(t, "ridx")})
			default:
				seq = append(seq, back, Op{Kind: "ack", Idx: rapid.IntRange(0, 1).Draw(t, "ridx")})
			}
			if rapid.IntRange(0, 3).Draw(t, "rcpost") == 0 {
				follow("rpost", 4)
			}
		} else {
			follow("rmid", 2)
			seq = append(seq, Op{Kind: "ack", Both: rapid.Bool().Draw(t, "rboth")})
			follow("rpost", 4)
			seq = append(seq, Op{Kind: "ack", Idx: rapid.IntRange(0, 1).Draw(t, "ridx")})
		}
		for _, op := range seq {
			track(op)
			c.Ops = append(c.Ops, op)
		}
		return true
	}
	for i := 0; i < nops; i++ {
		var op Op
		k := rapid.IntRange(0, 25).Draw(t, "kind")
		if k >= 24 {
			c.Ops = append(c.Ops, Op{Kind: "ack", Idx: rapid.IntRange(0, 2).Draw(t, "ackidx"), Both: rapid.Bool().Draw(t, "ackboth")})
			continue
		}
		if k >= 22 {
			if race() {
				continue
			}
			k = 0
		}
		if k >= 20 {
			if burst() {
				continue
			}
			k = 0 // not enough permitted CIDs for this limit: an ordinary message instead
		}
		switch {
		case k < 11:
			op.Kind = "msg"
			op.Peer = rapid.IntRange(0, c.NPeers-1).Draw(t, "peer")
			// a full want-list is what a client sends first on a connection; later ones are rare
			if fresh[op.Peer] {
				op.Full = rapid.IntRange(0, 1).Draw(t, "full") == 0
			} else {
				op.Full = rapid.IntRange(0, 11).Draw(t, "full") == 0
			}
			fresh[op.Peer] = false
			maxN := c.Cfg.Limit + 3
			n := rapid.IntRange(1, maxN).Draw(t, "nents")
			if rapid.IntRange(0, 2).Draw(t, "short") == 0 {
				n = rapid.IntRange(1, 3).Draw(t, "nshort")
			}
			for j := 0; j < n; j++ {
				e := Ent{Cid: anyCid("cid")}
				e.Prio = rapid.SampledFrom(prios).Draw(t, "prio")
				e.Have = rapid.IntRange(0, 2).Draw(t, "have") == 0
				e.SendDH = rapid.Bool().Draw(t, "dh")
				e.Cancel = rapid.IntRange(0, 6).Draw(t, "cancel") == 0
				op.Ents = append(op.Ents, e)
				if !e.Cancel {
					hot = append(hot, e.Cid)
				}
			}
		case k < 14:
			op.Kind = "take"
			op.Hold = holdMode("hold")
		case k < 16:
			op.Kind = "add"
			n := rapid.IntRange(1, 3).Draw(t, "nadd")
			for j := 0; j < n; j++ {
				op.Cids = append(op.Cids, churnCid("addcid"))
			}
		case k < 18:
			op.Kind = "remove"
			n := rapid.IntRange(1, 2).Draw(t, "nrm")
			for j := 0; j < n; j++ {
				op.Cids = append(op.Cids, churnCid("rmcid"))
			}
		case k < 19:
			op.Kind = "disconnect"
			op.Peer = rapid.IntRange(0, c.NPeers-1).Draw(t, "peer")
			fresh[op.Peer] = true
		default:
			op.Kind = "tick"
		}
		track(op)
		c.Ops = append(c.Ops, op)
	}
	return c
}

// ---------------------------------------------------------------------------
// deterministic-order message: the real message keeps entries in a map, so the order the
// engine sees is arbitrary; the wrapper fixes it to script order (one of the orders the map
// could produce) so that a case replays.

type ordMsg struct {
	bsmsg.BitSwapMessage
	ents []bsmsg.Entry
}

func (m *ordMsg) Wantlist() []bsmsg.Entry { return append([]bsmsg.Entry(nil), m.ents...) }
func (m *ordMsg) FillWantlist(out []bsmsg.Entry) []bsmsg.Entry {
	return append(out[:0], m.ents...)
}

type nopTagger struct{}

func (nopTagger) TagPeer(peer.ID, string, int) {}
func (nopTagger) UntagPeer(peer.ID, string)    {}

// ---------------------------------------------------------------------------
// model

type mwant struct {
	prio       int32
	have       bool // latest requested type is want-have
	everBlock  bool // asked as want-block at some time in this want period
	everHave   bool
	everDH     bool // asked with sendDontHave at some time in this period
	alwaysDH   bool // every request of this period carried sendDontHave
	denied     bool
	sawPresent bool // block was present at some time during this period
	sawAbsent  bool // block was absent at some time during this period
	maybeShed  bool // the task for the latest request/notification may have been dropped by the queue bound
	ansPos     bool // a HAVE went out since the block last became present / the period began
	ansNeg     bool // a DONT_HAVE went out in this period
	seq        int  // number of requests of this period (to tell whether an in-flight answer is older than the latest request)
	// raced: a task for this want was pushed while an envelope for the peer was in flight that
	// may hold an active task for the same CID; the queue skips a pushed task that adds nothing
	// to an active one, the answer in flight then stands for it (not required to be answered again)
	raced bool
}

// heldEnv is an envelope the network side has taken but not yet completely acknowledged.
type heldEnv struct {
	env     *vb.Envelope
	pi      int
	msgSent bool // MessageSent has been called
	blks    []int
	haves   []int
	// the model want each block / HAVE answered, and its request count at build time
	wants map[int]*mwant
	seqs  map[int]int
	// topics that may be active tasks of this envelope (popped with it, not yet TasksDone)
	active map[int]bool
	// topics whose active task of this envelope is known to be a HAVE task (the envelope
	// carries a HAVE for them): the queue does not skip a want-block task pushed meanwhile
	// (taskMerger.HasNewInfo: no active want-block and the new task is one)
	haveTask map[int]bool
}

type harness struct {
	c       Case
	pool    []poolEnt
	idx     map[cid.Cid]int
	peers   []peer.ID
	pidx    map[peer.ID]int
	bs      blockstore.Blockstore
	e       *vb.Engine
	ctx     context.Context
	pending <-chan *vb.Envelope

	store    map[int]bool
	want     []map[int]*mwant
	dropped  []map[int]bool // dropped from the peer's list by a full message (and not re-wanted since)
	deniedDH []map[int]bool // denied request that asked for DONT_HAVE since the peer connected
	// mayPend over-approximates the topics that can have a pending task in the peer's queue.
	// The queue is bounded by the same limit (PushTasksTruncated keeps older tasks and drops
	// new ones, counting re-pushed topics too); a want whose task may have been dropped that
	// way is not required to be answered.
	mayPend []map[int]bool
	// stray: wants of an overflowing message that are not on the list afterwards; the engine
	// may still have queued a task for them (keyEvicted) which nothing but serving it or a
	// disconnect removes, whatever the peer asks later
	stray []map[int]bool
	// ackStale: MessageSent was called for an answer older than the peer's latest request for
	// the CID in a state in which the engine drops the ledger entry of that latest request
	// (keyStaleAck), so that a queued task for the CID can outlive cancels and full want-lists
	// and merge with the tasks of later requests; until the CID is served or the peer disconnects
	ackStale []map[int]bool
	// acc: the wants the engine accepted (listed by WantlistForPeer after the peer's latest
	// message) and has had no reason to drop since: an entry leaves the list through the
	// peer's own messages (cancel, full want-list, overflow eviction), through PeerDisconnected,
	// or through MessageSent for an envelope that answers it (a block answers any entry, a HAVE
	// answers an entry that is a want-have). The liveness clause speaks about these wants,
	// whether or not the engine still lists them at the end.
	acc []map[int]bool

	// envelopes taken and not yet acknowledged by MessageSent and Sent, oldest first
	held     []*heldEnv
	holdMode int // Hold of the take whose envelope is outstanding

	ntOverflow, ntRemoved, ntRace bool
	classes                       map[string]bool
	envelopes                     int
}

func (h *harness) denied(pi, ci int) bool {
	return h.c.Cfg.Filter > 0 && (pi+ci)%h.c.Cfg.Filter == 0
}

func (h *harness) ignored(ci int) bool {
	p := h.pool[ci]
	if p.identity {
		return true
	}
	return h.c.Cfg.MaxCidSize != 0 && p.c.ByteLen() > h.c.Cfg.MaxCidSize
}

// hasBlock: what the engine's size lookup can see (a zero-length block is indistinguishable
// from a missing one for it; see the empty-block clause in onEnvelope).
func (h *harness) present(ci int) bool { return h.store[ci] }

func (h *harness) ledger(pi int) map[int]wl.Entry {
	out := map[int]wl.Entry{}
	for _, e := range h.e.WantlistForPeer(h.peers[pi]) {
		i, ok := h.idx[e.Cid]
		if !ok {
			i = -1
		}
		out[i] = e
	}
	return out
}

type failure struct{ kit.Result }

func (f *failure) with(extra string) *kit.Result {
	f.Err = fmt.Errorf("%v%s", f.Err, extra)
	return &f.Result
}

func failx(known string, format string, a ...any) *failure {
	return &failure{kit.Result{Err: fmt.Errorf(format, a...), Known: known}}
}

func fail(known string, format string, a ...any) *kit.Result {
	return &kit.Result{Err: fmt.Errorf(format, a...), Known: known}
}

const (
	keyOrder = "F14a-overflow-order"
	keyFull  = "F14b-full-not-replacing"
	keyTrunc = "F14c-truncation-by-message-order"
	keyEmpty = "empty-block-treated-as-absent"
	// a newcomer that is first admitted and then evicted again while the same message's
	// overflow is handled keeps its task; a later cancel cannot retract it
	keyEvicted = "F14d-evicted-newcomer-keeps-task"
	// MessageSent for an envelope that was built before the peer's latest request for the CID
	// removes the ledger entry of that latest request (HAVE acknowledged while the entry is a
	// want-have again after an upgrade to want-block, or any acknowledgement arriving after a
	// disconnect and re-request) although a task for it is queued; a later cancel or full
	// want-list then finds no entry and cannot retract the task
	keyStaleAck = "F14e-stale-ack-drops-rerequested-want"
)

// ---------------------------------------------------------------------------
// steps

func (h *harness) doMsg(step int, op Op) *kit.Result {
	pi := op.Peer
	p := h.peers[pi]
	m := bsmsg.New(op.Full)
	var order []cid.Cid
	seen := map[int]bool{}
	for _, e := range op.Ents {
		c := h.pool[e.Cid].c
		if !seen[e.Cid] {
			seen[e.Cid] = true
			order = append(order, c)
		}
		if e.Cancel {
			m.Cancel(c)
		} else {
			t := pb.Message_Wantlist_Block
			if e.Have {
				t = pb.Message_Wantlist_Have
			}
			m.AddEntry(c, e.Prio, t, e.SendDH)
		}
	}
	byCid := map[cid.Cid]bsmsg.Entry{}
	for _, e := range m.Wantlist() {
		byCid[e.Cid] = e
	}
	om := &ordMsg{BitSwapMessage: m}
	for _, c := range order {
		om.ents = append(om.ents, byCid[c])
	}

	before := h.ledger(pi)

	// effective content of the message (what the engine does not ignore)
	wants := map[int]bsmsg.Entry{} // permitted wants
	cancels := map[int]bool{}      // cancels
	var wantOrder []int
	for _, e := range om.ents {
		ci := h.idx[e.Cid]
		if h.ignored(ci) {
			continue
		}
		if e.Cancel {
			cancels[ci] = true
			continue
		}
		if h.denied(pi, ci) {
			continue
		}
		wants[ci] = e
		wantOrder = append(wantOrder, ci)
	}

	// queue bound: can this message's tasks be dropped?
	for ci := range cancels {
		if _, ok := before[ci]; ok {
			delete(h.mayPend[pi], ci) // CancelWant succeeded => task removed
		}
	}
	nTasks := 0
	for _, e := range om.ents {
		if !h.ignored(h.idx[e.Cid]) && !e.Cancel {
			nTasks++
		}
	}
	shed := len(h.mayPend[pi])+nTasks > h.c.Cfg.Limit
	if shed {
		h.classes["queue-bound-may-drop-tasks"] = true
	}

	// model update
	var decs []pushDec
	if op.Full {
		for ci := range h.want[pi] {
			if _, again := wants[ci]; !again {
				if !h.want[pi][ci].denied {
					h.dropped[pi][ci] = true
				}
				delete(h.want[pi], ci)
			}
		}
	}
	for _, e := range om.ents {
		ci := h.idx[e.Cid]
		if h.ignored(ci) {
			continue
		}
		if e.Cancel {
			if h.want[pi][ci] != nil && h.inflight(pi, ci) {
				h.ntRace = true
				h.classes["inflight:cancel"] = true
			}
			delete(h.want[pi], ci)
			delete(h.dropped[pi], ci)
			continue
		}
		den := h.denied(pi, ci)
		w := h.want[pi][ci]
		if w == nil {
			w = &mwant{alwaysDH: true}
			h.want[pi][ci] = w
		}
		delete(h.dropped[pi], ci)
		d := pushDec{ci: ci, have: e.WantType == pb.Message_Wantlist_Have, dh: e.SendDontHave,
			present: h.present(ci), infl: h.inflight(pi, ci), haveTask: h.inflightHaveOnly(pi, ci),
			upgrade: w.seq > 0 && w.have && e.WantType == pb.Message_Wantlist_Block}
		if d.infl {
			h.ntRace = true
			h.classes["inflight:re-request"] = true
			if w.seq > 0 && w.have != d.have {
				h.classes["inflight:want-type-changed"] = true
			}
		}
		decs = append(decs, d)
		w.seq++
		w.prio = e.Priority
		w.have = e.WantType == pb.Message_Wantlist_Have
		if w.have {
			w.everHave = true
		} else {
			w.everBlock = true
		}
		if e.SendDontHave {
			w.everDH = true
			if den {
				h.deniedDH[pi][ci] = true
			}
		} else {
			w.alwaysDH = false
		}
		w.denied = den
		if h.present(ci) {
			w.sawPresent = true
		} else {
			w.sawAbsent = true
		}
		w.maybeShed = shed
		h.mayPend[pi][ci] = true
	}

	if h.e.MessageReceived(h.ctx, p, om) {
		return fail("", "step %d: MessageReceived asked to kill the connection for a well-formed message", step)
	}
	after := h.ledger(pi)
	h.acc[pi] = map[int]bool{}
	for ci := range after {
		h.acc[pi][ci] = true
	}
	for _, d := range decs {
		h.pushed(pi, d, after)
	}

	// full message replaces the list / accepted list is a subset of what the peer asked for
	if r := h.checkSubset(step, pi, after); r != nil {
		return r
	}
	if len(after) > h.c.Cfg.Limit {
		return fail("", "step %d: P1 want-list of peer %d has %d entries, limit %d", step, pi, len(after), h.c.Cfg.Limit)
	}

	// a want of this message that is not on the list afterwards lost its place while the
	// message was handled; the engine may have queued a task for it all the same (keyEvicted)
	for _, ci := range wantOrder {
		if _, ok := after[ci]; !ok {
			h.stray[pi][ci] = true
		}
	}

	// overflow predicates
	E := before
	if op.Full {
		E = map[int]wl.Entry{}
	}
	union := len(E)
	for ci := range wants {
		if _, ok := E[ci]; !ok {
			union++
		}
	}
	if union <= h.c.Cfg.Limit {
		// no overflow: every permitted want must have been accepted (nothing may be rejected
		// while there is room) - only recorded as a class, the statement does not demand it.
		return nil
	}
	h.classes["overflow"] = true
	distinct := map[int32]bool{}
	for _, e := range E {
		distinct[e.Priority] = true
	}
	if len(distinct) >= 2 {
		h.ntOverflow = true
		h.classes["overflow:distinct-prio"] = true
	}
	trunc := len(wants) > h.c.Cfg.Limit
	if trunc {
		h.classes["overflow:msg-longer-than-limit"] = true
	}
	hasBlk := func(ci int) bool { return h.present(ci) && h.c.Sizes[ci] > 0 }
	{
		nbl := 0
		for ci := range E {
			if !hasBlk(ci) {
				nbl++
			}
		}
		if nbl >= 2 {
			h.classes["overflow:blockless>=2"] = true
			if union-h.c.Cfg.Limit > nbl {
				h.classes["overflow:deeper-than-blockless"] = true
			}
		}
	}

	var rejected, admitted []int
	for _, ci := range wantOrder {
		if _, ok := E[ci]; ok {
			continue
		}
		if _, ok := after[ci]; ok {
			admitted = append(admitted, ci)
		} else {
			rejected = append(rejected, ci)
		}
	}
	var surv, evicted []int // pre-existing entries not touched by this message
	for ci := range E {
		if cancels[ci] {
			continue
		}
		if _, re := wants[ci]; re {
			continue
		}
		if _, ok := after[ci]; ok {
			surv = append(surv, ci)
		} else {
			evicted = append(evicted, ci)
		}
	}
	sort.Ints(surv)
	sort.Ints(evicted)
	// survivors that were re-requested in this message count as survivors for P3/P4 (with
	// the priority the engine reports afterwards)
	survAll := append([]int(nil), surv...)
	for ci := range E {
		if _, re := wants[ci]; re && !cancels[ci] {
			if _, ok := after[ci]; ok {
				survAll = append(survAll, ci)
			}
		}
	}
	sort.Ints(survAll)
	maxExisting := int32(-1 << 31)
	for _, ci := range survAll {
		if hasBlk(ci) && after[ci].Priority > maxExisting {
			maxExisting = after[ci].Priority
		}
	}
	for _, ci := range evicted {
		if hasBlk(ci) && E[ci].Priority > maxExisting {
			maxExisting = E[ci].Priority
		}
	}
	for _, ci := range admitted {
		if wants[ci].Priority > maxExisting {
			maxExisting = wants[ci].Priority
		}
	}
	for ci, e := range E {
		if cancels[ci] && e.Priority > maxExisting {
			maxExisting = e.Priority // still listed while the overflow was handled
		}
	}
	dump := func() string {
		f := func(m map[int]wl.Entry) string {
			var ks []int
			for k := range m {
				ks = append(ks, k)
			}
			sort.Ints(ks)
			var out []string
			for _, k := range ks {
				b := "nb"
				if hasBlk(k) {
					b = "b"
				}
				out = append(out, fmt.Sprintf("%d@%d/%s", k, m[k].Priority, b))
			}
			return strings.Join(out, " ")
		}
		var ws []string
		for _, k := range wantOrder {
			b := "nb"
			if hasBlk(k) {
				b = "b"
			}
			ws = append(ws, fmt.Sprintf("%d@%d/%s", k, wants[k].Priority, b))
		}
		var cs []int
		for k := range cancels {
			cs = append(cs, k)
		}
		sort.Ints(cs)
		return fmt.Sprintf(" [before: %s | wants: %s | cancels: %v | after: %s]", f(E), strings.Join(ws, " "), cs, f(after))
	}
	pos := map[int]int{}
	for i, ci := range wantOrder {
		pos[ci] = i
	}
	// known signatures: (a) the reversed eviction order explains the failure; (c) the rejected
	// newcomer sits behind position limit in a message with more wants than the limit (the
	// engine cuts such a message by position, not by priority)
	known := func(explained bool, rejectedCid int) string {
		if rejectedCid >= 0 && trunc && pos[rejectedCid] >= h.c.Cfg.Limit {
			return keyTrunc
		}
		if op.Full && len(before) > 0 {
			// the list should have been empty before a full message; it was not cleared, so
			// the engine ran its overflow logic against the stale entries
			return keyFull
		}
		if explained {
			return keyOrder
		}
		return ""
	}
	// P2, P3, P5 speak about rejected newcomers whose block is present: a newcomer without a
	// local block is itself one of the "wants without local blocks" that go first.
	// A message with more wants than the limit is first cut to the limit, lowest priorities
	// first (godoc of WithMaxQueuedWantlistEntriesPerPeer). A newcomer survives that cut for
	// certain only if it and all wants of at least its priority fit into the limit.
	mayBeCut := func(n int) bool {
		if !trunc {
			return false
		}
		cnt := 0
		for _, ci := range wantOrder {
			if wants[ci].Priority >= wants[n].Priority {
				cnt++
			}
		}
		return cnt > h.c.Cfg.Limit
	}
	for _, n := range rejected {
		if !hasBlk(n) {
			continue
		}
		pn := wants[n].Priority
		if mayBeCut(n) {
			h.classes["overflow:rejected-maybe-cut"] = true
			continue
		}
		h.classes["overflow:rejected-with-block"] = true
		// P2
		for _, ci := range surv {
			if !hasBlk(ci) {
				return failx(known(false, n), "step %d: P2 newcomer %d (block present) of peer %d rejected although existing want %d without a local block survived (limit %d)",
					step, n, pi, ci, h.c.Cfg.Limit).with(dump())
			}
		}
		// P3
		for _, ci := range survAll {
			if hasBlk(ci) && pn > after[ci].Priority {
				return failx(known(pn <= maxExisting, n),
					"step %d: P3 newcomer %d (priority %d) of peer %d rejected while existing want %d with lower priority %d was kept (limit %d)",
					step, n, pn, pi, ci, after[ci].Priority, h.c.Cfg.Limit).with(dump())
			}
		}
		// P5
		for _, m := range admitted {
			if pn > wants[m].Priority {
				return failx(known(pn <= maxExisting, n),
					"step %d: P5 newcomer %d (priority %d) of peer %d rejected while newcomer %d with lower priority %d was admitted (limit %d)",
					step, n, pn, pi, m, wants[m].Priority, h.c.Cfg.Limit).with(dump())
			}
		}
	}
	// P4
	for _, x := range evicted {
		if !hasBlk(x) {
			continue
		}
		for _, y := range survAll {
			if hasBlk(y) && E[x].Priority > after[y].Priority {
				// explained by the reversed order when some admitted newcomer is at least as
				// important as the evicted entry
				expl := false
				for _, m := range admitted {
					if wants[m].Priority >= E[x].Priority {
						expl = true
					}
				}
				return failx(known(expl, -1),
					"step %d: P4 existing want %d (priority %d, block present) of peer %d evicted while want %d with lower priority %d (block present) was kept (limit %d)",
					step, x, E[x].Priority, pi, y, after[y].Priority, h.c.Cfg.Limit).with(dump())
			}
		}
	}
	return nil
}

// pushDec: what is known about one want of an incoming message when it arrives.
type pushDec struct {
	ci       int
	have, dh bool // requested want type is want-have; asks for DONT_HAVE
	present  bool // block in the store at intake
	infl     bool // an envelope that may hold an active task for the CID is in flight
	haveTask bool // ... and every such envelope holds a HAVE task for it
	upgrade  bool // the peer's previous request of this want period was a want-have, this one is a want-block
}

// pushed settles, for a want the engine accepted with the requested type, whether the task
// the engine pushes for it (if any) can be skipped by the task queue because of an active task
// of an envelope in flight (then the answer in flight stands for the want), and what an
// earlier HAVE is worth for it.
func (h *harness) pushed(pi int, d pushDec, after map[int]wl.Entry) {
	w := h.want[pi][d.ci]
	ent, ok := after[d.ci]
	if w == nil || w.denied || !ok {
		return // not accepted: no liveness demand
	}
	if (ent.WantType == pb.Message_Wantlist_Have) != d.have || h.c.Sizes[d.ci] == 0 {
		// the list holds an older request's type (this one was cut from an over-long
		// message), or the engine's view of a zero-length block is involved: stay coarse
		if d.infl {
			w.raced = true
		}
		return
	}
	if d.upgrade && w.ansPos {
		// a HAVE sent for the earlier want-have does not answer the want-block
		w.ansPos = false
		h.classes["upgrade-after-have"] = true
	}
	if !d.present && !(h.c.Cfg.SendDH && d.dh) {
		// no task is pushed for this request: the want waits on the list for NotifyNewBlocks,
		// nothing can be skipped
		if d.infl {
			h.classes["inflight:re-request-no-task"] = true
		}
		return
	}
	wantBlock := !d.have || (d.present && h.c.Cfg.ReplaceSize > 0 && h.c.Sizes[d.ci] <= h.c.Cfg.ReplaceSize)
	w.raced = d.infl && !(wantBlock && d.haveTask)
	if d.infl && !w.raced {
		h.classes["inflight:want-block-over-active-have"] = true
	}
}

// checkSubset: the engine's want-list for the peer only holds CIDs the peer currently wants.
func (h *harness) checkSubset(step, pi int, led map[int]wl.Entry) *kit.Result {
	var extra []int
	allDropped := true
	for ci := range led {
		if ci < 0 {
			return fail("", "step %d: want-list of peer %d holds a CID outside the pool", step, pi)
		}
		if h.ignored(ci) {
			return fail("", "step %d: want-list of peer %d holds ignored (identity/oversize) CID %d", step, pi, ci)
		}
		w := h.want[pi][ci]
		if w == nil || w.denied {
			extra = append(extra, ci)
			if !h.dropped[pi][ci] {
				allDropped = false
			}
		}
	}
	if len(extra) == 0 {
		return nil
	}
	sort.Ints(extra)
	k := ""
	if allDropped {
		k = keyFull
	}
	return fail(k, "step %d: WantlistForPeer(peer %d) holds %v which the peer does not (any longer) want or may not request", step, pi, extra)
}

func (h *harness) invariants(step int) *kit.Result {
	for pi := range h.peers {
		led := h.ledger(pi)
		if r := h.checkSubset(step, pi, led); r != nil {
			return r
		}
		if len(led) > h.c.Cfg.Limit {
			return fail("", "step %d: P1 want-list of peer %d has %d entries, limit %d", step, pi, len(led), h.c.Cfg.Limit)
		}
	}
	return nil
}

// zeroLen: the CID names a zero-length block of the pool (open finding keyEmpty).
func (h *harness) zeroLen(ci int) bool {
	return ci >= 0 && ci < len(h.c.Sizes) && h.c.Sizes[ci] == 0
}

// onEnvelope checks one envelope against the model state at build time and then does what
// server.taskWorker does with it.
func (h *harness) onEnvelope(step int, env *vb.Envelope) *kit.Result {
	h.envelopes++
	pi, ok := h.pidx[env.Peer]
	if !ok {
		return fail("", "step %d: envelope for unknown peer %q", step, env.Peer)
	}
	msg := env.Message
	if len(msg.Wantlist()) != 0 {
		return fail("", "step %d: server envelope carries a want-list", step)
	}
	if msg.Empty() {
		return fail("", "step %d: empty envelope", step)
	}
	// anomalies about a (peer, CID) pair that may have a stray task are that known defect
	anom := func(ci int, format string, a ...any) *kit.Result {
		k := ""
		if h.ackStale[pi][ci] {
			k = keyStaleAck
		} else if h.stray[pi][ci] {
			k = keyEvicted
		} else if h.zeroLen(ci) {
			// the engine's view of a zero-length block is inconsistent (absent at intake,
			// present at NotifyNewBlocks / send time): every anomaly about such a CID has
			// that root cause
			k = keyEmpty
		}
		return fail(k, format, a...)
	}
	unwanted := func(kind string, ci int) *kit.Result {
		k := ""
		if h.ackStale[pi][ci] {
			k = keyStaleAck
		} else if h.stray[pi][ci] {
			k = keyEvicted
		} else if h.dropped[pi][ci] {
			k = keyFull
		} else if h.zeroLen(ci) {
			k = keyEmpty
		}
		return fail(k, "step %d: %s for CID %d sent to peer %d, which does not (any longer) want it", step, kind, ci, pi)
	}
	blks := msg.Blocks()
	sort.Slice(blks, func(i, j int) bool { return h.idx[blks[i].Cid()] < h.idx[blks[j].Cid()] })
	for _, b := range blks {
		ci, ok := h.idx[b.Cid()]
		if !ok {
			return fail("", "step %d: block with CID outside the pool sent", step)
		}
		if h.ignored(ci) {
			return fail("", "step %d: block for ignored (identity/oversize) CID %d sent", step, ci)
		}
		if !h.present(ci) {
			return fail("", "step %d: block %d sent to peer %d but it is not in the blockstore", step, ci, pi)
		}
		if !bytes.Equal(b.RawData(), h.pool[ci].blk.RawData()) {
			return fail("", "step %d: block %d sent with wrong bytes", step, ci)
		}
		if h.denied(pi, ci) {
			return fail("", "step %d: block %d sent to peer %d although the request filter denies it", step, ci, pi)
		}
		w := h.want[pi][ci]
		if w == nil {
			return unwanted("block", ci)
		}
		if !w.everBlock && h.c.Sizes[ci] > h.c.Cfg.ReplaceSize {
			return anom(ci, "step %d: block %d (%d bytes) sent to peer %d which only asked want-have (replace size %d)",
				step, ci, h.c.Sizes[ci], pi, h.c.Cfg.ReplaceSize)
		}
	}
	pres := msg.BlockPresences()
	sort.Slice(pres, func(i, j int) bool { return h.idx[pres[i].Cid] < h.idx[pres[j].Cid] })
	for _, bp := range pres {
		ci, ok := h.idx[bp.Cid]
		if !ok {
			return fail("", "step %d: presence with CID outside the pool sent", step)
		}
		if h.ignored(ci) {
			return fail("", "step %d: presence for ignored (identity/oversize) CID %d sent", step, ci)
		}
		w := h.want[pi][ci]
		switch bp.Type {
		case pb.Message_Have:
			if h.denied(pi, ci) {
				return fail("", "step %d: HAVE %d sent to peer %d although the request filter denies it", step, ci, pi)
			}
			if w == nil {
				return unwanted("HAVE", ci)
			}
			if !h.present(ci) && !w.sawPresent {
				return anom(ci, "step %d: HAVE %d sent to peer %d but the block was never present while it was wanted", step, ci, pi)
			}
			if !w.everHave {
				return anom(ci, "step %d: HAVE %d sent to peer %d which asked want-block only", step, ci, pi)
			}
		case pb.Message_DontHave:
			// a denied request is answered DONT_HAVE when it asked for one; a later cancel
			// does not retract that answer (the engine keeps no record of denied requests)
			deniedAsked := h.denied(pi, ci) && h.deniedDH[pi][ci]
			if w == nil {
				if deniedAsked {
					break
				}
				return unwanted("DONT_HAVE", ci)
			}
			if !w.everDH && !deniedAsked {
				return anom(ci, "step %d: DONT_HAVE %d sent to peer %d which never asked for DONT_HAVE", step, ci, pi)
			}
			if h.present(ci) && !w.denied && !w.sawAbsent {
				if h.c.Sizes[ci] == 0 {
					return fail(keyEmpty, "step %d: DONT_HAVE %d sent to peer %d although the (zero-length) block is in the blockstore", step, ci, pi)
				}
				return anom(ci, "step %d: DONT_HAVE %d sent to peer %d although the block was in the blockstore all the time since the request and is permitted", step, ci, pi)
			}
		default:
			return fail("", "step %d: unknown presence type", step)
		}
	}
	// model at build time: the tasks are popped (no longer pending); which want each answer
	// belongs to. What the answers mean for the peer's list is applied when the network side
	// calls MessageSent (settle), which is when the engine updates its ledger.
	he := &heldEnv{env: env, pi: pi, wants: map[int]*mwant{}, seqs: map[int]int{}, active: map[int]bool{}, haveTask: map[int]bool{}}
	for ci := range h.mayPend[pi] {
		he.active[ci] = true
	}
	for _, bp := range pres {
		if bp.Type == pb.Message_Have {
			he.haveTask[h.idx[bp.Cid]] = true
		}
	}
	for _, b := range blks {
		ci := h.idx[b.Cid()]
		he.blks = append(he.blks, ci)
		he.active[ci] = true
		if w := h.want[pi][ci]; w != nil {
			he.wants[ci], he.seqs[ci] = w, w.seq
		}
		delete(h.mayPend[pi], ci)
		delete(h.stray[pi], ci)
		delete(h.ackStale[pi], ci)
	}
	for _, bp := range pres {
		ci := h.idx[bp.Cid]
		he.active[ci] = true
		delete(h.mayPend[pi], ci)
		delete(h.stray[pi], ci)
		delete(h.ackStale[pi], ci)
		w := h.want[pi][ci]
		if w == nil {
			continue
		}
		if bp.Type == pb.Message_Have {
			he.haves = append(he.haves, ci)
			he.wants[ci], he.seqs[ci] = w, w.seq
			w.ansPos = true
		} else {
			w.ansNeg = true
		}
	}
	h.held = append(h.held, he)
	switch h.holdMode {
	case 1:
		h.classes["hold:messagesent-and-sent-later"] = true
	case 2:
		h.classes["hold:sent-later"] = true
		h.settle(he, false)
	default:
		h.settle(he, true)
	}
	return nil
}

// inflight: an envelope for the peer that the network side has not yet reported Sent may hold
// an active task for the CID.
func (h *harness) inflight(pi, ci int) bool {
	for _, he := range h.held {
		if he.pi == pi && he.active[ci] {
			return true
		}
	}
	return false
}

// inflightHaveOnly: some envelope in flight may hold an active task for the CID and every such
// envelope holds a HAVE task for it.
func (h *harness) inflightHaveOnly(pi, ci int) bool {
	any := false
	for _, he := range h.held {
		if he.pi == pi && he.active[ci] {
			if !he.haveTask[ci] {
				return false
			}
			any = true
		}
	}
	return any
}

// settle does the next thing server.taskWorker does with a taken envelope: MessageSent, then
// Sent (both when both is set), and applies to the model what the answers mean for the peer's
// list (mirrors MessageSent; conservative: an entry is only dropped from the model when the
// engine must drop it too, i.e. when the peer has not asked for the CID again since the answer
// was built - otherwise the model keeps the want, which only widens what may be sent).
func (h *harness) settle(he *heldEnv, both bool) {
	if !he.msgSent {
		he.msgSent = true
		cur := func(ci int) *mwant {
			w := h.want[he.pi][ci]
			if w == nil || w != he.wants[ci] || w.seq != he.seqs[ci] {
				return nil
			}
			return w
		}
		for _, ci := range he.blks {
			if cur(ci) != nil {
				delete(h.want[he.pi], ci)
			} else if h.want[he.pi][ci] != nil {
				h.ackStale[he.pi][ci] = true // a sent block drops the entry whatever its type
				h.classes["ack-older-than-latest-request"] = true
			}
		}
		for _, ci := range he.haves {
			if w := cur(ci); w != nil {
				if w.have && !w.everBlock {
					delete(h.want[he.pi], ci)
				}
			} else if w := h.want[he.pi][ci]; w != nil && w.have {
				h.ackStale[he.pi][ci] = true // a sent HAVE drops the entry if it is a want-have (now)
				h.classes["ack-older-than-latest-request"] = true
			}
		}
		// which accepted wants the acknowledgement lets the engine drop from the peer's list
		led := h.ledger(he.pi)
		for _, b := range he.env.Message.Blocks() {
			delete(h.acc[he.pi], h.idx[b.Cid()])
		}
		for _, bp := range he.env.Message.BlockPresences() {
			if bp.Type != pb.Message_Have {
				continue
			}
			ci := h.idx[bp.Cid]
			ent, listed := led[ci]
			w := h.want[he.pi][ci]
			if listed && ent.WantType == pb.Message_Wantlist_Block && w != nil && !w.have {
				// the peer upgraded the want to a want-block since the HAVE was built: the HAVE
				// does not answer that, the want stays accepted
				if h.acc[he.pi][ci] {
					h.classes["have-acked-after-upgrade"] = true
					if !h.present(ci) {
						h.classes["have-acked-after-upgrade:block-absent"] = true
					}
				}
				continue
			}
			delete(h.acc[he.pi], ci)
		}
		h.e.MessageSent(he.env.Peer, he.env.Message)
		if !both {
			return
		}
	}
	he.env.Sent()
	for i, x := range h.held {
		if x == he {
			h.held = append(h.held[:i:i], h.held[i+1:]...)
			break
		}
	}
}

// poll collects an envelope that is ready on the pending one-time channel.
func (h *harness) poll(step int) (bool, *kit.Result) {
	synctest.Wait()
	if h.pending == nil {
		return false, nil
	}
	select {
	case env, ok := <-h.pending:
		h.pending = nil
		if !ok || env == nil {
			return false, nil
		}
		return true, h.onEnvelope(step, env)
	default:
		return false, nil
	}
}

func (h *harness) take(step int, hold int) (bool, *kit.Result) {
	synctest.Wait()
	if h.pending == nil {
		h.holdMode = hold
		select {
		case ch, ok := <-h.e.Outbox():
			if !ok {
				return false, fail("", "step %d: outbox closed while the engine is running", step)
			}
			h.pending = ch
		case <-time.After(time.Hour): // virtual time; the single task worker must be offering
			return false, &kit.Result{Err: fmt.Errorf("harness: task worker does not offer an outbox channel"), Known: "harness"}
		}
	}
	return h.poll(step)
}

func runBubble(c Case) kit.Result {
	h := &harness{c: c, pool: buildPool(c.Sizes), idx: map[cid.Cid]int{}, pidx: map[peer.ID]int{},
		store: map[int]bool{}, classes: map[string]bool{}, ctx: context.Background()}
	for i, p := range h.pool {
		h.idx[p.c] = i
	}
	for i := 0; i < c.NPeers; i++ {
		id := peer.ID(fmt.Sprintf("peer-%c", 'A'+i))
		h.peers = append(h.peers, id)
		h.pidx[id] = i
		h.want = append(h.want, map[int]*mwant{})
		h.dropped = append(h.dropped, map[int]bool{})
		h.deniedDH = append(h.deniedDH, map[int]bool{})
		h.mayPend = append(h.mayPend, map[int]bool{})
		h.stray = append(h.stray, map[int]bool{})
		h.ackStale = append(h.ackStale, map[int]bool{})
		h.acc = append(h.acc, map[int]bool{})
	}
	h.bs = blockstore.NewBlockstore(dssync.MutexWrap(ds.NewMapDatastore()))
	for _, ci := range c.Init {
		if err := h.bs.Put(h.ctx, h.pool[ci].blk); err != nil {
			panic(err)
		}
		h.store[ci] = true
	}
	opts := []vb.Option{
		vb.WithMaxQueuedWantlistEntriesPerPeer(uint(c.Cfg.Limit)),
		vb.WithWantHaveReplaceSize(c.Cfg.ReplaceSize),
		vb.WithSetSendDontHave(c.Cfg.SendDH),
		vb.WithMaxCidSize(uint(c.Cfg.MaxCidSize)),
		vb.WithTargetMessageSize(c.Cfg.TargetSize),
		vb.WithTaskWorkerCount(1),
		vb.WithBlockstoreWorkerCount(4),
	}
	if c.Cfg.Filter > 0 {
		opts = append(opts, vb.WithPeerBlockRequestFilter(func(p peer.ID, k cid.Cid) bool {
			return !h.denied(h.pidx[p], h.idx[k])
		}))
	}
	h.e = vb.NewEngine(h.ctx, h.bs, nopTagger{}, peer.ID("self"), opts...)
	defer h.e.Close()
	for _, p := range h.peers {
		h.e.PeerConnected(p)
	}

	for step, op := range c.Ops {
		var r *kit.Result
		switch op.Kind {
		case "msg":
			h.classes["op:msg"] = true
			if op.Full {
				h.classes["op:msg-full"] = true
			}
			r = h.doMsg(step, op)
		case "take":
			_, r = h.take(step, op.Hold)
		case "ack":
			if len(h.held) > 0 {
				h.settle(h.held[op.Idx%len(h.held)], op.Both)
			}
		case "add":
			var nb []blocks.Block
			for _, ci := range op.Cids {
				if err := h.bs.Put(h.ctx, h.pool[ci].blk); err != nil {
					panic(err)
				}
				h.store[ci] = true
				nb = append(nb, h.pool[ci].blk)
				for pi := range h.peers {
					if w := h.want[pi][ci]; w != nil {
						w.sawPresent = true
						if !w.denied {
							w.maybeShed = len(h.mayPend[pi]) >= h.c.Cfg.Limit
							h.mayPend[pi][ci] = true
							// the task NotifyNewBlocks pushes for the listed entry (none when the
							// engine does not list the want)
							if ent, ok := h.ledger(pi)[ci]; ok {
								infl := h.inflight(pi, ci)
								if infl {
									h.classes["inflight:block-added"] = true
								}
								entHave := ent.WantType == pb.Message_Wantlist_Have
								if entHave != w.have || h.c.Sizes[ci] == 0 {
									if infl {
										w.raced = true
									}
								} else {
									wantBlock := !entHave || h.c.Sizes[ci] <= h.c.Cfg.ReplaceSize
									w.raced = infl && !(wantBlock && h.inflightHaveOnly(pi, ci))
								}
							}
						}
					}
				}
			}
			h.e.NotifyNewBlocks(nb)
		case "remove":
			for _, ci := range op.Cids {
				if !h.store[ci] {
					continue
				}
				if err := h.bs.DeleteBlock(h.ctx, h.pool[ci].c); err != nil {
					panic(err)
				}
				delete(h.store, ci)
				for pi := range h.peers {
					if w := h.want[pi][ci]; w != nil {
						w.sawAbsent = true
					}
					if w := h.want[pi][ci]; w != nil && !w.denied {
						w.ansPos = false
						if _, acc := h.ledger(pi)[ci]; acc {
							h.ntRemoved = true
							h.classes["block-removed-while-wanted"] = true
						}
					}
				}
			}
		case "disconnect":
			h.classes["op:disconnect"] = true
			h.e.PeerDisconnected(h.peers[op.Peer])
			h.want[op.Peer] = map[int]*mwant{}
			h.dropped[op.Peer] = map[int]bool{}
			h.deniedDH[op.Peer] = map[int]bool{}
			h.mayPend[op.Peer] = map[int]bool{}
			h.stray[op.Peer] = map[int]bool{}
			h.ackStale[op.Peer] = map[int]bool{}
			h.acc[op.Peer] = map[int]bool{}
		case "tick":
			time.Sleep(150 * time.Millisecond)
		}
		if r != nil {
			return *r
		}
		if _, r = h.poll(step); r != nil {
			return *r
		}
		if r = h.invariants(step); r != nil {
			return *r
		}
	}

	// drain: at quiescence every answerable accepted want has been answered
	end := len(c.Ops)
	h.holdMode = 0
	for len(h.held) > 0 {
		h.settle(h.held[0], true)
	}
	for i := 0; ; i++ {
		if i > 40*len(h.pool) {
			return kit.Result{Err: fmt.Errorf("harness: drain does not terminate"), Known: "harness"}
		}
		got, r := h.take(end, 0)
		if r != nil {
			return *r
		}
		if got {
			continue
		}
		time.Sleep(150 * time.Millisecond)
		if got, r = h.poll(end); r != nil {
			return *r
		}
		if !got {
			break
		}
	}
	if r := h.invariants(end); r != nil {
		return *r
	}
	for pi := range h.peers {
		led := h.ledger(pi)
		var cis []int
		for ci := range led {
			cis = append(cis, ci)
		}
		for ci := range h.acc[pi] {
			if _, ok := led[ci]; !ok {
				cis = append(cis, ci)
			}
		}
		sort.Ints(cis)
		for _, ci := range cis {
			w := h.want[pi][ci]
			if w == nil || w.denied {
				continue // on the list: reported by invariants
			}
			gone := ""
			if _, ok := led[ci]; !ok {
				gone = " (the engine dropped it from the peer's want-list without the peer cancelling it, an overflow or an answer that covers it)"
			}
			if w.maybeShed {
				h.classes["liveness-exempt:queue-bound"] = true
				continue
			}
			if w.raced {
				h.classes["liveness-exempt:answer-in-flight"] = true
				continue
			}
			if h.present(ci) {
				if h.c.Sizes[ci] == 0 {
					continue // see the empty-block clause
				}
				if !w.ansPos {
					return *fail("", "after draining: peer %d's accepted want for CID %d (block present) was never answered and nothing is queued%s", pi, ci, gone)
				}
			} else if w.alwaysDH && w.everDH && h.c.Cfg.SendDH && !w.ansNeg && !w.sawPresent {
				return *fail("", "after draining: peer %d's accepted want for absent CID %d asked for DONT_HAVE and was never answered%s", pi, ci, gone)
			}
		}
	}

	res := kit.Result{NonTrivial: h.ntOverflow || h.ntRemoved || h.ntRace}
	if h.envelopes > 0 {
		h.classes["envelopes>0"] = true
	}
	if h.c.Cfg.Filter > 0 {
		h.classes["cfg:filter"] = true
	}
	if h.c.Cfg.Limit <= 4 {
		h.classes["cfg:limit<=4"] = true
	}
	h.classes[fmt.Sprintf("peers:%d", c.NPeers)] = true
	for k := range h.classes {
		res.Classes = append(res.Classes, k)
	}
	sort.Strings(res.Classes)
	return res
}

func run(c Case) kit.Result {
	if c.NPeers < 1 || c.NPeers > 3 || c.Cfg.Limit < 1 || len(c.Sizes) == 0 {
		return kit.Result{}
	}
	var res kit.Result
	done := false
	synctest.Test(curT, func(t *testing.T) {
		res = runBubble(c)
		done = true
	})
	if !done {
		return kit.Fail("bubble did not complete")
	}
	if res.Err != nil && os.Getenv("VERIF_DEBUG_DIR") != "" {
		b, _ := json.Marshal(map[string]any{"property": "C36", "check": "main", "error": res.Err.Error(), "known": res.Known, "case": c})
		os.WriteFile(fmt.Sprintf("%s/c36-%d.json", os.Getenv("VERIF_DEBUG_DIR"), time.Now().UnixNano()), b, 0o644)
	}
	if res.Known == "harness" {
		// never a property verdict: leave without a VERIF-FAIL line (driver reports exit 2)
		fmt.Printf("HARNESS-PROBLEM C36: %v\n", res.Err)
		kit.FlushStats()
		os.Exit(3)
	}
	return res
}

func sample(c Case) any {
	var ops []string
	for _, op := range c.Ops {
		s := op.Kind
		switch op.Kind {
		case "msg":
			var es []string
			for _, e := range op.Ents {
				x := fmt.Sprintf("%d@%d", e.Cid, e.Prio)
				if e.Cancel {
					x = fmt.Sprintf("-%d", e.Cid)
				} else if e.Have {
					x += "h"
				}
				es = append(es, x)
			}
			s = fmt.Sprintf("msg p%d full=%v [%s]", op.Peer, op.Full, strings.Join(es, " "))
		case "add", "remove":
			s = fmt.Sprintf("%s %v", op.Kind, op.Cids)
		case "disconnect":
			s = fmt.Sprintf("disconnect p%d", op.Peer)
		case "take":
			if op.Hold != 0 {
				s = fmt.Sprintf("take hold=%d", op.Hold)
			}
		case "ack":
			s = fmt.Sprintf("ack #%d both=%v", op.Idx, op.Both)
		}
		ops = append(ops, s)
	}
	return map[string]any{"cfg": c.Cfg, "npeers": c.NPeers, "init": c.Init, "ops": ops}
}

var spec = kit.Spec[Case]{
	Prop: "C36", Name: "main",
	Rule:  "decision engine in a synctest bubble: generated script (<=30/45 steps) of want-list messages (full/incremental, ties, cancels, duplicate, identity and oversize CIDs) from 1-3 peers, directed overflow bursts (a message filling the list to the limit with 0..limit block-less wants, then one message of 1..limit newcomers mostly with blocks and higher priority), directed in-flight races (request for a CID, its answer taken but MessageSent and/or Sent held back, re-request with the other/same want type, cancel, block churn or further takes for the same CID before and after the acknowledgements; one variant in three removes the block while the answer is in flight, re-requests, and re-adds + announces it after an acknowledgement), blockstore add+notify/remove, take-envelope with MessageSent+Sent at once or as separate later ack steps (several envelopes may be in flight, acknowledged in any order), disconnect, tick; limits 1..32, replace size 0/8/1024, filter, maxCidSize, targetMessageSize; per-envelope oracle, want-list subset/limit invariant, overflow predicates P1-P5, answered-at-quiescence for every want the engine accepted and had no reason to drop (cancel, full list, overflow, disconnect, or an acknowledged answer covering it) whether or not it is still listed; non-trivial = an overflow with >=2 distinct priorities among the existing entries, a block removed while an accepted want for it was unanswered, or a re-request/cancel for a CID arriving while an answer for it is in flight",
	Quick: 2500, Thorough: 12000,
	Gen: gen, Run: run, Sample: sample, Journal: true,
}

func TestProp(t *testing.T) {
	t.Run("replay", func(t *testing.T) { curT = t; kit.Replay(t, spec) })
	t.Run("findings", func(t *testing.T) { curT = t; kit.RunFindings(t, spec) })
	t.Run("search", func(t *testing.T) { curT = t; kit.Check(t, spec) })
}
