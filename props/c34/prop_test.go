package c34

import (
	"bytes"
	"encoding/binary"
	"fmt"
	"sort"
	"testing"

	bsmsg "github.com/ipfs/boxo/bitswap/message"
	pb "github.com/ipfs/boxo/bitswap/message/pb"
	blocks "github.com/ipfs/go-block-format"
	cid "github.com/ipfs/go-cid"
	mh "github.com/multiformats/go-multihash"
	"google.golang.org/protobuf/proto"
	"pgregory.net/rapid"
	"verif/kit"
)

func TestMain(m *testing.M) { kit.Main(m) }

// ---------------------------------------------------------------------------
// CIDs: a small key space times a list of CID "forms". Forms 0..3 share the multihash
// of the same key (colliding CIDs: CIDv0 / CIDv1-raw / CIDv1-dag-pb / CIDv1-dag-cbor).

var forms = []kit.PrefixSpec{
	{Version: 0, Codec: cid.DagProtobuf, MhType: mh.SHA2_256, MhLength: 32},
	{Version: 1, Codec: cid.Raw, MhType: mh.SHA2_256, MhLength: 32},
	{Version: 1, Codec: cid.DagProtobuf, MhType: mh.SHA2_256, MhLength: 32},
	{Version: 1, Codec: cid.DagCBOR, MhType: mh.SHA2_256, MhLength: 32},
	{Version: 1, Codec: cid.Raw, MhType: mh.SHA2_512, MhLength: 64},
	{Version: 1, Codec: cid.Raw, MhType: mh.BLAKE2B_MIN + 31, MhLength: 32},
	{Version: 1, Codec: cid.DagCBOR, MhType: mh.SHA3_256, MhLength: 32},
	{Version: 1, Codec: cid.Raw, MhType: mh.IDENTITY, MhLength: -1},
	{Version: 1, Codec: cid.DagProtobuf, MhType: mh.IDENTITY, MhLength: -1},
	{Version: 1, Codec: cid.Raw, MhType: mh.SHA2_256, MhLength: 20}, // truncated digest
}

const nKeys = 6

// keyData is the block data that key k stands for; key -1 is the empty block.
func keyData(k int) []byte {
	if k < 0 {
		return []byte{}
	}
	return []byte(fmt.Sprintf("key-%d", k))
}

type CidRef struct {
	K int `json:"k"`
	F int `json:"f"`
}

func (r CidRef) Cid() cid.Cid {
	c, err := forms[r.F%len(forms)].Prefix().Sum(keyData(r.K))
	if err != nil {
		panic(err)
	}
	return c
}

func genCidRef(t *rapid.T) CidRef {
	k := rapid.IntRange(-1, nKeys-1).Draw(t, "k")
	// bias towards the colliding forms 0..3
	f := rapid.OneOf(rapid.IntRange(0, 3), rapid.IntRange(0, len(forms)-1)).Draw(t, "f")
	return CidRef{k, f}
}

func genInt32(t *rapid.T, label string) int32 {
	return rapid.OneOf(
		rapid.Int32Range(-3, 3),
		rapid.SampledFrom([]int32{0, 1, -1, 2147483647, -2147483648, 2147483646, 127, 128, 16383, 16384}),
		rapid.Int32(),
	).Draw(t, label)
}

// ---------------------------------------------------------------------------
// snapshot of a message's observable contents

type entryVal struct {
	Prio   int32
	Type   int32
	Cancel bool
	SDH    bool
}

type snap struct {
	Full    bool
	Pending int32
	Entries map[string]entryVal // key: CID bytes
	Blocks  map[string][]byte
	Pres    map[string]int32
}

func newSnap() *snap {
	return &snap{Entries: map[string]entryVal{}, Blocks: map[string][]byte{}, Pres: map[string]int32{}}
}

func cidName(k string) string {
	c, err := cid.Cast([]byte(k))
	if err != nil {
		return fmt.Sprintf("%x", k)
	}
	return c.String()
}

// snapshot reads a message through its accessors; duplicates in the returned slices are
// an error (the interface promises unique keys / unique blocks).
func snapshot(m bsmsg.BitSwapMessage) (*snap, error) {
	s := newSnap()
	s.Full = m.Full()
	s.Pending = m.PendingBytes()
	for _, e := range m.Wantlist() {
		if !e.Cid.Defined() {
			return nil, fmt.Errorf("wantlist entry with undefined CID")
		}
		k := string(e.Cid.Bytes())
		if _, dup := s.Entries[k]; dup {
			return nil, fmt.Errorf("Wantlist() lists %s twice", e.Cid)
		}
		s.Entries[k] = entryVal{e.Priority, int32(e.WantType), e.Cancel, e.SendDontHave}
	}
	for _, b := range m.Blocks() {
		if !b.Cid().Defined() {
			return nil, fmt.Errorf("block with undefined CID")
		}
		k := string(b.Cid().Bytes())
		if _, dup := s.Blocks[k]; dup {
			return nil, fmt.Errorf("Blocks() lists %s twice", b.Cid())
		}
		s.Blocks[k] = append([]byte{}, b.RawData()...)
	}
	for _, p := range m.BlockPresences() {
		if !p.Cid.Defined() {
			return nil, fmt.Errorf("block presence with undefined CID")
		}
		k := string(p.Cid.Bytes())
		if _, dup := s.Pres[k]; dup {
			return nil, fmt.Errorf("BlockPresences() lists %s twice", p.Cid)
		}
		s.Pres[k] = int32(p.Type)
	}
	return s, nil
}

func sortedKeys[V any](m map[string]V) []string {
	ks := make([]string, 0, len(m))
	for k := range m {
		ks = append(ks, k)
	}
	sort.Strings(ks)
	return ks
}

func diffEntries(a, b *snap, an, bn string) string {
	for _, k := range sortedKeys(a.Entries) {
		bv, ok := b.Entries[k]
		if !ok {
			return fmt.Sprintf("entry %s in %s but not in %s", cidName(k), an, bn)
		}
		if av := a.Entries[k]; av != bv {
			return fmt.Sprintf("entry %s: %s has %+v, %s has %+v", cidName(k), an, av, bn, bv)
		}
	}
	for _, k := range sortedKeys(b.Entries) {
		if _, ok := a.Entries[k]; !ok {
			return fmt.Sprintf("entry %s in %s but not in %s", cidName(k), bn, an)
		}
	}
	return ""
}

// diff compares all v1-visible fields.
func diff(a, b *snap, an, bn string) string {
	if a.Full != b.Full {
		return fmt.Sprintf("full flag: %s=%v %s=%v", an, a.Full, bn, b.Full)
	}
	if a.Pending != b.Pending {
		return fmt.Sprintf("pending bytes: %s=%d %s=%d", an, a.Pending, bn, b.Pending)
	}
	if d := diffEntries(a, b, an, bn); d != "" {
		return d
	}
	for _, k := range sortedKeys(a.Blocks) {
		bv, ok := b.Blocks[k]
		if !ok {
			return fmt.Sprintf("block %s in %s but not in %s", cidName(k), an, bn)
		}
		if !bytes.Equal(a.Blocks[k], bv) {
			return fmt.Sprintf("block %s: data differs between %s and %s", cidName(k), an, bn)
		}
	}
	for _, k := range sortedKeys(b.Blocks) {
		if _, ok := a.Blocks[k]; !ok {
			return fmt.Sprintf("block %s in %s but not in %s", cidName(k), bn, an)
		}
	}
	for _, k := range sortedKeys(a.Pres) {
		bv, ok := b.Pres[k]
		if !ok {
			return fmt.Sprintf("presence %s in %s but not in %s", cidName(k), an, bn)
		}
		if a.Pres[k] != bv {
			return fmt.Sprintf("presence %s: %s has %d, %s has %d", cidName(k), an, a.Pres[k], bn, bv)
		}
	}
	for _, k := range sortedKeys(b.Pres) {
		if _, ok := a.Pres[k]; !ok {
			return fmt.Sprintf("presence %s in %s but not in %s", cidName(k), bn, an)
		}
	}
	return ""
}

// ---------------------------------------------------------------------------
// reference model of the documented merge rules (message.go addEntry comments,
// AddBlock / AddBlockPresence)

func (s *snap) addEntry(c cid.Cid, prio int32, cancel bool, typ int32, sdh bool) (merged bool) {
	k := string(c.Bytes())
	e, ok := s.Entries[k]
	if !ok {
		s.Entries[k] = entryVal{prio, typ, cancel, sdh}
		return false
	}
	// "Only change priority if want is of the same type"
	if e.Type == typ {
		e.Prio = prio
	}
	// "Only change from dont cancel to do cancel"
	if cancel {
		e.Cancel = true
	}
	// "Only change from dont send to do send DONT_HAVE"
	if sdh {
		e.SDH = true
	}
	// "want-block overrides existing want-have"
	if typ == int32(pb.Message_Wantlist_Block) && e.Type == int32(pb.Message_Wantlist_Have) {
		e.Type = typ
	}
	s.Entries[k] = e
	return true
}

func (s *snap) addBlock(c cid.Cid, data []byte) {
	k := string(c.Bytes())
	delete(s.Pres, k)
	s.Blocks[k] = data
}

func (s *snap) addPresence(c cid.Cid, typ int32) {
	k := string(c.Bytes())
	if _, ok := s.Blocks[k]; ok {
		return
	}
	s.Pres[k] = typ
}

// ---------------------------------------------------------------------------
// generic oracle for anything that was parsed from wire bytes

func frame(body []byte) []byte {
	out := binary.AppendUvarint(nil, uint64(len(body)))
	return append(out, body...)
}

// checkParsed runs FromNet on raw (a varint-framed stream). It returns whether the bytes
// were accepted, the snapshot, and an error when the self-certification / rejection /
// fixpoint oracle is violated.
func checkParsed(raw []byte) (accepted bool, s *snap, err error) {
	m, _, perr := bsmsg.FromNet(bytes.NewReader(raw))
	if perr != nil {
		if m != nil {
			return false, nil, fmt.Errorf("FromNet returned error %q together with a non-nil message", perr)
		}
		return false, nil, nil
	}
	if m == nil {
		return false, nil, fmt.Errorf("FromNet returned neither a message nor an error")
	}
	s, err = snapshot(m)
	if err != nil {
		return true, nil, fmt.Errorf("parsed message: %v", err)
	}
	for _, b := range m.Blocks() {
		c := b.Cid()
		c2, serr := c.Prefix().Sum(b.RawData())
		if serr != nil {
			return true, s, fmt.Errorf("parsed block %s: cannot recompute CID from its data: %v", c, serr)
		}
		if !c2.Equals(c) {
			return true, s, fmt.Errorf("parsed block claims CID %s but its %d data bytes hash to %s", c, len(b.RawData()), c2)
		}
	}
	for k := range s.Blocks {
		if _, both := s.Pres[k]; both {
			return true, s, fmt.Errorf("parsed message has both a block and a presence for %s", cidName(k))
		}
	}
	// re-serialise -> parse is a fixpoint
	var buf bytes.Buffer
	if werr := m.ToNetV1(&buf); werr != nil {
		return true, s, fmt.Errorf("parsed message cannot be re-serialised: %v", werr)
	}
	m2, _, perr2 := bsmsg.FromNet(bytes.NewReader(buf.Bytes()))
	if perr2 != nil {
		return true, s, fmt.Errorf("re-serialised parsed message is rejected: %v", perr2)
	}
	s2, err := snapshot(m2)
	if err != nil {
		return true, s, fmt.Errorf("re-parsed message: %v", err)
	}
	if d := diff(s, s2, "parsed", "reparsed"); d != "" {
		return true, s, fmt.Errorf("serialise->parse of a parsed message is not a fixpoint: %s", d)
	}
	return true, s, nil
}

// ---------------------------------------------------------------------------
// sub-check "roundtrip": message built through the API

type Op struct {
	Kind    string `json:"kind"` // entry | cancel | remove | block | presence | pending
	Cid     CidRef `json:"cid"`
	Prio    int32  `json:"prio,omitempty"`
	Type    int32  `json:"type,omitempty"` // 0 block, 1 have
	SDH     bool   `json:"sdh,omitempty"`
	Data    []byte `json:"data,omitempty"`  // block data
	F       int    `json:"f,omitempty"`     // block prefix form
	PType   int32  `json:"ptype,omitempty"` // 0 have, 1 dont-have
	Via     int    `json:"via,omitempty"`   // presence: 0 AddBlockPresence, 1 AddHave/AddDontHave
	Pending int32  `json:"pending,omitempty"`
}

type Case struct {
	Full bool `json:"full"`
	Ops  []Op `json:"ops"`
}

func genBlockData(t *rapid.T) []byte {
	if rapid.IntRange(0, 2).Draw(t, "keyed") > 0 {
		return keyData(rapid.IntRange(-1, nKeys-1).Draw(t, "bk"))
	}
	return kit.Bytes(kit.Scale(300, 3000)).Draw(t, "bdata")
}

func genOp(t *rapid.T) Op {
	kind := rapid.SampledFrom([]string{"entry", "entry", "entry", "entry", "cancel", "remove", "block", "block", "presence", "presence", "pending"}).Draw(t, "kind")
	op := Op{Kind: kind}
	switch kind {
	case "entry":
		op.Cid = genCidRef(t)
		op.Prio = genInt32(t, "prio")
		op.Type = int32(rapid.IntRange(0, 1).Draw(t, "type"))
		op.SDH = rapid.Bool().Draw(t, "sdh")
	case "cancel", "remove":
		op.Cid = genCidRef(t)
	case "block":
		op.Data = genBlockData(t)
		op.F = rapid.OneOf(rapid.IntRange(0, 3), rapid.IntRange(0, len(forms)-1)).Draw(t, "bf")
	case "presence":
		op.Cid = genCidRef(t)
		op.PType = int32(rapid.IntRange(0, 1).Draw(t, "ptype"))
		op.Via = rapid.IntRange(0, 1).Draw(t, "via")
	case "pending":
		op.Pending = genInt32(t, "pending")
	}
	return op
}

func gen(t *rapid.T) Case {
	c := Case{Full: rapid.Bool().Draw(t, "full")}
	n := rapid.OneOf(rapid.IntRange(0, 12), rapid.IntRange(0, kit.Scale(60, 150))).Draw(t, "n")
	for i := 0; i < n; i++ {
		c.Ops = append(c.Ops, genOp(t))
	}
	return c
}

func run(c Case) kit.Result {
	m := bsmsg.New(c.Full)
	model := newSnap()
	model.Full = c.Full
	merged, nonDefaultBlock, presOnBlock, sizeMerged := false, false, false, false
	for i, op := range c.Ops {
		switch op.Kind {
		case "entry":
			k := op.Cid.Cid()
			sz := m.AddEntry(k, op.Prio, pb.Message_Wantlist_WantType(op.Type), op.SDH)
			was := model.addEntry(k, op.Prio, false, op.Type, op.SDH)
			merged = merged || was
			if was != (sz == 0) {
				sizeMerged = true
				_ = sizeMerged
			}
		case "cancel":
			k := op.Cid.Cid()
			m.Cancel(k)
			// Cancel is documented as "adds a CANCEL for the given CID": priority 0, want-block,
			// no send-dont-have, merged by the same rules
			was := model.addEntry(k, 0, true, int32(pb.Message_Wantlist_Block), false)
			merged = merged || was
		case "remove":
			k := op.Cid.Cid()
			m.Remove(k)
			delete(model.Entries, string(k.Bytes()))
		case "block":
			b := kit.Block(op.Data, forms[op.F%len(forms)])
			if _, has := model.Pres[string(b.Cid().Bytes())]; has {
				presOnBlock = true
			}
			m.AddBlock(b)
			model.addBlock(b.Cid(), op.Data)
			if op.F%len(forms) != 0 {
				nonDefaultBlock = true
			}
		case "presence":
			k := op.Cid.Cid()
			if _, has := model.Blocks[string(k.Bytes())]; has {
				presOnBlock = true
			}
			t := pb.Message_BlockPresenceType(op.PType)
			if op.Via == 1 {
				if t == pb.Message_Have {
					m.AddHave(k)
				} else {
					m.AddDontHave(k)
				}
			} else {
				m.AddBlockPresence(k, t)
			}
			model.addPresence(k, op.PType)
		case "pending":
			m.SetPendingBytes(op.Pending)
			model.Pending = op.Pending
		default:
			return kit.Fail("harness: unknown op %q at %d", op.Kind, i)
		}
	}

	// 1. the message built through the API equals the reference model
	built, err := snapshot(m)
	if err != nil {
		return kit.Fail("built message: %v", err)
	}
	if d := diff(model, built, "model", "message"); d != "" {
		return kit.Fail("message built through the API differs from the merge-rule model: %s", d)
	}
	if m.Empty() != (len(model.Entries) == 0 && len(model.Blocks) == 0 && len(model.Pres) == 0) {
		return kit.Fail("Empty()=%v but model has %d entries, %d blocks, %d presences", m.Empty(), len(model.Entries), len(model.Blocks), len(model.Pres))
	}

	// 2. v1 round trip: everything is preserved
	var buf bytes.Buffer
	if err := m.ToNetV1(&buf); err != nil {
		return kit.Fail("ToNetV1: %v", err)
	}
	wire := append([]byte{}, buf.Bytes()...)
	ok, got, oerr := checkParsed(wire)
	if oerr != nil {
		return kit.Fail("v1: %v", oerr)
	}
	if !ok {
		_, _, perr := bsmsg.FromNet(bytes.NewReader(wire))
		return kit.Fail("v1: FromNet rejects the output of ToNetV1: %v", perr)
	}
	if d := diff(model, got, "model", "FromNet(ToNetV1(m))"); d != "" {
		return kit.Fail("v1 round trip: %s", d)
	}
	// the original message is not disturbed by serialisation
	after, err := snapshot(m)
	if err != nil {
		return kit.Fail("message after ToNetV1: %v", err)
	}
	if d := diff(model, after, "model", "message after ToNetV1"); d != "" {
		return kit.Fail("serialisation changed the message: %s", d)
	}

	// 3. v0 round trip: wantlist (entries + full flag) and block bytes are preserved
	buf.Reset()
	if err := m.ToNetV0(&buf); err != nil {
		return kit.Fail("ToNetV0: %v", err)
	}
	ok, got0, oerr := checkParsed(append([]byte{}, buf.Bytes()...))
	if oerr != nil {
		return kit.Fail("v0: %v", oerr)
	}
	if !ok {
		return kit.Fail("v0: FromNet rejects the output of ToNetV0")
	}
	if d := diffEntries(model, got0, "model", "FromNet(ToNetV0(m))"); d != "" {
		return kit.Fail("v0 round trip: %s", d)
	}
	if got0.Full != model.Full {
		return kit.Fail("v0 round trip: full flag %v became %v", model.Full, got0.Full)
	}
	wantData := map[string]bool{}
	for _, d := range model.Blocks {
		wantData[string(d)] = true
	}
	gotData := map[string]bool{}
	for k, d := range got0.Blocks {
		gotData[string(d)] = true
		// v0 blocks are CIDv0 / sha2-256 of their own bytes
		if want := blocks.NewBlock(d).Cid(); string(want.Bytes()) != k {
			return kit.Fail("v0 round trip: block of %d bytes decoded under CID %s, expected %s", len(d), cidName(k), want)
		}
	}
	for d := range wantData {
		if !gotData[d] {
			return kit.Fail("v0 round trip: block data %x lost", d)
		}
	}
	for d := range gotData {
		if !wantData[d] {
			return kit.Fail("v0 round trip: block data %x appeared", d)
		}
	}

	cls := []string{}
	if merged {
		cls = append(cls, "merged-entry")
	}
	if nonDefaultBlock {
		cls = append(cls, "non-v0-block")
	}
	if presOnBlock {
		cls = append(cls, "presence-vs-block")
	}
	if len(model.Blocks) != len(wantData) {
		cls = append(cls, "same-data-different-cid")
	}
	if len(c.Ops) == 0 {
		cls = append(cls, "empty")
	}
	return kit.Result{NonTrivial: merged || nonDefaultBlock, Classes: cls}
}

var spec = kit.Spec[Case]{
	Prop: "C34", Name: "roundtrip",
	Rule:  "message built by <=60 (thorough <=150) API ops (AddEntry/Cancel/Remove/AddBlock/AddBlockPresence/AddHave/AddDontHave/SetPendingBytes) over 7 keys x 10 CID forms (4 forms share one multihash; identity, truncated, empty data), all int32 priorities/pending; compared with a reference model of the documented merge rules, then FromNet(ToNetV1) == model on every field and FromNet(ToNetV0) preserves wantlist + block bytes; non-trivial = at least one merged duplicate entry or a block with a non-CIDv0 prefix",
	Quick: 10000, Thorough: 30000,
	Gen: gen, Run: run,
}

func TestPropRoundTrip(t *testing.T) { kit.All(t, spec) }

// ---------------------------------------------------------------------------
// sub-check "wire": hand-built protobuf (duplicates, deprecated blocks + payload, hostile
// fields), optionally byte-mutated, parsed with FromNet

type PbEntry struct {
	Cid     CidRef `json:"cid"`
	RawCid  []byte `json:"raw_cid,omitempty"` // hostile: used instead of Cid when Hostile
	Hostile bool   `json:"hostile,omitempty"`
	Prio    int32  `json:"prio,omitempty"`
	Cancel  bool   `json:"cancel,omitempty"`
	Type    int32  `json:"type,omitempty"`
	SDH     bool   `json:"sdh,omitempty"`
}

type PbBlock struct {
	Data      []byte `json:"data"`
	F         int    `json:"f"`
	RawPrefix []byte `json:"raw_prefix,omitempty"`
	Hostile   bool   `json:"hostile,omitempty"`
}

type PbPresence struct {
	Cid     CidRef `json:"cid"`
	RawCid  []byte `json:"raw_cid,omitempty"`
	Hostile bool   `json:"hostile,omitempty"`
	Type    int32  `json:"type,omitempty"`
}

type Mut struct {
	Kind string `json:"kind"` // flip | set | insert | delete | truncate | dup
	Pos  int    `json:"pos"`
	Val  byte   `json:"val"`
	Len  int    `json:"len"`
}

type WireCase struct {
	NoWantlist bool         `json:"no_wantlist,omitempty"`
	Full       bool         `json:"full,omitempty"`
	Entries    []PbEntry    `json:"entries,omitempty"`
	OldBlocks  [][]byte     `json:"old_blocks,omitempty"`
	Payload    []PbBlock    `json:"payload,omitempty"`
	Presences  []PbPresence `json:"presences,omitempty"`
	Pending    int32        `json:"pending,omitempty"`
	Muts       []Mut        `json:"muts,omitempty"`
	LenDelta   int          `json:"len_delta,omitempty"` // hostile framing: declared length - real length
	Trailing   []byte       `json:"trailing,omitempty"`  // bytes after the frame (ignored by FromNet)
}

var hostileCids = [][]byte{
	{},
	{0x00},
	{0x01},
	{0x01, 0x55},
	{0x01, 0x55, 0x12, 0x20, 1, 2, 3}, // short digest
	{0x02, 0x55, 0x00, 0x00},          // version 2
	{0x01, 0x55, 0x00, 0x00, 0x00},    // trailing byte
	{0x12, 0x20, 1, 2, 3},             // truncated CIDv0
	{0x81, 0x00, 0x55, 0x00, 0x00},    // non-minimal varint
	{0xff, 0xff, 0xff, 0xff, 0xff, 0xff, 0xff, 0xff, 0xff, 0xff, 0x01},
}

var hostilePrefixes = [][]byte{
	{},
	{0x01},
	{0x01, 0x55, 0x12},
	{0x00, 0x55, 0x12, 0x20},             // v0 with raw codec
	{0x00, 0x70, 0x13, 0x40},             // v0 with sha2-512
	{0x02, 0x55, 0x12, 0x20},             // version 2
	{0x01, 0x55, 0x12, 0x21},             // sha2-256 length 33
	{0x01, 0x55, 0x12, 0x00},             // sha2-256 length 0
	{0x01, 0x55, 0x12, 0x01},             // sha2-256 length 1
	{0x01, 0x55, 0x99, 0x99, 0x01, 0x20}, // unknown hash
	{0x01, 0x55, 0x00, 0x05},             // identity with wrong length
	{0x01, 0x55, 0x12, 0xff, 0xff, 0xff, 0xff, 0x0f},
	{0x01, 0x55, 0x12, 0x20, 0x00, 0x00}, // trailing bytes
}

func genWire(t *rapid.T) WireCase {
	c := WireCase{}
	// mode 0,1: well-formed; 2: well-formed fields + byte mutations; 3: hostile fields (+ mutations)
	mode := rapid.IntRange(0, 3).Draw(t, "mode")
	hostile := mode == 3
	c.NoWantlist = rapid.IntRange(0, 5).Draw(t, "nowl") == 0
	c.Full = rapid.Bool().Draw(t, "full")
	if !c.NoWantlist {
		n := rapid.IntRange(0, kit.Scale(30, 50)).Draw(t, "nentries")
		for i := 0; i < n; i++ {
			e := PbEntry{Cid: genCidRef(t), Prio: genInt32(t, "prio"), Cancel: rapid.IntRange(0, 3).Draw(t, "cancel") == 0,
				Type: int32(rapid.IntRange(0, 1).Draw(t, "type")), SDH: rapid.Bool().Draw(t, "sdh")}
			if hostile && rapid.IntRange(0, 9).Draw(t, "eh") == 0 {
				e.Hostile = true
				if rapid.Bool().Draw(t, "ehk") {
					e.RawCid = rapid.SampledFrom(hostileCids).Draw(t, "rawcid")
				} else {
					e.RawCid = e.Cid.Cid().Bytes()
					e.Type = int32(rapid.IntRange(2, 5).Draw(t, "badtype"))
				}
			}
			c.Entries = append(c.Entries, e)
		}
	}
	nb := rapid.IntRange(0, 4).Draw(t, "noldblocks")
	for i := 0; i < nb; i++ {
		c.OldBlocks = append(c.OldBlocks, genBlockData(t))
	}
	np := rapid.IntRange(0, 6).Draw(t, "npayload")
	for i := 0; i < np; i++ {
		b := PbBlock{Data: genBlockData(t), F: rapid.IntRange(0, len(forms)-1).Draw(t, "bf")}
		if hostile && rapid.IntRange(0, 5).Draw(t, "bh") == 0 {
			b.Hostile = true
			b.RawPrefix = rapid.SampledFrom(hostilePrefixes).Draw(t, "rawprefix")
		}
		c.Payload = append(c.Payload, b)
	}
	npr := rapid.IntRange(0, 8).Draw(t, "npres")
	for i := 0; i < npr; i++ {
		p := PbPresence{Cid: genCidRef(t), Type: int32(rapid.IntRange(0, 1).Draw(t, "ptype"))}
		if hostile && rapid.IntRange(0, 7).Draw(t, "ph") == 0 {
			p.Hostile = true
			if rapid.Bool().Draw(t, "phk") {
				p.RawCid = rapid.SampledFrom(hostileCids).Draw(t, "rawcid")
			} else {
				p.RawCid = p.Cid.Cid().Bytes()
				p.Type = int32(rapid.IntRange(2, 5).Draw(t, "badptype"))
			}
		}
		c.Presences = append(c.Presences, p)
	}
	c.Pending = genInt32(t, "pending")
	if mode >= 2 {
		lo := 0
		if mode == 2 {
			lo = 1
		}
		nm := rapid.IntRange(lo, 4).Draw(t, "nmuts")
		for i := 0; i < nm; i++ {
			c.Muts = append(c.Muts, Mut{
				Kind: rapid.SampledFrom([]string{"flip", "set", "insert", "delete", "truncate", "dup"}).Draw(t, "mkind"),
				Pos:  rapid.IntRange(0, 1<<16).Draw(t, "mpos"),
				Val:  rapid.Byte().Draw(t, "mval"),
				Len:  rapid.IntRange(1, 9).Draw(t, "mlen"),
			})
		}
		if rapid.IntRange(0, 5).Draw(t, "frame") == 0 {
			c.LenDelta = rapid.SampledFrom([]int{-3, -1, 1, 2, 100, 1 << 23}).Draw(t, "lendelta")
		}
	}
	if rapid.IntRange(0, 5).Draw(t, "trail") == 0 {
		c.Trailing = rapid.SliceOfN(rapid.Byte(), 1, 8).Draw(t, "trailing")
	}
	return c
}

func (c WireCase) hostile() bool {
	if len(c.Muts) > 0 || c.LenDelta != 0 {
		return true
	}
	for _, e := range c.Entries {
		if e.Hostile {
			return true
		}
	}
	for _, b := range c.Payload {
		if b.Hostile {
			return true
		}
	}
	for _, p := range c.Presences {
		if p.Hostile {
			return true
		}
	}
	return false
}

func applyMuts(b []byte, muts []Mut) []byte {
	b = append([]byte{}, b...)
	for _, m := range muts {
		if len(b) == 0 {
			if m.Kind == "insert" {
				b = append(b, m.Val)
			}
			continue
		}
		p := m.Pos % len(b)
		switch m.Kind {
		case "flip":
			b[p] ^= 1 << (m.Val % 8)
		case "set":
			b[p] = m.Val
		case "insert":
			b = append(b[:p], append([]byte{m.Val}, b[p:]...)...)
		case "delete":
			n := m.Len
			if p+n > len(b) {
				n = len(b) - p
			}
			b = append(b[:p], b[p+n:]...)
		case "truncate":
			b = b[:p]
		case "dup":
			n := m.Len
			if p+n > len(b) {
				n = len(b) - p
			}
			seg := append([]byte{}, b[p:p+n]...)
			b = append(b[:p+n], append(seg, b[p+n:]...)...)
		}
	}
	return b
}

func runWire(c WireCase) kit.Result {
	pbm := &pb.Message{}
	model := newSnap()
	merged := false
	if !c.NoWantlist {
		pbm.Wantlist = &pb.Message_Wantlist{Full: c.Full}
		model.Full = c.Full
		for _, e := range c.Entries {
			raw := e.RawCid
			if !e.Hostile {
				k := e.Cid.Cid()
				raw = k.Bytes()
				if model.addEntry(k, e.Prio, e.Cancel, e.Type, e.SDH) {
					merged = true
				}
			}
			pbm.Wantlist.Entries = append(pbm.Wantlist.Entries, &pb.Message_Wantlist_Entry{
				Block: raw, Priority: e.Prio, Cancel: e.Cancel, WantType: pb.Message_Wantlist_WantType(e.Type), SendDontHave: e.SDH,
			})
		}
	}
	for _, d := range c.OldBlocks {
		pbm.Blocks = append(pbm.Blocks, d)
		model.addBlock(blocks.NewBlock(d).Cid(), d)
	}
	nonDefault := false
	for _, b := range c.Payload {
		raw := b.RawPrefix
		if !b.Hostile {
			blk := kit.Block(b.Data, forms[b.F%len(forms)])
			raw = blk.Cid().Prefix().Bytes()
			model.addBlock(blk.Cid(), b.Data)
			if b.F%len(forms) != 0 {
				nonDefault = true
			}
		}
		pbm.Payload = append(pbm.Payload, &pb.Message_Block{Prefix: raw, Data: b.Data})
	}
	presOnBlock := false
	for _, p := range c.Presences {
		raw := p.RawCid
		if !p.Hostile {
			k := p.Cid.Cid()
			raw = k.Bytes()
			if _, has := model.Blocks[string(raw)]; has {
				presOnBlock = true
			}
			model.addPresence(k, p.Type)
		}
		pbm.BlockPresences = append(pbm.BlockPresences, &pb.Message_BlockPresence{Cid: raw, Type: pb.Message_BlockPresenceType(p.Type)})
	}
	pbm.PendingBytes = c.Pending
	model.Pending = c.Pending

	// An element is malformed when its CID bytes do not parse as a CID or its prefix does
	// not yield a CID for the data. Such a message must be rejected as a whole.
	malformed := ""
	if pbm.Wantlist != nil {
		for i, e := range pbm.Wantlist.Entries {
			if _, err := cid.Cast(e.Block); err != nil {
				malformed = fmt.Sprintf("wantlist entry %d has invalid CID bytes %x", i, e.Block)
			}
		}
	}
	for i, b := range pbm.Payload {
		pref, err := cid.PrefixFromBytes(b.Prefix)
		if err == nil {
			_, err = pref.Sum(b.Data)
		}
		if err != nil {
			malformed = fmt.Sprintf("payload block %d has unusable prefix %x", i, b.Prefix)
		}
	}
	for i, p := range pbm.BlockPresences {
		if _, err := cid.Cast(p.Cid); err != nil {
			malformed = fmt.Sprintf("block presence %d has invalid CID bytes %x", i, p.Cid)
		}
	}

	body, err := proto.Marshal(pbm)
	if err != nil {
		return kit.Fail("harness: proto.Marshal: %v", err)
	}
	body = applyMuts(body, c.Muts)
	declared := len(body) + c.LenDelta
	if declared < 0 {
		declared = 0
	}
	raw := binary.AppendUvarint(nil, uint64(declared))
	raw = append(raw, body...)
	raw = append(raw, c.Trailing...)

	accepted, got, oerr := checkParsed(raw)
	if oerr != nil {
		return kit.Fail("%v", oerr)
	}
	hostile := c.hostile()
	if malformed != "" && len(c.Muts) == 0 && c.LenDelta == 0 && accepted {
		return kit.Fail("malformed message accepted (%s): parsed into %d entries, %d blocks, %d presences", malformed, len(got.Entries), len(got.Blocks), len(got.Pres))
	}
	if !hostile {
		if !accepted {
			_, _, perr := bsmsg.FromNet(bytes.NewReader(raw))
			return kit.Fail("well-formed wire message rejected: %v", perr)
		}
		if d := diff(model, got, "model", "FromNet(wire)"); d != "" {
			return kit.Fail("decoding a well-formed wire message: %s", d)
		}
	}
	cls := []string{}
	switch {
	case !hostile:
		cls = append(cls, "wellformed")
	case malformed != "" && len(c.Muts) == 0 && c.LenDelta == 0:
		cls = append(cls, "malformed-element-rejected")
	case accepted:
		cls = append(cls, "hostile-accepted")
	default:
		cls = append(cls, "hostile-rejected")
	}
	if merged {
		cls = append(cls, "wire-duplicate-merged")
	}
	if presOnBlock {
		cls = append(cls, "presence-vs-block")
	}
	if len(c.OldBlocks) > 0 && len(c.Payload) > 0 {
		cls = append(cls, "old+payload")
	}
	nt := (!hostile && (merged || nonDefault)) || (hostile && accepted && got != nil && len(got.Blocks) > 0)
	return kit.Result{NonTrivial: nt, Classes: cls}
}

var wireSpec = kit.Spec[WireCase]{
	Prop: "C34", Name: "wire",
	Rule:  "hand-built protobuf message (<=30/50 entries with duplicate CIDs in wire order, deprecated blocks + payload, presences for block CIDs, nil wantlist), 1 in 4 with 1-4 byte mutations / wrong frame length only, 1 in 4 additionally with hostile CID/prefix bytes and unknown enum values; FromNet: error => nil message; success => every block CID recomputes from its own data, no undefined CIDs, serialise->parse fixpoint; a message with an unparsable CID / unusable prefix (and no byte mutation) must be rejected; well-formed cases additionally equal the merge-rule model applied in wire order; non-trivial = well-formed with a merged duplicate or non-CIDv0 block, or hostile-but-accepted with >=1 block",
	Quick: 10000, Thorough: 30000,
	Gen: genWire, Run: runWire,
}

func TestPropWire(t *testing.T) { kit.All(t, wireSpec) }
