package c34

import (
	"bytes"
	"testing"

	bsmsg "github.com/ipfs/boxo/bitswap/message"
	pb "github.com/ipfs/boxo/bitswap/message/pb"
	"verif/kit"
)

// seedMessages builds a few valid messages through the API; their v1 and v0 encodings
// (without the varint frame) seed the corpus.
func seedMessages() []bsmsg.BitSwapMessage {
	var out []bsmsg.BitSwapMessage
	m := bsmsg.New(true)
	m.AddEntry(CidRef{0, 0}.Cid(), 10, pb.Message_Wantlist_Block, true)
	m.AddEntry(CidRef{0, 1}.Cid(), -1, pb.Message_Wantlist_Have, false)
	m.Cancel(CidRef{1, 2}.Cid())
	m.AddBlock(kit.Block([]byte("hello"), forms[0]))
	m.AddBlock(kit.Block([]byte("hello"), forms[1]))
	m.AddBlock(kit.Block([]byte("id"), forms[7]))
	m.AddBlock(kit.Block([]byte("trunc"), forms[9]))
	m.AddBlock(kit.Block([]byte{}, forms[4]))
	m.AddHave(CidRef{2, 3}.Cid())
	m.AddDontHave(CidRef{3, 5}.Cid())
	m.SetPendingBytes(12345)
	out = append(out, m)

	m2 := bsmsg.New(false)
	m2.AddEntry(CidRef{-1, 7}.Cid(), 2147483647, pb.Message_Wantlist_Have, true)
	out = append(out, m2)

	m3 := bsmsg.New(false)
	m3.AddBlock(kit.Block(bytes.Repeat([]byte{0xab}, 300), forms[6]))
	m3.SetPendingBytes(-1)
	out = append(out, m3)
	out = append(out, bsmsg.New(false))
	return out
}

func unframe(b []byte) []byte {
	// strip the uvarint length prefix
	for i, x := range b {
		if x < 0x80 {
			return b[i+1:]
		}
	}
	return nil
}

// FuzzFromNet: arbitrary wire bytes. The input is tried both as a complete framed stream
// and as a protobuf body (framed by the target). Oracle (checkParsed): a parse error comes
// with a nil message; an accepted message has only defined CIDs, every block's CID is
// recomputable from its own data under its own prefix, and serialise->parse is a fixpoint.
func FuzzFromNet(f *testing.F) {
	for _, m := range seedMessages() {
		var b1, b0 bytes.Buffer
		if err := m.ToNetV1(&b1); err != nil {
			f.Fatal(err)
		}
		if err := m.ToNetV0(&b0); err != nil {
			f.Fatal(err)
		}
		f.Add(unframe(b1.Bytes()))
		f.Add(unframe(b0.Bytes()))
		f.Add(append([]byte{}, b1.Bytes()...))
	}
	// hostile constants
	f.Add([]byte{})
	f.Add([]byte{0x00})
	f.Add([]byte{0xff, 0xff, 0xff, 0xff, 0x0f})
	// wantlist{entries:[{block: ""}]}
	f.Add([]byte{0x0a, 0x04, 0x0a, 0x02, 0x0a, 0x00})
	// payload{prefix: v1 raw sha2-256 len 0, data "x"}
	f.Add([]byte{0x1a, 0x09, 0x0a, 0x04, 0x01, 0x55, 0x12, 0x00, 0x12, 0x01, 'x'})
	// payload{prefix: version 2}
	f.Add([]byte{0x1a, 0x09, 0x0a, 0x04, 0x02, 0x55, 0x12, 0x20, 0x12, 0x01, 'x'})
	// blockPresences{cid: "", type: 1}
	f.Add([]byte{0x22, 0x04, 0x0a, 0x00, 0x10, 0x01})
	// deprecated blocks
	f.Add([]byte{0x12, 0x03, 'a', 'b', 'c', 0x12, 0x03, 'a', 'b', 'c'})

	f.Fuzz(func(t *testing.T, data []byte) {
		if len(data) > 1<<16 {
			return
		}
		if _, _, err := checkParsed(data); err != nil {
			t.Fatalf("as stream: %v", err)
		}
		if _, _, err := checkParsed(frame(data)); err != nil {
			t.Fatalf("as body: %v", err)
		}
	})
}
