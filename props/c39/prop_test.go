// Package c39 checks property C39: a tree of directories, files and symlinks serialised with
// files.NewMultiFileReader and parsed back with files.NewFileFromPartReader is the same tree.
package c39

import (
	"fmt"
	"io"
	"mime/multipart"
	"net/url"
	"os"
	"strings"
	"testing"
	"time"

	"github.com/ipfs/boxo/files"
	"pgregory.net/rapid"
	"verif/kit"
)

func TestMain(m *testing.M) { kit.Main(m) }

// ---------------------------------------------------------------------------
// case

type Node struct {
	Name string `json:"name"`
	// NameBytes, if set, is the entry name instead of Name (names that are not valid UTF-8
	// would not survive the JSON encoding of the case)
	NameBytes []byte `json:"name_bytes,omitempty"`
	Kind      string `json:"kind"` // file | dir | symlink
	Data   []byte `json:"data,omitempty"`
	Target string `json:"target,omitempty"`
	// Mode 0 = unset (that is how the Node interface expresses "no mode"); ignored for symlinks,
	// whose Mode() is fixed by the library.
	Mode    uint32 `json:"mode,omitempty"`
	HasTime bool   `json:"has_time,omitempty"`
	Sec     int64  `json:"sec,omitempty"`
	Nsec    int64  `json:"nsec,omitempty"`
	Kids    []Node `json:"kids,omitempty"`
}

type Case struct {
	Form        bool   `json:"form"` // form-data (true) or mixed/attachment (false)
	RawAbsPath  bool   `json:"raw_abs_path"`
	ReadPlan    []int  `json:"read_plan,omitempty"` // read sizes used to drain the MultiFileReader
	FilePlan    []int  `json:"file_plan,omitempty"` // read sizes of the file content readers
	EOFWithData bool   `json:"eof_with_data,omitempty"`
	Root        []Node `json:"root"`
}

// ---------------------------------------------------------------------------
// building the input tree

type stat struct {
	mode  os.FileMode
	mtime time.Time
}

func (s *stat) Name() string       { return "" }
func (s *stat) Size() int64        { return 0 }
func (s *stat) Mode() os.FileMode  { return s.mode }
func (s *stat) ModTime() time.Time { return s.mtime }
func (s *stat) IsDir() bool        { return false }
func (s *stat) Sys() any           { return nil }

func (n Node) name() string {
	if len(n.NameBytes) > 0 {
		return string(n.NameBytes)
	}
	return n.Name
}

func (n Node) mtime() time.Time {
	if !n.HasTime {
		return time.Time{}
	}
	return time.Unix(n.Sec, n.Nsec)
}

func build(c Case, ns []Node) files.Directory {
	return files.NewSliceDirectory(buildEntries(c, ns))
}

func buildEntries(c Case, ns []Node) []files.DirEntry {
	var es []files.DirEntry
	for _, n := range ns {
		var st os.FileInfo
		if n.Mode != 0 || n.HasTime {
			st = &stat{mode: os.FileMode(n.Mode), mtime: n.mtime()}
		}
		var f files.Node
		switch n.Kind {
		case "dir":
			if st != nil {
				f = files.NewSliceStatDirectory(buildEntries(c, n.Kids), st)
			} else {
				f = files.NewSliceDirectory(buildEntries(c, n.Kids))
			}
		case "symlink":
			f = files.NewSymlinkFile(n.Target, n.mtime())
		default:
			switch {
			case len(c.FilePlan) > 0 || c.EOFWithData:
				f = files.NewReaderStatFile(&kit.FragReader{Data: n.Data, Plan: c.FilePlan, EOFWithData: c.EOFWithData}, st)
			case st != nil:
				f = files.NewBytesStatFile(n.Data, st)
			default:
				f = files.NewBytesFile(n.Data)
			}
		}
		es = append(es, files.FileEntry(n.name(), f))
	}
	return es
}

// planReader hands out the wrapped reader's data in the read sizes of plan (cycled).
type planReader struct {
	r    io.Reader
	plan []int
	i    int
}

func (p *planReader) Read(b []byte) (int, error) {
	if len(p.plan) > 0 && len(b) > 0 {
		k := p.plan[p.i%len(p.plan)]
		p.i++
		if k < 1 {
			k = 1
		}
		if k < len(b) {
			b = b[:k]
		}
	}
	return p.r.Read(b)
}

// ---------------------------------------------------------------------------
// walking the parsed tree

type Got struct {
	Name   string
	Kind   string
	Data   []byte
	Target string
	Mode   os.FileMode
	MTime  time.Time
	Kids   []Got
}

// walk reads a parsed directory completely, in stream order. budget bounds the number of
// entries visited (termination guard for the fuzz target).
func walk(d files.Directory, depth int, budget *int) ([]Got, error) {
	if depth > 200 {
		return nil, fmt.Errorf("directory nesting deeper than 200")
	}
	var out []Got
	it := d.Entries()
	for it.Next() {
		*budget--
		if *budget < 0 {
			return out, fmt.Errorf("walk budget exhausted")
		}
		n := it.Node()
		g := Got{Name: it.Name(), Mode: n.Mode(), MTime: n.ModTime()}
		switch v := n.(type) {
		case *files.Symlink:
			g.Kind, g.Target = "symlink", v.Target
		case files.Directory:
			g.Kind = "dir"
			kids, err := walk(v, depth+1, budget)
			g.Kids = kids
			if err != nil {
				out = append(out, g)
				return out, err
			}
		case files.File:
			g.Kind = "file"
			b, err := io.ReadAll(v)
			g.Data = b
			if err != nil {
				out = append(out, g)
				return out, fmt.Errorf("reading %q: %w", g.Name, err)
			}
		default:
			return out, fmt.Errorf("entry %q has unknown node type %T", g.Name, n)
		}
		n.Close()
		out = append(out, g)
	}
	return out, it.Err()
}

// ---------------------------------------------------------------------------
// comparison

type mismatch struct {
	msg string
	f16 bool // exactly the signature of known finding F16
}

var symlinkMode = os.ModeSymlink | os.ModePerm

func short(b []byte) string {
	if len(b) > 40 {
		return fmt.Sprintf("%q...(%d bytes)", b[:40], len(b))
	}
	return fmt.Sprintf("%q", b)
}

// compareTrees checks got against want. In form mode mode and mtime must survive, with unset
// staying unset; in mixed mode no metadata is carried, so everything parses as unset.
func compareTrees(path string, want []Node, got []Got, form bool, out *[]mismatch) {
	add := func(f16 bool, format string, a ...any) {
		*out = append(*out, mismatch{msg: fmt.Sprintf(format, a...), f16: f16})
	}
	byName := map[string][]Got{}
	for _, g := range got {
		byName[g.Name] = append(byName[g.Name], g)
	}
	if len(got) != len(want) {
		var names []string
		for _, g := range got {
			names = append(names, g.Name)
		}
		add(false, "%s: %d entries serialised, %d parsed back (%q)", path, len(want), len(got), names)
	}
	for _, w := range want {
		gs := byName[w.name()]
		p := path + "/" + w.name()
		if len(gs) != 1 {
			add(false, "%q: name parsed back %d times", p, len(gs))
			continue
		}
		g := gs[0]
		if g.Kind != w.Kind {
			add(false, "%q: %s parsed back as %s", p, w.Kind, g.Kind)
			continue
		}
		switch w.Kind {
		case "file":
			if string(g.Data) != string(w.Data) {
				add(false, "%q: content %s parsed back as %s", p, short(w.Data), short(g.Data))
			}
		case "symlink":
			if g.Target != w.Target {
				add(false, "%q: link target %q parsed back as %q", p, w.Target, g.Target)
			}
		case "dir":
			compareTrees(p, w.Kids, g.Kids, form, out)
		}
		wantMode := os.FileMode(0)
		wantTime := time.Time{}
		if form {
			wantMode, wantTime = os.FileMode(w.Mode), w.mtime()
		}
		if w.Kind == "symlink" {
			wantMode = symlinkMode // fixed by files.Symlink on both sides
		}
		if g.Mode != wantMode {
			add(false, "%q: mode %#o parsed back as %#o", p, uint32(wantMode), uint32(g.Mode))
		}
		switch {
		case wantTime.IsZero() && !g.MTime.IsZero():
			// F16: a part that carries a mode but no mtime parses to mtime = Unix(0,0)
			sig := form && (w.Mode != 0 || w.Kind == "symlink") && g.MTime.Equal(time.Unix(0, 0))
			add(sig, "%q: unset modification time parsed back as %v", p, g.MTime.UTC())
		case !wantTime.IsZero() && !g.MTime.Equal(wantTime):
			add(false, "%q: modification time %v parsed back as %v", p, wantTime.UTC(), g.MTime.UTC())
		}
	}
}

func verdict(ms []mismatch) (error, string) {
	if len(ms) == 0 {
		return nil, ""
	}
	allKnown := true
	var msgs []string
	for _, m := range ms {
		if !m.f16 {
			allKnown = false
		}
		if len(msgs) < 6 {
			msgs = append(msgs, m.msg)
		}
	}
	known := ""
	if allKnown {
		known = "F16"
	}
	return fmt.Errorf("round trip differs: %s", strings.Join(msgs, "; ")), known
}

// roundTrip serialises and parses back.
func roundTrip(c Case) ([]Got, error) {
	mfr := files.NewMultiFileReader(build(c, c.Root), c.Form, c.RawAbsPath)
	var r io.Reader = mfr
	if len(c.ReadPlan) > 0 {
		r = &planReader{r: mfr, plan: c.ReadPlan}
	}
	mpr := multipart.NewReader(r, mfr.Boundary())
	// the media type argument only admits the root; the parser's callers pass the request's
	// multipart/form-data type
	d, err := files.NewFileFromPartReader(mpr, "multipart/form-data")
	if err != nil {
		return nil, fmt.Errorf("NewFileFromPartReader: %w", err)
	}
	budget := 1 << 20
	got, err := walk(d, 0, &budget)
	if err != nil {
		return got, fmt.Errorf("walking the parsed tree: %w", err)
	}
	return got, nil
}

func countNodes(ns []Node, f func(n Node, depth int), depth int) {
	for _, n := range ns {
		f(n, depth)
		countNodes(n.Kids, f, depth+1)
	}
}

func run(c Case) kit.Result {
	got, err := roundTrip(c)
	if err != nil {
		return kit.Fail("%v", err)
	}
	var ms []mismatch
	compareTrees("", c.Root, got, c.Form, &ms)
	if e, known := verdict(ms); e != nil {
		return kit.Result{Err: e, Known: known}
	}
	nt := false
	cls := []string{"mode:mixed"}
	if c.Form {
		cls[0] = "mode:form"
	}
	seen := map[string]bool{}
	maxDepth, total := 0, 0
	countNodes(c.Root, func(n Node, depth int) {
		total++
		if depth+1 > maxDepth {
			maxDepth = depth + 1
		}
		seen["kind:"+n.Kind] = true
		if url.QueryEscape(n.name()) != n.name() {
			nt = true
			seen["name:needs-escaping"] = true
		}
		if c.Form && n.Kind != "symlink" {
			switch {
			case n.Mode != 0 && !n.HasTime:
				nt = true
				seen["stat:mode-only"] = true
			case n.Mode == 0 && n.HasTime:
				nt = true
				seen["stat:mtime-only"] = true
			case n.Mode != 0 && n.HasTime:
				seen["stat:both"] = true
			default:
				seen["stat:none"] = true
			}
		}
		if c.Form && n.Kind == "symlink" {
			if n.HasTime {
				seen["symlink:mtime"] = true
			} else {
				seen["symlink:no-mtime"] = true
			}
		}
		if n.HasTime && n.Nsec != 0 {
			seen["mtime:nsec"] = true
		}
		if n.HasTime && n.Sec < 0 {
			seen["mtime:negative"] = true
		}
		if n.Kind == "file" && len(n.Data) > 4096 {
			seen["file:>4096"] = true
		}
		if n.Kind == "dir" && len(n.Kids) == 0 {
			seen["dir:empty"] = true
		}
	}, 0)
	for k := range seen {
		cls = append(cls, k)
	}
	cls = append(cls, fmt.Sprintf("depth:%d", maxDepth))
	if total == 0 {
		cls = append(cls, "tree:empty")
	}
	return kit.Result{NonTrivial: nt, Classes: cls}
}

// ---------------------------------------------------------------------------
// generator

var extraNames = []string{"a\"b", "a b", "50%", "%41", "%", "a+b", "+", " ", "  lead", "trail ", "a\\b", "q?x=1", "file?mode=0777", "a&b=c", "a;b", "a=b", "x:y",
	"üß", "日本語", "\U0001F973", "a\nb", "a\r\nb", "tab\t", "nul\x00byte", "\x7f", "...", ".a", "a.", "~", "*", "<>|", "'", "`", "a,b", "(x)", "[x]", "{x}", "#", "@", "!", "$", "^"}

func genName(t *rapid.T) string {
	if rapid.IntRange(0, 2).Draw(t, "extra") == 0 {
		return rapid.SampledFrom(extraNames).Draw(t, "xname")
	}
	return kit.Names().Draw(t, "name")
}

func genStat(t *rapid.T, n *Node, coupled bool) {
	// coupled: whenever a mode is set an mtime is set too (keeps the case clear of known finding F16)
	if rapid.IntRange(0, 2).Draw(t, "hasmode") != 0 && n.Kind != "symlink" {
		switch rapid.IntRange(0, 2).Draw(t, "modeclass") {
		case 0:
			n.Mode = rapid.SampledFrom([]uint32{0o644, 0o755, 0o600, 0o777, 0o1, 0o4755, 0o2755, 0o1777, 0o7777, 0o7000}).Draw(t, "mode")
		default:
			n.Mode = uint32(rapid.IntRange(1, 0o7777).Draw(t, "mode"))
		}
	}
	needTime := coupled && (n.Mode != 0 || n.Kind == "symlink")
	if needTime || rapid.IntRange(0, 1).Draw(t, "hastime") == 0 {
		n.HasTime = true
		switch rapid.IntRange(0, 3).Draw(t, "timeclass") {
		case 0:
			n.Sec = rapid.SampledFrom([]int64{0, 1, -1, 1604320500, 2147483647, 2147483648, 4102444800, -2208988800}).Draw(t, "sec")
		case 1:
			n.Sec = rapid.Int64Range(-(1 << 35), 1<<35).Draw(t, "sec")
		default:
			n.Sec = rapid.Int64Range(0, 2000000000).Draw(t, "sec")
		}
		switch rapid.IntRange(0, 3).Draw(t, "nsecclass") {
		case 0:
		case 1:
			n.Nsec = rapid.SampledFrom([]int64{1, 55555, 999999999, 500000000, 1000}).Draw(t, "nsec")
		default:
			n.Nsec = rapid.Int64Range(0, 999999999).Draw(t, "nsec")
		}
	}
}

func genNodes(t *rapid.T, depth int, form, coupled bool, left *int) []Node {
	// NB rapid favours early alternatives
	n := rapid.SampledFrom([][]int{{3, 2, 4, 1, 0, 5, 6}, {2, 1, 0, 3, 4}, {2, 0, 1, 3}}[depth]).Draw(t, "n")
	var out []Node
	used := map[string]bool{}
	for i := 0; i < n && *left > 0; i++ {
		name := genName(t)
		nd := Node{Name: name}
		if rapid.IntRange(0, 19).Draw(t, "nonutf8") == 19 {
			nd = Node{NameBytes: rapid.SampledFrom([][]byte{{0xff, 0xfe}, {0xc3}, {'a', 0x80, 'b'}, {0xed, 0xa0, 0x80}, {0xf8, '%', 0xff}}).Draw(t, "rawname")}
			name = nd.name()
		}
		if used[name] {
			continue
		}
		used[name] = true
		*left--
		kinds := []string{"file", "dir", "symlink", "file", "dir"}
		if depth == 2 {
			kinds = []string{"file", "symlink", "file", "dir"}
		}
		nd.Kind = rapid.SampledFrom(kinds).Draw(t, "kind")
		if form {
			genStat(t, &nd, coupled)
		}
		switch nd.Kind {
		case "file":
			if rapid.IntRange(0, 14).Draw(t, "big") == 14 {
				nd.Data = kit.FillBytes(t, rapid.IntRange(4000, kit.Scale(20000, 70000)).Draw(t, "biglen"))
			} else {
				nd.Data = kit.Bytes(200).Draw(t, "data")
			}
		case "symlink":
			nd.Target = rapid.OneOf(
				rapid.SampledFrom([]string{"target", "../up", "/abs/path", "", "a b", "x\ny", "ü", "--boundary", "\r\n--", "%41+"}),
				kit.Names(),
				rapid.StringN(0, 30, 60),
			).Draw(t, "target")
		case "dir":
			if depth < 2 {
				nd.Kids = genNodes(t, depth+1, form, coupled, left)
			}
		}
		out = append(out, nd)
	}
	return out
}

func gen(t *rapid.T) Case {
	c := Case{}
	c.Form = rapid.IntRange(0, 3).Draw(t, "form") != 3
	c.RawAbsPath = rapid.Bool().Draw(t, "rawabs")
	coupled := rapid.IntRange(0, 9).Draw(t, "coupled") < 7
	left := 14
	c.Root = genNodes(t, 0, c.Form, coupled, &left)
	switch rapid.IntRange(0, 3).Draw(t, "plan") {
	case 0:
	case 1:
		c.ReadPlan = []int{1}
	default:
		c.ReadPlan = rapid.SliceOfN(rapid.IntRange(1, 300), 1, 5).Draw(t, "readplan")
	}
	switch rapid.IntRange(0, 3).Draw(t, "fplan") {
	case 0, 1:
	case 2:
		c.FilePlan = rapid.SliceOfN(rapid.IntRange(1, 100), 1, 4).Draw(t, "fileplan")
		c.EOFWithData = rapid.Bool().Draw(t, "eofwithdata")
	default:
		c.EOFWithData = true
	}
	return c
}

func sampleNodes(ns []Node) []any {
	var out []any
	for _, n := range ns {
		m := map[string]any{"name": fmt.Sprintf("%q", n.name()), "kind": n.Kind}
		if n.Mode != 0 {
			m["mode"] = fmt.Sprintf("%#o", n.Mode)
		}
		if n.HasTime {
			m["mtime"] = fmt.Sprintf("%d.%09d", n.Sec, n.Nsec)
		}
		switch n.Kind {
		case "file":
			m["len"] = len(n.Data)
		case "symlink":
			m["target"] = n.Target
		case "dir":
			m["kids"] = sampleNodes(n.Kids)
		}
		out = append(out, m)
	}
	return out
}

var spec = kit.Spec[Case]{
	Prop: "C39", Name: "main",
	Rule: "tree of depth<=3 (<=14 nodes) of files/dirs/symlinks, unique sibling names from the kit pool plus quotes, percent, plus, spaces, control and non-UTF8 bytes (never '/', '.', '..', empty); form mode: mode 1..07777 or unset, mtime unset or set (negative/large seconds, nanoseconds); mixed mode: no metadata; serialised by NewMultiFileReader (drained in generated read sizes, file readers fragmenting / returning data with EOF) and parsed by NewFileFromPartReader; names, kinds, bytes, link targets, mode and mtime must be equal with unset staying unset. non-trivial = a node with exactly one of mode/mtime set, or a name that needs escaping",
	Quick: 4000, Thorough: 9000,
	Gen: gen, Run: run,
	Sample: func(c Case) any {
		return map[string]any{"form": c.Form, "raw_abs_path": c.RawAbsPath, "read_plan": c.ReadPlan, "file_plan": c.FilePlan, "eof_with_data": c.EOFWithData, "root": sampleNodes(c.Root)}
	},
}

func TestProp(t *testing.T) { kit.All(t, spec) }
