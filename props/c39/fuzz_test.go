package c39

import (
	"bytes"
	"io"
	"mime/multipart"
	"strings"
	"testing"
	"unicode/utf8"

	"github.com/ipfs/boxo/files"
	"verif/kit"
)

const fuzzBoundary = "XverifBoundaryX"

// serialise returns the multipart body of a tree with the random boundary replaced by a fixed one.
func serialise(c Case) []byte {
	mfr := files.NewMultiFileReader(build(c, c.Root), c.Form, c.RawAbsPath)
	b, err := io.ReadAll(mfr)
	if err != nil {
		panic(err)
	}
	return bytes.ReplaceAll(b, []byte(mfr.Boundary()), []byte(fuzzBoundary))
}

func fuzzSeeds() [][]byte {
	tree := []Node{
		{Name: "file.txt", Kind: "file", Data: []byte("Some text! :)"), Mode: 0o754, HasTime: true, Sec: 1604320500, Nsec: 55555},
		{Name: "boop", Kind: "dir", Mode: 0o755, HasTime: true, Sec: 1, Kids: []Node{
			{Name: "a b%\".txt", Kind: "file", Data: []byte("bleep"), HasTime: true, Sec: -5, Nsec: 1},
			{Name: "link", Kind: "symlink", Target: "../file.txt", HasTime: true, Sec: 77},
			{Name: "empty", Kind: "dir"},
		}},
		{Name: "résumé🥳.txt", Kind: "file", Data: []byte("beep"), Mode: 0o644, HasTime: true, Sec: 0},
	}
	seeds := [][]byte{
		serialise(Case{Form: true, Root: tree}),
		serialise(Case{Form: false, Root: tree}),
		serialise(Case{Form: true, RawAbsPath: true, Root: tree[:1]}),
		serialise(Case{Form: true, Root: nil}),
	}
	hand := func(parts ...[2]string) []byte {
		var sb strings.Builder
		for _, p := range parts {
			sb.WriteString("--" + fuzzBoundary + "\r\n" + p[0] + "\r\n\r\n" + p[1] + "\r\n")
		}
		sb.WriteString("--" + fuzzBoundary + "--\r\n")
		return []byte(sb.String())
	}
	seeds = append(seeds,
		// implicit directories, names with dot-dot, empty and absolute names, bad escapes
		hand([2]string{"Content-Disposition: form-data; name=\"file\"; filename=\"a/b/c.txt\"\r\nContent-Type: application/octet-stream", "x"},
			[2]string{"Content-Disposition: form-data; name=\"file\"; filename=\"a/b/../../../../etc/passwd\"\r\nContent-Type: application/octet-stream", "y"},
			[2]string{"Content-Disposition: form-data; name=\"file\"; filename=\"\"\r\nContent-Type: application/octet-stream", "z"}),
		hand([2]string{"Content-Disposition: form-data; name=\"file?mode=0644\"; filename=\"%2Fabs%2F..%2Fx\"\r\nContent-Type: application/x-directory", ""},
			[2]string{"Content-Disposition: form-data; name=\"file?mtime=abc&mode=0777\"; filename=\"%zz\"\r\nContent-Type: application/symlink", "target"},
			[2]string{"Content-Disposition: form-data; name=\"file?mtime=9223372036854775807&mtime-nsecs=9223372036854775807\"; filename=\"t\"", "data"},
			[2]string{"Content-Disposition: garbage", ""},
			[2]string{"Content-Type: ;;;", ""}),
		hand([2]string{"Content-Disposition: form-data; name=\"file?%zz\"; filename=\"d\"\r\nContent-Type: multipart/form-data", ""},
			[2]string{"Content-Disposition: form-data; name=\"file\"; filename=\"d/x\"\r\nabspath-encoded: %zz", "1"},
			[2]string{"Content-Disposition: form-data; name=\"file\"; filename=\"d\"\r\nContent-Type: application/x-directory", ""},
			[2]string{"Content-Disposition: form-data; name=\"file\"; filename=\"d/x\"", "2"}),
		[]byte("--"+fuzzBoundary+"--\r\n"),
		[]byte{},
	)
	return seeds
}

func parseBody(body []byte) ([]Got, error, error) {
	d, err := files.NewFileFromPartReader(multipart.NewReader(bytes.NewReader(body), fuzzBoundary), "multipart/form-data")
	if err != nil {
		return nil, nil, err
	}
	// every entry returned either consumes a part (>= 2 body bytes each) or descends one path
	// component of a part's name, so this budget cannot be reached by a terminating walk
	budget := 2*len(body) + 100
	got, werr := walk(d, 0, &budget)
	return got, werr, nil
}

func gotEqual(a, b []Got) bool {
	if len(a) != len(b) {
		return false
	}
	for i := range a {
		x, y := a[i], b[i]
		if x.Name != y.Name || x.Kind != y.Kind || !bytes.Equal(x.Data, y.Data) || x.Target != y.Target || x.Mode != y.Mode || !x.MTime.Equal(y.MTime) ||
			!gotEqual(x.Kids, y.Kids) {
			return false
		}
	}
	return true
}

// toNodes converts a parsed tree to a model tree if it lies in the property's domain: unique,
// non-empty sibling names, modes 0..07777, ordinary times.
func toNodes(gs []Got) ([]Node, bool) {
	var out []Node
	seen := map[string]bool{}
	for _, g := range gs {
		if g.Name == "" || seen[g.Name] {
			return nil, false
		}
		seen[g.Name] = true
		n := Node{Name: g.Name, Kind: g.Kind, Data: g.Data, Target: g.Target}
		if !utf8.ValidString(g.Name) {
			n = Node{NameBytes: []byte(g.Name), Kind: g.Kind, Data: g.Data, Target: g.Target}
		}
		if g.Kind != "symlink" {
			if uint32(g.Mode) > 0o7777 {
				return nil, false
			}
			n.Mode = uint32(g.Mode)
		}
		if !g.MTime.IsZero() {
			n.HasTime, n.Sec, n.Nsec = true, g.MTime.Unix(), int64(g.MTime.Nanosecond())
			if n.Sec > 1<<40 || n.Sec < -(1<<40) {
				return nil, false
			}
		}
		if g.Kind == "dir" {
			kids, ok := toNodes(g.Kids)
			if !ok {
				return nil, false
			}
			n.Kids = kids
		}
		out = append(out, n)
	}
	return out, true
}

func checkNames(t *testing.T, gs []Got, path string) {
	for _, g := range gs {
		if strings.Contains(g.Name, "/") || g.Name == ".." || g.Name == "." {
			t.Fatalf("parsed entry name %q below %q is not a single clean path component", g.Name, path)
		}
		checkNames(t, g.Kids, path+"/"+g.Name)
	}
}

// FuzzParse: arbitrary multipart bodies. The parser must not panic, the walk must terminate,
// entry names must be single clean components (nothing escapes the root), parsing is
// deterministic, and every parsed tree that lies in the property's domain must itself
// round-trip (serialise -> parse gives the same tree).
func FuzzParse(f *testing.F) {
	for _, s := range fuzzSeeds() {
		f.Add(s)
	}
	f.Fuzz(func(t *testing.T, body []byte) {
		if len(body) > 1<<16 {
			return
		}
		got, werr, err := parseBody(body)
		if err != nil {
			t.Fatalf("NewFileFromPartReader: %v", err)
		}
		if werr != nil && strings.Contains(werr.Error(), "walk budget exhausted") {
			t.Fatalf("walking the parsed tree does not terminate (%d entries from %d body bytes)", 2*len(body)+100, len(body))
		}
		checkNames(t, got, "")
		got2, werr2, _ := parseBody(body)
		if !gotEqual(got, got2) || (werr == nil) != (werr2 == nil) {
			t.Fatalf("parsing the same body twice gives different trees")
		}
		if werr != nil {
			return
		}
		nodes, ok := toNodes(got)
		if !ok {
			return
		}
		c := Case{Form: true, Root: nodes}
		res := kit.SafeRun(run, c)
		if res.Err != nil {
			if res.Known != "" && kit.OpenFinding("C39", res.Known) {
				t.Skip("known finding " + res.Known)
			}
			t.Fatalf("property C39 violated on the tree parsed from the input: %v", res.Err)
		}
	})
}
