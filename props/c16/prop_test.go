package c16

// C16 Directory root CID depends only on final entries and configuration.
//
// Sub-check "dynamic": an automatically switching directory with a per-directory sharding
// threshold and/or maxLinks placed ON the boundary of the history's own path is driven through
// adds, replacements and removals. After every step
//   - the directory is a HAMT exactly when the documented rule says so for the CURRENT entry set
//     (mode != Disabled and size(S) > threshold, or maxLinks > 0 and |S| > maxLinks); size(S) is
//     computed independently (links mode: sum of len(name)+len(cid); block mode: length of an
//     actually serialized basic directory node),
//   - GetHAMTShardingSize() / GetMaxLinks() still return the configured values,
//   - the root CID equals the root CID of a canonical fresh build (sorted adds) of that set.
// Sub-check "hamt": the same CID comparison for a pure HAMT directory.
//
// Fault injection (both sub-checks): the directory's DAGService is wrapped; an op may carry
// fail_add = n, then the n-th DAGService.Add issued DURING that AddChild fails (a full or
// unreachable block store). The generator places such a failing add directly before the add that
// crosses the sharding boundary upwards (and before other adds) and repeats the same add without
// fault afterwards. A failed op is an edit of the history like any other: the entries the
// directory then reports (Links()) are its current set, and the same three clauses are demanded
// for that set: sharded <=> documented rule, limits still reported, root CID == fresh build.
//
// Known findings (DESIGN §7-F8) are recognised by narrow signatures, see the three
// kit.Result{Known: ...} returns in runDynamic.

import (
	"context"
	"errors"
	"fmt"
	"os"
	"sort"
	"testing"
	"time"

	mdag "github.com/ipfs/boxo/ipld/merkledag"
	mdtest "github.com/ipfs/boxo/ipld/merkledag/test"
	unixfs "github.com/ipfs/boxo/ipld/unixfs"
	uio "github.com/ipfs/boxo/ipld/unixfs/io"
	cid "github.com/ipfs/go-cid"
	ipld "github.com/ipfs/go-ipld-format"
	mh "github.com/multiformats/go-multihash"
	"pgregory.net/rapid"
	"verif/kit"
)

func TestMain(m *testing.M) { kit.Main(m) }

type Config struct {
	Width     int    `json:"width"`     // HAMT fanout; 0 = library default (256)
	SizeMode  int    `json:"size_mode"` // -1 unset (global default = links), 0 links, 1 block, 2 disabled
	Threshold int    `json:"threshold"` // per-directory HAMTShardingSize (>0), 0 = unset (global 256 KiB)
	MaxLinks  int    `json:"max_links"` // 0 = unset
	CidV1     bool   `json:"cid_v1"`
	Perm      uint32 `json:"perm"`
	HasMtime  bool   `json:"has_mtime"`
	Sec       int64  `json:"sec"`
	Nsec      int64  `json:"nsec"`
}

type Op struct {
	Kind  string `json:"kind"` // add | remove
	Name  string `json:"name"`
	Child int    `json:"child,omitempty"`
	// FailAdd n > 0 (add ops only): the n-th DAGService.Add call issued while this AddChild runs
	// returns an error (1-based). 0 = no fault. If the op issues fewer calls nothing fails.
	FailAdd int `json:"fail_add,omitempty"`
}

// ---------------------------------------------------------------------------
// fault injection: DAGService whose Add can be made to fail on a chosen call index

var errInjected = errors.New("harness: injected DAGService.Add failure")

type faultDAG struct {
	ipld.DAGService
	failAt int // the failAt-th Add since arm() fails; 0 = disarmed
	calls  int
	fired  bool
}

func (f *faultDAG) arm(n int) { f.failAt, f.calls, f.fired = n, 0, false }

func (f *faultDAG) hit() bool {
	if f.failAt <= 0 {
		return false
	}
	f.calls++
	if f.calls == f.failAt {
		f.fired = true
		return true
	}
	return false
}

func (f *faultDAG) Add(ctx context.Context, nd ipld.Node) error {
	if f.hit() {
		return errInjected
	}
	return f.DAGService.Add(ctx, nd)
}

func (f *faultDAG) AddMany(ctx context.Context, nds []ipld.Node) error {
	if f.hit() {
		return errInjected
	}
	return f.DAGService.AddMany(ctx, nds)
}

// observe: the entry set the directory itself reports (name -> CID).
func observe(ctx context.Context, d uio.Directory) (map[string]cid.Cid, error) {
	links, err := d.Links(ctx)
	if err != nil {
		return nil, err
	}
	m := make(map[string]cid.Cid, len(links))
	for _, l := range links {
		m[l.Name] = l.Cid
	}
	if len(m) != len(links) {
		return nil, fmt.Errorf("Links() lists %d links but only %d distinct names", len(links), len(m))
	}
	return m, nil
}

func sameSet(obs map[string]cid.Cid, model map[string]entry) bool {
	if len(obs) != len(model) {
		return false
	}
	for n, e := range model {
		if c, ok := obs[n]; !ok || !c.Equals(e.c) {
			return false
		}
	}
	return true
}

// afterFailedAdd decides from the entries the directory reports whether an AddChild that returned
// the injected error took effect. judged=false: the reported set is neither the set before nor
// the set after the op (the property does not say what a failed edit does to the entries, so such
// a case is not judged).
func afterFailedAdd(ctx context.Context, d uio.Directory, model map[string]entry, name string, ne entry) (applied, judged bool, err error) {
	obs, err := observe(ctx, d)
	if err != nil {
		return false, false, err
	}
	if sameSet(obs, model) {
		return false, true, nil
	}
	old, had := model[name]
	model[name] = ne
	post := sameSet(obs, model)
	if had {
		model[name] = old
	} else {
		delete(model, name)
	}
	return post, post, nil
}

type Case struct {
	Cfg      Config          `json:"cfg"`
	Children []kit.ChildSpec `json:"children"`
	Ops      []Op            `json:"ops"`
	// EveryStep: compare the root CID with the canonical build after every operation, not only
	// at the end (calls GetNode() between the edits).
	EveryStep bool `json:"every_step"`
}

// ---------------------------------------------------------------------------
// independent size model

type entry struct {
	c    cid.Cid
	size uint64
	ci   int
}

func permsToFileMode(p uint32) os.FileMode {
	m := os.FileMode(p & 0o777)
	if p&0o4000 != 0 {
		m |= os.ModeSetuid
	}
	if p&0o2000 != 0 {
		m |= os.ModeSetgid
	}
	if p&0o1000 != 0 {
		m |= os.ModeSticky
	}
	return m
}

func (c Config) stat() (os.FileMode, time.Time) {
	var mt time.Time
	if c.HasMtime {
		mt = time.Unix(c.Sec, c.Nsec)
	}
	return permsToFileMode(c.Perm), mt
}

func (c Config) mode() int {
	if c.SizeMode < 0 {
		return 0
	}
	return c.SizeMode
}

func linksSize(name string, c cid.Cid) int { return len(name) + len(c.Bytes()) }

// blockLinkSize: bytes one link adds to the serialized dag-pb node, measured by serializing.
func blockLinkSize(name string, e entry) int {
	n := new(mdag.ProtoNode)
	n.AddRawLink(name, &ipld.Link{Size: e.size, Cid: e.c})
	return len(n.RawData())
}

// blockSize: length of an actually serialized basic directory with these entries.
func blockSize(cfg Config, s map[string]entry) int {
	m, mt := cfg.stat()
	var n *mdag.ProtoNode
	if m != 0 || !mt.IsZero() {
		n = unixfs.EmptyDirNodeWithStat(m, mt)
	} else {
		n = unixfs.EmptyDirNode()
	}
	for name, e := range s {
		n.AddRawLink(name, &ipld.Link{Size: e.size, Cid: e.c})
	}
	return len(n.RawData())
}

func estSize(cfg Config, s map[string]entry) int {
	switch cfg.mode() {
	case 0:
		t := 0
		for name, e := range s {
			t += linksSize(name, e.c)
		}
		return t
	case 1:
		return blockSize(cfg, s)
	}
	return 0
}

const globalThreshold = 256 * 1024

// rule: the documented sharding rule for entry set s.
func rule(cfg Config, s map[string]entry) bool {
	thr := cfg.Threshold
	if thr <= 0 {
		thr = globalThreshold
	}
	if cfg.mode() != 2 && estSize(cfg, s) > thr {
		return true
	}
	return cfg.MaxLinks > 0 && len(s) > cfg.MaxLinks
}

// ---------------------------------------------------------------------------
// generator

type childInfo struct {
	nd   ipld.Node
	size uint64
}

func makeChildren(specs []kit.ChildSpec) []childInfo {
	var out []childInfo
	for _, cs := range specs {
		nd, sz := kit.MakeChild(cs)
		out = append(out, childInfo{nd, sz})
	}
	return out
}

var childPrefixes = []kit.PrefixSpec{
	{Version: 0, Codec: cid.DagProtobuf, MhType: mh.SHA2_256, MhLength: 32}, // 34 bytes
	{Version: 1, Codec: cid.DagProtobuf, MhType: mh.SHA2_256, MhLength: 32}, // 36
	{Version: 1, Codec: cid.Raw, MhType: mh.SHA2_512, MhLength: 64},         // 68
	{Version: 1, Codec: cid.Raw, MhType: mh.SHA2_256, MhLength: 20},         // 24 (truncated digest)
	{Version: 1, Codec: cid.DagProtobuf, MhType: mh.SHA2_512, MhLength: 64}, // 68
	{Version: 1, Codec: cid.Raw, MhType: mh.BLAKE2B_MIN + 31, MhLength: 32}, // 37
}

func genCommon(t *rapid.T, hamtOnly bool) (Case, []map[string]entry) {
	c := Case{}
	c.Cfg.Width = rapid.SampledFrom([]int{8, 8, 8, 16, 32, 64, 256, 1024, 0}).Draw(t, "width")
	c.Cfg.SizeMode = rapid.SampledFrom([]int{0, 0, 0, 1, 1, 1, 2, -1}).Draw(t, "sizemode")
	c.Cfg.CidV1 = rapid.Bool().Draw(t, "cidv1")
	if rapid.Bool().Draw(t, "hasperm") {
		c.Cfg.Perm = rapid.SampledFrom([]uint32{0o755, 0o7777, 1}).Draw(t, "perm")
	}
	c.Cfg.HasMtime = rapid.Bool().Draw(t, "hasmtime")
	if c.Cfg.HasMtime {
		c.Cfg.Sec = rapid.SampledFrom([]int64{0, 1700000000, -5}).Draw(t, "sec")
		c.Cfg.Nsec = rapid.SampledFrom([]int64{0, 999999999}).Draw(t, "nsec")
	}
	c.EveryStep = rapid.IntRange(0, 3).Draw(t, "everystep") != 0

	// names
	var pool []string
	for gi, g := range kit.CollidingNameGroups() {
		if rapid.IntRange(0, 9).Draw(t, fmt.Sprintf("group%d", gi)) < 4 {
			pool = append(pool, g.Names...)
		}
	}
	master := kit.DirNamePool()
	rest := master[len(kit.CollidingNames()):]
	for _, i := range rapid.SliceOfNDistinct(rapid.IntRange(0, len(rest)-1), 4, 14, rapid.ID[int]).Draw(t, "extra") {
		pool = append(pool, rest[i])
	}
	// children with different CID lengths and link sizes
	nch := rapid.IntRange(2, 5).Draw(t, "nchildren")
	for i := 0; i < nch; i++ {
		c.Children = append(c.Children, kit.ChildSpec{
			Prefix: rapid.SampledFrom(childPrefixes).Draw(t, "prefix"),
			Tsize:  rapid.SampledFrom([]uint64{0, 5, 100, 200, 20000, 1 << 33}).Draw(t, "tsize"),
			Salt:   uint32(i),
		})
	}
	children := makeChildren(c.Children)

	nops := rapid.SampledFrom([]int{4, 8, 14, 20, 30, kit.Scale(36, 40)}).Draw(t, "nopsclass") - rapid.IntRange(0, 2).Draw(t, "nopsdelta")
	fill := rapid.SampledFrom([]int{0, 2, 4, 6, 10, 14}).Draw(t, "fill")
	cur := map[string]entry{}
	var states []map[string]entry
	snapshot := func() {
		cp := make(map[string]entry, len(cur))
		for k, v := range cur {
			cp[k] = v
		}
		states = append(states, cp)
	}
	snapshot()
	for i := 0; i < nops; i++ {
		var have []string
		for n := range cur {
			have = append(have, n)
		}
		sort.Strings(have)
		k := rapid.IntRange(0, 9).Draw(t, "opk")
		if i < fill {
			k = 0
		}
		if k <= 5 || len(have) == 0 { // add / replace
			name := rapid.SampledFrom(pool).Draw(t, "name")
			if i >= fill && len(have) > 0 && rapid.IntRange(0, 2).Draw(t, "replace") == 0 {
				name = rapid.SampledFrom(have).Draw(t, "rname")
			}
			ci := rapid.IntRange(0, nch-1).Draw(t, "child")
			c.Ops = append(c.Ops, Op{Kind: "add", Name: name, Child: ci})
			cur[name] = entry{children[ci].nd.Cid(), children[ci].size, ci}
		} else {
			name := rapid.SampledFrom(have).Draw(t, "pname")
			c.Ops = append(c.Ops, Op{Kind: "remove", Name: name})
			delete(cur, name)
		}
		snapshot()
	}
	if hamtOnly {
		insertFaults(t, &c, states, false)
		return c, states
	}
	// thresholds ON the boundary of this history's own path
	pick := func(label string) map[string]entry {
		return states[rapid.IntRange(0, len(states)-1).Draw(t, label)]
	}
	switch rapid.IntRange(0, 9).Draw(t, "thrclass") {
	case 0:
		c.Cfg.Threshold = 0 // unset: global 256 KiB, never reached here
	default:
		v := estSize(c.Cfg, pick("thr_state")) + rapid.IntRange(-1, 1).Draw(t, "thr_delta")
		// never below the size of the empty directory itself (block mode counts the Data
		// field): a fresh, empty directory is always basic, so the rule is only realisable
		// for thresholds the empty directory does not exceed
		if min := estSize(c.Cfg, nil); v < min {
			v = min
		}
		if v < 1 {
			v = 1
		}
		c.Cfg.Threshold = v
	}
	mlClass := rapid.IntRange(0, 3).Draw(t, "mlclass")
	if c.Cfg.mode() == 2 {
		mlClass = 1 // disabled mode: only maxLinks can shard
	}
	if mlClass <= 1 {
		v := len(pick("ml_state")) + rapid.IntRange(-1, 1).Draw(t, "ml_delta")
		if v < 1 {
			v = 1
		}
		c.Cfg.MaxLinks = v
	}
	insertFaults(t, &c, states, true)
	return c, states
}

// insertFaults puts, in 60 % of the cases, 1..3 failing copies of add ops into the history, each
// directly BEFORE the add it copies (so the entry sets the fault-free continuation walks through
// stay the ones the thresholds were derived from, whether or not the failing copy takes effect).
// In a dynamic directory the first one goes, when there is one, in front of an add that crosses
// the documented sharding rule upwards: the only AddChild of a basic directory that writes to
// the DAG service.
func insertFaults(t *rapid.T, c *Case, states []map[string]entry, dynamic bool) {
	cls := rapid.IntRange(0, 9).Draw(t, "faultclass")
	if cls < 4 {
		return
	}
	var adds, ups []int
	for i, op := range c.Ops {
		if op.Kind != "add" {
			continue
		}
		adds = append(adds, i)
		if dynamic && !rule(c.Cfg, states[i]) && rule(c.Cfg, states[i+1]) {
			ups = append(ups, i)
		}
	}
	if len(adds) == 0 {
		return
	}
	at := map[int]int{}
	n := rapid.IntRange(1, 3).Draw(t, "nfaults")
	for k := 0; k < n; k++ {
		src := adds
		if k == 0 && cls < 9 && len(ups) > 0 {
			src = ups
		}
		i := rapid.SampledFrom(src).Draw(t, "fault_at")
		at[i] = rapid.SampledFrom([]int{1, 1, 1, 1, 2}).Draw(t, "fault_call")
	}
	ops := make([]Op, 0, len(c.Ops)+len(at))
	for i, op := range c.Ops {
		if k, ok := at[i]; ok {
			ops = append(ops, Op{Kind: "add", Name: op.Name, Child: op.Child, FailAdd: k})
		}
		ops = append(ops, op)
	}
	c.Ops = ops
}

func genDynamic(t *rapid.T) Case { c, _ := genCommon(t, false); return c }
func genHamt(t *rapid.T) Case    { c, _ := genCommon(t, true); return c }

// ---------------------------------------------------------------------------
// SUT helpers

func dirOpts(cfg Config, withLimits bool) []uio.DirectoryOption {
	var opts []uio.DirectoryOption
	m, mt := cfg.stat()
	if m != 0 || !mt.IsZero() {
		opts = append(opts, uio.WithStat(m, mt))
	}
	if cfg.CidV1 {
		opts = append(opts, uio.WithCidBuilder(cid.V1Builder{Codec: cid.DagProtobuf, MhType: mh.SHA2_256}))
	}
	if cfg.Width != 0 {
		opts = append(opts, uio.WithMaxHAMTFanout(cfg.Width))
	}
	if cfg.SizeMode >= 0 {
		opts = append(opts, uio.WithSizeEstimationMode(uio.SizeEstimationMode(cfg.SizeMode)))
	}
	if withLimits && cfg.MaxLinks > 0 {
		opts = append(opts, uio.WithMaxLinks(cfg.MaxLinks))
	}
	return opts
}

func newDynamic(ds ipld.DAGService, cfg Config) (uio.Directory, error) {
	d, err := uio.NewDirectory(ds, dirOpts(cfg, true)...)
	if err != nil {
		return nil, err
	}
	if cfg.Threshold > 0 {
		d.SetHAMTShardingSize(cfg.Threshold) // per-directory threshold, set the way mfs sets it
	}
	return d, nil
}

func width(cfg Config) int {
	if cfg.Width == 0 {
		return 256
	}
	return cfg.Width
}

func isHAMT(d uio.Directory) bool {
	switch x := d.(type) {
	case *uio.HAMTDirectory:
		return true
	case *uio.DynamicDirectory:
		_, ok := x.Directory.(*uio.HAMTDirectory)
		return ok
	}
	return false
}

// canonical: fresh directory of the same kind and configuration, entries added in sorted order.
func canonical(ctx context.Context, ds ipld.DAGService, cfg Config, pureHAMT bool, s map[string]entry, children []childInfo) (cid.Cid, bool, error) {
	var d uio.Directory
	var err error
	if pureHAMT {
		d, err = uio.NewHAMTDirectory(ds, 0, dirOpts(cfg, false)...)
	} else {
		d, err = newDynamic(ds, cfg)
	}
	if err != nil {
		return cid.Undef, false, err
	}
	var names []string
	for n := range s {
		names = append(names, n)
	}
	sort.Strings(names)
	for _, n := range names {
		if err := d.AddChild(ctx, n, children[s[n].ci].nd); err != nil {
			return cid.Undef, false, fmt.Errorf("canonical build: AddChild(%q): %v", n, err)
		}
	}
	nd, err := d.GetNode()
	if err != nil {
		return cid.Undef, false, err
	}
	return nd.Cid(), isHAMT(d), nil
}

func validCase(c Case) bool {
	switch c.Cfg.Width {
	case 0, 8, 16, 32, 64, 128, 256, 512, 1024:
	default:
		return false
	}
	if len(c.Children) == 0 || c.Cfg.Perm > 0o7777 || c.Cfg.Nsec < 0 || c.Cfg.Nsec > 999999999 || c.Cfg.SizeMode < -1 || c.Cfg.SizeMode > 2 ||
		c.Cfg.Threshold < 0 || c.Cfg.MaxLinks < 0 {
		return false
	}
	for _, op := range c.Ops {
		if op.Name == "" || op.Child < 0 || op.Child >= len(c.Children) || (op.Kind != "add" && op.Kind != "remove") {
			return false
		}
		if op.FailAdd < 0 || (op.FailAdd > 0 && op.Kind != "add") {
			return false
		}
	}
	return true
}

// ---------------------------------------------------------------------------
// dynamic

func runDynamic(c Case) kit.Result {
	if !validCase(c) {
		return kit.Result{}
	}
	cfg := c.Cfg
	if cfg.Threshold > 0 && cfg.Threshold < estSize(cfg, nil) {
		return kit.Result{} // threshold below the size of the empty directory: outside the domain
	}
	ctx := context.Background()
	ds := &faultDAG{DAGService: mdtest.Mock()}
	children := makeChildren(c.Children)
	for _, ch := range children {
		if err := ds.Add(ctx, ch.nd); err != nil {
			return kit.Result{Err: fmt.Errorf("harness: %v", err)}
		}
	}
	dir, err := newDynamic(ds, cfg)
	if err != nil {
		return kit.Fail("NewDirectory: %v", err)
	}
	model := map[string]entry{}
	// replica of the bookkeeping the size-change gate uses (only to RECOGNISE finding
	// F8-hysteresis, never to accept a state the documented rule rejects without reporting it):
	// net links-size change since the directory became a HAMT
	sc := 0
	unit := func(name string, e entry) int {
		if cfg.mode() == 1 {
			return blockLinkSize(name, e)
		}
		return linksSize(name, e.c)
	}
	toHAMT, toBasic, replaces := 0, 0, 0
	addDown := 0
	faultFired, faultAtUp, faultNoWrite := 0, 0, 0

	for i, op := range c.Ops {
		when := fmt.Sprintf("op %d %s(%q)", i, op.Kind, op.Name)
		wasHAMT := isHAMT(dir)
		old, had := model[op.Name]
		opChange := 0 // in the units of the configured estimation mode
		if had {
			opChange -= unit(op.Name, old)
		}
		var ne entry
		// applied: the op changed the entry set as asked. false only for an AddChild that returned
		// the injected write error and left the reported entries as they were.
		applied := true
		failed := false
		switch op.Kind {
		case "add":
			ch := children[op.Child]
			ne = entry{ch.nd.Cid(), ch.size, op.Child}
			opChange += unit(op.Name, ne)
			ds.arm(op.FailAdd)
			err := dir.AddChild(ctx, op.Name, ch.nd)
			fired := ds.fired
			ds.arm(0)
			if op.FailAdd > 0 && !fired {
				faultNoWrite++
			}
			if err != nil {
				if !fired {
					return kit.Fail("%s: AddChild: %v", when, err)
				}
				// the injected DAG write failure surfaced: a failed edit. The directory's own
				// listing says what its entry set is now.
				when = fmt.Sprintf("op %d add(%q) that FAILED on injected DAGService.Add error (call %d)", i, op.Name, op.FailAdd)
				failed = true
				faultFired++
				var m2 map[string]entry
				if !wasHAMT {
					m2 = map[string]entry{}
					for k, v := range model {
						m2[k] = v
					}
					m2[op.Name] = ne
					if rule(cfg, m2) {
						faultAtUp++
					}
				}
				var judged bool
				applied, judged, err = afterFailedAdd(ctx, dir, model, op.Name, ne)
				if err != nil {
					return kit.Fail("%s: Links(): %v", when, err)
				}
				if !judged {
					return kit.Result{Classes: []string{"failed-add-left-other-entry-set(not judged)"}}
				}
			}
			if applied {
				if had {
					replaces++
				}
				model[op.Name] = ne
			} else {
				had, opChange = false, 0
			}
		case "remove":
			if !had {
				continue // generator never removes a missing name; ignore in hand-written cases
			}
			if err := dir.RemoveChild(ctx, op.Name); err != nil {
				return kit.Fail("%s: RemoveChild: %v", when, err)
			}
			delete(model, op.Name)
		}
		nowHAMT := isHAMT(dir)
		gateOpen := wasHAMT && cfg.mode() != 2 && sc+opChange < 0
		// gate bookkeeping replica
		switch {
		case !wasHAMT && nowHAMT:
			sc = 0
			if had {
				sc -= linksSize(op.Name, old.c)
			}
			if applied {
				sc += linksSize(op.Name, ne.c)
			}
			toHAMT++
		case wasHAMT && nowHAMT:
			if had {
				sc -= linksSize(op.Name, old.c)
			}
			if op.Kind == "add" && applied {
				sc += linksSize(op.Name, ne.c)
			}
		case wasHAMT && !nowHAMT:
			sc = 0
			toBasic++
			if op.Kind == "add" {
				addDown++
			}
		}

		// (1) configured limits stay in force
		if got := dir.GetHAMTShardingSize(); got != cfg.Threshold {
			err := fmt.Errorf("%s: GetHAMTShardingSize()=%d, configured %d (HAMT before=%v after=%v)", when, got, cfg.Threshold, wasHAMT, nowHAMT)
			if got == 0 && op.Kind == "add" && wasHAMT && !nowHAMT {
				// exactly: lost on the AddChild HAMT->basic conversion
				return kit.Result{Err: err, Known: "F8-threshold-propagation"}
			}
			return kit.Result{Err: err}
		}
		if got := dir.GetMaxLinks(); got != cfg.MaxLinks {
			return kit.Fail("%s: GetMaxLinks()=%d, configured %d (HAMT before=%v after=%v)", when, got, cfg.MaxLinks, wasHAMT, nowHAMT)
		}
		// (2) sharded <=> documented rule
		want := rule(cfg, model)
		if nowHAMT != want {
			thr := cfg.Threshold
			if thr == 0 {
				thr = globalThreshold
			}
			err := fmt.Errorf("%s: directory is HAMT=%v but the documented rule gives HAMT=%v: estimated size %d vs threshold %d (mode %d), %d entries vs maxLinks %d; was HAMT before the op: %v",
				when, nowHAMT, want, estSize(cfg, model), thr, cfg.mode(), len(model), cfg.MaxLinks, wasHAMT)
			if applied && !nowHAMT && want && wasHAMT && cfg.mode() != 2 && !(cfg.MaxLinks > 0 && len(model) > cfg.MaxLinks) {
				// converted HAMT->basic although the resulting size is above the threshold. Known
				// signature: needsToSwitchToBasicDir sizes the entry to be removed with its
				// shard-internal link name (hex prefix of the fanout included: over-counted by
				// padlen bytes) and the entry to be added with an empty name (under-counted by
				// len(name)), so the conversion happens up to that many bytes above the threshold.
				padlen := len(fmt.Sprintf("%X", width(cfg)-1))
				slack := padlen
				if op.Kind == "add" {
					slack += len(op.Name)
				}
				if cfg.mode() == 1 {
					slack += 2 // a longer name can also push the name-length and link-length varints over a boundary
				}
				if over := estSize(cfg, model) - thr; over > 0 && over <= slack {
					return kit.Result{Err: err, Known: "downconv-size-miscount"}
				}
			}
			if applied && cfg.mode() != 2 && nowHAMT && !want && wasHAMT && !gateOpen {
				// stayed HAMT although the current set belongs in a basic directory, and the
				// size-change gate (net size change since the conversion >= 0) kept the code from
				// even looking: the confirmed history dependence
				return kit.Result{Err: err, Known: "F8-hysteresis"}
			}
			return kit.Result{Err: err}
		}
		// (3) root CID == canonical build of the current set
		if c.EveryStep || failed || i == len(c.Ops)-1 {
			nd, err := dir.GetNode()
			if err != nil {
				return kit.Fail("%s: GetNode: %v", when, err)
			}
			ccid, chamt, err := canonical(ctx, ds, cfg, false, model, children)
			if err != nil {
				return kit.Fail("%s: %v", when, err)
			}
			if chamt != want {
				return kit.Fail("%s: canonical fresh build of the %d entries is HAMT=%v, documented rule gives %v", when, len(model), chamt, want)
			}
			if !nd.Cid().Equals(ccid) {
				return kit.Fail("%s: root CID %s after this history, %s for a fresh sorted build of the same %d entries (HAMT=%v)", when, nd.Cid(), ccid, len(model), nowHAMT)
			}
		}
	}
	cls := []string{fmt.Sprintf("mode:%d", cfg.mode())}
	if cfg.Threshold > 0 {
		cls = append(cls, "threshold-set")
	}
	if cfg.MaxLinks > 0 {
		cls = append(cls, "maxlinks-set")
	}
	if toHAMT > 0 {
		cls = append(cls, "basic->hamt")
	}
	if toBasic > 0 {
		cls = append(cls, "hamt->basic")
	}
	if addDown > 0 {
		cls = append(cls, "hamt->basic-by-AddChild")
	}
	if toHAMT > 1 {
		cls = append(cls, "resharded-after-downconversion")
	}
	if replaces > 0 {
		cls = append(cls, "replace")
	}
	if c.EveryStep {
		cls = append(cls, "cid-every-step")
	}
	if faultFired > 0 {
		cls = append(cls, "add-failed-on-injected-write-error")
	}
	if faultAtUp > 0 {
		cls = append(cls, "add-failed-at-basic->hamt-boundary")
	}
	if faultNoWrite > 0 {
		cls = append(cls, "fault-armed-but-no-write-issued")
	}
	return kit.Result{NonTrivial: (toHAMT > 0 && toBasic > 0) || faultAtUp > 0, Classes: cls}
}

var dynSpec = kit.Spec[Case]{
	Prop: "C16", Name: "dynamic",
	Rule:  "dynamic directory; history of <=36 (thorough 40) adds/replacements/removals over colliding + general names and targets with CID lengths 24..68 bytes; per-directory threshold = estimated size of one of the history's own intermediate entry sets + {-1,0,+1} in the configured estimation mode, maxLinks = size of one intermediate set + {-1,0,+1}; after every op: HAMT <=> documented rule on the current set (size computed independently), GetHAMTShardingSize/GetMaxLinks == configured, root CID == canonical sorted fresh build; 60% of the cases carry 1..3 AddChild calls whose DAGService.Add fails (placed before the add that crosses the boundary upwards, and before other adds; retried without fault): the same three clauses are demanded after the failed call for the entry set the directory then lists; non-trivial = the history crossed the sharding boundary in both directions, or an injected write failure hit the AddChild that converts basic->HAMT",
	Quick: 3000, Thorough: 15000,
	Gen: genDynamic, Run: runDynamic,
	Sample: func(c Case) any {
		return map[string]any{"cfg": c.Cfg, "n_ops": len(c.Ops), "every_step": c.EveryStep}
	},
}

func TestPropDynamic(t *testing.T) { kit.All(t, dynSpec) }

// ---------------------------------------------------------------------------
// pure HAMT

func runHamt(c Case) kit.Result {
	if !validCase(c) {
		return kit.Result{}
	}
	cfg := c.Cfg
	ctx := context.Background()
	ds := &faultDAG{DAGService: mdtest.Mock()}
	children := makeChildren(c.Children)
	for _, ch := range children {
		if err := ds.Add(ctx, ch.nd); err != nil {
			return kit.Result{Err: fmt.Errorf("harness: %v", err)}
		}
	}
	dir, err := uio.NewHAMTDirectory(ds, 0, dirOpts(cfg, false)...)
	if err != nil {
		return kit.Fail("NewHAMTDirectory: %v", err)
	}
	width := width(cfg)
	model := map[string]entry{}
	names := func() []string {
		var s []string
		for n := range model {
			s = append(s, n)
		}
		return s
	}
	collapses, maxShards, faultFired := 0, 0, 0
	for i, op := range c.Ops {
		when := fmt.Sprintf("op %d %s(%q)", i, op.Kind, op.Name)
		failed := false
		switch op.Kind {
		case "add":
			ch := children[op.Child]
			ne := entry{ch.nd.Cid(), ch.size, op.Child}
			ds.arm(op.FailAdd)
			err := dir.AddChild(ctx, op.Name, ch.nd)
			fired := ds.fired
			ds.arm(0)
			applied := true
			if err != nil {
				if !fired {
					return kit.Fail("%s: AddChild: %v", when, err)
				}
				when = fmt.Sprintf("op %d add(%q) that FAILED on injected DAGService.Add error (call %d)", i, op.Name, op.FailAdd)
				failed = true
				faultFired++
				var judged bool
				applied, judged, err = afterFailedAdd(ctx, dir, model, op.Name, ne)
				if err != nil {
					return kit.Fail("%s: Links(): %v", when, err)
				}
				if !judged {
					return kit.Result{Classes: []string{"failed-add-left-other-entry-set(not judged)"}}
				}
			}
			if applied {
				model[op.Name] = ne
			}
		case "remove":
			if _, had := model[op.Name]; !had {
				continue
			}
			before := kit.HamtShardCount(names(), width)
			if err := dir.RemoveChild(ctx, op.Name); err != nil {
				return kit.Fail("%s: RemoveChild: %v", when, err)
			}
			delete(model, op.Name)
			if kit.HamtShardCount(names(), width) < before {
				collapses++
			}
		}
		if n := kit.HamtShardCount(names(), width); n > maxShards {
			maxShards = n
		}
		if c.EveryStep || failed || i == len(c.Ops)-1 {
			nd, err := dir.GetNode()
			if err != nil {
				return kit.Fail("%s: GetNode: %v", when, err)
			}
			ccid, _, err := canonical(ctx, ds, cfg, true, model, children)
			if err != nil {
				return kit.Fail("%s: %v", when, err)
			}
			if !nd.Cid().Equals(ccid) {
				return kit.Fail("%s: HAMT root CID %s after this history, %s for a fresh sorted build of the same %d entries (fanout %d)", when, nd.Cid(), ccid, len(model), width)
			}
		}
	}
	cls := []string{fmt.Sprintf("width:%d", width)}
	if collapses > 0 {
		cls = append(cls, "shard-collapse")
	}
	switch {
	case maxShards >= 5:
		cls = append(cls, "subshards>=5")
	case maxShards >= 1:
		cls = append(cls, "subshards:1-4")
	default:
		cls = append(cls, "no-subshards")
	}
	if c.EveryStep {
		cls = append(cls, "cid-every-step")
	}
	if faultFired > 0 {
		cls = append(cls, "add-failed-on-injected-write-error")
	}
	return kit.Result{NonTrivial: collapses > 0, Classes: cls}
}

var hamtSpec = kit.Spec[Case]{
	Prop: "C16", Name: "hamt",
	Rule:  "pure HAMT directory, fanout 8..1024; same histories; root CID == canonical sorted fresh build after every op (or at the end) and after every AddChild that failed on an injected DAGService.Add error (for the entry set then listed); non-trivial = a removal collapsed a sub-shard (model shard count decreased)",
	Quick: 1500, Thorough: 6000,
	Gen: genHamt, Run: runHamt,
	Sample: func(c Case) any {
		return map[string]any{"cfg": c.Cfg, "n_ops": len(c.Ops), "every_step": c.EveryStep}
	},
}

func TestPropHamt(t *testing.T) { kit.All(t, hamtSpec) }
