package c10

import (
	"encoding/json"
	"fmt"
	"os"
	"testing"
	"time"
)

func TestZZ(t *testing.T) {
	if os.Getenv("ZZ_CASE") == "" {
		t.Skip()
	}
	b, _ := os.ReadFile(os.Getenv("ZZ_CASE"))
	var d struct{ Case Case `json:"case"` }
	if err := json.Unmarshal(b, &d); err != nil {
		t.Fatal(err)
	}
	done := make(chan string, 1)
	go func() { r := run(d.Case); done <- fmt.Sprintf("err=%v known=%q classes=%v", r.Err, r.Known, r.Classes) }()
	select {
	case s := <-done:
		fmt.Println("RESULT", s)
	case <-time.After(10 * time.Second):
		fmt.Println("RESULT HANG")
	}
}
