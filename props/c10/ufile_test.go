package c10

// Small UnixFS file-building helper (identical copy in props/c09; kept local on purpose so
// that the package does not depend on other builders' kit extensions).

import (
	"bytes"
	"context"
	"fmt"

	chunker "github.com/ipfs/boxo/chunker"
	mdag "github.com/ipfs/boxo/ipld/merkledag"
	mdagmock "github.com/ipfs/boxo/ipld/merkledag/test"
	ft "github.com/ipfs/boxo/ipld/unixfs"
	"github.com/ipfs/boxo/ipld/unixfs/importer/balanced"
	h "github.com/ipfs/boxo/ipld/unixfs/importer/helpers"
	"github.com/ipfs/boxo/ipld/unixfs/importer/trickle"
	cid "github.com/ipfs/go-cid"
	cidutil "github.com/ipfs/go-cidutil"
	ipld "github.com/ipfs/go-ipld-format"
	mh "github.com/multiformats/go-multihash"
	"pgregory.net/rapid"
)

// DataSpec describes file content compactly (so that MiB-sized files stay small in the
// case JSON). Kind: 0 constant, 1 periodic, 2 xorshift pseudo random.
type DataSpec struct {
	Len    int    `json:"len"`
	Kind   int    `json:"kind"`
	Const  byte   `json:"const,omitempty"`
	Period []byte `json:"period,omitempty"`
	Seed   uint64 `json:"seed,omitempty"`
}

func (d DataSpec) Bytes() []byte {
	b := make([]byte, d.Len)
	switch d.Kind {
	case 0:
		for i := range b {
			b[i] = d.Const
		}
	case 1:
		p := d.Period
		if len(p) == 0 {
			p = []byte{1}
		}
		for i := range b {
			b[i] = p[i%len(p)]
		}
	default:
		s := d.Seed
		if s == 0 {
			s = 1
		}
		for i := range b {
			s ^= s << 13
			s ^= s >> 7
			s ^= s << 17
			b[i] = byte(s >> 24)
		}
	}
	return b
}

// genData draws content of length n: mostly position-revealing pseudo random bytes.
func genData(t *rapid.T, n int) DataSpec {
	d := DataSpec{Len: n}
	switch rapid.IntRange(0, 9).Draw(t, "content") {
	case 0:
		d.Kind = 0
		d.Const = rapid.Byte().Draw(t, "const")
	case 1, 2:
		d.Kind = 1
		d.Period = rapid.SliceOfN(rapid.Byte(), 2, 7).Draw(t, "period")
	default:
		d.Kind = 2
		d.Seed = rapid.Uint64Min(1).Draw(t, "seed")
	}
	return d
}

// FileSpec describes how a UnixFS file DAG is built.
type FileSpec struct {
	// balanced | trickle : real importers with a size splitter;
	// single-pb : one dag-pb UnixFS leaf (File type) holding all data;
	// single-raw : one raw node holding all data.
	Layout    string `json:"layout"`
	Width     int    `json:"width"`      // max links per node (importers)
	Chunk     int    `json:"chunk"`      // size splitter chunk size (importers)
	RawLeaves bool   `json:"raw_leaves"` // importers
	// CID prefix: version 0/1, hash function; codec is chosen by the builders.
	CidV1  bool   `json:"cid_v1"`
	MhType uint64 `json:"mh_type"`
	// Inline > 0: blocks of at most Inline bytes get identity-hash CIDs (as `ipfs add --inline`).
	// For single-* layouts Inline > 0 means the node itself has an identity CID.
	Inline int      `json:"inline,omitempty"`
	Data   DataSpec `json:"data"`
}

func (f FileSpec) builder() cid.Builder {
	var b cid.Builder
	if !f.CidV1 {
		b = cid.V0Builder{}
	} else {
		b = cid.V1Builder{Codec: cid.DagProtobuf, MhType: f.MhType, MhLength: -1}
	}
	if f.Inline > 0 && (f.Layout == "single-pb" || f.Layout == "single-raw") {
		return cid.V1Builder{Codec: cid.DagProtobuf, MhType: mh.IDENTITY, MhLength: -1}
	}
	if f.Inline > 0 {
		if !f.CidV1 {
			b = cid.V1Builder{Codec: cid.DagProtobuf, MhType: mh.SHA2_256, MhLength: -1}
		}
		b = cidutil.InlineBuilder{Builder: b, Limit: f.Inline}
	}
	return b
}

func newMemDAG() ipld.DAGService { return mdagmock.Mock() }

func sizeSplitter(data []byte, chunk int) chunker.Splitter {
	return chunker.NewSizeSplitter(bytes.NewReader(data), int64(chunk))
}

// buildFile builds the file in ds and returns its root.
func buildFile(ctx context.Context, ds ipld.DAGService, f FileSpec) (ipld.Node, error) {
	data := f.Data.Bytes()
	switch f.Layout {
	case "balanced", "trickle":
		dbp := h.DagBuilderParams{Dagserv: ds, Maxlinks: f.Width, RawLeaves: f.RawLeaves, CidBuilder: f.builder()}
		db, err := dbp.New(sizeSplitter(data, f.Chunk))
		if err != nil {
			return nil, err
		}
		if f.Layout == "balanced" {
			return balanced.Layout(db)
		}
		return trickle.Layout(db)
	case "single-pb":
		nd := mdag.NodeWithData(ft.FilePBData(data, uint64(len(data))))
		if err := nd.SetCidBuilder(f.builder()); err != nil {
			return nil, err
		}
		if err := ds.Add(ctx, nd); err != nil {
			return nil, err
		}
		return nd, nil
	case "single-raw":
		nd, err := mdag.NewRawNodeWPrefix(data, f.builder())
		if err != nil {
			return nil, err
		}
		if err := ds.Add(ctx, nd); err != nil {
			return nil, err
		}
		return nd, nil
	}
	return nil, fmt.Errorf("harness: unknown layout %q", f.Layout)
}

// dagInfo is the result of an independent walk of a file DAG (no DagReader, no use of
// the size bookkeeping): the concatenated leaf data, the leaf boundaries and the depth.
type dagInfo struct {
	Content []byte
	Bounds  []int64 // start offset of every leaf, plus total length as last element
	Depth   int     // 0 = single node
	Leaves  int
	// InternalData: number of bytes of inline UnixFS Data found on nodes that also have
	// links (the importers never produce that; readers skip such data).
	InternalData int
}

func walkFile(ctx context.Context, ds ipld.NodeGetter, root ipld.Node) (*dagInfo, error) {
	di := &dagInfo{}
	var rec func(n ipld.Node, depth int) error
	rec = func(n ipld.Node, depth int) error {
		if depth > di.Depth {
			di.Depth = depth
		}
		switch nd := n.(type) {
		case *mdag.RawNode:
			di.Bounds = append(di.Bounds, int64(len(di.Content)))
			di.Content = append(di.Content, nd.RawData()...)
			di.Leaves++
			return nil
		case *mdag.ProtoNode:
			fsn, err := ft.FSNodeFromBytes(nd.Data())
			if err != nil {
				return err
			}
			if len(nd.Links()) == 0 {
				di.Bounds = append(di.Bounds, int64(len(di.Content)))
				di.Content = append(di.Content, fsn.Data()...)
				di.Leaves++
				return nil
			}
			di.InternalData += len(fsn.Data())
			for _, l := range nd.Links() {
				c, err := l.GetNode(ctx, ds)
				if err != nil {
					return err
				}
				if err := rec(c, depth+1); err != nil {
					return err
				}
			}
			return nil
		}
		return fmt.Errorf("harness: unexpected node type %T", n)
	}
	if err := rec(root, 0); err != nil {
		return nil, err
	}
	di.Bounds = append(di.Bounds, int64(len(di.Content)))
	return di, nil
}

// genFile draws a file spec with content length in [0,maxLen].
// Chunk sizes are tiny and widths small so that a few hundred bytes already give several
// levels of internal nodes; the number of leaves is bounded by maxLeaves.
func genFile(t *rapid.T, maxLen, maxLeaves int, bigChunks bool) FileSpec {
	f := FileSpec{}
	var n int
	// (rapid favours small draws, so the common classes come first)
	switch rapid.IntRange(0, 11).Draw(t, "sizeclass") {
	case 11:
		n = 0
	case 10:
		n = rapid.IntRange(1, 3).Draw(t, "n")
	case 0, 1, 2, 3:
		n = rapid.IntRange(1, min(200, maxLen)).Draw(t, "n")
	default:
		n = rapid.IntRange(1, maxLen).Draw(t, "n")
	}
	f.Data = genData(t, n)
	switch rapid.IntRange(0, 13).Draw(t, "layout") {
	case 13:
		f.Layout = "single-pb"
	case 12:
		f.Layout = "single-raw"
	case 0, 1, 2, 3, 4, 5:
		f.Layout = "balanced"
	default:
		f.Layout = "trickle"
	}
	f.CidV1 = rapid.Bool().Draw(t, "cidv1")
	f.MhType = mh.SHA2_256
	if f.CidV1 {
		f.MhType = rapid.SampledFrom([]uint64{mh.SHA2_256, mh.SHA2_256, mh.BLAKE2B_MIN + 31, mh.SHA2_512}).Draw(t, "mh")
	}
	if rapid.IntRange(0, 5).Draw(t, "inline") == 5 {
		f.Inline = rapid.SampledFrom([]int{1, 8, 32, 64}).Draw(t, "inline_limit")
	}
	if f.Layout == "single-pb" || f.Layout == "single-raw" {
		if f.Inline > 0 && n > 100 {
			// an identity CID must stay below the 128 byte digest limit
			f.Data.Len = 100
		}
		return f
	}
	f.Width = rapid.SampledFrom([]int{2, 3, 2, 4, 3, 5, 8, 174, 6, 7}).Draw(t, "width")
	f.RawLeaves = rapid.Bool().Draw(t, "rawleaves")
	minChunk := (n + maxLeaves - 1) / maxLeaves
	if minChunk < 1 {
		minChunk = 1
	}
	if bigChunks && n > 65536 {
		f.Chunk = rapid.SampledFrom([]int{4096, 65536, 262144}).Draw(t, "chunk")
	} else {
		f.Chunk = rapid.SampledFrom([]int{4, 3, 5, 8, 7, 16, 2, 13, 32, 1, 64, 6, 9, 24, 48}).Draw(t, "chunk")
	}
	if f.Chunk < minChunk {
		f.Chunk = minChunk
	}
	return f
}
