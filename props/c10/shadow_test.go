package c10

import "verif/kit"

// Shadow of the DagModifier's position bookkeeping (writeStart / curWrOff / pending buffer /
// cached reader), written from the code. It is NEVER used to accept or reject an
// observation - the oracle is the admissible-state set in prop_test.go. It only decides,
// after the oracle has already failed, whether the history had met the trigger pattern of
// one of the known findings (known_findings.d/C10-*.json), so that such a failure is counted
// as "excluded by known finding <key>" and everything else is still reported as a violation.
//
// Trigger patterns (key: pattern; how long it stays attributable):
//   seekend-sign          Seek(off != 0, SeekEnd); the same op only
//   seek-negative         Seek returns (negative offset, nil); the same op only. With a cached
//                         reader the call fails (the reader refuses) but the modifier's
//                         cursor has already been set to the negative value; rest of case
//   writeat-short-overlay WriteAt(b, off), off == start of the pending buffer, 0 < len(b) <
//                         buffered length (b is appended instead of overwriting); rest of case
//   read-then-write       a Read/CtxReadFull that returned n > 0, then Write (or WriteAt at
//                         the cursor) with no Seek in between: the data lands where the read
//                         started; rest of case
//   writeat-cursor        WriteAt at off != cursor moves the position of following Writes to
//                         off+n but leaves the cursor used by Read/Seek at old+n; until the
//                         next successful Seek with SeekStart/SeekEnd, or for the rest of
//                         the case once a write was buffered in that state
//   stale-reader          Truncate or a Seek beyond EOF changes the DAG while a reader from
//                         an earlier Read is cached; until the reader is dropped (next
//                         write or flush of buffered data)

type shadow struct {
	ws, cur int64 // writeStart, curWrOff
	buf     bool
	bufLen  int64
	reader  bool
	readAdv bool // a read advanced curWrOff past writeStart and no Seek happened since
	// hangRisk: a shrinking Truncate rewrote (in place) the root node that the cached
	// reader's walker still iterates; the next Read on it can spin forever in
	// ipld.Walker.Iterate (child index beyond the new link count).
	hangRisk bool
	size     int64 // last observed Size()

	open      map[string]bool // finding key -> listed as open
	sameOp    string
	permanent string
	window    map[string]bool
}

// newShadow: for a finding that is not (or no longer) listed as open the shadow follows the
// repaired bookkeeping (fixes/C10-<key>.patch), so that it stays in step with the modifier
// and the remaining open findings are still attributed correctly.
func newShadow(size int64) *shadow {
	s := &shadow{size: size, window: map[string]bool{}, open: map[string]bool{}}
	for _, k := range []string{"seekend-sign", "seek-negative", "writeat-short-overlay", "read-then-write", "writeat-cursor", "stale-reader", "append-to-pb-leaf"} {
		s.open[k] = kit.OpenFinding("C10", k)
	}
	return s
}

func (s *shadow) fire(key string) {
	if s.permanent == "" && s.open[key] {
		s.permanent = key
	}
}

// landing is the file offset at which the next buffered byte will be stored.
func (s *shadow) landing() int64 {
	if s.buf {
		return s.ws + s.bufLen
	}
	return s.ws
}

// misplaced is called for a write of ln bytes that the modifier appends to its buffer
// believing it continues at the cursor. If buffer position and cursor have come apart the
// bytes are stored in the wrong place for good.
func (s *shadow) misplaced(ln int64) {
	// (an empty write counts too: the empty buffer at the wrong offset shows in Size()
	// and makes the next flush zero-extend the file up to that offset)
	if s.readAdv {
		s.fire("read-then-write")
	} else if s.landing() != s.cur && s.window["writeat-cursor"] {
		s.fire("writeat-cursor")
	}
}

func (s *shadow) sync() {
	if !s.buf {
		return
	}
	if s.reader {
		s.reader = false
		s.hangRisk = false
		delete(s.window, "stale-reader")
	}
	s.ws += s.bufLen
	s.buf = false
}

func (s *shadow) write(n int64) {
	s.reader = false
	s.hangRisk = false
	delete(s.window, "stale-reader")
	if !s.buf {
		s.buf, s.bufLen = true, 0
	}
	s.bufLen += n
	s.cur += n
}

// step is called after the modifier executed op (n = bytes returned by a read, ok = the
// call returned a nil error (EOF counts as ok for reads)), before the oracle looks at it.
// negTarget: a Seek returned a negative offset together with a nil error.
func (s *shadow) step(op Op, n int, ok bool, negTarget bool) {
	s.sameOp = ""
	ln := int64(len(op.Data))
	switch op.Kind {
	case "write":
		s.misplaced(ln)
		s.write(ln)
	case "writeat":
		if !s.open["writeat-cursor"] {
			// repaired WriteAt: continue the buffer, replace it, or flush and re-base;
			// the cursor always moves to off
			switch {
			case s.buf && op.Off == s.ws+s.bufLen:
			case s.buf && op.Off == s.ws && ln >= s.bufLen:
				s.bufLen = 0
			default:
				s.sync()
				s.ws = op.Off
				s.readAdv = false
			}
			s.cur = op.Off
			s.write(ln)
			return
		}
		switch {
		case op.Off == s.ws && s.buf && (ln >= s.bufLen || s.open["writeat-short-overlay"]):
			if ln >= s.bufLen {
				s.bufLen = 0
			} else if ln > 0 {
				s.fire("writeat-short-overlay")
			}
		case op.Off != s.cur:
			s.sync()
			s.ws = op.Off
			s.readAdv = false // following writes chain from off
		default:
			s.misplaced(ln)
		}
		s.write(ln)
		if s.landing() != s.cur {
			// the next Write lands at off+n, the cursor (Read, Seek(SeekCurrent)) is old+n
			s.window["writeat-cursor"] = true
		}
	case "seek":
		s.sync()
		if op.Whence == 2 && op.Off != 0 {
			s.sameOp = "seekend-sign"
		} else if negTarget {
			s.sameOp = "seek-negative"
		}
		if op.Whence < 0 || op.Whence > 2 {
			return
		}
		var no int64
		switch op.Whence {
		case 0:
			no = op.Off
		case 1:
			no = s.cur + op.Off
		case 2:
			no = s.size - op.Off
			if !s.open["seekend-sign"] {
				no = s.size + op.Off
			}
		}
		if !ok {
			// the only error path after the whence check is the cached reader refusing
			// the (negative) target - after the modifier has already moved its cursor
			if s.reader && no < 0 && s.open["seek-negative"] {
				s.fire("seek-negative")
				s.cur, s.ws = no, no
			}
			return
		}
		if no > s.size && s.reader {
			if s.open["stale-reader"] {
				s.window["stale-reader"] = true
			} else {
				s.reader = false
			}
		}
		s.cur, s.ws = no, no
		s.readAdv = false
		// (hangRisk stays: the reader's Seek returns early, keeping its walker, when the
		// target equals its current offset)
		if op.Whence != 1 {
			delete(s.window, "writeat-cursor")
		}
	case "read", "readfull":
		s.sync()
		s.reader = true
		s.cur += int64(n)
		if n > 0 {
			s.readAdv = true
		}
	case "truncate":
		s.sync()
		if op.Off != s.size && s.reader {
			if s.open["stale-reader"] {
				s.window["stale-reader"] = true
				if op.Off < s.size {
					s.hangRisk = true
				}
			} else {
				s.reader = false
			}
		}
	case "sync", "getnode":
		s.sync()
	}
}

// known returns the finding key a failure at this point is attributed to ("" = none).
func (s *shadow) known() string {
	if s.sameOp != "" {
		return s.sameOp
	}
	if s.permanent != "" {
		return s.permanent
	}
	for _, k := range []string{"stale-reader", "writeat-cursor"} {
		if s.window[k] {
			return k
		}
	}
	return ""
}
