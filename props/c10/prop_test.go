package c10

// C10: the DagModifier behaves as a mutable file.
//
// Oracle: a SET of admissible byte-array file states (content, cursor). Every operation is
// applied to every admissible state; states whose prediction contradicts what the modifier
// returned are dropped; an empty set is a violation. Two points are left open because the
// statement and the io contracts leave them open:
//   (a) after WriteAt the cursor is either unchanged (io.WriterAt) or off+n (seek+write);
//   (b) after a Seek beyond EOF (and after a zero-length Write/WriteAt beyond EOF) the size
//       is either unchanged or zero-extended to the target.
// Everything else is deterministic: Write at the cursor (zero filling a gap), Read like a
// byte reader modulo the io.Reader contract, io.Seeker rules for Seek (error for a
// negative target or unknown whence, position then unchanged), Truncate resizes with
// zero fill and keeps the cursor, Size is the content length, GetNode reads back (through
// the DagReader, sequentially and after seeks) as exactly the content.

import (
	"bytes"
	"context"
	"fmt"
	"io"
	"runtime/debug"
	"sort"
	"strings"
	"testing"
	"time"

	chunker "github.com/ipfs/boxo/chunker"
	mdag "github.com/ipfs/boxo/ipld/merkledag"
	uio "github.com/ipfs/boxo/ipld/unixfs/io"
	"github.com/ipfs/boxo/ipld/unixfs/mod"
	ipld "github.com/ipfs/go-ipld-format"
	mh "github.com/multiformats/go-multihash"
	"pgregory.net/rapid"
	"verif/kit"
)

func TestMain(m *testing.M) { kit.Main(m) }

type Op struct {
	Kind   string `json:"k"` // write | writeat | seek | read | readfull | truncate | size | sync | getnode
	Data   []byte `json:"data,omitempty"`
	Off    int64  `json:"off,omitempty"` // writeat offset, seek offset, truncate size
	Whence int    `json:"w,omitempty"`
	N      int    `json:"n,omitempty"` // read buffer length
}

func (o Op) String() string {
	switch o.Kind {
	case "write":
		return fmt.Sprintf("Write(%d bytes)", len(o.Data))
	case "writeat":
		return fmt.Sprintf("WriteAt(%d bytes, %d)", len(o.Data), o.Off)
	case "seek":
		return fmt.Sprintf("Seek(%d, %d)", o.Off, o.Whence)
	case "read":
		return fmt.Sprintf("Read(len %d)", o.N)
	case "readfull":
		return fmt.Sprintf("CtxReadFull(len %d)", o.N)
	case "truncate":
		return fmt.Sprintf("Truncate(%d)", o.Off)
	}
	return o.Kind
}

type Case struct {
	File      FileSpec `json:"file"`
	Width     int      `json:"width"`      // DagModifier.MaxLinks
	Chunk     int      `json:"chunk"`      // size splitter of the modifier
	RawLeaves int      `json:"raw_leaves"` // 0 inherit, 1 true, 2 false (MFS overrides the field)
	// Fallback: for an identity-hash root set Prefix.MhType to sha2-256 as MFS callers do.
	Fallback bool `json:"fallback,omitempty"`
	Ops      []Op `json:"ops"`
}

// ---------------------------------------------------------------------------
// generator

func genBytes(t *rapid.T, label string) []byte {
	var n int
	switch rapid.IntRange(0, 7).Draw(t, label+"_lc") {
	case 7:
		n = 0
	case 6:
		n = 1
	case 5:
		n = 64
	default:
		n = rapid.IntRange(1, 64).Draw(t, label+"_n")
	}
	b := make([]byte, n)
	// position revealing, never zero (zeros are what gaps are filled with)
	s := rapid.Uint32Range(1, 1<<30).Draw(t, label+"_seed")
	for i := range b {
		s = s*1664525 + 1013904223
		b[i] = byte(s>>24) | 1
	}
	return b
}

func gen(t *rapid.T) Case {
	c := Case{}
	c.File = genFile(t, kit.Scale(2048, 4096), 400, false)
	// While a known finding is open its trigger pattern is generated only rarely (about
	// one draw in ten keeps it), so that most cases search the rest of the space instead
	// of ending at the known defect. Frequencies only: the input domain is unchanged, and
	// with the finding closed the pattern is generated at its natural rate.
	avoid := func(key string) bool {
		return kit.OpenFinding("C10", key) && rapid.IntRange(0, 9).Draw(t, "keep_"+key) < 9
	}
	if f := &c.File; f.Data.Len > 0 && (f.Layout == "single-pb" || (f.Layout == "balanced" && !f.RawLeaves && f.Data.Len <= f.Chunk)) {
		// root is a single dag-pb leaf with inline data
		if avoid("append-to-pb-leaf") {
			if f.Layout == "single-pb" {
				f.Layout = "single-raw"
			} else {
				f.RawLeaves = true
			}
		}
	}
	c.Width = rapid.SampledFrom([]int{2, 3, 4, 2, 5, 8, 6, 7}).Draw(t, "width")
	if c.File.Width > 0 {
		// trickle.Append reads the shape of the existing DAG with its own Maxlinks: a file
		// is modified with the width it was built with (as MFS and `ipfs add` share one
		// setting); a narrower modifier width makes Append treat leaves as subtrees.
		c.Width = c.File.Width
	}
	c.Chunk = rapid.SampledFrom([]int{4, 8, 5, 16, 7, 32, 64, 13, 24, 48}).Draw(t, "chunk")
	c.RawLeaves = rapid.IntRange(0, 2).Draw(t, "rawleaves_override")
	c.Fallback = rapid.Bool().Draw(t, "fallback")

	// aiming model (only used to choose interesting offsets)
	size := int64(c.File.Data.Len)
	cur := int64(0)
	pendStart, pendLen := int64(-1), int64(0)
	offset := func(label string) int64 {
		switch rapid.IntRange(0, 9).Draw(t, label+"_class") {
		case 0:
			return 0
		case 1:
			return size
		case 2:
			return cur
		case 3:
			if pendStart >= 0 {
				return pendStart + rapid.Int64Range(0, pendLen).Draw(t, label+"_pend")
			}
			return size + rapid.Int64Range(1, 64).Draw(t, label+"_beyond")
		case 4:
			return size + rapid.Int64Range(1, 64).Draw(t, label+"_beyond")
		case 5:
			return max(0, size-rapid.Int64Range(0, 8).Draw(t, label+"_tail"))
		default:
			return rapid.Int64Range(0, size+64).Draw(t, label+"_any")
		}
	}
	// diverged: a WriteAt away from the cursor happened and no absolute Seek since
	// (trigger window of writeat-cursor); afterRead: a Read advanced the cursor and no
	// Seek since (trigger window of read-then-write)
	diverged, afterRead := false, false
	absSeek := func() {
		tg := offset("heal")
		c.Ops = append(c.Ops, Op{Kind: "seek", Off: tg, Whence: io.SeekStart})
		cur, size = tg, max(size, tg)
		pendStart, pendLen = -1, 0
		diverged, afterRead = false, false
	}
	nops := rapid.IntRange(1, 20).Draw(t, "nops")
	for i := 0; i < nops; i++ {
		var op Op
		switch rapid.IntRange(0, 21).Draw(t, "opkind") {
		case 0, 1, 2, 3:
			op.Kind = "write"
		case 4, 5, 6, 7:
			op.Kind = "writeat"
		case 8, 9, 10, 11:
			op.Kind = "seek"
		case 12, 13:
			op.Kind = "read"
		case 14:
			op.Kind = "readfull"
		case 15, 16:
			op.Kind = "truncate"
		case 17:
			op.Kind = "size"
		case 18, 19:
			op.Kind = "sync"
		default:
			op.Kind = "getnode"
		}
		flushed := true
		switch op.Kind {
		case "write", "read", "readfull":
			if diverged && avoid("writeat-cursor") {
				absSeek()
			}
		}
		if op.Kind == "write" && afterRead && avoid("read-then-write") {
			absSeek()
		}
		switch op.Kind {
		case "write":
			op.Data = genBytes(t, "w")
			if pendStart < 0 {
				pendStart, pendLen = cur, 0
			}
			pendLen += int64(len(op.Data))
			cur += int64(len(op.Data))
			size = max(size, cur)
			flushed = false
		case "writeat":
			op.Data = genBytes(t, "wa")
			op.Off = offset("wa")
			if op.Off == cur && afterRead && avoid("read-then-write") {
				absSeek()
				op.Off = cur
			}
			if op.Off != cur {
				diverged = true
			}
			if !(pendStart >= 0 && (op.Off == cur || op.Off == pendStart)) {
				pendStart, pendLen = op.Off, 0
			}
			if op.Off == pendStart && op.Off != cur {
				pendLen = 0
			}
			pendLen += int64(len(op.Data))
			cur = op.Off + int64(len(op.Data))
			size = max(size, cur)
			flushed = false
		case "seek":
			op.Whence = rapid.SampledFrom([]int{0, 1, 0, 1, 0, 1, 2, 2, 0, 1, 2, 3, -1}).Draw(t, "whence")
			var tg int64
			switch rapid.IntRange(0, 11).Draw(t, "seekclass") {
			case 11:
				tg = -rapid.Int64Range(1, 3).Draw(t, "neg")
			default:
				tg = offset("sk")
			}
			if tg < 0 && avoid("seek-negative") {
				tg = 0
			}
			if op.Whence == io.SeekEnd && tg != size && avoid("seekend-sign") {
				op.Whence = io.SeekStart
			}
			if op.Whence == io.SeekCurrent && diverged && avoid("writeat-cursor") {
				op.Whence = io.SeekStart
			}
			switch op.Whence {
			case io.SeekCurrent:
				op.Off = tg - cur
			case io.SeekEnd:
				op.Off = tg - size
			default:
				op.Off = tg
			}
			if op.Whence >= 0 && op.Whence <= 2 && tg >= 0 {
				cur = tg
				size = max(size, cur)
				afterRead = false
				if op.Whence != io.SeekCurrent {
					diverged = false
				}
			}
		case "read", "readfull":
			op.N = rapid.SampledFrom([]int{8, 1, 16, 64, 3, 0, 128, 5000}).Draw(t, "rn")
			if rem := size - cur; rem > 0 && op.N > 0 {
				cur += min(int64(op.N), rem)
				afterRead = true
			}
		case "truncate":
			switch rapid.IntRange(0, 5).Draw(t, "tclass") {
			case 5:
				op.Off = size
			case 4:
				op.Off = 0
			case 3:
				op.Off = size + rapid.Int64Range(1, 64).Draw(t, "tgrow")
			default:
				op.Off = rapid.Int64Range(0, size).Draw(t, "tshrink")
			}
			size = op.Off
		case "size":
			flushed = false
		}
		if flushed {
			pendStart, pendLen = -1, 0
		}
		c.Ops = append(c.Ops, op)
	}
	c.Ops = append(c.Ops, Op{Kind: "getnode"})
	return c
}

// ---------------------------------------------------------------------------
// model set

type state struct {
	content []byte
	cur     int64
}

func (s state) key() string { return fmt.Sprintf("%d|%s", s.cur, s.content) }

func (s state) String() string { return fmt.Sprintf("{size %d, cursor %d}", len(s.content), s.cur) }

// writeInto returns content with b written at off (gap zero filled); content is not modified.
func writeInto(content []byte, off int64, b []byte) []byte {
	end := off + int64(len(b))
	n := int64(len(content))
	if len(b) == 0 {
		return content
	}
	out := make([]byte, max(n, end))
	copy(out, content)
	copy(out[off:], b)
	return out
}

func resize(content []byte, n int64) []byte {
	out := make([]byte, n)
	copy(out, content)
	return out
}

func dedupe(in []state) []state {
	seen := map[string]bool{}
	var out []state
	for _, s := range in {
		k := s.key()
		if !seen[k] {
			seen[k] = true
			out = append(out, s)
		}
	}
	return out
}

func describe(set []state) string {
	var parts []string
	for i, s := range set {
		if i == 4 {
			parts = append(parts, "...")
			break
		}
		parts = append(parts, s.String())
	}
	return strings.Join(parts, " ")
}

func sizeSplitterGen(n int) chunker.SplitterGen {
	return func(r io.Reader) chunker.Splitter { return chunker.NewSizeSplitter(r, int64(n)) }
}

// readErrOK applies the io.Reader contract to the error of a read that returned n == want.
func readErrOK(err error, bufLen int, n int, rem int64) string {
	switch {
	case err == nil:
		if bufLen > 0 && rem == 0 {
			return "(0,nil) where (0,EOF) is required"
		}
	case err == io.EOF:
		if int64(n) < rem {
			return fmt.Sprintf("EOF with %d bytes remaining", rem-int64(n))
		}
	default:
		return fmt.Sprintf("error %v", err)
	}
	return ""
}

// ---------------------------------------------------------------------------
// run

type runner struct {
	c       Case
	ctx     context.Context
	ds      ipld.DAGService
	dm      *mod.DagModifier
	set     []state
	classes map[string]bool
	nt      bool
	sh      *shadow // classification of failures only, see shadow_test.go
	// forced: known-finding key of a step that was deliberately not executed
	forced string
	// lastSeekErr: text of the error of the most recent rejected Seek (a Seek that must
	// fail may fail for another reason, e.g. in its implicit flush)
	lastSeekErr string
}

func run(c Case) kit.Result {
	ctx, cancel := context.WithCancel(context.Background())
	defer cancel()
	r := &runner{c: c, ctx: ctx, classes: map[string]bool{}}
	res := r.safeExec()
	if res.Err != nil {
		res.Known = r.classify()
		if r.forced == "" && strings.Contains(res.Err.Error()+r.lastSeekErr, "digest too large: identity digest") {
			// an operation or the read-back failed on an over-long identity CID
			res.Known = "identity-link-oversize"
		}
		return res
	}
	var cls []string
	for k := range r.classes {
		cls = append(cls, k)
	}
	sort.Strings(cls)
	res.Classes = cls
	res.NonTrivial = r.nt
	return res
}

func (r *runner) safeExec() (res kit.Result) {
	defer func() {
		if p := recover(); p != nil {
			res = kit.Fail("panic: %v\n%s", p, debug.Stack())
		}
	}()
	return r.exec()
}

// classify attributes a failure to a known finding, by signature:
//   - the modifier's current DAG has a node with inline data next to links
//     -> "append-to-pb-leaf";
//   - the modifier's current DAG contains a link with an identity CID above the digest
//     limit (cannot be fetched) -> "identity-link-oversize";
//   - otherwise the key of the trigger pattern the history met before failing, if any
//     (shadow_test.go).
func (r *runner) classify() (key string) {
	if r.forced != "" {
		return r.forced
	}
	if r.dm == nil {
		return ""
	}
	func() {
		defer func() { recover() }()
		nd, err := r.dm.GetNode()
		if err != nil {
			return
		}
		di, err := walkFile(r.ctx, r.ds, nd)
		if err != nil {
			if strings.Contains(err.Error(), "digest too large") {
				key = "identity-link-oversize"
			}
			return
		}
		if di.InternalData > 0 {
			key = "append-to-pb-leaf"
		}
	}()
	if key != "" || r.sh == nil {
		return key
	}
	return r.sh.known()
}

func (r *runner) exec() kit.Result {
	c := r.c
	ctx := r.ctx
	ds := newMemDAG()
	root, err := buildFile(ctx, ds, c.File)
	if err != nil {
		return kit.Fail("harness: building the file failed: %v", err)
	}
	initial := c.File.Data.Bytes()
	di, err := walkFile(ctx, ds, root)
	if err != nil {
		return kit.Fail("harness: walking the initial file failed: %v", err)
	}
	r.classes["layout:"+c.File.Layout] = true
	r.classes[fmt.Sprintf("initdepth:%d", min(di.Depth, 3))] = true
	dm, err := mod.NewDagModifier(ctx, root, ds, sizeSplitterGen(c.Chunk))
	if err != nil {
		return kit.Fail("NewDagModifier: %v", err)
	}
	r.dm, r.ds = dm, ds
	dm.MaxLinks = c.Width
	switch c.RawLeaves {
	case 1:
		dm.RawLeaves = true
	case 2:
		dm.RawLeaves = false
	}
	if dm.Prefix.MhType == mh.IDENTITY {
		r.classes["identity-root"] = true
		if c.Fallback {
			dm.Prefix.MhType = mh.SHA2_256
			dm.Prefix.MhLength = -1
		}
	}
	r.set = []state{{content: initial, cur: 0}}
	r.sh = newShadow(int64(len(initial)))
	// leafData: length of the inline data while the root still is a single dag-pb leaf
	// (trigger of the known finding append-to-pb-leaf: such a root grows), else -1
	leafData := int64(-1)
	if pn, ok := root.(*mdag.ProtoNode); ok && len(pn.Links()) == 0 {
		leafData = int64(len(initial))
	}

	// shadow of the modifier's pending write buffer, used only for the non-triviality rule
	pendStart, pendLen := int64(-1), int64(0)

	for i, op := range c.Ops {
		before := r.set
		var next []state
		var obs string // what the modifier did, for the message
		flushed := true
		switch op.Kind {
		case "write":
			n, err := dm.Write(op.Data)
			r.sh.step(op, n, err == nil, false)
			obs = fmt.Sprintf("n=%d err=%v", n, err)
			if err == nil && n == len(op.Data) {
				for _, s := range before {
					if s.cur > int64(len(s.content)) && len(op.Data) > 0 {
						r.nt = true
						r.classes["write-beyond-eof"] = true
					}
					next = append(next, state{writeInto(s.content, s.cur, op.Data), s.cur + int64(n)})
					if len(op.Data) == 0 && s.cur > int64(len(s.content)) {
						// zero-length write with the cursor beyond EOF: extension left open
						next = append(next, state{resize(s.content, s.cur), s.cur})
					}
				}
			}
			if pendStart < 0 {
				pendStart, pendLen = before[0].cur, 0
			}
			pendLen += int64(len(op.Data))
			flushed = false
		case "writeat":
			n, err := dm.WriteAt(op.Data, op.Off)
			r.sh.step(op, n, err == nil, false)
			obs = fmt.Sprintf("n=%d err=%v", n, err)
			if err == nil && n == len(op.Data) {
				for _, s := range before {
					contents := [][]byte{writeInto(s.content, op.Off, op.Data)}
					if len(op.Data) == 0 && op.Off > int64(len(s.content)) {
						// zero-length write beyond EOF: extension left open
						contents = append(contents, resize(s.content, op.Off))
					}
					if op.Off > int64(len(s.content)) && len(op.Data) > 0 {
						r.nt = true
						r.classes["write-beyond-eof"] = true
					}
					for _, ct := range contents {
						next = append(next, state{ct, s.cur}, state{ct, op.Off + int64(n)})
					}
				}
			}
			if pendStart >= 0 && op.Off >= pendStart && op.Off < pendStart+pendLen {
				r.nt = true
				r.classes["writeat-inside-pending"] = true
			}
			if pendStart >= 0 && op.Off == pendStart+pendLen {
				pendLen += int64(len(op.Data))
			} else {
				pendStart, pendLen = op.Off, int64(len(op.Data))
			}
			flushed = false
		case "seek":
			got, err := dm.Seek(op.Off, op.Whence)
			// signature of the known finding seek-negative: nil error and a negative offset
			neg := err == nil && got < 0
			r.sh.step(op, 0, err == nil, neg)
			obs = fmt.Sprintf("offset=%d err=%v", got, err)
			for _, s := range before {
				var tg int64
				valid := true
				switch op.Whence {
				case io.SeekStart:
					tg = op.Off
				case io.SeekCurrent:
					tg = s.cur + op.Off
				case io.SeekEnd:
					tg = int64(len(s.content)) + op.Off
				default:
					valid = false
				}
				if !valid || tg < 0 {
					if err != nil {
						next = append(next, s)
						r.classes["seek-rejected"] = true
						r.lastSeekErr = err.Error()
					}
					continue
				}
				if err != nil || got != tg {
					continue
				}
				next = append(next, state{s.content, tg})
				if tg > int64(len(s.content)) {
					next = append(next, state{resize(s.content, tg), tg})
					r.classes["seek-beyond-eof"] = true
				}
			}
		case "read", "readfull":
			if r.sh.hangRisk && kit.OpenFinding("C10", "stale-reader") {
				// Not executed while the finding is open: this Read can spin forever inside
				// the library (no way to recover in-process); the case counts as excluded.
				r.forced = "stale-reader"
				return kit.Fail("op %d %v not executed: cached reader over a root rewritten in place by a shrinking Truncate (known finding stale-reader; the call can hang)", i, op)
			}
			buf := make([]byte, op.N)
			var n int
			var err error
			if op.Kind == "read" {
				n, err = dm.Read(buf)
			} else {
				n, err = dm.CtxReadFull(ctx, buf)
			}
			r.sh.step(op, n, err == nil || err == io.EOF, false)
			obs = fmt.Sprintf("n=%d err=%v", n, err)
			for _, s := range before {
				rem := max(0, int64(len(s.content))-s.cur)
				want := int(min(int64(op.N), rem))
				if n != want {
					continue
				}
				if n > 0 && !bytes.Equal(buf[:n], s.content[s.cur:s.cur+int64(n)]) {
					continue
				}
				if readErrOK(err, op.N, n, rem) != "" {
					continue
				}
				next = append(next, state{s.content, s.cur + int64(n)})
			}
		case "truncate":
			err := dm.Truncate(op.Off)
			r.sh.step(op, 0, err == nil, false)
			obs = fmt.Sprintf("err=%v", err)
			if err == nil {
				for _, s := range before {
					if op.Off > 0 && op.Off < int64(len(s.content)) && int64(len(s.content)) > int64(c.Width)*int64(max(c.Chunk, c.File.Chunk)) {
						r.nt = true
						r.classes["truncate-inside-multilevel"] = true
					}
					next = append(next, state{resize(s.content, op.Off), s.cur})
				}
			}
		case "size":
			// the size probe below does the work
			next = before
			flushed = false
		case "sync":
			err := dm.Sync()
			r.sh.step(op, 0, err == nil, false)
			obs = fmt.Sprintf("err=%v", err)
			if err == nil {
				next = before
			}
		case "getnode":
			nd, err := dm.GetNode()
			r.sh.step(op, 0, err == nil, false)
			if err != nil {
				return kit.Fail("op %d GetNode: error %v; admissible states %s", i, err, describe(before))
			}
			rd, err := uio.NewDagReader(ctx, nd, ds)
			if err != nil {
				return kit.Fail("op %d GetNode: the returned node cannot be opened: %v", i, err)
			}
			all, err := io.ReadAll(rd)
			if err != nil {
				rd.Close()
				return kit.Fail("op %d GetNode: reading the returned DAG failed after %d bytes: %v; admissible states %s", i, len(all), err, describe(before))
			}
			obs = fmt.Sprintf("DAG reads back %d bytes (reader Size %d)", len(all), rd.Size())
			for _, s := range before {
				if bytes.Equal(all, s.content) && rd.Size() == uint64(len(s.content)) {
					next = append(next, s)
				}
			}
			if len(next) > 0 && len(all) > 0 {
				// reading back after seeks (uses the size bookkeeping of the new DAG)
				for _, p := range []int64{int64(len(all)) / 3, int64(len(all))/2 + 1, int64(len(all)) - 1} {
					if p < 0 || p >= int64(len(all)) {
						continue
					}
					one := make([]byte, 1)
					if _, err := rd.Seek(p, io.SeekStart); err != nil {
						rd.Close()
						return kit.Fail("op %d GetNode: Seek(%d) on the returned DAG: %v", i, p, err)
					}
					if n, err := rd.CtxReadFull(ctx, one); n != 1 || (err != nil && err != io.EOF) || one[0] != all[p] {
						rd.Close()
						return kit.Fail("op %d GetNode: byte at %d of the returned DAG after Seek is %#x (n=%d err=%v), sequential read gave %#x", i, p, one[0], n, err, all[p])
					}
				}
			}
			rd.Close()
			if len(next) == 0 {
				exp := before[0].content
				d := 0
				for d < len(all) && d < len(exp) && all[d] == exp[d] {
					d++
				}
				return kit.Fail("op %d GetNode: %s, first difference to the model content (%d bytes) at offset %d; admissible states %s", i, obs, len(exp), d, describe(before))
			}
		default:
			return kit.Fail("harness: unknown op %q", op.Kind)
		}
		next = dedupe(next)
		if len(next) == 0 {
			return kit.Fail("op %d %v: modifier returned %s; no admissible file state explains it; states before: %s", i, op, obs, describe(before))
		}
		// Size() has no side effects and is compared after every step
		sz, err := dm.Size()
		if err != nil {
			return kit.Fail("after op %d %v: Size() error %v", i, op, err)
		}
		var keep []state
		for _, s := range next {
			if int64(len(s.content)) == sz {
				keep = append(keep, s)
			}
		}
		if len(keep) == 0 {
			return kit.Fail("after op %d %v (%s): Size()=%d; admissible states %s", i, op, obs, sz, describe(next))
		}
		r.set = keep
		r.sh.size = sz
		if leafData >= 0 {
			if op.Kind == "truncate" && op.Off < leafData {
				leafData = op.Off
			}
			if sz > leafData {
				if leafData > 0 {
					r.sh.fire("append-to-pb-leaf")
					r.classes["known:append-to-pb-leaf"] = true
				}
				leafData = -1
			}
		}
		if flushed {
			pendStart, pendLen = -1, 0
		}
		if len(r.set) > 1 {
			r.classes["ambiguous-states"] = true
		}
	}
	return kit.Result{}
}

var spec = kit.Spec[Case]{
	Prop: "C10", Name: "main",
	Rule:  "initial file 0..2 KiB (4 KiB thorough) from balanced/trickle importers or a single pb/raw node (raw/pb leaves, v0/v1, inline-identity), modifier width 2..8 (= the width the file was built with), splitter 4..64, RawLeaves inherit/true/false; <=20 ops Write/WriteAt(off in [0,size+64], weighted to 0, EOF, cursor, inside the pending buffer, beyond EOF)/Seek(3 whences + bad whence)/Read/CtxReadFull/Truncate/Size/Sync/GetNode + final GetNode; Size() compared after every op; oracle = set of admissible (content,cursor) states; non-trivial = a WriteAt starting inside the data of the immediately preceding unflushed write(s), or a non-empty write starting beyond EOF, or Truncate to 0<s<size of a file longer than width x chunk bytes",
	Quick: 3000, Thorough: 8000,
	Gen: gen, Run: run, Journal: true, HangTimeout: 120 * time.Second,
}

func TestProp(t *testing.T) { kit.All(t, spec) }
