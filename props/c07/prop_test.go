// Package c07 checks property C07: UnixFS file import (balanced and trickle layout)
// round-trips with consistent size bookkeeping, metadata and layout shape, and is
// deterministic.
package c07

import (
	"bytes"
	"context"
	"fmt"
	"runtime/debug"
	"strings"
	"testing"

	"pgregory.net/rapid"
	"verif/kit"
)

func TestMain(m *testing.M) {
	debug.SetGCPercent(800) // many short-lived small DAGs; keeps GC out of the way
	kit.Main(m)
}

type Case struct {
	P    kit.ImportParams `json:"params"`
	Data kit.DataSpec     `json:"data"`
	// fragmentation of the reader used for the second (determinism) import
	Plan []int `json:"plan"`
	EOF  bool  `json:"eof"`
}

// ---------------------------------------------------------------------------
// generator

// chunker spec and the typical chunk size it produces
func genChunker(t *rapid.T) (string, int) {
	switch rapid.IntRange(0, 9).Draw(t, "chunkerclass") {
	case 0, 1, 2, 3:
		n := rapid.IntRange(1, 8).Draw(t, "tinychunk")
		return fmt.Sprintf("size-%d", n), n
	case 4, 5:
		n := rapid.IntRange(1, 64).Draw(t, "smallchunk")
		return fmt.Sprintf("size-%d", n), n
	case 6:
		n := rapid.OneOf(rapid.IntRange(65, 4096), rapid.IntRange(4096, 65536)).Draw(t, "chunk")
		return fmt.Sprintf("size-%d", n), n
	case 7, 8:
		mn := rapid.IntRange(16, 24).Draw(t, "rmin")
		av := mn + rapid.IntRange(1, 16).Draw(t, "ravg")
		mx := av + rapid.IntRange(1, 32).Draw(t, "rmax")
		return fmt.Sprintf("rabin-%d-%d-%d", mn, av, mx), (mn + mx) / 2
	default:
		if kit.Tier() == "thorough" && rapid.IntRange(0, 3).Draw(t, "bigchunker") == 0 {
			return rapid.SampledFrom([]string{"buzhash", "default", "rabin"}).Draw(t, "big"), 256 << 10
		}
		n := rapid.IntRange(48, 2000).Draw(t, "ravgonly")
		return fmt.Sprintf("rabin-%d", n), n
	}
}

func genWidth(t *rapid.T) int {
	return rapid.OneOf(
		rapid.IntRange(2, 4), rapid.IntRange(2, 4), rapid.IntRange(2, 8), rapid.IntRange(2, 8), rapid.IntRange(2, 8),
		rapid.IntRange(9, 64), rapid.SampledFrom([]int{174, 1024, 1023, 175}), rapid.IntRange(2, 1024),
	).Draw(t, "width")
}

func pow(b, e, cap int) int {
	r := 1
	for i := 0; i < e; i++ {
		r *= b
		if r > cap {
			return cap + 1
		}
	}
	return r
}

// genChunks draws the number of chunks, weighted to the places where the layouts change
// shape: powers of the width (balanced) and full trickle layers.
func genChunks(t *rapid.T, layout string, w, maxChunks int) int {
	var n int
	switch rapid.IntRange(0, 9).Draw(t, "countclass") {
	case 0:
		n = rapid.IntRange(0, 2).Draw(t, "few")
	case 1:
		n = kit.Around(w, 0, maxChunks).Draw(t, "atwidth")
	case 2, 3, 4:
		if layout == "balanced" {
			e := rapid.IntRange(2, 12).Draw(t, "exp")
			n = pow(w, e, maxChunks)
		} else {
			// root with `direct` leaves and k full sub-trees
			k := rapid.IntRange(1, 20).Draw(t, "subtrees")
			n = w
			for j := 0; j < k && n <= maxChunks; j++ {
				n += kit.TrickleCapacity(w, j/kit.TrickleRepeat+1)
			}
		}
		if n > maxChunks {
			n = rapid.IntRange(maxChunks/2, maxChunks).Draw(t, "capped")
		} else {
			n += rapid.IntRange(-1, 1).Draw(t, "pm")
		}
	case 5, 6:
		n = rapid.IntRange(0, maxChunks).Draw(t, "any")
	default:
		n = rapid.IntRange(0, 200).Draw(t, "modest")
	}
	if n < 0 {
		n = 0
	}
	if n > maxChunks {
		n = maxChunks
	}
	return n
}

func genPrefix(t *rapid.T) *kit.PrefixSpec {
	if rapid.IntRange(0, 3).Draw(t, "noprefix") == 0 {
		return nil
	}
	p := kit.Prefixes(false).Draw(t, "prefix")
	p.Codec = 0x70 // the importer builds dag-pb nodes; raw leaves switch the codec themselves
	if rapid.IntRange(0, 2).Draw(t, "mhlen-1") == 0 {
		p.MhLength = -1 // "default length", what kubo passes
	}
	return &p
}

func genMeta(t *rapid.T, p *kit.ImportParams) {
	if rapid.Bool().Draw(t, "hasmode") {
		p.Mode = uint32(rapid.OneOf(
			rapid.SampledFrom([]int{0o644, 0o755, 0o4755, 0o2755, 0o1777, 0o7777, 0o1, 0o4000, 0o1000}),
			rapid.IntRange(1, 0o7777),
		).Draw(t, "mode"))
	}
	if rapid.Bool().Draw(t, "hasmtime") {
		sec := rapid.OneOf(
			rapid.Int64Range(0, 2), rapid.Int64Range(-5, -1), rapid.Int64Range(1_600_000_000, 1_800_000_000),
			rapid.Int64Range(-(1<<34), 1<<34),
		).Draw(t, "sec")
		ns := rapid.OneOf(rapid.Just(0), rapid.Just(1), rapid.Just(999_999_999), rapid.IntRange(0, 999_999_999)).Draw(t, "nsec")
		p.Mtime = &kit.Timestamp{Sec: sec, Nsec: ns}
	}
}

func gen(t *rapid.T) Case {
	var c Case
	c.P.Layout = rapid.SampledFrom([]string{"balanced", "trickle"}).Draw(t, "layout")
	c.P.Width = genWidth(t)
	var typ int
	c.P.Chunker, typ = genChunker(t)
	c.P.RawLeaves = rapid.Bool().Draw(t, "rawleaves")
	c.P.Prefix = genPrefix(t)
	genMeta(t, &c.P)

	maxBytes := kit.Scale(256<<10, 4<<20)
	maxChunks := kit.Scale(1500, 12000)
	if maxChunks*typ > maxBytes {
		maxChunks = maxBytes / typ
	}
	nc := genChunks(t, c.P.Layout, c.P.Width, maxChunks)
	n := nc * typ
	if nc > 0 && typ > 1 && rapid.Bool().Draw(t, "partial") {
		n -= rapid.IntRange(1, typ-1).Draw(t, "short")
	}
	c.Data = kit.DataOfLen(t, n, "data")
	c.Plan = kit.ReadPlan().Draw(t, "plan")
	c.EOF = rapid.Bool().Draw(t, "eof")
	return c
}

// ---------------------------------------------------------------------------
// oracle

// trickleFill is the fill half of the documented trickle structure; kit's CheckTrickleShape
// is the bounding half (direct leaves first, sub-tree #j has depth bound j/4+1, a tree of
// depth bound d only holds sub-trees of depth bound < d).
//
// Package doc of importer/trickle: "non-leave nodes are first filled with data leaves, and
// then incorporate layers of subtrees ... the nodes first layer can only hold leaves (depth
// 1) but subsequent layers can grow deeper ... 4 subtrees of the same maximum depth before
// increasing it"; fillTrickleRec: "For each depth in [1, maxDepth) add depthRepeat
// sub-graphs of that depth"; trickleDepthInfo (Append, DagModifier) deduces the depth at
// which filling goes on from the number of links alone, i.e. takes every link before the
// last one as finished. A sub-tree is therefore only ever closed by its depth bound, never
// while it still has room: every sub-tree that is followed by a sibling is full, which for
// a tree inside the bounds means that it holds exactly the capacity of its depth bound
// (cap(1) = width, cap(d) = width + 4*(cap(1)+..+cap(d-1)) leaves). Only the sub-trees on
// the right-most path may be partial, and each of them obeys the same rule inside.
//
// The returned fullDepth is the largest depth bound of a sub-tree that was required to be
// full (0 if none), for the class histogram.
func trickleFill(t *kit.FileTree, width int) (fullDepth int, err error) {
	var rec func(n *kit.FileNode, path string) error
	rec = func(n *kit.FileNode, path string) error {
		last := len(n.Children) - 1
		for i := width; i <= last; i++ {
			c := n.Children[i]
			p := fmt.Sprintf("%s/%d", path, i)
			d := (i-width)/kit.TrickleRepeat + 1
			if i == last {
				return rec(c, p)
			}
			if got, want := c.Leaves(), kit.TrickleCapacity(width, d); c.IsLeaf() || got != want {
				return fmt.Errorf("shape: under-filled at %s: sub-tree #%d (depth bound %d, %d links) holds %d leaves but is followed by a sibling; a full sub-tree of that depth bound holds %d at width %d",
					p, i-width, d, len(c.Children), got, want, width)
			}
			fullDepth = max(fullDepth, d)
		}
		return nil
	}
	return fullDepth, rec(t.Root, "root")
}

const knownF3 = "balanced-rawleaf-single-chunk-metadata"

func run(c Case) kit.Result {
	p := c.P
	data := c.Data.Bytes()
	dserv := kit.NewDAG()
	root, err := kit.BuildFile(dserv, bytes.NewReader(data), p)
	if err != nil {
		return kit.Fail("import failed: %v", err)
	}
	// the importer stores the root; everything below is checked on the stored form
	stored, err := dserv.Get(context.Background(), root.Cid())
	if err != nil {
		return kit.Fail("root %s returned by the importer is not in the DAG service: %v", root.Cid(), err)
	}

	// (1) reads back as the input, reports its length
	got, st, err := kit.ReadFile(dserv, stored)
	if err != nil {
		return kit.Fail("reading the imported file: %v", err)
	}
	if !bytes.Equal(got, data) {
		return kit.Fail("file reads back as %d bytes that differ from the %d input bytes", len(got), len(data))
	}
	if st.Size != uint64(len(data)) {
		return kit.Fail("reader reports size %d for a %d-byte input", st.Size, len(data))
	}

	// (2) independent walk: content, size bookkeeping, leaf kinds, CID prefix
	tree, err := kit.WalkFile(dserv, stored)
	if err != nil {
		return kit.Fail("%v", err)
	}
	if !bytes.Equal(tree.Content, data) {
		return kit.Fail("leaves in link order hold %d bytes that differ from the %d input bytes", len(tree.Content), len(data))
	}
	if err := tree.CheckSizes(); err != nil {
		return kit.Fail("%v", err)
	}
	if err := tree.CheckPrefix(p.Prefix); err != nil {
		return kit.Fail("%v", err)
	}

	// (4) metadata (checked before the leaf/shape rules so that F3 keeps its own signature)
	wantMode, wantTime := p.FileMode(), p.Mtime.Time()
	if st.Mode != wantMode || !st.ModTime.Equal(wantTime) || st.ModTime.IsZero() != wantTime.IsZero() {
		res := kit.Fail("file carries mode %o mtime %v, requested mode %o mtime %v", st.Mode, st.ModTime, wantMode, wantTime)
		if p.Layout == "balanced" && p.RawLeaves && tree.Root.Raw && tree.Nodes == 1 && st.Mode == 0 && st.ModTime.IsZero() {
			res.Known = knownF3
		}
		return res
	}

	// (3) shape
	trickleFull := 0 // largest depth bound of a trickle sub-tree that had to be full
	switch p.Layout {
	case "balanced":
		if err := tree.CheckLeaves(p.RawLeaves, "", false); err != nil {
			return kit.Fail("%v", err)
		}
		if err := tree.CheckBalancedShape(p.Width); err != nil {
			return kit.Fail("%v", err)
		}
	case "trickle":
		if err := tree.CheckLeaves(p.RawLeaves, "Raw", true); err != nil {
			return kit.Fail("%v", err)
		}
		own := tree.CheckTrickleShape(p.Width)
		lib := kit.LibVerifyTrickle(dserv, stored, p)
		if own != nil || lib != nil {
			return kit.Fail("trickle shape: own checker: %v; VerifyTrickleDagStructure: %v", own, lib)
		}
		// inside the bounds (checked above), the fill rule
		var err error
		if trickleFull, err = trickleFill(tree, p.Width); err != nil {
			return kit.Fail("trickle %v", err)
		}
	}

	// (5) deterministic: same input (read in different fragments), same parameters, same root
	dserv2 := kit.NewDAG()
	root2, err := kit.BuildFile(dserv2, &kit.FragReader{Data: data, Plan: c.Plan, EOFWithData: c.EOF}, p)
	if err != nil {
		return kit.Fail("second import failed: %v", err)
	}
	if !root2.Cid().Equals(root.Cid()) {
		return kit.Fail("second import of the same input and parameters gives root %s, first gave %s", root2.Cid(), root.Cid())
	}

	h := tree.Root.Height()
	meta := p.Mode != 0 || p.Mtime != nil
	cls := []string{"layout:" + p.Layout, fmt.Sprintf("height:%d", min(h, 6)), "chunker:" + strings.SplitN(p.Chunker, "-", 2)[0]}
	if p.RawLeaves {
		cls = append(cls, "leaves:raw")
	} else {
		cls = append(cls, "leaves:pb")
	}
	if meta {
		cls = append(cls, "meta")
	}
	switch {
	case p.Prefix == nil:
		cls = append(cls, "cid:none")
	case p.Prefix.Version == 0:
		cls = append(cls, "cid:v0")
	default:
		cls = append(cls, "cid:v1")
	}
	switch {
	case p.Width <= 4:
		cls = append(cls, "width:2-4")
	case p.Width <= 8:
		cls = append(cls, "width:5-8")
	case p.Width <= 64:
		cls = append(cls, "width:9-64")
	default:
		cls = append(cls, "width:65+")
	}
	if p.Layout == "balanced" && h >= 1 {
		if tree.BalancedFull(p.Width) {
			cls = append(cls, "balanced:filled-left-to-right")
		} else {
			cls = append(cls, "balanced:NOT-filled-left-to-right")
		}
	}
	if h >= 2 {
		cls = append(cls, "deep:"+p.Layout)
	}
	if p.Layout == "trickle" && h >= 1 {
		cls = append(cls, fmt.Sprintf("trickle:full-subtree-depth:%d", min(trickleFull, 4)))
	}
	return kit.Result{NonTrivial: h >= 2 || meta, Classes: cls}
}

var spec = kit.Spec[Case]{
	Prop: "C07", Name: "main",
	Rule:  "layout balanced|trickle x width 2..1024 (weighted 2-8) x chunker (size-1..64 KiB weighted tiny, rabin-min-avg-max, rabin-N; buzhash/default/rabin in thorough) x raw|dag-pb leaves x CID builder (none, v0, v1 with sha2-256/sha2-512/blake2b-256/sha3-256, explicit or default digest length) x optional mode 1..07777 x optional mtime x input (const/periodic/random; chunk count weighted to width powers and full trickle layers; <= 256 KiB quick, <= 4 MiB thorough); trickle shape = depth/repeat bounds + every sub-tree followed by a sibling is full; non-trivial = at least two levels of internal nodes, or metadata requested",
	Quick: 700, Thorough: 1800,
	Gen: gen, Run: run,
}

func TestProp(t *testing.T) { kit.All(t, spec) }
