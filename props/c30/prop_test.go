package c30

import (
	"bytes"
	"context"
	"fmt"
	"math"
	"net/http"
	"net/http/httptest"
	"regexp"
	"strconv"
	"strings"
	"testing"
	"time"

	"github.com/ipfs/boxo/gateway"
	uio "github.com/ipfs/boxo/ipld/unixfs/io"
	"github.com/prometheus/client_golang/prometheus"
	"pgregory.net/rapid"
	"verif/kit"
)

func TestMain(m *testing.M) { kit.Main(m) }

// RSpec is one element of the byte-range-set.
type RSpec struct {
	Kind string `json:"kind"`          // "ab" first-last | "a" first- | "s" -suffixlen | "empty" (empty list element) | "raw" (invalid text)
	A    int64  `json:"a,omitempty"`   // first-byte-pos, or suffix-length for "s"
	B    int64  `json:"b,omitempty"`   // last-byte-pos for "ab"
	Raw  string `json:"raw,omitempty"` // literal text for "raw"
	Pre  string `json:"pre,omitempty"` // OWS before the element (never on the first element)
	Post string `json:"post,omitempty"`
}

type Case struct {
	File        kit.GwFileSpec `json:"file"`
	InDir       bool           `json:"in_dir"` // request /ipfs/<dir>/<name> instead of /ipfs/<file>
	Name        string         `json:"name"`
	Method      string         `json:"method"`
	HasRange    bool           `json:"has_range"`
	Specs       []RSpec        `json:"specs"`
	IfRange     string         `json:"if_range"`      // "" | match | weak | other | date-match | date-other
	IfNoneMatch string         `json:"if_none_match"` // "" | match | weak | star | list | other
}

func (c Case) rangeHeader() string {
	var sb strings.Builder
	sb.WriteString("bytes=")
	for i, s := range c.Specs {
		if i > 0 {
			sb.WriteString(",")
			sb.WriteString(s.Pre)
		}
		switch s.Kind {
		case "ab":
			fmt.Fprintf(&sb, "%d-%d", s.A, s.B)
		case "a":
			fmt.Fprintf(&sb, "%d-", s.A)
		case "s":
			fmt.Fprintf(&sb, "-%d", s.A)
		case "empty":
		case "raw":
			sb.WriteString(s.Raw)
		}
		if i < len(c.Specs)-1 {
			sb.WriteString(s.Post)
		}
	}
	return sb.String()
}

// ---------------------------------------------------------------------------
// generator

var ows = []string{"", "", "", " ", "\t", "  "}

var invalidElems = []string{"5-2", "a-b", "-", "--1", "1-2-3", "0x1-5", "3", " ", "-a", "1-a"}

func genOffset(t *rapid.T, f kit.GwFileSpec, label string) int64 {
	size := int64(f.Size)
	switch rapid.IntRange(0, 9).Draw(t, label+"_class") {
	case 0:
		return 0
	case 1:
		return clamp0(size - 1 + int64(rapid.IntRange(-1, 2).Draw(t, label+"_d")))
	case 2:
		// around a chunk boundary
		k := int64(rapid.IntRange(0, f.NumChunks()+1).Draw(t, label+"_k"))
		return clamp0(k*int64(f.Chunk) + int64(rapid.IntRange(-1, 1).Draw(t, label+"_d")))
	case 3:
		return rapid.SampledFrom([]int64{1 << 31, 1 << 32, 1 << 40, math.MaxInt64 - 1, math.MaxInt64}).Draw(t, label+"_huge")
	case 4:
		return size + int64(rapid.IntRange(0, 300).Draw(t, label+"_beyond"))
	default:
		return rapid.Int64Range(0, size+2).Draw(t, label+"_any")
	}
}

func clamp0(v int64) int64 {
	if v < 0 {
		return 0
	}
	return v
}

func genSpec(t *rapid.T, f kit.GwFileSpec, allowInvalid bool) RSpec {
	s := RSpec{}
	k := rapid.IntRange(0, 11).Draw(t, "speckind")
	switch {
	case k <= 4:
		s.Kind = "ab"
		s.A = genOffset(t, f, "a")
		if rapid.IntRange(0, 2).Draw(t, "b_rel") == 0 {
			s.B = genOffset(t, f, "b")
		} else {
			l := int64(rapid.IntRange(0, 2*f.Chunk+2).Draw(t, "len"))
			if s.A > math.MaxInt64-l {
				s.B = math.MaxInt64
			} else {
				s.B = s.A + l
			}
		}
		if s.B < s.A {
			s.A, s.B = s.B, s.A
		}
	case k <= 6:
		s.Kind = "a"
		s.A = genOffset(t, f, "a")
	case k <= 9:
		s.Kind = "s"
		s.A = genOffset(t, f, "n")
	case k == 10:
		s.Kind = "empty"
	default:
		if allowInvalid {
			s.Kind = "raw"
			s.Raw = rapid.SampledFrom(invalidElems).Draw(t, "raw")
		} else {
			s.Kind = "a"
			s.A = 0
		}
	}
	s.Pre = rapid.SampledFrom(ows).Draw(t, "pre")
	s.Post = rapid.SampledFrom(ows).Draw(t, "post")
	return s
}

func gen(t *rapid.T) Case {
	c := Case{}
	c.File = kit.GenGwFile(t, kit.Scale(64<<10, 2<<20))
	c.InDir = rapid.IntRange(0, 2).Draw(t, "in_dir") == 0
	c.Name = rapid.SampledFrom([]string{"f", "file.txt", "a.bin", "data", "x.html"}).Draw(t, "name")
	c.Method = rapid.SampledFrom([]string{"GET", "GET", "GET", "GET", "HEAD"}).Draw(t, "method")
	c.HasRange = rapid.IntRange(0, 14).Draw(t, "has_range") != 0
	if c.HasRange {
		n := rapid.SampledFrom([]int{1, 1, 1, 1, 2, 2, 3, 4}).Draw(t, "nspecs")
		allowInvalid := rapid.IntRange(0, 7).Draw(t, "allow_invalid") == 0
		for i := 0; i < n; i++ {
			c.Specs = append(c.Specs, genSpec(t, c.File, allowInvalid))
		}
	}
	c.IfRange = rapid.SampledFrom([]string{"", "", "", "", "", "", "match", "match", "weak", "other", "date-match", "date-other"}).Draw(t, "if_range")
	c.IfNoneMatch = rapid.SampledFrom([]string{"", "", "", "", "", "", "", "", "", "", "", "", "", "", "", "", "", "", "", "", "other", "other", "other", "match", "weak", "star", "list"}).Draw(t, "inm")
	return c
}

// ---------------------------------------------------------------------------
// reference semantics (RFC 7233 section 2.1)

type iv struct{ a, b int64 } // inclusive

// satisfiable returns the requested ranges clipped to a representation of the given size, in
// header order; valid=false if the byte-range-set is syntactically invalid or has no element.
func satisfiable(specs []RSpec, size int64) (set []iv, valid bool) {
	n := 0
	for _, s := range specs {
		switch s.Kind {
		case "ab":
			n++
			if s.B < s.A {
				return nil, false
			}
			if s.A < size {
				b := s.B
				if b > size-1 {
					b = size - 1
				}
				set = append(set, iv{s.A, b})
			}
		case "a":
			n++
			if s.A < size {
				set = append(set, iv{s.A, size - 1})
			}
		case "s":
			n++
			if s.A > 0 && size > 0 {
				a := size - s.A
				if s.A > size {
					a = 0
				}
				set = append(set, iv{a, size - 1})
			}
		case "empty":
		default:
			return nil, false
		}
	}
	if n == 0 {
		return nil, false
	}
	return set, true
}

// preseekOffsets mirrors where the pre-positioned content reader ends up for the FIRST listed
// range as seen by a length-less parse (used only to recognise the known finding precisely).
// A zero suffix ("-0") is read as "from offset 0" by the pinned parser and skipped by a parser
// that treats it as unsatisfiable; both readings are returned.
func preseekOffsets(specs []RSpec, size int64) []int64 {
	var out []int64
	for _, s := range specs {
		switch s.Kind {
		case "ab", "a":
			return append(out, s.A)
		case "s":
			if s.A == 0 {
				out = append(out, 0)
				continue
			}
			if s.A > size {
				return out
			}
			return append(out, size-s.A)
		case "empty":
			continue
		default:
			if strings.TrimSpace(s.Raw) == "" {
				continue // whitespace-only element: both gateway parsers skip it
			}
			return out
		}
	}
	return out
}

var crRe = regexp.MustCompile(`^bytes (\d+)-(\d+)/(\d+)$`)

const otherDate = "Sat, 01 Jan 2000 00:00:00 GMT"

// ---------------------------------------------------------------------------

func run(c Case) kit.Result {
	ctx, cancel := context.WithCancel(context.Background())
	defer cancel()
	st := kit.NewGwStore()
	root, err := c.File.Build(ctx, st.DAG)
	if err != nil {
		return kit.Fail("harness: import failed: %v", err)
	}
	data := c.File.Data()
	size := int64(len(data))
	fileCid := root.Cid()
	urlPath := "/ipfs/" + fileCid.String()
	if c.InDir {
		dir, err := uio.NewBasicDirectory(st.DAG)
		if err != nil {
			return kit.Fail("harness: %v", err)
		}
		if err := dir.AddChild(ctx, c.Name, root); err != nil {
			return kit.Fail("harness: %v", err)
		}
		dn, err := dir.GetNode()
		if err != nil {
			return kit.Fail("harness: %v", err)
		}
		if err := st.DAG.Add(ctx, dn); err != nil {
			return kit.Fail("harness: %v", err)
		}
		urlPath = "/ipfs/" + dn.Cid().String() + "/" + c.Name
	}
	backend, err := gateway.NewBlocksBackend(st.BSvc)
	if err != nil {
		return kit.Fail("harness: backend: %v", err)
	}
	h := gateway.NewHandler(gateway.Config{DeserializedResponses: true, MetricsRegistry: prometheus.NewRegistry()}, backend)

	etag := `"` + fileCid.String() + `"`
	req := httptest.NewRequest(c.Method, "http://127.0.0.1:8080"+urlPath, nil)
	if c.HasRange {
		req.Header.Set("Range", c.rangeHeader())
	}
	switch c.IfRange {
	case "match":
		req.Header.Set("If-Range", etag)
	case "weak":
		req.Header.Set("If-Range", "W/"+etag)
	case "other":
		req.Header.Set("If-Range", `"bafkqaaa"`)
	case "date-match":
		if c.File.Mtime != 0 {
			req.Header.Set("If-Range", time.Unix(c.File.Mtime, 0).UTC().Format(http.TimeFormat))
		} else {
			req.Header.Set("If-Range", etag)
		}
	case "date-other":
		req.Header.Set("If-Range", otherDate)
	}
	inmMatches := false
	switch c.IfNoneMatch {
	case "match":
		req.Header.Set("If-None-Match", etag)
		inmMatches = true
	case "weak":
		req.Header.Set("If-None-Match", "W/"+etag)
		inmMatches = true
	case "star":
		req.Header.Set("If-None-Match", "*")
		inmMatches = true
	case "list":
		req.Header.Set("If-None-Match", `"abc", `+etag)
		inmMatches = true
	case "other":
		req.Header.Set("If-None-Match", `"bafkqaaa"`)
	}
	rec := httptest.NewRecorder()
	h.ServeHTTP(rec, req)
	res := rec.Result()
	body := rec.Body.Bytes()
	status := res.StatusCode
	cr := res.Header.Get("Content-Range")
	clHdr := res.Header.Get("Content-Length")

	// ---- expectations
	set, valid := satisfiable(c.Specs, size)
	rangeHonoured := c.HasRange // whether the Range header may be applied
	mustIgnore := false         // If-Range validator does not match: Range MUST be ignored (RFC 7233 3.2)
	if c.HasRange {
		switch c.IfRange {
		case "weak", "other", "date-other":
			mustIgnore = true
			rangeHonoured = false
		}
	}
	isGet := c.Method == "GET"
	classes := []string{"m:" + c.Method, fmt.Sprintf("status:%d", status)}
	if c.HasRange {
		classes = append(classes, fmt.Sprintf("specs:%d", len(c.Specs)))
		if !valid {
			classes = append(classes, "range:invalid")
		} else if len(set) == 0 {
			classes = append(classes, "range:unsatisfiable")
		} else {
			classes = append(classes, "range:satisfiable")
		}
		if c.IfRange != "" {
			classes = append(classes, "ifrange:"+c.IfRange)
		}
	} else {
		classes = append(classes, "range:none")
	}
	if c.File.NumChunks() > 1 {
		classes = append(classes, "file:multiblock")
	} else {
		classes = append(classes, "file:singleblock")
	}

	fail := func(format string, a ...any) kit.Result {
		msg := fmt.Sprintf(format, a...)
		return kit.Fail("%s %s Range=%q If-Range=%s INM=%s size=%d -> status=%d Content-Range=%q Content-Length=%q len(body)=%d: %s",
			c.Method, urlPath, hdr(c), c.IfRange, c.IfNoneMatch, size, status, cr, clHdr, len(body), msg)
	}
	known := func(key string, r kit.Result) kit.Result {
		r.Known = key
		return r
	}
	checkCL := func(want int64) string {
		if clHdr == "" {
			return "missing Content-Length"
		}
		v, err := strconv.ParseInt(clHdr, 10, 64)
		if err != nil || v != want {
			return fmt.Sprintf("Content-Length %q, want %d", clHdr, want)
		}
		return ""
	}
	// position the known pre-seek finding can be recognised by
	// matchesPreseek reports whether body is what a reader pre-positioned at the first listed
	// range (and not at the announced start) delivers when asked for sendLen bytes.
	matchesPreseek := func(announced, sendLen int64) (int64, bool) {
		for _, off := range preseekOffsets(c.Specs, size) {
			if off == announced {
				continue
			}
			got := []byte{}
			if off < size {
				end := off + sendLen
				if end > size || end < off {
					end = size
				}
				got = data[off:end]
			}
			if bytes.Equal(body, got) {
				return off, true
			}
		}
		return 0, false
	}

	switch {
	case status == http.StatusNotModified:
		if !inmMatches {
			return fail("304 without a matching If-None-Match")
		}
		if len(body) != 0 {
			return fail("304 with a body")
		}
		return kit.Result{Classes: append(classes, "inm:304")}

	case status == http.StatusOK:
		if cr != "" {
			return fail("200 with a Content-Range")
		}
		if m := checkCL(size); m != "" {
			return fail("%s", m)
		}
		if isGet {
			if !bytes.Equal(body, data) {
				// known finding: headers say "whole file" but the reader had been pre-positioned at the
				// start of the first listed range.
				if preOff, ok := matchesPreseek(0, size); c.HasRange && ok {
					return known("preseek-mismatch", fail("200 announces the whole file but the body starts at offset %d (pre-seek of the first listed range)", preOff))
				}
				return fail("200 body differs from the file (first difference at %d)", firstDiff(body, data))
			}
		} else if len(body) != 0 {
			return fail("HEAD with a body")
		}

	case status == http.StatusPartialContent:
		if cr == fmt.Sprintf("bytes %d-%d/%d", size, size-1, size) && clHdr == "0" && len(body) == 0 && hasZeroSuffix(c.Specs, size) {
			// known finding: suffix range of effective length zero (bytes=-0, or any suffix on an empty
			// file) answered with 206 and an inverted Content-Range instead of 416/200
			return known("suffix-zero-length", fail("206 with inverted Content-Range for a zero-length suffix range"))
		}
		m := crRe.FindStringSubmatch(cr)
		if m == nil {
			return fail("206 with unparsable Content-Range")
		}
		a, _ := strconv.ParseInt(m[1], 10, 64)
		b, _ := strconv.ParseInt(m[2], 10, 64)
		total, _ := strconv.ParseInt(m[3], 10, 64)
		if !c.HasRange {
			return fail("206 without a Range request")
		}
		if mustIgnore {
			return fail("206 although the If-Range validator does not match (Range must be ignored)")
		}
		if total != size {
			return fail("Content-Range complete-length %d, file has %d", total, size)
		}
		if !(a <= b && b < size) {
			return fail("invalid Content-Range (need first <= last < complete-length)")
		}
		if mm := checkCL(b - a + 1); mm != "" {
			return fail("%s", mm)
		}
		if valid {
			found := false
			for _, r := range set {
				if r.a == a && r.b == b {
					found = true
				}
			}
			if !found {
				return fail("Content-Range %d-%d is none of the requested ranges clipped to the file %v", a, b, set)
			}
		}
		if isGet {
			want := data[a : b+1]
			if !bytes.Equal(body, want) {
				if preOff, ok := matchesPreseek(a, b-a+1); ok {
					return known("preseek-mismatch", fail("206 announces %d-%d but the body is taken from offset %d (pre-seek of the first listed range)", a, b, preOff))
				}
				return fail("206 body is not file[%d:%d] (first difference at %d)", a, b+1, firstDiff(body, want))
			}
		} else if len(body) != 0 {
			return fail("HEAD with a body")
		}

	case status == http.StatusRequestedRangeNotSatisfiable:
		if !rangeHonoured {
			return fail("416 although no Range applies")
		}
		if valid && len(set) > 0 {
			return fail("416 although %v overlaps the file", set)
		}
		if valid && cr != fmt.Sprintf("bytes */%d", size) {
			return fail("416 Content-Range %q, want \"bytes */%d\"", cr, size)
		}

	default:
		if c.HasRange && !valid && status >= 400 && status < 500 {
			// syntactically invalid Range: rejecting is allowed
			return kit.Result{Classes: append(classes, "invalid:rejected")}
		}
		// known finding: suffix longer than the file is rejected by the pre-seek
		if isGet && c.HasRange && status == http.StatusInternalServerError {
			// (the first range that the length-less parser acts on: the first listed one, or the first
			// after zero suffixes if those are skipped as unsatisfiable)
			s, ok := firstSpec(c.Specs, false)
			s2, ok2 := firstSpec(c.Specs, true)
			if (ok && s.Kind == "s" && s.A > size) || (ok2 && s2.Kind == "s" && s2.A > size) {
				return known("suffix-longer-than-file", fail("suffix range longer than the file answered with 500"))
			}
		}
		return fail("unexpected status")
	}

	nt := false
	if c.HasRange && valid && len(set) > 0 && !mustIgnore {
		if len(c.Specs) >= 2 {
			nt = true
		}
		for _, r := range set {
			if r.a == 0 || r.a == size-1 || r.b == size-1 || (c.File.Chunk > 0 && (r.a%int64(c.File.Chunk) == 0 || (r.b+1)%int64(c.File.Chunk) == 0)) {
				nt = true
			}
		}
	}
	return kit.Result{NonTrivial: nt, Classes: classes}
}

func hdr(c Case) string {
	if !c.HasRange {
		return ""
	}
	return c.rangeHeader()
}

func firstSpec(specs []RSpec, skipZeroSuffix bool) (RSpec, bool) {
	for _, s := range specs {
		if skipZeroSuffix && s.Kind == "s" && s.A == 0 {
			continue
		}
		if s.Kind != "empty" && !(s.Kind == "raw" && strings.TrimSpace(s.Raw) == "") {
			return s, true
		}
	}
	return RSpec{}, false
}

func hasZeroSuffix(specs []RSpec, size int64) bool {
	for _, s := range specs {
		if s.Kind == "s" && (s.A == 0 || size == 0) {
			return true
		}
	}
	return false
}

func firstDiff(a, b []byte) int {
	n := len(a)
	if len(b) < n {
		n = len(b)
	}
	for i := 0; i < n; i++ {
		if a[i] != b[i] {
			return i
		}
	}
	return n
}

var spec = kit.Spec[Case]{
	Prop: "C30", Name: "main",
	Rule:  "UnixFS file (0..64 KiB quick / 2 MiB thorough; balanced or trickle, raw or protobuf leaves, chunk 1..256 KiB, width 2..174, CIDv0/v1, optional mtime) imported with the real importer and served by gateway.NewHandler over NewBlocksBackend (in-process, httptest recorder), addressed directly or through a directory; GET/HEAD with a Range header rendered from a grammar (1-4 elements: first-last, first-, -suffix, empty elements, OWS; offsets 0, size-1, size, size+1, chunk boundaries, beyond, huge), optional If-Range (matching/weak/other ETag, date) and If-None-Match; oracle = RFC 7233 consistency + exact slice; non-trivial = a satisfiable Range is in force and it has >=2 elements or a clipped range touching offset 0, size-1 or a chunk boundary",
	Quick: 1200, Thorough: 9000,
	Gen: gen, Run: run,
	Sample: func(c Case) any {
		return map[string]any{"file": c.File, "in_dir": c.InDir, "method": c.Method, "range": hdr(c), "if_range": c.IfRange, "if_none_match": c.IfNoneMatch}
	},
}

func TestProp(t *testing.T) { kit.All(t, spec) }
